import NodisVerif.Proofs.C11Examples
import NodisVerif.Proofs.C12Examples
/-
  C11 — Close then Open restores exactly the pre-close keyspace on either backend.

  Reference notion: `Spec.Persist.logical s now` — the (name, value, deadline) triples of the live
  keys, cold values read through the backend (Spec/Persist.lean).  Model: `Store.close`,
  `Store.reopen` (= `newStore` on the backend left behind), both backends (`s.pebble`).

  `StoreInv s t` is the storage invariant (Proofs/C11Inv.lean): index and backend sorted; what a
  record's `stored` says is in the backend is there under that name; every backend entry is the
  `stored` entry of the indexed record of its name (no stale entries); a live cold record sits in
  the backend under its current deadline; a live hot record not marked modified is in the backend
  under its current deadline with the same value (Pebble: up to decode∘encode; in-memory backend:
  same object); all values well-formed with representable lengths; in-memory backend: records have
  distinct non-zero object ids, entries share ids only with the record of their name.
  `t` is a time horizon: records already expired at `t` are dead for good; every later operation
  runs at `now ≥ t` (time does not run backwards), and `StoreInv s t → t ≤ t' → StoreInv s t'`.

  The nil string.  `Val.strNil` (a Go `*str.String` whose `V` is the nil slice; GET renders it as
  null) comes back from Pebble as the empty string.  Since the repair of `newStr` no API command
  creates one (a fresh string key starts with the empty non-nil value), but a state holding one
  is still expressible and satisfies the invariant, so the theorems about an arbitrary state keep
  the hypothesis `NilFree s` (no hot value is the nil string, or the backend is in-memory);
  `close_reopen_restores_reachable` discharges it for every state reached from the empty store
  through the covered commands, and `nil_string_breaks_roundtrip` shows it is needed.
-/
namespace NodisVerif.C11
open NodisVerif.Store NodisVerif.Spec.Persist NodisVerif.Proofs.C11

/-- the invariant holds of the empty store, on both backends -/
theorem empty_inv (pebble : Bool) (t : Int) : StoreInv (empty pebble) t :=
  Proofs.C11.empty_inv pebble t

/-- the horizon of the invariant may always be advanced -/
theorem inv_mono {s : MState} {t t' : Int} (h : StoreInv s t) (ht : t ≤ t') : StoreInv s t' :=
  StoreInvX.mono h ht

/-- Close then Open restores exactly the logical keyspace: same live names, each with the same
    value and deadline, in the same order; with `now' > now`: keys expiring in between disappear,
    nothing else changes.  Any state, any values, any name lengths, either backend. -/
theorem close_reopen_restores {s : MState} {t now now' : Int} (h : StoreInv s t)
    (ht : t ≤ now) (ht' : now ≤ now') (hf : s.failSet = 0) (hnil : NilFree s) :
    logical (reopen (close s now)) now' = logical s now' := by
  have c := cycle_spec h ht hf hnil
  exact logical_ext h.idxSorted c.inv.idxSorted (fun k => c.look now' ht' k)

/-- at full strength on the in-memory backend -/
theorem close_reopen_restores_memory {s : MState} {t now now' : Int} (h : StoreInv s t)
    (hp : s.pebble = false) (ht : t ≤ now) (ht' : now ≤ now') (hf : s.failSet = 0) :
    logical (reopen (close s now)) now' = logical s now' :=
  close_reopen_restores h ht ht' hf (fun _ _ _ c => by rw [hp] at c; cases c)

/-- every state reached from the empty store (either backend) by any sequence of covered commands,
    DEL, RENAME, KEYS and eviction passes: Close/Open restores its logical keyspace — no nil-string
    hypothesis, on Pebble too -/
theorem close_reopen_restores_reachable (pebble : Bool) (steps : List Step) {now now' : Int}
    (hto : TimesOK 0 steps) (hok : ∀ st ∈ steps, st.OK pebble)
    (ht : endTime 0 steps ≤ now) (ht' : now ≤ now')
    (hf : (runSteps steps (empty pebble)).1.failSet = 0) :
    StoreInv (runSteps steps (empty pebble)).1 (endTime 0 steps) ∧
    logical (reopen (close (runSteps steps (empty pebble)).1 now)) now' =
      logical (runSteps steps (empty pebble)).1 now' := by
  obtain ⟨hi, hl, hp⟩ := run_inv_lnil steps 0 (empty pebble) (Proofs.C11.empty_inv pebble 0)
    (empty_lnil pebble 0) hto hok
  have c := cycle_spec_l hi ht hf (fun hpb k v e hlk => hl hpb now ht k v e hlk)
  exact ⟨hi, logical_ext hi.idxSorted c.inv.idxSorted (fun k => c.look now' ht' k)⟩

/-- the hypothesis `NilFree` is needed: a Pebble store holding a nil string (not reachable through
    the API) satisfies the invariant, but Close/Open turns the nil string (GET → null) into the
    empty string -/
theorem nil_string_breaks_roundtrip :
    StoreInv nilState 0 ∧ nilState.failSet = 0 ∧
    logical nilState 0 = [([107], .strNil, 0)] ∧
    logical (reopen (close nilState 0)) 0 = [([107], .str [], 0)] :=
  ⟨nilState_inv 0, rfl, nilState_logical, nilState_cycle⟩

/-- the reopened store satisfies the invariant again -/
theorem reopen_preserves_inv {s : MState} {t now : Int} (h : StoreInv s t) (ht : t ≤ now) :
    StoreInv (reopen (close s now)) now :=
  inv_reopen (close_spec h ht).1.inv

/-- the backend never holds two entries for one name, so `newStore` never has to choose: its
    list of shadowed entries is empty and it deletes nothing -/
theorem no_stale_shadowing {s : MState} {t : Int} (h : StoreInv s t) :
    (s.disk.map (·.2.name)).Nodup ∧ (s.disk.foldl reopenStep ([], [])).2 = [] ∧ (reopen s).disk = s.disk :=
  ⟨disk_names_nodup h, (reopen_facts h).noShadow, (reopen_facts h).disk⟩

/-- the same after a close: an older persisted version never shadows a newer one -/
theorem no_stale_shadowing_after_close {s : MState} {t now : Int} (h : StoreInv s t) (ht : t ≤ now) :
    ((close s now).disk.map (·.2.name)).Nodup ∧ (reopen (close s now)).disk = (close s now).disk :=
  ⟨disk_names_nodup (close_spec h ht).1.inv, (reopen_facts (close_spec h ht).1.inv).disk⟩

/-- a key that does not exist at the close (deleted, renamed away, emptied, expired, overwritten by
    `delKey`+create ...) does not exist after the open, at any later time -/
theorem absent_stays_absent {s : MState} {t now now' : Int} (h : StoreInv s t) (ht : t ≤ now)
    (ht' : now ≤ now') (hf : s.failSet = 0) (hnil : NilFree s) (k : Bytes)
    (habs : lookup s now k = none) : lookup (reopen (close s now)) now' k = none := by
  rw [(cycle_spec h ht hf hnil).look now' ht' k]
  exact lookup_none_mono ht' habs

/-- `delKey` unlinks the key together with its backend entry: it is absent at once and after any
    later close/open (as long as it is not created again) -/
theorem deleted_never_reappears {s : MState} {t now now' : Int} (h : StoreInv s t) (ht : t ≤ now)
    (ht' : now ≤ now') (hf : s.failSet = 0) (hnil : NilFree s) (k : Bytes) :
    StoreInv (delKey s k) t ∧ lookup (delKey s k) now k = none ∧
    lookup (reopen (close (delKey s k) now)) now' k = none := by
  have hi : StoreInv (delKey s k) t := inv_delKey h k (fun _ _ => by simp)
  have hl : lookup (delKey s k) now k = none := by rw [lookup_delKey h ht]; simp
  have hf' : (delKey s k).failSet = 0 := by
    simp only [delKey]
    cases hm : AList.get? s.index k with
    | none => exact hf
    | some m => simp only [unpersist]; cases m.stored <;> exact hf
  have hnil' : NilFree (delKey s k) := by
    intro k' m hm
    have hp : (delKey s k).pebble = s.pebble := by
      simp only [delKey]
      cases hm0 : AList.get? s.index k with
      | none => rfl
      | some m0 => simp only [unpersist]; cases m0.stored <;> rfl
    have hm' : AList.get? s.index k' = some m := by
      simp only [delKey] at hm
      have hi' : ∀ s0 : MState, s0.index = s.index →
          AList.get? (AList.erase s0.index k) k' = some m → AList.get? s.index k' = some m := by
        intro s0 h0 hg
        rw [h0, Proofs.AListLemmas2.get?_erase _ h.idxSorted] at hg
        split at hg
        · cases hg
        · exact hg
      cases hm0 : AList.get? s.index k with
      | none => rw [hm0] at hm; exact hi' s rfl hm
      | some m0 =>
        rw [hm0] at hm
        exact hi' (unpersist s k m0) (by simp only [unpersist]; cases m0.stored <;> rfl) hm
    rw [hp]; exact hnil k' m hm'
  exact ⟨hi, hl, absent_stays_absent hi ht ht' hf' hnil' k hl⟩

/-- a second close/open cycle changes nothing -/
theorem reopen_idempotent {s : MState} {t now : Int} (h : StoreInv s t) (ht : t ≤ now)
    (hf : s.failSet = 0) (hnil : NilFree s) :
    logical (reopen (close (reopen (close s now)) now)) now = logical s now := by
  have c := cycle_spec h ht hf hnil
  rw [close_reopen_restores c.inv (Int.le_refl _) (Int.le_refl _) c.fs0 c.nil]
  exact close_reopen_restores h ht (Int.le_refl _) hf hnil

/-- any number of close/open cycles is idempotent -/
theorem cycles_idempotent {s : MState} {t now now' : Int} (n : Nat) (h : StoreInv s t) (ht : t ≤ now)
    (ht' : now ≤ now') (hf : s.failSet = 0) (hnil : NilFree s) :
    logical (cycles now n s) now' = logical s now' := by
  obtain ⟨a, b⟩ := cycles_spec n h ht hf hnil
  exact logical_ext h.idxSorted b (fun k => a now' ht' k)

/-- a value written to the backend comes back unchanged when it is loaded again (Pebble: C14's
    codec round trip; in-memory backend: the same object) -/
theorem lazy_load_roundtrip (s : MState) (k : Bytes) (m : Meta) (v : Val) (hv : m.value = some v)
    (hg : Good v) (hn : s.pebble = true → v ≠ .strNil) (hf : s.failSet = 0) :
    (diskSet s k m).2 = true ∧
    loadValue (diskSet s k m).1 k { m with value := none } = some (v, if s.pebble then 0 else m.oid) := by
  have hf' : ¬ s.failSet > 0 := by omega
  simp only [diskSet, hf', if_false, hv, loadValue, diskGet, Proofs.AListLemmas2.get?_set_same, true_and]
  cases hp : s.pebble with
  | true => simp [good_roundtrip v hg (hn hp)]
  | false => simp

/-- whatever a pass did to a key in between (persisted, evicted, left alone), reading it yields
    the value and deadline it had, hot again -/
theorem lazy_load_after_gc {s : MState} {t now : Int} (h : StoreInv s t) (ht : t ≤ now)
    (hnil : NilFree s) (k : Bytes) (v : Val) (e : Int) (hl : lookup s now k = some (v, e)) :
    (readKey (gc s now) now k).2 = true ∧
    ∃ m, AList.get? (readKey (gc s now) now k).1.index k = some m ∧ m.value = some v ∧ m.exp = e := by
  have g := gc_spec h ht hnil
  have r := readKey_spec g.inv ht k
  obtain ⟨a, _, m, b, c, d, _⟩ := r.hit v e (by rw [g.look now (Int.le_refl _)]; exact hl)
  exact ⟨a, m, b, c, d⟩

/-- "each with the same type", also for SCAN's TYPE filter: after Close/Open a SCAN — any cursor,
    pattern, count and TYPE filter — reports exactly what it reported before the close.  The reopened
    records carry no cached type; SCAN loads the value of such a record before it applies the filter.
    Hypotheses: the cached types of `s` are right (`TypeOK`), and no record is expired at the close
    (an expired record is not reopened, which shifts the positions SCAN's cursor counts:
    `C12.scan_gc_finding`). -/
theorem reopen_scan_type_restores {s : MState} {t now : Int} (h : StoreInv s t) (ht : t ≤ now)
    (hf : s.failSet = 0) (hnil : NilFree s) (hty : TypeOK s)
    (hlive : ∀ k m, AList.get? s.index k = some m → m.expired now = false)
    (cursor : Int) (pat : Bytes) (count : Int) (typ : Nat) :
    (Api.scan (reopen (close s now)) now cursor pat count typ).2 = (Api.scan s now cursor pat count typ).2 := by
  obtain ⟨a, b⟩ := reopen_scanRel h ht hf hnil hty hlive
  exact (scan_congr _ a b cursor pat count typ).symm

/-- instance: `SET k v`, then `SCAN 0 MATCH * COUNT 10 TYPE string` finds k before and after -/
theorem reopen_scan_type_example :
    (Api.set (empty true) 0 [107] [118] false).1 = setState ∧
    (Api.scan setState 0 0 [42] 10 1).2 = .many [.int 0, .slist [[107]]] ∧
    (Api.scan (reopen (close setState 0)) 0 0 [42] 10 1).2 = .many [.int 0, .slist [[107]]] :=
  ⟨setState_reached, setState_scan, setState_scan_reopen⟩

/-! ### B: the invariant is preserved by the primitives, by the passes and by the commands

  `StoreInvX s (some k) t` is the invariant with the record of `k` exempted from the
  "clean ⇒ same value in the backend" clause: the state between `setVal`/`setExp` and the
  `signalModifiedKey` (or `delKey`) that every command issues next. -/

theorem writeKey_preserves_inv {s : MState} {t now : Int} (h : StoreInv s t) (ht : t ≤ now) (k : Bytes)
    (mk : Option Val) (hmk : ∀ v, mk = some v → Good v) : StoreInv (writeKey s now k mk).1 t :=
  (writeKey_spec h ht k mk hmk).inv

theorem readKey_preserves_inv {s : MState} {t now : Int} (h : StoreInv s t) (ht : t ≤ now) (k : Bytes) :
    StoreInv (readKey s now k).1 t := (readKey_spec h ht k).inv

theorem delKey_preserves_inv {s : MState} {t : Int} (h : StoreInv s t) (k : Bytes) : StoreInv (delKey s k) t :=
  inv_delKey h k (fun _ _ => by simp)

theorem newKeyWith_preserves_inv {s : MState} {t : Int} (h : StoreInv s t) (k : Bytes) (old : Option Meta)
    (hold : ∀ m0, old = some m0 → AList.get? s.index k = some m0) {v : Val} (hg : Good v) :
    StoreInv (newKeyWith s k old v) t := inv_newKeyWith h k old hold hg

/-- `setVal` on the hot record a lookup handed back: the name is exempted until it is signalled -/
theorem setVal_preserves_inv {s : MState} {t : Int} (h : StoreInv s t) {k : Bytes} {m : Meta}
    (hm : AList.get? s.index k = some m) (hv : m.value.isSome = true) {v : Val} (hg : Good v) :
    StoreInvX (Api.setVal s k v) (some k) t := inv_setVal h (fun _ _ => by simp) hm hv hg

theorem setExp_preserves_inv {s : MState} {x : Option Bytes} {t : Int} (h : StoreInvX s x t) {k : Bytes}
    (hx : ∀ k', k' ≠ k → x ≠ some k') {m : Meta} (hm : AList.get? s.index k = some m)
    (hv : m.value.isSome = true) {e : Int} (he : inInt64 e = true) :
    StoreInvX (Api.setExp s k e) (some k) t := inv_setExp h hx hm hv he

/-- `signalModifiedKey` ends the exemption -/
theorem signal_restores_inv {s : MState} {t : Int} {k : Bytes} (h : StoreInvX s (some k) t) :
    StoreInv (signal s k) t :=
  inv_signal h k (fun _ hk c => hk (Option.some.inj c).symm)

theorem flush_preserves_inv {s : MState} {t now : Int} (h : StoreInv s t) (ht : t ≤ now) :
    StoreInv (flush s now) now := (flush_spec h ht).1.inv

theorem close_preserves_inv {s : MState} {t now : Int} (h : StoreInv s t) (ht : t ≤ now) :
    StoreInv (close s now) now := (close_spec h ht).1.inv

theorem gc_preserves_inv {s : MState} {t now : Int} (h : StoreInv s t) (ht : t ≤ now) (hnil : NilFree s) :
    StoreInv (gc s now) t := (gc_spec h ht hnil).inv

/-! ### non-vacuity -/

/-- the cached types of the example store are right -/
example (pebble : Bool) : TypeOK (exState pebble) := by
  intro k m hm
  simp only [exState, AList.get?] at hm
  split at hm
  · simp only [Option.some.injEq] at hm; subst hm
    exact ⟨(fun v hv => by cases hv; rfl), (fun hn => by cases hn)⟩
  · split at hm
    · simp only [Option.some.injEq] at hm; subst hm
      rename_i hk
      subst hk
      refine ⟨(fun v hv => by cases hv), fun _ v o hl => ?_⟩
      cases pebble <;>
        simp [loadValue, diskGet, exState, AList.get?, Codec.encodeEntry, Codec.encodeVal, Codec.decodeEntry,
          Val.typeCode] at hl <;> (obtain ⟨rfl, _⟩ := hl; right; rfl)
    · cases hm
example : ∀ k m, AList.get? (exState true).index k = some m → m.expired 5 = false := by
  intro k m hm
  simp only [exState, AList.get?] at hm
  split at hm
  · simp only [Option.some.injEq] at hm; subst hm; rfl
  · split at hm
    · simp only [Option.some.injEq] at hm; subst hm; rfl
    · cases hm

/-- a concrete store satisfying every hypothesis above, for each backend: one hot modified key
    never written to the backend, one cold key with a deadline, one backend entry -/
example (pebble : Bool) : StoreInv (exState pebble) 0 ∧ (0 : Int) ≤ 5 ∧ (exState pebble).failSet = 0 ∧
    NilFree (exState pebble) :=
  ⟨exState_inv pebble 0, by decide, rfl, exState_nilfree pebble⟩
example : (exState true).index.length = 2 ∧ (exState true).disk.length = 1 := ⟨rfl, rfl⟩
example : lookup (exState false) 5 [98] = some (.str [2], 1000) := by
  simp [lookup, getMeta, exState, AList.get?, view, Meta.isOk, Meta.expired, loadValue, diskGet]
example : Good (.hash [([1], [2])]) ∧ (Val.hash [([1], [2])]) ≠ .strNil :=
  ⟨⟨trivial, by intro p hp; simp at hp; subst hp; decide⟩, by intro c; cases c⟩

/- UNPROVED (C11):
   * `TypeOK` (hypothesis of `reopen_scan_type_restores`) holds of the empty store and of every
     reopened store (no cached types) and is kept by `gc` for the cached part; that every covered
     command preserves it (none changes the type of a value) is not proved.
   * B (invariant preserved by API commands) is proved for the primitives above and for the commands
     listed in Props/C12.lean (`C12.command_preserves_inv`, `C12.del_preserves_inv`,
     `C12.rename_preserves_inv`); the remaining commands of Model/Api.lean (list in Props/C12.lean)
     are not covered.
   * "reloaded values stay intact for as long as they are used" is a statement about aliasing of Go
     byte buffers; in the model a decoded value is a pure term, so there is nothing to state beyond
     `lazy_load_roundtrip` / `lazy_load_after_gc`.
   * `deleted_never_reappears` is stated at the level of the logical keyspace (the deleted name
     shows no key after the reopen); that no *dead record* of that name is recreated by `reopen`
     follows from `no_stale_shadowing` + the invariant but is not stated separately.
-/

end NodisVerif.C11
