import NodisVerif.Proofs.C17Reader
import NodisVerif.Proofs.C17Sizes
import NodisVerif.Props.C15
import NodisVerif.Props.C16
/-
  C17 — hostile input never takes the server down.

  "Whatever bytes a client sends — malformed or truncated RESP, negative, huge or non-numeric lengths
  and counts, wrong arity, empty arguments, non-numeric or out-of-range numbers, commands on keys of
  the wrong type, any sequence of valid commands — the server process keeps running, keeps answering
  every other connection promptly and with correct data, and the offending connection receives an
  error reply or is closed.  A frame header announcing an impossible size (negative, or beyond the
  protocol's 512 MiB bulk limit) is rejected instead of being allocated or used as an index."

  Reader side: `RespReader.readCommand` / `readAll` (Model/RespReader.lean) on a `Source` = ANY list of
  read fragments of ANY bytes; `Res.panic` is the only way the reader goroutine can die (index out of
  range in `indexByte(-2)`, reached from `readUtil`).  Dispatch side: `step` / `run`
  (Proofs/C08Step.lean) on the server's complete handler table `fullTable`, which is what
  `Driver.respStep` computes (`C08.step_is_the_driver_step`); `HRes.crash` = a handler panics outside
  `execCommand`'s recover and is caught by the dispatch-level recover.

  Everything is unbounded: all sources, all fuels, all header texts, all command names / argument
  vectors / server states / schedules.  No finding region: the statements hold at full strength.
-/
namespace NodisVerif.C17
open Resp RespReader Server Spec.RespEnc
open NodisVerif.Proofs.C08Step

/-! ## 1. The reader never panics -/

/-- `ReadCommand` never panics: for every byte stream in every fragmentation the outcome is a
    command or a protocol error / EOF.  (Invariant: whenever `readUtil` evaluates `indexByte(-2)`,
    the window holds ≥ 2 bytes or does not start at buffer offset 0 — `Proofs.C17.Safe`,
    `Proofs.C17.readUtil_post`; a CR only drops the byte that was just appended.) -/
theorem readCommand_never_panics (src : Source) : readCommand src ≠ .panic :=
  Proofs.C17.readCommand_ne_panic src

/-- the connection loop never reports a reader panic, whatever the bytes, the fragmentation, the
    number of iterations and the commands read before -/
theorem reader_never_panics (src : Source) (fuel : Nat) (acc : List RespReader.Cmd) : (readAll src fuel acc).2.2 = false :=
  Proofs.C17.readAll_no_panic fuel src acc

/-- the same for every reader primitive started in a state in which the Go code can be (the window
    is non-empty or does not start at buffer offset 0, `Safe`; for the argument loop: not at offset 0) -/
theorem primitives_never_panic (st : RState) :
    (∀ n fuel, readByteN st n fuel ≠ .panic) ∧ (∀ fuel, readLine st fuel ≠ .panic) ∧
    readInteger st ≠ .panic ∧ readBulk st ≠ .panic ∧ (∀ k acc, readBulks st k acc ≠ .panic) ∧
    (Proofs.C17.Safe st → ∀ e fuel, readUtil e st fuel ≠ .panic) ∧
    (st.before.isSome → ∀ fuel acc, inlineArgs st fuel acc ≠ .panic) ∧
    (Proofs.C17.Safe st → readInline st ≠ .panic) :=
  ⟨fun n fuel => (Proofs.C17.readByteN_post n fuel st).ne_panic,
   fun fuel => (Proofs.C17.readLine_post fuel st).ne_panic,
   (Proofs.C17.readInteger_post st).ne_panic, (Proofs.C17.readBulk_post st).ne_panic,
   fun k acc => (Proofs.C17.readBulks_post k acc st).ne_panic,
   fun hs e fuel => (Proofs.C17.readUtil_post e fuel st hs).ne_panic,
   fun hb fuel acc => (Proofs.C17.inlineArgs_post fuel acc st hb).ne_panic,
   fun hs => (Proofs.C17.readInline_post st hs).ne_panic⟩

/-- the `Safe` guard of `readUtil` is necessary in the model: at buffer offset 0 with an empty window
    a first byte equal to the terminator indexes buf[-1].  (Unreachable from `readCommand`:
    `reader_never_panics`.) -/
theorem readUtil_unsafe_state_panics :
    (match readUtil 32 { src := [[32]] } 2 with | .panic => true | _ => false) = true := by decide

/-! ## 2. Every byte stream is consumed into finitely many commands followed by an error / EOF -/

/-- a successfully read command consumes at least one byte of the stream -/
theorem command_consumes_input (src : Source) (c : RespReader.Cmd) (st : RState) (h : readCommand src = .ok c st) :
    (srcFlat st.src).length < (srcFlat src).length :=
  Proofs.C17.readCommand_ok_consumes h

/-- an error never "un-reads": the stream only shrinks -/
theorem error_consumes_monotonically (src : Source) (e : RErr) (st : RState) (h : readCommand src = .err e st) :
    (srcFlat st.src).length ≤ (srcFlat src).length := by
  have := Proofs.C17.readCommand_post src
  rw [h] at this
  exact this

/-- With one more iteration than there are bytes the connection loop has ended by itself — on a
    protocol error or EOF (`some e`), not by running out of iterations and not by a panic: the bytes
    of a connection are turned into at most as many commands as there are bytes, followed by the
    error reply / close. -/
theorem reader_always_answers (src : Source) (fuel : Nat) (acc : List RespReader.Cmd) (hfuel : (srcFlat src).length + 1 ≤ fuel) :
    ∃ cmds e, readAll src fuel acc = (acc.reverse ++ cmds, some e, false) ∧ cmds.length ≤ (srcFlat src).length :=
  Proofs.C17.readAll_ends fuel src acc hfuel

/-- … and from then on the result does not depend on the number of iterations allowed -/
theorem reader_result_is_final (src : Source) (fuel fuel' : Nat) (acc : List RespReader.Cmd)
    (h : (srcFlat src).length + 1 ≤ fuel) (h' : (srcFlat src).length + 1 ≤ fuel') :
    readAll src fuel acc = readAll src fuel' acc := by
  have key : ∀ f, (srcFlat src).length + 1 ≤ f → readAll src f acc = readAll src ((srcFlat src).length + 1) acc := by
    intro f hf
    obtain ⟨k, rfl⟩ : ∃ k, f = (srcFlat src).length + 1 + k := ⟨f - ((srcFlat src).length + 1), by omega⟩
    refine Proofs.C17.readAll_stable k _ src acc ?_
    obtain ⟨cmds, e, he, _⟩ := Proofs.C17.readAll_ends ((srcFlat src).length + 1) src acc (Nat.lt_succ_self _)
    rw [he]; simp
  rw [key fuel h, key fuel' h']

/-! ## 3. Impossible sizes are rejected, not allocated or used as an index -/

/-- the header text announces a size the protocol forbids: not an int64 at all, negative, or beyond
    512 MiB -/
def BadSize (ds : Bytes) : Prop := Proofs.C17.BadSize ds

theorem badSize_iff (ds : Bytes) :
    BadSize ds ↔ (parseInt64 ds = none ∨ ∃ n, parseInt64 ds = some n ∧ (n < 0 ∨ n > 536870912)) := Iff.rfl

/-- A bulk header `$<n>` with n < 0 or n > 536870912, in any fragmentation, followed by anything:
    `readBulk` returns `tooLarge` having consumed exactly the header line — `readByteN` (the only
    place the length is used) is not reached. -/
theorem impossible_sizes_rejected (ds rest : Bytes) (n : Int) (hn : parseInt64 ds = some n)
    (hbad : n < 0 ∨ n > 536870912) (st : RState) (hw : st.win = [])
    (hsrc : srcFlat st.src = [36] ++ ds ++ [13, 10] ++ rest) :
    ∃ st', readBulk st = .err .tooLarge st' ∧ srcFlat st'.src = rest ∧ st'.win = [] := by
  obtain ⟨st', h1, h2, _, h4⟩ := Proofs.C17.readBulk_header ds rest st (Proofs.C17.parseInt64_no_lf hn) hw
    (by simpa using hsrc)
  exact ⟨st', h4 n hn hbad, h1, h2⟩

/-- the same with the number written by `strconv.FormatInt`: every integer whatsoever outside
    0 … 536870912 is rejected — `tooLarge` if it is an int64, `badInteger` if it is not even that -/
theorem impossible_sizes_rejected_decimal (n : Int) (hbad : n < 0 ∨ n > 536870912) (rest : Bytes)
    (st : RState) (hw : st.win = []) (hsrc : srcFlat st.src = [36] ++ formatInt n ++ [13, 10] ++ rest) :
    ∃ st', readBulk st = .err (if inInt64 n then .tooLarge else .badInteger) st' ∧
      srcFlat st'.src = rest ∧ st'.win = [] := by
  obtain ⟨st', h1, h2, h3, h4⟩ := Proofs.C17.readBulk_header (formatInt n) rest st (Proofs.C17.formatInt_no_lf n) hw
    (by simpa using hsrc)
  by_cases hi : inInt64 n = true
  · rw [if_pos hi]
    exact ⟨st', h4 n (Proofs.C17.parseInt64_formatInt n hi) hbad, h1, h2⟩
  · rw [if_neg hi]
    exact ⟨st', h3 (Proofs.C17.parseInt64_formatInt_out n (by simpa using hi)), h1, h2⟩

/-- a header line that is not a number (`$abc`, `$`, `$1x`, `$99999999999999999999`): `badInteger`,
    again right after the header line -/
theorem non_numeric_size_rejected (ds rest : Bytes) (hd : ∀ x ∈ ds, x ≠ 10) (hn : parseInt64 ds = none)
    (st : RState) (hw : st.win = []) (hsrc : srcFlat st.src = [36] ++ ds ++ [13, 10] ++ rest) :
    ∃ st', readBulk st = .err .badInteger st' ∧ srcFlat st'.src = rest ∧ st'.win = [] := by
  obtain ⟨st', h1, h2, h3, _⟩ := Proofs.C17.readBulk_header ds rest st hd hw (by simpa using hsrc)
  exact ⟨st', h3 hn, h1, h2⟩

/-- At the level of `ReadCommand`: `*<cnt>`, then any number (< cnt) of well-formed bulks, then a bulk
    header with an impossible size, then anything, in any fragmentation: the command is refused with
    a protocol error (the connection gets the error reply and is closed); exactly the bytes up to
    the end of the offending header line have been consumed. -/
theorem impossible_size_fails_command (cnt : Bytes) (c : Int) (pre : List Bytes) (ds rest : Bytes) (src : Source)
    (hcnt : parseInt64 cnt = some c) (hc : pre.length < c.toNat)
    (hpre : ∀ x ∈ pre, x.length ≤ 536870912) (hd : ∀ x ∈ ds, x ≠ 10) (hbad : BadSize ds)
    (hsrc : srcFlat src = [42] ++ cnt ++ [13, 10] ++ pre.flatMap encodeBulk ++ [36] ++ ds ++ [13, 10] ++ rest) :
    ∃ st', readCommand src = .err .expectedArray st' ∧ srcFlat st'.src = rest ∧ st'.win = [] :=
  Proofs.C17.readCommand_bad_bulk cnt c pre ds rest src hcnt hc
    (fun x hx => by have := hpre x hx; simp [maxBulk]; omega) hd hbad (by simpa using hsrc)

/-- an array header `*<n>` never makes the reader panic, whatever follows (n negative, zero, huge:
    the count is only a loop bound, each iteration needs a bulk from the stream) … -/
theorem array_header_never_panics (ds rest : Bytes) (src : Source)
    (_hsrc : srcFlat src = [42] ++ ds ++ [13, 10] ++ rest) : readCommand src ≠ .panic :=
  readCommand_never_panics src

/-- … for n ≤ 0 the command is the empty command (no name, no arguments) and exactly the header line
    is consumed; for a non-number the protocol error `expectedArrayLength` -/
theorem array_header_nonpositive (ds rest : Bytes) (n : Int) (hn : parseInt64 ds = some n) (hle : n ≤ 0)
    (src : Source) (hsrc : srcFlat src = [42] ++ ds ++ [13, 10] ++ rest) :
    ∃ st', readCommand src = .ok { name := [], args := [] } st' ∧ srcFlat st'.src = rest ∧ st'.win = [] := by
  obtain ⟨st', h1, h2, _, h4⟩ := Proofs.C17.readCommand_header ds rest src (Proofs.C17.parseInt64_no_lf hn)
    (by simpa using hsrc)
  exact ⟨st', h4 n hn hle, h1, h2⟩

theorem array_header_non_numeric (ds rest : Bytes) (hd : ∀ x ∈ ds, x ≠ 10) (hn : parseInt64 ds = none)
    (src : Source) (hsrc : srcFlat src = [42] ++ ds ++ [13, 10] ++ rest) :
    ∃ st', readCommand src = .err .expectedArrayLength st' ∧ srcFlat st'.src = rest ∧ st'.win = [] := by
  obtain ⟨st', h1, h2, h3, _⟩ := Proofs.C17.readCommand_header ds rest src hd (by simpa using hsrc)
  exact ⟨st', h3 hn, h1, h2⟩

/-- a payload that really is longer than 512 MiB: C15 -/
theorem oversized_payload_fails_command (name : Bytes) (args : List Bytes) (rest : Bytes)
    (pre : List Bytes) (b : Bytes) (post : List Bytes) (hsplit : name :: args = pre ++ b :: post)
    (hpre : ∀ x ∈ pre, x.length ≤ 536870912) (hb : b.length > 536870912) (hcount : 1 + args.length < 2 ^ 63)
    (src : Source) (hsrc : srcFlat src = encodeCommand name args ++ rest) :
    ∃ st, readCommand src = .err .expectedArray st :=
  C15.parse_too_large name args rest pre b post hsplit hpre hb hcount src hsrc

/-! ## 4. Every command is answered by exactly one reply; a crashing handler is contained -/

/-- EVERY command that goes through the table — known or unknown name, any arity, any operands
    (empty, non-numeric, out of range), any server state, inside or outside MULTI — is answered by
    exactly one complete RESP value -/
theorem every_command_is_answered (sv : Server) (c : Proofs.C08Step.Cmd) (hs : ¬ special c.name) :
    oneValue (step fullTable sv c).2 = true :=
  C16.one_reply_full_nonspecial sv c hs

/-- … MULTI / EXEC / DISCARD / WATCH / UNWATCH included, in every server state whose queued closures
    came from the table (an invariant of `run`: `C16.queues_reachable`) -/
theorem every_command_is_answered_all (sv : Server) (hq : QueuesSat OneBody sv) (c : Proofs.C08Step.Cmd) :
    oneValue (step fullTable sv c).2 = true :=
  C16.one_reply_per_command C16.fullTable_ok hq c

/-- … hence along every schedule of every number of connections from a fresh server: as many replies
    as commands, each one complete value -/
theorem every_schedule_is_answered (st : MState) (cs : List Proofs.C08Step.Cmd) :
    (run fullTable { store := st } cs).2.length = cs.length ∧
    ∀ r ∈ (run fullTable { store := st } cs).2, oneValue r = true :=
  ⟨(C16.replies_in_order C16.fullTable_ok (QueuesSat.init OneBody st) cs).1, C16.one_reply_full st cs⟩

/-- the step the theorems talk about is the one the differential driver runs against the Go server -/
theorem step_is_the_driver_step (sv : Server) (id : String) (now : Int) (nameB : Bytes) (args : List Bytes) (ch : Choice) :
    (Driver.respStep allTables sv id now (nameB :: args) ch).1 =
      (step fullTable sv { id := id, name := driverName nameB, args := args, now := now, ch := ch }).1 :=
  step_matches_driver allTables sv id now nameB args ch

/-- A handler that panics outside `execCommand` (`HRes.crash`; caught by the dispatch-level recover),
    or an unknown command: the reply is exactly one error token; the store, the registry, every other
    connection, and the connection's own queue and watch flags are unchanged.  The only thing that
    changes is that a connection inside MULTI gets its MultiError bit (`afterHandler`), so outside
    MULTI the server state is literally unchanged. -/
theorem crash_is_contained (H : Table) (sv : Server) (c : Proofs.C08Step.Cmd) (hs : ¬ special c.name)
    (hH : H c.name c.args = some .crash ∨ H c.name c.args = none) :
    (step H sv c).2 = [Tok.err 0] ∧
    (dispatch H sv c).1 = sv ∧
    (step H sv c).1 = afterHandler sv c.id [Tok.err 0] ∧
    (step H sv c).1.store = sv.store ∧
    (step H sv c).1.registry = sv.registry ∧
    (∀ i, i ≠ c.id → (step H sv c).1.conn i = sv.conn i) ∧
    ((step H sv c).1.conn c.id).queue = (sv.conn c.id).queue ∧
    ((step H sv c).1.conn c.id).watch = (sv.conn c.id).watch ∧
    ((step H sv c).1.conn c.id).state =
      (if (sv.conn c.id).state ≠ 0 ∧ ((sv.conn c.id).state / 4) % 2 ≠ 1
       then (sv.conn c.id).state + multiError else (sv.conn c.id).state) ∧
    ((sv.conn c.id).state = 0 → (step H sv c).1 = sv) := by
  have hstep := step_unknown H sv c hs hH.symm
  have hd : (dispatch H sv c).1 = sv := by
    rw [dispatch_table H sv c hs]
    rcases hH with h | h <;> rw [h]
  rw [hstep]
  refine ⟨rfl, hd, rfl, afterHandler_store _ _ _, afterHandler_registry _ _ _,
    fun i hi => afterHandler_conn_other _ _ _ _ hi, afterHandler_queue _ _ _ _, afterHandler_watch _ _ _ _, ?_,
    fun h0 => afterHandler_noerr _ _ _ (.inr h0)⟩
  rw [afterHandler_state]
  simp [isErr]

/-- the same for the driver's step on the server's tables -/
theorem crash_is_contained_driver (sv : Server) (id : String) (now : Int) (nameB : Bytes) (args : List Bytes)
    (ch : Choice) (hs : ¬ special (driverName nameB))
    (hH : fullTable (driverName nameB) args = some .crash ∨ fullTable (driverName nameB) args = none) :
    (Driver.respStep allTables sv id now (nameB :: args) ch).1 = afterHandler sv id [Tok.err 0] := by
  rw [step_is_the_driver_step]
  exact (crash_is_contained fullTable sv
    { id := id, name := driverName nameB, args := args, now := now, ch := ch } hs hH).2.2.1

/-- an error reply produced by the handler itself (wrong arity, non-numeric or out-of-range operand:
    `.direct ts`): that reply, nothing queued, nothing run, the store and every connection's queue
    and watch flags unchanged -/
theorem argument_error_changes_nothing (H : Table) (sv : Server) (c : Proofs.C08Step.Cmd) (hs : ¬ special c.name) (ts : List Tok)
    (hH : H c.name c.args = some (.direct ts)) :
    (step H sv c).2 = ts ∧ (step H sv c).1.store = sv.store ∧
    (∀ i, ((step H sv c).1.conn i).queue = (sv.conn i).queue) ∧
    (∀ i, ((step H sv c).1.conn i).watch = (sv.conn i).watch) := by
  obtain ⟨h1, _, h3, h4, h5⟩ := C08.direct_reply_not_queued H sv c hs ts hH
  exact ⟨h1, h3, h4, h5⟩

/-! ## 5. Other connections are unaffected -/

/-- what the reader delivers for connection `i` is `readAll` of its own bytes: it does not depend on
    the schedule (beyond the number of turns `i` got) nor on anything the other connections send -/
theorem other_connections_unaffected_reader (srcs srcs' : Nat → Source) (sched sched' : List Nat) (i : Nat)
    (hsrc : srcFlat (srcs i) = srcFlat (srcs' i)) (hcount : sched.count i = sched'.count i) :
    (Proofs.C15.runSched (fun j => { src := srcs j }) sched i).result =
    (Proofs.C15.runSched (fun j => { src := srcs' j }) sched' i).result :=
  C15.connections_independent_of_others srcs srcs' sched sched' i hsrc hcount

/-- … it is never a panic, whatever ALL connections send, and once `i` has had more turns than it has
    bytes it has ended on its own error / EOF -/
theorem other_connections_unaffected_reader_total (srcs : Nat → Source) (sched : List Nat) (i : Nat) :
    (Proofs.C15.runSched (fun j => { src := srcs j }) sched i).result.2.2 = false ∧
    ((srcFlat (srcs i)).length + 1 ≤ sched.count i →
      ∃ cmds e, (Proofs.C15.runSched (fun j => { src := srcs j }) sched i).result = (cmds, some e, false) ∧
        cmds.length ≤ (srcFlat (srcs i)).length) := by
  rw [C15.connections_independent_readAll]
  refine ⟨reader_never_panics _ _ _, fun h => ?_⟩
  obtain ⟨cmds, e, h1, h2⟩ := reader_always_answers (srcs i) _ [] h
  exact ⟨cmds, e, by simpa using h1, h2⟩

/-- A step of connection `c.id` — any command, any arguments, failing or not — changes no other
    connection's MULTI state, queue or watch registrations; another connection's watch flags change
    at most by being set to true (which only `applySignals` does, for keys the step modified). -/
theorem other_connections_unaffected (H : Table) (sv : Server) (c : Proofs.C08Step.Cmd) (i : String) (hi : i ≠ c.id) :
    ((step H sv c).1.conn i).state = (sv.conn i).state ∧
    ((step H sv c).1.conn i).queue = (sv.conn i).queue ∧
    (∀ x, AList.get? ((step H sv c).1.conn i).watch x = AList.get? (sv.conn i).watch x ∨
          AList.get? ((step H sv c).1.conn i).watch x = some true) ∧
    (∀ x, registered (step H sv c).1 i x ↔ registered sv i x) :=
  let h := Others.step H sv c
  ⟨h.state i hi, h.queue i hi, h.watch i hi, h.reg i hi⟩

/-- if the step runs no closure (error replies, unknown commands, crashes, queued commands, MULTI,
    WATCH, DISCARD, aborted EXEC) the store is unchanged: the other connections keep reading exactly
    the data they would have read -/
theorem failing_step_leaves_store (H : Table) (sv : Server) (c : Proofs.C08Step.Cmd) (h : stepOuts H sv c = []) :
    (step H sv c).1.store = sv.store := step_quiet H sv c h

/-- … and along any schedule: the commands of other connections leave connection `i`'s MULTI state
    and queue exactly as they were -/
theorem other_connections_unaffected_run (H : Table) (i : String) : ∀ (cs : List Proofs.C08Step.Cmd) (sv : Server),
    (∀ m ∈ cs, m.id ≠ i) →
    ((run H sv cs).1.conn i).state = (sv.conn i).state ∧ ((run H sv cs).1.conn i).queue = (sv.conn i).queue := by
  intro cs
  induction cs with
  | nil => intro sv _; exact ⟨rfl, rfl⟩
  | cons m rest ih =>
    intro sv hcs
    have hm : i ≠ m.id := fun e => hcs m (by simp) e.symm
    obtain ⟨h1, h2, _⟩ := other_connections_unaffected H sv m i hm
    obtain ⟨h3, h4⟩ := ih (step H sv m).1 (fun x hx => hcs x (by simp [hx]))
    simp only [run]
    exact ⟨h3.trans h1, h4.trans h2⟩

/-! ## 6. Non-vacuity: concrete hostile inputs -/

/-- `*-1 CRLF`: an empty command, then EOF -/
example : readAll [[42, 45, 49, 13, 10]] 10 [] = ([{ name := [], args := [] }], some .eof, false) := by decide
/-- `*0 CRLF *-5 CRLF PING CRLF` -/
example : readAll [[42, 48, 13, 10, 42, 45, 53, 13, 10, 80, 73, 78, 71, 13, 10]] 20 [] =
    ([{ name := [], args := [] }, { name := [], args := [] }, { name := [80, 73, 78, 71], args := [] }], some .eof, false) := by
  decide
/-- `*1 CRLF $-5 CRLF` -/
example : readAll [[42, 49, 13, 10, 36, 45, 53, 13, 10]] 20 [] = ([], some .expectedArray, false) := by decide
/-- `*1 CRLF $536870913 CRLF`, here delivered in three reads -/
example : readAll [[42, 49, 13], [10, 36, 53, 51, 54, 56], [55, 48, 57, 49, 51, 13, 10]] 30 [] =
    ([], some .expectedArray, false) := by decide
/-- `*1 CRLF $99999999999999999999 CRLF` (not an int64) -/
example : readAll [[42, 49, 13, 10, 36, 57, 57, 57, 57, 57, 57, 57, 57, 57, 57, 57, 57, 57, 57, 57, 57, 57, 57, 57, 57, 13, 10]] 40 [] =
    ([], some .expectedArray, false) := by decide
/-- `*99999999999999999999 CRLF`, `*x CRLF`: no array length -/
example : readAll [[42, 57, 57, 57, 57, 57, 57, 57, 57, 57, 57, 57, 57, 57, 57, 57, 57, 57, 57, 57, 57, 13, 10]] 40 [] =
    ([], some .expectedArrayLength, false) := by decide
example : readAll [[42, 120, 13, 10]] 10 [] = ([], some .expectedArrayLength, false) := by decide
/-- `*9223372036854775807 CRLF $1 CRLF a CRLF`: a huge count is only a loop bound -/
example : readAll [[42, 57, 50, 50, 51, 51, 55, 50, 48, 51, 54, 56, 53, 52, 55, 55, 53, 56, 48, 55, 13, 10, 36, 49, 13, 10, 97, 13, 10]] 40 [] =
    ([], some .expectedArray, false) := by decide
/-- `*2 CRLF :1 CRLF`: not a bulk -/
example : readAll [[42, 50, 13, 10, 58, 49, 13, 10]] 10 [] = ([], some .expectedArray, false) := by decide
/-- a lone CR, a lone quote, a lone space: EOF, no command -/
example : readAll [[13]] 10 [] = ([], some .eof, false) := by decide
example : readAll [[34]] 10 [] = ([], some .eof, false) := by decide
example : readAll [[32]] 10 [] = ([], some .eof, false) := by decide
/-- `' CR LF`-style inline garbage: quote, space, CR LF -/
example : readAll [[39, 32, 13, 10]] 10 [] = ([{ name := [39], args := [[13]] }], some .eof, false) := by decide
/-- `a\ b CRLF` (backslash before the separator) -/
example : readAll [[97, 92, 32, 98, 13, 10]] 10 [] = ([{ name := [65, 92, 32, 66], args := [] }], some .eof, false) := by decide
/-- `a ' CR LF` byte by byte: the quoted argument starts right after a `malloc()` -/
example : readAll [[97], [32], [39], [32], [13], [10]] 10 [] = ([{ name := [65], args := [[32]] }], some .eof, false) := by decide
/-- CRs in front of quotes: the `dropLast` case -/
example : readAll [[97, 32, 13, 39, 13, 39, 13, 10]] 10 [] = ([{ name := [65], args := [[13, 39, 39]] }], some .eof, false) := by decide
/-- an inline command, a RESP command, then a truncated bulk header -/
example : readAll [[103, 101, 116, 32, 107, 13, 10, 42, 49, 13, 10, 36, 52, 13, 10, 112, 105, 110, 103, 13, 10, 36]] 40 [] =
    ([{ name := [71, 69, 84], args := [[107]] }, { name := [80, 73, 78, 71], args := [] }], some .eof, false) := by decide

/-- the hypotheses of `impossible_sizes_rejected` are satisfiable: "-5" and "536870913" -/
example : parseInt64 [45, 53] = some (-5) ∧ ((-5 : Int) < 0 ∨ (-5 : Int) > 536870912) := by decide
example : parseInt64 [53, 51, 54, 56, 55, 48, 57, 49, 51] = some 536870913 ∧
    ((536870913 : Int) < 0 ∨ (536870913 : Int) > 536870912) := by decide
example : BadSize [45, 53] ∧ BadSize [120] ∧ BadSize [] := by
  refine ⟨.inr ⟨-5, by decide, by decide⟩, .inl (by decide), .inl (by decide)⟩
/-- `array_header_nonpositive`: "-1", "0"; `array_header_non_numeric`: "x" -/
example : parseInt64 [45, 49] = some (-1) ∧ parseInt64 [48] = some 0 ∧ parseInt64 [120] = none := by decide

/-- handlers that really panic outside `execCommand` on hostile operands exist in the table:
    `INCRBYFLOAT k ""` (s[0] on an empty argument), `LRANGE k 0` (missing operand),
    `SCAN 0 MATCH` (option word in last position) — the hypotheses of `crash_is_contained` -/
example : (match fullTable "INCRBYFLOAT" [[107], []] with | some .crash => true | _ => false) = true := by decide
example : (match fullTable "LRANGE" [[107], [48]] with | some .crash => true | _ => false) = true := by decide
example : (match fullTable "SCAN" [[48], [77, 65, 84, 67, 72]] with | some .crash => true | _ => false) = true := by decide +kernel
/-- the empty command produced by `*0` / `*-1` and an unknown name are not in the table: one error -/
example : (fullTable "" []).isNone = true ∧ (fullTable "NOSUCH" [[1]]).isNone = true := by decide
example : ¬ special "INCRBYFLOAT" ∧ ¬ special "" := by decide

/-- hostile commands in the middle of a session of two connections: each draws one error, the data
    of the other connection is served unchanged -/
example :
    (run fullTable {} [ { id := "a", name := "SET", args := [[107], [118]] },
      { id := "b", name := "INCRBYFLOAT", args := [[107], []] },
      { id := "b", name := "LRANGE", args := [[107], [48]] },
      { id := "b", name := "", args := [] },
      { id := "b", name := "LPUSH", args := [[107], [120]] },
      { id := "b", name := "SETRANGE", args := [[107], [45, 49], [120]] },
      { id := "a", name := "GET", args := [[107]] }]).2 =
    [[okTok], [Tok.err 0], [Tok.err 0], [Tok.err 0], [Tok.err 1], [Tok.err 0], [Tok.bulk [118]]] := by decide +kernel

/-! ## 5. The reply writer never panics and its buffer is bounded by what is written (work package F)

  The writer side of the connection goroutine (redis/resp.go `type Writer`, Model/RespWriter.lean): whatever the
  handlers write — payloads of any size, any number of calls without a Flush, a connection whose Write fails —
  neither `w.buf[w.w] = b` nor `w.buf[:w.w]` goes out of range, and the buffer cannot be made larger than
  `4096 + 2·(bytes pending at the end of a call)`: replies are flushed after every command, so a client
  controls the buffer's size only through the size of the largest single reply it can provoke. -/

theorem reply_writer_never_panics (cs : List RespWriter.Call) : RespWriter.run RespWriter.new cs ≠ .panic :=
  C16.writer_never_panics cs

theorem reply_writer_buffer_bounded (M : Nat) (cs : List RespWriter.Call) (s : RespWriter.Writer)
    (hM : ∀ pre s1, pre <+: cs → RespWriter.run RespWriter.new pre = .ok s1 → s1.w ≤ M)
    (e : RespWriter.run RespWriter.new cs = .ok s) :
    s.w ≤ s.buf.size ∧ s.buf.size ≤ RespWriter.defaultSize + 2 * M :=
  ⟨(C16.writer_growth_peak M cs s hM e).1, (C16.writer_growth_peak M cs s hM e).2.2⟩

/-- a non-trivial run (two replies with a Flush in between, 10 bytes written in all) and its bound -/
example : ∃ s, RespWriter.run RespWriter.new [.ok, .flush none, .bulkNull] = .ok s ∧ s.buf.size ≤ RespWriter.defaultSize + 2 * 10 := by
  obtain ⟨s, e⟩ := C16.writer_total [.ok, .flush none, .bulkNull] (by decide)
  refine ⟨s, e, ?_⟩
  have h := C16.writer_growth [.ok, .flush none, .bulkNull] s e
  have hl : ([RespWriter.Call.ok, .flush none, .bulkNull].flatMap Spec.RespWriterSpec.written).length = 10 := by decide +kernel
  rw [hl] at h
  exact h.2.2

/- UNPROVED: nothing.  No finding: `reader_never_panics` holds for every source (the `.panic` branch of
   `readUtil` / `prevByte` is unreachable from `readCommand`). -/

end NodisVerif.C17
