import NodisVerif.Proofs.C09Run
import NodisVerif.Proofs.C09Sound
import NodisVerif.Proofs.C09Full
import NodisVerif.Proofs.C09Writers3
import NodisVerif.Proofs.C09IncrExec
import NodisVerif.Proofs.GateInv
import NodisVerif.Proofs.GateProgExamples
import NodisVerif.Proofs.GeoReads
import NodisVerif.Proofs.C11Pass
import NodisVerif.Proofs.C11Examples
/-
  C09 — WATCH is sound optimistic locking: a changed watched key always aborts EXEC.

  Stated about `step` / `run` of Proofs/C08Step.lean for an ARBITRARY handler table `H`, arbitrary
  closures, any number of connections, any command-granularity schedule, starting in any server
  state satisfying the reachable-state invariant `RegWF` (holds initially, preserved by every step:
  `C08.regWF_reachable`).

  "A step signalled k" is `stepTouches H s m k`: one of the closures the step ran (`stepOuts`: the
  closure of a command served outside MULTI, or the queued closures of an EXEC that runs) returned a
  store whose `signalled` list contains k — i.e. the API passed k to `signalModifiedKey` — or whose
  `flushed` bit is set (`Nodis.Clear()` ran: FLUSHDB / FLUSHALL).  Which API writes signal which
  keys is the table `writers_signal_*` (Proofs/C09Writers*.lean, second half of this file).
-/
namespace NodisVerif.C09
open NodisVerif.Proofs.C08Step Resp Server

variable (H : Table)

/-! ## WATCH -/

/-- WATCH k₁ … kₙ outside MULTI: reply OK, store untouched; the connection is registered for every
    kⱼ; a key it did not watch yet starts with flag false; a key it already watched KEEPS its flag
    (watching again does not launder an earlier modification); state and queue unchanged -/
theorem watch_registers (sv : Server) (c : Cmd) (hn : c.name = "WATCH")
    (hacc : (sv.conn c.id).state % 2 ≠ 1) (hne : c.args ≠ []) :
    (step H sv c).2 = [okTok] ∧ (step H sv c).1.store = sv.store ∧
    (∀ k ∈ c.args, registered (step H sv c).1 c.id k) ∧
    (∀ x, AList.get? ((step H sv c).1.conn c.id).watch x =
        if x ∈ c.args ∧ AList.get? (sv.conn c.id).watch x = none then some false
        else AList.get? (sv.conn c.id).watch x) ∧
    ((step H sv c).1.conn c.id).state = (sv.conn c.id).state ∧
    ((step H sv c).1.conn c.id).queue = (sv.conn c.id).queue := by
  rw [step_watch H sv c hn hacc hne]
  refine ⟨rfl, watchLoop_store _ _ _, ?_, watchLoop_watch _ _ _, (watchLoop_state_queue _ _ _).1,
    (watchLoop_state_queue _ _ _).2⟩
  intro k hk
  exact (watchLoop_registered c.id c.id k c.args sv).mpr (Or.inr ⟨rfl, hk⟩)

/-- WATCH inside MULTI is refused (error reply, which also aborts the transaction: C08) -/
theorem watch_inside_multi (sv : Server) (c : Cmd) (hn : c.name = "WATCH") (hst : (sv.conn c.id).state % 2 = 1) :
    (step H sv c).2 = [Tok.err 0] ∧ (step H sv c).1.registry = sv.registry ∧
    ((step H sv c).1.conn c.id).watch = (sv.conn c.id).watch := by
  simp only [step, dispatch_watch H sv c hn, watch_eq, if_pos hst, afterHandler_registry, afterHandler_watch]
  simp

/-! ## signalling -/

/-- if connection `i` is registered for `k` and a step — of any connection, `i` included, except a
    step by which `i` itself ends its watches — has a store effect with `k ∈ signalled`, then `i`'s
    flag for `k` is true afterwards -/
theorem signal_sets_flag {sv : Server} (hwf : RegWF sv) (m : Cmd) (i : String) (k : Bytes)
    (hreg : registered sv i k) (hsig : ∃ o ∈ stepOuts H sv m, k ∈ o.store.signalled)
    (hc : ¬ (m.id = i ∧ clearsWatch sv m)) :
    AList.get? ((step H sv m).1.conn i).watch k = some true := by
  obtain ⟨o, ho, hk⟩ := hsig
  exact (step_keeps H hwf m i hc).hit k ⟨o, ho, Or.inl hk⟩ hreg

/-- … and stays true until EXEC / DISCARD / (running) UNWATCH of `i` -/
theorem flag_stays {sv : Server} (hwf : RegWF sv) (i : String) (k : Bytes) (ms : List Cmd)
    (hflag : AList.get? (sv.conn i).watch k = some true)
    (hms : AllSteps H (notClearedBy i) sv ms) :
    AList.get? ((run H sv ms).1.conn i).watch k = some true :=
  run_flag_sticky H i k ms sv hwf hflag hms

/-- a step whose store effect has `flushed = true` (FLUSHDB / FLUSHALL ran) sets the flag of every
    registered (connection, key) pair -/
theorem flush_aborts {sv : Server} (hwf : RegWF sv) (m : Cmd) (hfl : ∃ o ∈ stepOuts H sv m, o.store.flushed = true)
    (i : String) (k : Bytes) (hreg : registered sv i k) (hc : ¬ (m.id = i ∧ clearsWatch sv m)) :
    AList.get? ((step H sv m).1.conn i).watch k = some true := by
  obtain ⟨o, ho, hk⟩ := hfl
  exact (step_keeps H hwf m i hc).hit k ⟨o, ho, Or.inr hk⟩ hreg

/-! ## soundness -/

/-
  Property text: "if some step strictly between the WATCH and the EXEC signalled k, that EXEC replies
  null and has no effect".  `exec` tests, in this order: prepared?  MultiError bit?  watch flags?
  empty queue?  So with a dirty watch every prepared transaction without a queue-time error — the
  EMPTY one included (this was a finding before the `fix:` of `exec`; the old witness is now the
  positive example `dirty_watch_empty_transaction_replies_null` below) — replies null.  A queue-time
  error replies `-EXECABORT` (as in Redis), EXEC without MULTI an error; "no effect" holds always.
-/

/-- In any schedule: connection `w.id` WATCHes k outside MULTI (`w`, served in state `sv`); `mid` are
    the commands of all connections served afterwards, among them none by which `w.id` ends its
    watches (so `e` is its first EXEC after the WATCH, and no DISCARD / running UNWATCH in between);
    some step of `mid` — by any connection, `w.id` included — signalled k.  Then the EXEC `e` of
    `w.id` has NO EFFECT (store unchanged, no closure runs), and, if the connection is in MULTI
    without a queue-time error, it replies exactly null — whatever the queue holds. -/
theorem watch_sound {sv : Server} (hwf : RegWF sv) (w e : Cmd) (mid : List Cmd) (k : Bytes)
    (hw : w.name = "WATCH") (hk : k ∈ w.args) (hacc : (sv.conn w.id).state % 2 ≠ 1)
    (hmid : AllSteps H (notClearedBy w.id) (step H sv w).1 mid)
    (hsig : SomeStep H (fun s m => stepTouches H s m k) (step H sv w).1 mid)
    (he : e.name = "EXEC") (hid : e.id = w.id) :
    let svE := (run H (step H sv w).1 mid).1
    (step H svE e).1.store = svE.store ∧ stepOuts H svE e = [] ∧
    ((svE.conn e.id).state % 2 = 1 → ((svE.conn e.id).state / 4) % 2 ≠ 1 →
      (step H svE e).2 = [Tok.nullBulk]) := by
  intro svE
  have hne : w.args ≠ [] := by intro h; rw [h] at hk; cases hk
  have hreg : registered (step H sv w).1 w.id k := (watch_registers H sv w hw hacc hne).2.2.1 k hk
  have hflag : AList.get? (svE.conn e.id).watch k = some true := by
    rw [hid]; exact run_touch_flags H w.id k mid _ (hwf.step H w) hreg hmid hsig
  have hany := not_clean_of_flag hflag
  rw [step_exec H svE e he]
  refine ⟨exec_flag_no_effect svE e.id e.now hany, ?_, ?_⟩
  · have : ¬ execRuns (svE.conn e.id) := fun h => by rw [h.2.2.2] at hany; cases hany
    simp [stepOuts, he, this]
  · intro h1 h2
    rw [exec_watch_abort svE e.id e.now h1 h2 hany]

/-- in the words of the property: the EXEC of a transaction (state "prepare", no queue-time error;
    any queue, empty or not) replies null and leaves the store unchanged -/
theorem watch_sound_null_reply {sv : Server} (hwf : RegWF sv) (w e : Cmd) (mid : List Cmd) (k : Bytes)
    (hw : w.name = "WATCH") (hk : k ∈ w.args) (hacc : (sv.conn w.id).state % 2 ≠ 1)
    (hmid : AllSteps H (notClearedBy w.id) (step H sv w).1 mid)
    (hsig : SomeStep H (fun s m => stepTouches H s m k) (step H sv w).1 mid)
    (he : e.name = "EXEC") (hid : e.id = w.id)
    (hst : ((run H (step H sv w).1 mid).1.conn e.id).state = multiPrepare) :
    (step H (run H (step H sv w).1 mid).1 e).2 = [Tok.nullBulk] ∧
    (step H (run H (step H sv w).1 mid).1 e).1.store = (run H (step H sv w).1 mid).1.store := by
  obtain ⟨a, _, c⟩ := watch_sound H hwf w e mid k hw hk hacc hmid hsig he hid
  exact ⟨c (by rw [hst]; rfl) (by rw [hst]; decide), a⟩

/-- a sufficient, purely syntactic condition for `hmid`: between its WATCH and its EXEC the
    connection sends no EXEC, DISCARD or UNWATCH -/
theorem notCleared_of_names (i : String) (sv : Server) (mid : List Cmd)
    (h : ∀ m ∈ mid, m.id = i → m.name ≠ "EXEC" ∧ m.name ≠ "DISCARD" ∧ m.name ≠ "UNWATCH") :
    AllSteps H (notClearedBy i) sv mid := by
  apply AllSteps.of_forall
  intro m hm s ⟨hi, hc⟩
  obtain ⟨a, b, c⟩ := h m hm hi
  rcases hc with hc | hc | ⟨hc, _⟩
  · exact a hc
  · exact b hc
  · exact c hc

/-- the position view of `hsig`: the schedule is `m1 ++ m :: m2` and `m`, served after `m1`, signals k -/
theorem someStep_of_split (sv : Server) (m1 m2 : List Cmd) (m : Cmd) (k : Bytes)
    (h : stepTouches H (run H sv m1).1 m k) :
    SomeStep H (fun s m => stepTouches H s m k) sv (m1 ++ m :: m2) :=
  SomeStep.of_split H m1 m m2 sv h

/-! ## no false aborts -/

/-- if no flag of connection `i` is set, and no step of the schedule `mid` (by anybody) signals a key
    that `i` watches at that moment (nor flushes while `i` watches something), then no flag is set
    when `i`'s EXEC arrives, and the EXEC of a clean non-empty transaction RUNS the queue -/
theorem no_signal_no_abort {sv : Server} (hwf : RegWF sv) (i : String) (mid : List Cmd) (e : Cmd)
    (hcl : (sv.conn i).watch.any (·.2) = false)
    (hq : AllSteps H (fun s m => ∀ x, AList.contains (s.conn i).watch x = true → ¬ stepTouches H s m x) sv mid)
    (he : e.name = "EXEC") (hid : e.id = i) :
    let svE := (run H sv mid).1
    (svE.conn i).watch.any (·.2) = false ∧
    ((svE.conn i).state = multiPrepare → (svE.conn i).queue ≠ [] →
      (step H svE e).1.store = execStore svE.store e.now (svE.conn i).queue ∧
      (step H svE e).2 = Tok.arr (svE.conn i).queue.length ::
          (execOuts svE.store e.now (svE.conn i).queue).flatMap replyOf ∧
      stepOuts H svE e = execOuts svE.store e.now (svE.conn i).queue) := by
  intro svE
  have hclean : (svE.conn i).watch.any (·.2) = false :=
    (clean_iff_any _).mp (run_keeps_clean H i mid sv hwf ((clean_iff_any _).mpr hcl) hq)
  refine ⟨hclean, ?_⟩
  intro hst hne
  subst hid
  rw [step_exec H svE e he]
  have h1 : (svE.conn e.id).state % 2 = 1 := by rw [hst]; rfl
  have h2 : ((svE.conn e.id).state / 4) % 2 ≠ 1 := by rw [hst]; decide
  obtain ⟨a, b⟩ := exec_runs svE e.id e.now h1 h2 hne hclean
  refine ⟨a, b, ?_⟩
  have : execRuns (svE.conn e.id) := ⟨h1, h2, hne, hclean⟩
  simp [stepOuts, he, this]

/-! ## watches end -/

/-- after EXEC, DISCARD or a running UNWATCH of connection `c.id` its watch map is empty and it is in
    no registry list; whatever is signalled afterwards (`mid`: any commands of any connections, none
    of them a WATCH by `c.id`) its watch map stays empty, so its next transaction cannot be aborted
    by a watch: the EXEC of a clean non-empty transaction runs the queue -/
theorem watch_ends {sv : Server} (hwf : RegWF sv) (c : Cmd) (hc : clearsWatch sv c) (mid : List Cmd) (e : Cmd)
    (hmid : ∀ m ∈ mid, ¬ (m.id = c.id ∧ m.name = "WATCH")) (he : e.name = "EXEC") (hid : e.id = c.id) :
    let sv1 := (step H sv c).1
    let svE := (run H sv1 mid).1
    (sv1.conn c.id).watch = [] ∧ (∀ x, ¬ registered sv1 c.id x) ∧
    (svE.conn c.id).watch = [] ∧ (∀ x, ¬ registered svE c.id x) ∧
    ((svE.conn c.id).state = multiPrepare → (svE.conn c.id).queue ≠ [] →
      (step H svE e).1.store = execStore svE.store e.now (svE.conn c.id).queue ∧
      (step H svE e).2 = Tok.arr (svE.conn c.id).queue.length ::
          (execOuts svE.store e.now (svE.conn c.id).queue).flatMap replyOf) := by
  intro sv1 svE
  have hwf1 : RegWF sv1 := hwf.step H c
  have hwfE : RegWF svE := RegWF.run H mid hwf1
  have h1 : (sv1.conn c.id).watch = [] := step_own_clears H hwf c hc
  have hE : (svE.conn c.id).watch = [] := run_keeps_unwatched H c.id mid sv1 hwf1 h1 hmid
  have unreg : ∀ (s : Server), RegWF s → (s.conn c.id).watch = [] → ∀ x, ¬ registered s c.id x := by
    intro s hs hw x hr
    have := hs.has c.id x hr
    rw [hw] at this
    simp [AList.contains, AList.get?] at this
  refine ⟨h1, unreg sv1 hwf1 h1, hE, unreg svE hwfE hE, ?_⟩
  intro hst hne
  rw [step_exec H svE e he, hid]
  exact exec_runs svE c.id e.now (by rw [hst]; rfl) (by rw [hst]; decide) hne (by rw [hE]; rfl)

/-- an UNWATCH inside MULTI is only queued: it does not end the watches before EXEC (and EXEC's own
    reset ends them anyway) -/
theorem unwatch_inside_multi (sv : Server) (c : Cmd) (hn : c.name = "UNWATCH") (hst : (sv.conn c.id).state % 2 = 1) :
    (step H sv c).2 = [queuedTok] ∧ ((step H sv c).1.conn c.id).watch = (sv.conn c.id).watch ∧
    (step H sv c).1.registry = sv.registry := by
  have hr : ¬ runsNow (sv.conn c.id).state := by unfold runsNow multiCommit; omega
  simp only [step, dispatch_unwatch H sv c hn, if_neg hr, execCommand_eq, afterHandler_watch, afterHandler_registry,
    conn_setConn_same, if_pos hst]
  simp


/-! ## from "signalled" to "changed"

  `C09Writers.changed s s' k`: the logical content of the index record named k differs between s and
  s' — existence, liveness bit, deadline, record identity (`kid`: a re-created record), or value
  (a cold record becoming hot by a load is NOT a change).
  `TableSignals H`: every closure `H` hands to `execCommand`, started on a Pebble-backed store with an
  empty `signalled` list, leaves every key it changed in `signalled` (or sets `flushed`).  It is the
  explicit well-formedness predicate of the handler table for C09; it is discharged command by command
  from the `writers_signal_*` table below (`Proofs/C09Table1*.lean`, `C09Table2*.lean`, `C09Table3.lean`).
-/

/-- soundness in the words of the property: if the logical content of a WATCHed key k was CHANGED by
    some step — of any client — between the WATCH and the EXEC, the EXEC has no effect and (transaction
    without queue-time error) replies null -/
theorem watch_sound_changed {H : Table} (hH : TableSignals H) {sv : Server} (hwf : RegWF sv) (hq : QueuesSignal sv)
    (hp : sv.store.pebble = true) (w e : Cmd) (mid : List Cmd) (k : Bytes)
    (hw : w.name = "WATCH") (hk : k ∈ w.args) (hacc : (sv.conn w.id).state % 2 ≠ 1)
    (hmid : AllSteps H (notClearedBy w.id) (step H sv w).1 mid)
    (hch : SomeStep H (fun s m => Proofs.C09Writers.changed s.store (step H s m).1.store k) (step H sv w).1 mid)
    (he : e.name = "EXEC") (hid : e.id = w.id) :
    let svE := (run H (step H sv w).1 mid).1
    (step H svE e).1.store = svE.store ∧ stepOuts H svE e = [] ∧
    ((svE.conn e.id).state % 2 = 1 → ((svE.conn e.id).state / 4) % 2 ≠ 1 →
      (step H svE e).2 = [Tok.nullBulk]) :=
  watch_sound H hwf w e mid k hw hk hacc hmid
    (someStep_changed_touches hH k mid _ (SigInv.step hH ⟨hq, hp⟩ w) hch) he hid

/-- the invariants used by `watch_sound_changed` hold initially and along every schedule -/
theorem sigInv_reachable {H : Table} (hH : TableSignals H) (st : MState) (hp : st.pebble = true) (cs : List Cmd) :
    QueuesSignal (run H { store := st } cs).1 ∧ (run H { store := st } cs).1.store.pebble = true :=
  SigInv.run hH cs ⟨QueuesSignal.init st, hp⟩

/-! ### the server's complete dispatch: `fullTable = Driver.lookup [table1, table2, table3, table4]`

  (connection / keyspace / strings; lists / hashes / sets; sorted sets and the *SCAN commands —
  `Main.tables`).  FULL STATEMENT `TableSignals fullTable` is FALSE / not fully proved; the exact
  status, command by command:
  * FALSE, genuine finding (`table_signals_finding`): `DECRBY k -9223372036854775808` on a missing key
    creates k (the empty string), fails with the overflow error and signals nothing.
  * FALSE only on stores holding an EXISTING EMPTY sorted set (`T3.signals_zRem_region_witness` …):
    ZREM / ZREMRANGEBYRANK / ZREMRANGEBYSCORE unlink such a record without signalling.  Since the
    repairs of ZADD LT|GT and ZUNIONSTORE no API call sequence is known that produces such a record
    (data-structure lemmas `zAdd_nonempty` …, bounded search of 9.3 million states: none), but no
    reachability invariant is proved, and `TableSignals` quantifies over all stores — so the three
    commands are excluded from the table-level theorem and covered by `table3_tells_partial` below
    (store-relative region).
  * NOT PROVED: SCAN with a TYPE option (it loads cold records; needs an index invariant).
  * NOT PROVED: SAVE (`Store.flush` rewrites the persistence bookkeeping of every record; that it leaves the
    logical content alone is C11 / C12's subject, not shown again here).
  * (GEOADD with NX / XX as argument 1 would build a closure around `GeoAddNX`, which creates the key without
    signalling - FINDINGS.md D-8; `geoadd_option_words_never_run` shows the handler never gets that far, so
    nothing is excluded there.)
  * everything else — all other 110-odd commands and option combinations of the four tables, GEOADD and the
    GEO reads included (`table4_signals`) — signals every key it changes: `fullSafe_signals`.
-/

/-- the complete dispatch minus the excluded region satisfies the well-formedness predicate -/
theorem fullSafe_signals : TableSignals fullSafe := Proofs.C08Step.fullSafe_signals

/-- … and outside the excluded region it IS the server's dispatch -/
theorem fullSafe_is_fullTable (name : String) (args : List Bytes) (h : ¬ excluded name args) :
    fullSafe name args = fullTable name args := fullSafe_eq name args h

/-- per family table, outside the regions -/
theorem table1_signals_partial (name : String) (args : List Bytes) (b : Body)
    (h : Handler.table1 name args = some (.exec b)) (hreg : name = "DECRBY" → decrByMin true args = false)
    (hsc : ¬ scanTyped name args) : SignalsChanges b := table1_signals_region name args b h hreg hsc

theorem table2_signals : TableSignals Handler2.table2 := Proofs.C08Step.table2_signals

theorem table3_signals_partial (name : String) (args : List Bytes) (b : Body)
    (h : Handler3.table3 name args = some (.exec b)) (hn : name ∉ T3.zRemNames) : SignalsChanges b :=
  T3.table3_signals_partial name args b h hn

/-- the ZREM family on every store in which the key does not hold an existing empty sorted set -/
theorem table3_tells_partial (name : String) (args : List Bytes) (b : Body)
    (h : Handler3.table3 name args = some (.exec b)) (st : MState) (now : Int) (ch : Choice)
    (hp : st.pebble = true) (hsig : st.signalled = [])
    (hreg : name ∈ T3.zRemNames → T3.zRemRegion st now args = false) : TellsChanges st (b st now ch) :=
  T3.table3_tells_region name args b h st now ch hp hsig hreg

/-- witness of the DECRBY finding, and the consequence for the table -/
theorem table_signals_finding :
    (∃ b, Handler.incrDecrBy true decrByMinArgs = .exec b ∧
      let st : MState := { pebble := true }
      let o := b st 0 none
      Proofs.C09Writers.changed st o.store [107] ∧ [107] ∉ o.store.signalled ∧ o.store.flushed = false) ∧
    ¬ TableSignals Handler.table1 :=
  ⟨signals_incrDecrBy_finding, table1_signals_false⟩

/-- soundness for the server's dispatch, in the words of the property, from a fresh server on any
    Pebble-backed store: `pre` is any history; connection `w.id` WATCHes k; if afterwards ANY command of
    ANY connection (outside the excluded region) CHANGES the logical content of k before `w.id`'s next
    EXEC, that EXEC has no effect, and replies null (transaction without queue-time error, any queue) -/
theorem watch_sound_full (st : MState) (hp : st.pebble = true) (pre mid : List Cmd) (w e : Cmd) (k : Bytes)
    (hw : w.name = "WATCH") (hk : k ∈ w.args)
    (hacc : ((run fullSafe { store := st } pre).1.conn w.id).state % 2 ≠ 1)
    (hmid : ∀ m ∈ mid, m.id = w.id → m.name ≠ "EXEC" ∧ m.name ≠ "DISCARD" ∧ m.name ≠ "UNWATCH")
    (hch : SomeStep fullSafe (fun s m => Proofs.C09Writers.changed s.store (step fullSafe s m).1.store k)
      (step fullSafe (run fullSafe { store := st } pre).1 w).1 mid)
    (he : e.name = "EXEC") (hid : e.id = w.id) :
    let svE := (run fullSafe { store := st } (pre ++ w :: mid)).1
    (step fullSafe svE e).1.store = svE.store ∧
    ((svE.conn e.id).state = multiPrepare → (step fullSafe svE e).2 = [Tok.nullBulk]) := by
  intro svE
  have hinv := sigInv_reachable fullSafe_signals st hp pre
  have hwf : RegWF (run fullSafe { store := st } pre).1 := RegWF.run fullSafe pre (RegWF.init st)
  have e1 : svE = (run fullSafe (step fullSafe (run fullSafe { store := st } pre).1 w).1 mid).1 := by
    simp only [svE, run_append, run_cons]
  obtain ⟨a, _, c⟩ := watch_sound_changed fullSafe_signals hwf hinv.1 hinv.2 w e mid k hw hk hacc
    (notCleared_of_names fullSafe w.id _ mid hmid) hch he hid
  rw [← e1] at a c
  exact ⟨a, fun h1 => c (by rw [h1]; rfl) (by rw [h1]; decide)⟩

/-! ## the API side: writers signal

  One theorem per exported write method of *Nodis: whenever the call changes the logical content of
  ANY key k (its own keys and all others), k is in `signalled` afterwards.  Pebble backend
  (`hypothesis_pebble_is_necessary`: with the in-memory backend `setVal` rewrites every record that
  shares the value object).  After the repairs of ZADD LT|GT and Z*STORE those hold at full strength.
  Still FALSE as stated, given as `_partial` (outside an explicit decidable region) + witness:
  * addInt (DECRBY -2^63 on a missing key) and setRange (offset MaxInt64, embedded API only):
    genuine `_finding`s, reachable from the empty store;
  * zrem, zremRangeByRank, zremRangeByScore on an existing EMPTY sorted set: `_region_witness` on a
    hand-written store that is not known to be reachable any more (see above).
-/
section Writers
open NodisVerif.Store NodisVerif.Api NodisVerif.Proofs.C09Writers

theorem writers_signal_set (s : MState) (hp : s.pebble = true) (now : Int) (key value : Bytes) (keepTTL : Bool) (k : Bytes) :
    changed s (Api.set s now key value keepTTL).1 k → k ∈ (Api.set s now key value keepTTL).1.signalled :=
  Proofs.C09Writers.writers_signal_set s hp now key value keepTTL k

theorem writers_signal_setOpt (s : MState) (hp : s.pebble = true) (now : Int) (key : Bytes) (value : DsStr.S) (keepTTL : Bool) (k : Bytes) :
    changed s (Api.setOpt s now key value keepTTL).1 k → k ∈ (Api.setOpt s now key value keepTTL).1.signalled :=
  Proofs.C09Writers.writers_signal_setOpt s hp now key value keepTTL k

theorem writers_signal_setNX (s : MState) (hp : s.pebble = true) (now : Int) (key value : Bytes) (keepTTL : Bool) (k : Bytes) :
    changed s (Api.setNX s now key value keepTTL).1 k → k ∈ (Api.setNX s now key value keepTTL).1.signalled :=
  Proofs.C09Writers.writers_signal_setNX s hp now key value keepTTL k

theorem writers_signal_setXX (s : MState) (hp : s.pebble = true) (now : Int) (key value : Bytes) (keepTTL : Bool) (k : Bytes) :
    changed s (Api.setXX s now key value keepTTL).1 k → k ∈ (Api.setXX s now key value keepTTL).1.signalled :=
  Proofs.C09Writers.writers_signal_setXX s hp now key value keepTTL k

theorem writers_signal_getSet (s : MState) (hp : s.pebble = true) (now : Int) (key value : Bytes) (k : Bytes) :
    changed s (Api.getSet s now key value).1 k → k ∈ (Api.getSet s now key value).1.signalled :=
  Proofs.C09Writers.writers_signal_getSet s hp now key value k

theorem writers_signal_setEX (s : MState) (hp : s.pebble = true) (now : Int) (key value : Bytes) (seconds : Int) (k : Bytes) :
    changed s (Api.setEX s now key value seconds).1 k → k ∈ (Api.setEX s now key value seconds).1.signalled :=
  Proofs.C09Writers.writers_signal_setEX s hp now key value seconds k

theorem writers_signal_setPX (s : MState) (hp : s.pebble = true) (now : Int) (key value : Bytes) (ms : Int) (k : Bytes) :
    changed s (Api.setPX s now key value ms).1 k → k ∈ (Api.setPX s now key value ms).1.signalled :=
  Proofs.C09Writers.writers_signal_setPX s hp now key value ms k

theorem writers_signal_append (s : MState) (hp : s.pebble = true) (now : Int) (key value : Bytes) (k : Bytes) :
    changed s (Api.append s now key value).1 k → k ∈ (Api.append s now key value).1.signalled :=
  Proofs.C09Writers.writers_signal_append s hp now key value k

theorem writers_signal_setBit (s : MState) (hp : s.pebble = true) (now : Int) (key : Bytes) (offset : Int) (value : Bool) (k : Bytes) :
    changed s (Api.setBit s now key offset value).1 k → k ∈ (Api.setBit s now key offset value).1.signalled :=
  Proofs.C09Writers.writers_signal_setBit s hp now key offset value k

theorem writers_signal_mset (s : MState) (hp : s.pebble = true) (now : Int) (pairs : List Bytes) (k : Bytes) :
    changed s (Api.mset s now pairs).1 k → k ∈ (Api.mset s now pairs).1.signalled :=
  Proofs.C09Writers.writers_signal_mset s hp now pairs k

/-- INCR/INCRBY/DECR/DECRBY outside the finding region (see `writers_signal_addInt_finding`): the key is
    live, or the sum on the freshly created empty string stays inside int64 -/
theorem writers_signal_addInt_partial (s : MState) (hp : s.pebble = true) (now : Int) (key : Bytes) (delta : Int) (neg sw : Bool) (hreg : live s now key = true ∨ inInt64 (if neg then -delta else delta) = true) (k : Bytes) :
    changed s (Api.addInt s now key delta neg sw).1 k → k ∈ (Api.addInt s now key delta neg sw).1.signalled :=
  Proofs.C09Writers.writers_signal_addInt_partial s hp now key delta neg sw hreg k

/-- witness: `DecrBy(k, math.MinInt64)` on a missing key: the record is created (an empty string now
    exists under `k`), the overflow error is returned, nothing is signalled -/
theorem writers_signal_addInt_finding :
    let s : MState := { pebble := true }
    let s' := (Api.addInt s 0 [107] int64Min true).1
    changed s s' [107] ∧ [107] ∉ s'.signalled :=
  Proofs.C09Writers.writers_signal_addInt_finding

/-- SETRANGE outside the finding region (see `writers_signal_setRange_finding`): the key is live, or
    `SetRange` does not panic on the freshly created empty string -/
theorem writers_signal_setRange_partial (s : MState) (hp : s.pebble = true) (now : Int) (key : Bytes) (offset : Int) (value : Bytes) (hreg : live s now key = true ∨ (DsStr.setRange none offset value).isSome = true) (k : Bytes) :
    changed s (Api.setRange s now key offset value).1 k → k ∈ (Api.setRange s now key offset value).1.signalled :=
  Proofs.C09Writers.writers_signal_setRange_partial s hp now key offset value hreg k

/-- witness (embedded API; the RESP handler rejects such offsets): `SetRange(k, math.MaxInt64, "x")` on a
    missing key: the record is created, `offset+len` wraps negative, `s.V[offset:]` panics (slice bounds),
    nothing is signalled -/
theorem writers_signal_setRange_finding :
    let s : MState := { pebble := true }
    let s' := (Api.setRange s 0 [107] 9223372036854775807 [120]).1
    changed s s' [107] ∧ [107] ∉ s'.signalled :=
  Proofs.C09Writers.writers_signal_setRange_finding

theorem writers_signal_del (s : MState) (hp : s.pebble = true) (now : Int) (keys : List Bytes) (k : Bytes) :
    changed s (Api.del s now keys).1 k → k ∈ (Api.del s now keys).1.signalled :=
  Proofs.C09Writers.writers_signal_del s hp now keys k

theorem writers_signal_expire (s : MState) (hp : s.pebble = true) (now : Int) (key : Bytes) (seconds : Int) (k : Bytes) :
    changed s (Api.expire s now key seconds).1 k → k ∈ (Api.expire s now key seconds).1.signalled :=
  Proofs.C09Writers.writers_signal_expire s hp now key seconds k

theorem writers_signal_expirePX (s : MState) (hp : s.pebble = true) (now : Int) (key : Bytes) (ms : Int) (k : Bytes) :
    changed s (Api.expirePX s now key ms).1 k → k ∈ (Api.expirePX s now key ms).1.signalled :=
  Proofs.C09Writers.writers_signal_expirePX s hp now key ms k

theorem writers_signal_expireNX (s : MState) (hp : s.pebble = true) (now : Int) (key : Bytes) (seconds : Int) (k : Bytes) :
    changed s (Api.expireNX s now key seconds).1 k → k ∈ (Api.expireNX s now key seconds).1.signalled :=
  Proofs.C09Writers.writers_signal_expireNX s hp now key seconds k

theorem writers_signal_expireXX (s : MState) (hp : s.pebble = true) (now : Int) (key : Bytes) (seconds : Int) (k : Bytes) :
    changed s (Api.expireXX s now key seconds).1 k → k ∈ (Api.expireXX s now key seconds).1.signalled :=
  Proofs.C09Writers.writers_signal_expireXX s hp now key seconds k

theorem writers_signal_expireLT (s : MState) (hp : s.pebble = true) (now : Int) (key : Bytes) (seconds : Int) (k : Bytes) :
    changed s (Api.expireLT s now key seconds).1 k → k ∈ (Api.expireLT s now key seconds).1.signalled :=
  Proofs.C09Writers.writers_signal_expireLT s hp now key seconds k

theorem writers_signal_expireGT (s : MState) (hp : s.pebble = true) (now : Int) (key : Bytes) (seconds : Int) (k : Bytes) :
    changed s (Api.expireGT s now key seconds).1 k → k ∈ (Api.expireGT s now key seconds).1.signalled :=
  Proofs.C09Writers.writers_signal_expireGT s hp now key seconds k

theorem writers_signal_expireAt (s : MState) (hp : s.pebble = true) (now : Int) (key : Bytes) (ts : Int) (k : Bytes) :
    changed s (Api.expireAt s now key ts).1 k → k ∈ (Api.expireAt s now key ts).1.signalled :=
  Proofs.C09Writers.writers_signal_expireAt s hp now key ts k

theorem writers_signal_expireAtNX (s : MState) (hp : s.pebble = true) (now : Int) (key : Bytes) (ts : Int) (k : Bytes) :
    changed s (Api.expireAtNX s now key ts).1 k → k ∈ (Api.expireAtNX s now key ts).1.signalled :=
  Proofs.C09Writers.writers_signal_expireAtNX s hp now key ts k

theorem writers_signal_expireAtXX (s : MState) (hp : s.pebble = true) (now : Int) (key : Bytes) (ts : Int) (k : Bytes) :
    changed s (Api.expireAtXX s now key ts).1 k → k ∈ (Api.expireAtXX s now key ts).1.signalled :=
  Proofs.C09Writers.writers_signal_expireAtXX s hp now key ts k

theorem writers_signal_expireAtLT (s : MState) (hp : s.pebble = true) (now : Int) (key : Bytes) (ts : Int) (k : Bytes) :
    changed s (Api.expireAtLT s now key ts).1 k → k ∈ (Api.expireAtLT s now key ts).1.signalled :=
  Proofs.C09Writers.writers_signal_expireAtLT s hp now key ts k

theorem writers_signal_expireAtGT (s : MState) (hp : s.pebble = true) (now : Int) (key : Bytes) (ts : Int) (k : Bytes) :
    changed s (Api.expireAtGT s now key ts).1 k → k ∈ (Api.expireAtGT s now key ts).1.signalled :=
  Proofs.C09Writers.writers_signal_expireAtGT s hp now key ts k

theorem writers_signal_persist (s : MState) (hp : s.pebble = true) (now : Int) (key : Bytes) (k : Bytes) :
    changed s (Api.persist s now key).1 k → k ∈ (Api.persist s now key).1.signalled :=
  Proofs.C09Writers.writers_signal_persist s hp now key k

theorem writers_signal_rename (s : MState) (hp : s.pebble = true) (now : Int) (key dst : Bytes) (k : Bytes) :
    changed s (Api.rename s now key dst).1 k → k ∈ (Api.rename s now key dst).1.signalled :=
  Proofs.C09Writers.writers_signal_rename s hp now key dst k

theorem writers_signal_renameNX (s : MState) (hp : s.pebble = true) (now : Int) (key dst : Bytes) (k : Bytes) :
    changed s (Api.renameNX s now key dst).1 k → k ∈ (Api.renameNX s now key dst).1.signalled :=
  Proofs.C09Writers.writers_signal_renameNX s hp now key dst k

theorem writers_signal_push (s : MState) (hp : s.pebble = true) (now : Int) (left : Bool) (key : Bytes) (values : List Bytes) (k : Bytes) :
    changed s (Api.push left s now key values).1 k → k ∈ (Api.push left s now key values).1.signalled :=
  Proofs.C09Writers.writers_signal_push s hp now left key values k

theorem writers_signal_pop (s : MState) (hp : s.pebble = true) (now : Int) (left : Bool) (key : Bytes) (count : Int) (k : Bytes) :
    changed s (Api.pop left s now key count).1 k → k ∈ (Api.pop left s now key count).1.signalled :=
  Proofs.C09Writers.writers_signal_pop s hp now left key count k

theorem writers_signal_pushX (s : MState) (hp : s.pebble = true) (now : Int) (left : Bool) (key data : Bytes) (k : Bytes) :
    changed s (Api.pushX left s now key data).1 k → k ∈ (Api.pushX left s now key data).1.signalled :=
  Proofs.C09Writers.writers_signal_pushX s hp now left key data k

theorem writers_signal_linsert (s : MState) (hp : s.pebble = true) (now : Int) (key pivot data : Bytes) (before : Bool) (k : Bytes) :
    changed s (Api.linsert s now key pivot data before).1 k → k ∈ (Api.linsert s now key pivot data before).1.signalled :=
  Proofs.C09Writers.writers_signal_linsert s hp now key pivot data before k

theorem writers_signal_lrem (s : MState) (hp : s.pebble = true) (now : Int) (key data : Bytes) (count : Int) (k : Bytes) :
    changed s (Api.lrem s now key data count).1 k → k ∈ (Api.lrem s now key data count).1.signalled :=
  Proofs.C09Writers.writers_signal_lrem s hp now key data count k

theorem writers_signal_lset (s : MState) (hp : s.pebble = true) (now : Int) (key : Bytes) (index : Int) (data : Bytes) (k : Bytes) :
    changed s (Api.lset s now key index data).1 k → k ∈ (Api.lset s now key index data).1.signalled :=
  Proofs.C09Writers.writers_signal_lset s hp now key index data k

theorem writers_signal_ltrim (s : MState) (hp : s.pebble = true) (now : Int) (key : Bytes) (start stop : Int) (k : Bytes) :
    changed s (Api.ltrim s now key start stop).1 k → k ∈ (Api.ltrim s now key start stop).1.signalled :=
  Proofs.C09Writers.writers_signal_ltrim s hp now key start stop k

theorem writers_signal_rotate (s : MState) (hp : s.pebble = true) (now : Int) (left : Bool) (src dst : Bytes) (k : Bytes) :
    changed s (Api.rotate left s now src dst).1 k → k ∈ (Api.rotate left s now src dst).1.signalled :=
  Proofs.C09Writers.writers_signal_rotate s hp now left src dst k

theorem writers_signal_hset (s : MState) (hp : s.pebble = true) (now : Int) (key field value : Bytes) (k : Bytes) :
    changed s (Api.hset s now key field value).1 k → k ∈ (Api.hset s now key field value).1.signalled :=
  Proofs.C09Writers.writers_signal_hset s hp now key field value k

theorem writers_signal_hdel (s : MState) (hp : s.pebble = true) (now : Int) (key : Bytes) (fields : List Bytes) (k : Bytes) :
    changed s (Api.hdel s now key fields).1 k → k ∈ (Api.hdel s now key fields).1.signalled :=
  Proofs.C09Writers.writers_signal_hdel s hp now key fields k

theorem writers_signal_hincrby (s : MState) (hp : s.pebble = true) (now : Int) (key field : Bytes) (delta : Int) (k : Bytes) :
    changed s (Api.hincrby s now key field delta).1 k → k ∈ (Api.hincrby s now key field delta).1.signalled :=
  Proofs.C09Writers.writers_signal_hincrby s hp now key field delta k

theorem writers_signal_hsetnx (s : MState) (hp : s.pebble = true) (now : Int) (key field value : Bytes) (k : Bytes) :
    changed s (Api.hsetnx s now key field value).1 k → k ∈ (Api.hsetnx s now key field value).1.signalled :=
  Proofs.C09Writers.writers_signal_hsetnx s hp now key field value k

theorem writers_signal_hmset (s : MState) (hp : s.pebble = true) (now : Int) (key : Bytes) (pairs : List (Bytes × Bytes)) (k : Bytes) :
    changed s (Api.hmset s now key pairs).1 k → k ∈ (Api.hmset s now key pairs).1.signalled :=
  Proofs.C09Writers.writers_signal_hmset s hp now key pairs k

theorem writers_signal_sadd (s : MState) (hp : s.pebble = true) (now : Int) (key : Bytes) (members : List Bytes) (k : Bytes) :
    changed s (Api.sadd s now key members).1 k → k ∈ (Api.sadd s now key members).1.signalled :=
  Proofs.C09Writers.writers_signal_sadd s hp now key members k

theorem writers_signal_srem (s : MState) (hp : s.pebble = true) (now : Int) (key : Bytes) (members : List Bytes) (k : Bytes) :
    changed s (Api.srem s now key members).1 k → k ∈ (Api.srem s now key members).1.signalled :=
  Proofs.C09Writers.writers_signal_srem s hp now key members k

theorem writers_signal_spop (s : MState) (hp : s.pebble = true) (now : Int) (key : Bytes) (count : Int) (choice : List Bytes) (k : Bytes) :
    changed s (Api.spop s now key count choice).1 k → k ∈ (Api.spop s now key count choice).1.signalled :=
  Proofs.C09Writers.writers_signal_spop s hp now key count choice k

theorem writers_signal_smove (s : MState) (hp : s.pebble = true) (now : Int) (src dst member : Bytes) (k : Bytes) :
    changed s (Api.smove s now src dst member).1 k → k ∈ (Api.smove s now src dst member).1.signalled :=
  Proofs.C09Writers.writers_signal_smove s hp now src dst member k

/-- S*STORE over any read-only set operation -/
theorem writers_signal_sstore (op : MState → Int → List Bytes → R) (hop : ReadOnly op) (s : MState) (hp : s.pebble = true) (now : Int) (dst : Bytes) (keys : List Bytes) (k : Bytes) :
    changed s (Api.sstore op s now dst keys).1 k → k ∈ (Api.sstore op s now dst keys).1.signalled :=
  Proofs.C09Writers.writers_signal_sstore op hop s hp now dst keys k

theorem writers_signal_sdiffstore (s : MState) (hp : s.pebble = true) (now : Int) (dst : Bytes) (keys : List Bytes) (k : Bytes) :
    changed s (Api.sstore Api.sdiff s now dst keys).1 k → k ∈ (Api.sstore Api.sdiff s now dst keys).1.signalled :=
  Proofs.C09Writers.writers_signal_sdiffstore s hp now dst keys k

theorem writers_signal_sinterstore (s : MState) (hp : s.pebble = true) (now : Int) (dst : Bytes) (keys : List Bytes) (k : Bytes) :
    changed s (Api.sstore Api.sinter s now dst keys).1 k → k ∈ (Api.sstore Api.sinter s now dst keys).1.signalled :=
  Proofs.C09Writers.writers_signal_sinterstore s hp now dst keys k

theorem writers_signal_sunionstore (s : MState) (hp : s.pebble = true) (now : Int) (dst : Bytes) (keys : List Bytes) (k : Bytes) :
    changed s (Api.sstore Api.sunion s now dst keys).1 k → k ∈ (Api.sstore Api.sunion s now dst keys).1.signalled :=
  Proofs.C09Writers.writers_signal_sunionstore s hp now dst keys k

theorem writers_signal_zaddWith (f : ZSet → Bytes → F64 → ZSet × Int) (s : MState) (hp : s.pebble = true) (now : Int) (key m : Bytes) (sc : F64) (k : Bytes) :
    changed s (Api.zaddWith f s now key m sc).1 k → k ∈ (Api.zaddWith f s now key m sc).1.signalled :=
  Proofs.C09Writers.writers_signal_zaddWith f s hp now key m sc k

theorem writers_signal_zadd (s : MState) (hp : s.pebble = true) (now : Int) (key m : Bytes) (sc : F64) (k : Bytes) :
    changed s (Api.zadd s now key m sc).1 k → k ∈ (Api.zadd s now key m sc).1.signalled :=
  Proofs.C09Writers.writers_signal_zadd s hp now key m sc k

theorem writers_signal_zaddNX (s : MState) (hp : s.pebble = true) (now : Int) (key m : Bytes) (sc : F64) (k : Bytes) :
    changed s (Api.zaddNX s now key m sc).1 k → k ∈ (Api.zaddNX s now key m sc).1.signalled :=
  Proofs.C09Writers.writers_signal_zaddNX s hp now key m sc k

theorem writers_signal_zaddXX (s : MState) (hp : s.pebble = true) (now : Int) (key m : Bytes) (sc : F64) (k : Bytes) :
    changed s (Api.zaddXX s now key m sc).1 k → k ∈ (Api.zaddXX s now key m sc).1.signalled :=
  Proofs.C09Writers.writers_signal_zaddXX s hp now key m sc k

/-- ZADD LT|GT (any comparison update `f`), full strength: no region (the call no longer creates keys) -/
theorem writers_signal_zaddCmp (f : ZSet → Bytes → F64 → ZSet × Bool) (s : MState) (hp : s.pebble = true) (now : Int) (key m : Bytes) (sc : F64) (k : Bytes) :
    changed s (Api.zaddCmp f s now key m sc).1 k → k ∈ (Api.zaddCmp f s now key m sc).1.signalled :=
  Proofs.C09Writers.writers_signal_zaddCmp f s hp now key m sc k

theorem writers_signal_zaddLT (s : MState) (hp : s.pebble = true) (now : Int) (key m : Bytes) (sc : F64) (k : Bytes) :
    changed s (Api.zaddLT s now key m sc).1 k → k ∈ (Api.zaddLT s now key m sc).1.signalled :=
  Proofs.C09Writers.writers_signal_zaddLT s hp now key m sc k

theorem writers_signal_zaddGT (s : MState) (hp : s.pebble = true) (now : Int) (key m : Bytes) (sc : F64) (k : Bytes) :
    changed s (Api.zaddGT s now key m sc).1 k → k ∈ (Api.zaddGT s now key m sc).1.signalled :=
  Proofs.C09Writers.writers_signal_zaddGT s hp now key m sc k

theorem writers_signal_zincrby (s : MState) (hp : s.pebble = true) (now : Int) (key m : Bytes) (delta : F64) (k : Bytes) :
    changed s (Api.zincrby s now key m delta).1 k → k ∈ (Api.zincrby s now key m delta).1.signalled :=
  Proofs.C09Writers.writers_signal_zincrby s hp now key m delta k

/-- ZREM outside the region: the key does not hold an existing empty sorted set -/
theorem writers_signal_zrem_partial (s : MState) (hp : s.pebble = true) (now : Int) (key : Bytes) (members : List Bytes) (hreg : holdsEmptyZSet s now key = false) (k : Bytes) :
    changed s (Api.zrem s now key members).1 k → k ∈ (Api.zrem s now key members).1.signalled :=
  Proofs.C09Writers.writers_signal_zrem_partial s hp now key members hreg k

theorem writers_signal_zremRangeByRank_partial (s : MState) (hp : s.pebble = true) (now : Int) (key : Bytes) (start stop : Int) (hreg : holdsEmptyZSet s now key = false) (k : Bytes) :
    changed s (Api.zremRangeByRank s now key start stop).1 k → k ∈ (Api.zremRangeByRank s now key start stop).1.signalled :=
  Proofs.C09Writers.writers_signal_zremRangeByRank_partial s hp now key start stop hreg k

theorem writers_signal_zremRangeByScore_partial (s : MState) (hp : s.pebble = true) (now : Int) (key : Bytes) (min max : F64) (mode : Int) (hreg : holdsEmptyZSet s now key = false) (k : Bytes) :
    changed s (Api.zremRangeByScore s now key min max mode).1 k → k ∈ (Api.zremRangeByScore s now key min max mode).1.signalled :=
  Proofs.C09Writers.writers_signal_zremRangeByScore_partial s hp now key min max mode hreg k

/-- the hypothesis of the three `_partial` theorems is necessary (on a possibly unreachable state): on
    `emptyZSetStore` ZREM / ZREMRANGEBYRANK / ZREMRANGEBYSCORE remove nothing, unlink the record, and signal
    nothing. These are NOT findings against the implementation unless the state is shown reachable. -/
theorem writers_signal_zrem_region_witness :
    let s' := (Api.zrem emptyZSetStore 0 [107] [[109]]).1
    changed emptyZSetStore s' [107] ∧ [107] ∉ s'.signalled :=
  Proofs.C09Writers.writers_signal_zrem_region_witness

theorem writers_signal_zremRangeByRank_region_witness :
    let s' := (Api.zremRangeByRank emptyZSetStore 0 [107] 0 (-1)).1
    changed emptyZSetStore s' [107] ∧ [107] ∉ s'.signalled :=
  Proofs.C09Writers.writers_signal_zremRangeByRank_region_witness

theorem writers_signal_zremRangeByScore_region_witness :
    let s' := (Api.zremRangeByScore emptyZSetStore 0 [107] 0 0 0).1
    changed emptyZSetStore s' [107] ∧ [107] ∉ s'.signalled :=
  Proofs.C09Writers.writers_signal_zremRangeByScore_region_witness

/-- Z*STORE, both flavours, full strength -/
theorem writers_signal_zstore (union : Bool) (s : MState) (hp : s.pebble = true) (now : Int) (dst : Bytes) (keys : List Bytes) (weights : List F64) (agg : Bytes) (k : Bytes) :
    changed s (Api.zstore union s now dst keys weights agg).1 k → k ∈ (Api.zstore union s now dst keys weights agg).1.signalled :=
  Proofs.C09Writers.writers_signal_zstore union s hp now dst keys weights agg k

theorem writers_signal_zinterstore (s : MState) (hp : s.pebble = true) (now : Int) (dst : Bytes) (keys : List Bytes) (weights : List F64) (agg : Bytes) (k : Bytes) :
    changed s (Api.zstore false s now dst keys weights agg).1 k → k ∈ (Api.zstore false s now dst keys weights agg).1.signalled :=
  Proofs.C09Writers.writers_signal_zinterstore s hp now dst keys weights agg k

theorem writers_signal_zunionstore (s : MState) (hp : s.pebble = true) (now : Int) (dst : Bytes) (keys : List Bytes) (weights : List F64) (agg : Bytes) (k : Bytes) :
    changed s (Api.zstore true s now dst keys weights agg).1 k → k ∈ (Api.zstore true s now dst keys weights agg).1.signalled :=
  Proofs.C09Writers.writers_signal_zunionstore s hp now dst keys weights agg k

theorem hypothesis_pebble_is_necessary :
    let s : MState := { pebble := false, index :=
      [([1], { exp := 0, value := some (.str []), state := 1, oid := 7 }),
       ([2], { exp := 0, value := some (.str []), state := 1, oid := 7 })] }
    let s' := (Api.set s 0 [1] [120] false).1
    changed s s' [2] ∧ [2] ∉ s'.signalled :=
  Proofs.C09Writers.hypothesis_pebble_is_necessary

end Writers

/-! ## the optimistic read-modify-write loop never loses an update

  Closed system (Proofs/C09IncrSys.lean): any number of connections, each running the script
      WATCH k; GET k; MULTI; SET k (v+1); EXEC      (v = the value its GET returned; retry on null)
  with closures built from `Api.get` / `Api.set` and `parseInt64` / `formatInt`; a schedule is any
  list of (connection, clock reading): who sends its next command when.  `wins` counts the EXECs
  that did not reply null.
-/
section Incr
open NodisVerif.Proofs.C09Incr

/-- whatever the interleaving: the stored counter at the end is the initial value plus the number of
    successful EXECs — no increment is lost, none is applied twice -/
theorem optimistic_increment_never_loses_update (k : Bytes) (st0 : MState) (v0 : Nat)
    (h0 : CounterIs k st0 v0) (hfl : st0.flushed = false) (sched : List (String × Int))
    (hrange : ((v0 + sched.length : Nat) : Int) ≤ int64Max) :
    let fin := sysRun k { sv := { store := st0 }, ph := fun _ => .idle, wins := 0 } sched
    CounterIs k fin.sv.store (v0 + fin.wins) := by
  intro fin
  exact (Inv.sysRun k v0 sched _ (Inv.init k v0 st0 h0 hfl) (by simpa using hrange)).cnt

/-- per transaction: in every reachable state of the system, the EXEC of a connection that read `v`
    either replies null and leaves the store unchanged, or finds the counter STILL equal to the
    value it read and leaves it at exactly v + 1 -/
theorem successful_exec_increments_by_one (k : Bytes) (st0 : MState) (v0 : Nat)
    (h0 : CounterIs k st0 v0) (hfl : st0.flushed = false) (sched : List (String × Int))
    (hrange : ((v0 + sched.length : Nat) : Int) ≤ int64Max) (i : String) (now : Int) (v : Nat) :
    let s := sysRun k { sv := { store := st0 }, ph := fun _ => .idle, wins := 0 } sched
    s.ph i = .queued v →
    let r := step scriptTable s.sv (cmdOf k i now (.queued v))
    (r.2 = [Tok.nullBulk] ∧ r.1.store = s.sv.store) ∨
    (r.2 = [Tok.arr 1, Handler.ok] ∧ CounterIs k s.sv.store v ∧ CounterIs k r.1.store (v + 1)) := by
  intro s hp r
  have hinv : Inv k v0 s := Inv.sysRun k v0 sched _ (Inv.init k v0 st0 h0 hfl) (by simpa using hrange)
  obtain ⟨hA, hB⟩ := exec_move k v0 s hinv i now v hp
  by_cases hw : (s.sv.conn i).watch.any (·.2) = true
  · exact Or.inl (hA hw)
  · obtain ⟨_, b, c, d, _⟩ := hB (by simpa using hw)
    exact Or.inr ⟨c, b, d⟩

end Incr

/-! ## non-vacuity and the finding witness -/
section Examples

def kk : Bytes := [107]

/-- two connections: a WATCHes k, b overwrites k, a's transaction is refused -/
def sched1 : List Cmd :=
  [ { id := "a", name := "WATCH", args := [kk] },
    { id := "b", name := "SET", args := [kk, [49]] },
    { id := "a", name := "MULTI" },
    { id := "a", name := "SET", args := [kk, [50]] },
    { id := "a", name := "EXEC" } ]

/-- the replies of that schedule on the real handler table: the EXEC replies null … -/
theorem interfering_set_aborts :
    (run Handler.table1 { store := { pebble := true } } sched1).2 =
      [[okTok], [okTok], [okTok], [queuedTok], [Tok.nullBulk]] := by decide +kernel

/-- … and the value b wrote survives (a GET afterwards returns it) -/
theorem interfering_set_survives :
    (run Handler.table1 { store := { pebble := true } } (sched1 ++ [{ id := "a", name := "GET", args := [kk] }])).2.getLast? =
      some [Tok.bulk [49]] := by
  decide +kernel

/-- the hypotheses of `watch_sound` hold of it: b's SET signalled k -/
example : stepTouches Handler.table1
    (run Handler.table1 { store := { pebble := true } } [{ id := "a", name := "WATCH", args := [kk] }]).1
    { id := "b", name := "SET", args := [kk, [49]] } kk := by
  unfold stepTouches; decide +kernel

/-- without the interfering SET the same transaction runs -/
theorem no_interference_runs :
    (run Handler.table1 { store := { pebble := true } }
      [ { id := "a", name := "WATCH", args := [kk] }, { id := "a", name := "MULTI" },
        { id := "a", name := "SET", args := [kk, [50]] }, { id := "a", name := "EXEC" } ]).2 =
      [[okTok], [okTok], [queuedTok], [Tok.arr 1, okTok]] := by decide +kernel

/-- (a finding before the `fix:` of `exec`, now the required behaviour) a dirty watch with an EMPTY
    transaction — WATCH k by a; SET k by b; MULTI; EXEC by a — replies null, not `*0` -/
theorem dirty_watch_empty_transaction_replies_null :
    (run Handler.table1 { store := { pebble := true } }
      [ { id := "a", name := "WATCH", args := [kk] }, { id := "b", name := "SET", args := [kk, [49]] },
        { id := "a", name := "MULTI" }, { id := "a", name := "EXEC" } ]).2 =
      [[okTok], [okTok], [okTok], [Tok.nullBulk]] := by decide +kernel

/-- FINDING (end to end, consequence of `writers_signal_addInt_finding`): connection a WATCHes the
    missing key k and sees `EXISTS k = 0`; connection b sends `DECRBY k -9223372036854775808`, which
    CREATES k (an empty string) and then fails with an overflow error (error reply) WITHOUT signalling
    k; a's transaction MULTI; EXISTS k; EXEC is NOT aborted and observes `EXISTS k = 1`: a watched
    key was created between WATCH and EXEC and the EXEC ran.  The same hole exists for every command
    in a `writers_signal_*_finding` (ZADD LT/GT on a missing key, ZUNIONSTORE with a wrong-typed
    operand, ZREM… on an empty sorted set, SetRange through the embedded API). -/
theorem watch_sound_end_to_end_finding :
    (run Handler.table1 { store := { pebble := true } }
      [ { id := "a", name := "WATCH", args := [kk] }, { id := "a", name := "EXISTS", args := [kk] },
        { id := "b", name := "DECRBY", args := [kk, [45, 57, 50, 50, 51, 51, 55, 50, 48, 51, 54, 56, 53, 52, 55, 55, 53, 56, 48, 56]] },
        { id := "a", name := "MULTI" }, { id := "a", name := "EXISTS", args := [kk] },
        { id := "a", name := "EXEC" } ]).2 =
      [[okTok], [Tok.int 0], [Handler.e], [okTok], [queuedTok], [Tok.arr 1, Tok.int 1]] := by decide +kernel

/-- (findings before the `fix:`es, now the required behaviour) a ZADD that may not add - `ZADD k XX 0 m` - on a
    missing key creates nothing, and `ZUNIONSTORE d 1 x` with a wrong-typed operand fails before the destination
    exists.
    RESTATED with the repair of A-48 (work package Z): the first command was `ZADD k LT 0 m`, stated when the
    command layer took LT / GT for "update only". Redis' LT / GT do not prevent adding, and since the repair
    `ZADD k LT 0 m` on a missing key ADDS m (`zadd_lt_gt_add_new_members` below): the old sentence is false by
    intention. What it protected - a ZADD that adds nothing leaves no empty key behind - is kept with XX, the
    one option under which a ZADD on a missing key writes nothing. -/
theorem repaired_zadd_lt_and_zunionstore_create_nothing :
    (run fullTable { store := { pebble := true } }
      [ { id := "a", name := "ZADD", args := [kk, [88, 88], [48], [109]] }, { id := "a", name := "EXISTS", args := [kk] },
        { id := "a", name := "SET", args := [[120], [49]] },
        { id := "a", name := "ZUNIONSTORE", args := [[100], [49], [120]] },
        { id := "a", name := "EXISTS", args := [[100]] } ]).2 =
      [[Tok.int 0], [Tok.int 0], [okTok], [Tok.err 1], [Tok.int 0]] := by decide +kernel

/-- (A-48 repaired) LT / GT do not prevent adding: `ZADD k LT 0 m` on a missing key adds m and creates k;
    `ZADD k GT CH 0 m 1 n` then leaves m alone (0 is not greater than 0), adds n, and CH counts it -/
theorem zadd_lt_gt_add_new_members :
    (run fullTable { store := { pebble := true } }
      [ { id := "a", name := "ZADD", args := [kk, [76, 84], [48], [109]] }, { id := "a", name := "EXISTS", args := [kk] },
        { id := "a", name := "ZADD", args := [kk, [71, 84], [67, 72], [48], [109], [49], [110]] },
        { id := "a", name := "ZCARD", args := [kk] } ]).2 =
      [[Tok.int 1], [Tok.int 1], [Tok.int 1], [Tok.int 2]] := by decide +kernel

/-- a store with a counter, for the increment theorem -/
example : Proofs.C09Incr.CounterIs kk ({ pebble := true } : MState) 0 := Or.inl ⟨rfl, rfl⟩
example : ((0 + 10 : Nat) : Int) ≤ int64Max := by decide

end Examples

/-! ## the watch check under real concurrency (the gate of Model/Gate.lean)

  The sequential theorems above treat EXEC's look at its watch flags and its queued bodies as one step.
  In the server several goroutines run; what makes that one step is `store.execMu`. Over every run of
  the gate protocol (whose steps the implementation reports and the check replays): -/
section gate
open NodisVerif.Gate

/-- From EXEC's look at the watch flags (`chk g` accepted) on, in every continuation until `g` leaves
    the gate, no watch signal and no transaction of another goroutine that serves a connection is
    accepted: a write by another client either finished - with its signal - before the check, and is
    then seen by it, or begins after the last queued body. -/
theorem no_client_write_between_check_and_bodies (pre seg : List Ev) (s s' : GState)
    (hr : Gate.run {} pre = some s) (g : G) (hc : Gate.step s (.chk g) = some s')
    (hn : Ev.gout g ∉ seg) : SegOk g s' seg := by
  have hx : s.holdsX g = true := by
    simp only [Gate.step] at hc; split at hc <;> first | assumption | cases hc
  have hs : s' = s := by simp only [Gate.step, hx, if_true] at hc; cases hc; rfl
  subst hs
  exact segment_inside_section seg s' g (inv_run pre {} s' inv_init hr) hx hn

/-- A watch signal of a goroutine that serves a connection is only accepted under the gate. -/
theorem client_signal_is_gated (es : List Ev) (s s' : GState) (_hr : Gate.run {} es = some s) (g : G)
    (hs : Gate.step s (.sig g) = some s') (hc : s.isClient g = true) : s.holds g = true := by
  simp only [Gate.step] at hs
  split at hs
  · rename_i h; simpa [GState.allowed, hc] using h
  · cases hs

/-- non-vacuity / the repaired defect: a signal from client 2 between client 1's check and its bodies
    is not a run of the protocol -/
theorem signal_inside_foreign_exec_rejected :
    Gate.run {} [.serve 1, .serve 2, .gin 1 .x, .chk 1, .sig 2] = none := by decide

end gate

/- UNPROVED: `SignalsChanges` for SCAN with a TYPE option (the scan loads cold records of unknown type;
   showing that this is no logical change needs an index invariant — live record, distinct keys — that
   `Frame` does not carry); a reachability invariant "no live empty sorted set", which would make the
   ZREM family unconditional.  Everything else in the list is proved.  Statements that are FALSE of
   the model are given as `_partial` + `_finding`: TableSignals (DECRBY -2^63), writers_signal_addInt,
   writers_signal_setRange.  Scope limit (stated hypothesis): the writers table and
   `watch_sound_changed` are for the Pebble backend (`hypothesis_pebble_is_necessary`). -/

/-! ### the commands that joined the model with `Handler4.table4` (work package D) -/

section table4
open NodisVerif.Proofs.C08Step.T4 NodisVerif.Proofs.GeoReads

/-- CLIENT, CONFIG, INFO, QUIT, GEOADD, GEOHASH, GEOPOS, GEODIST, GEORADIUS, GEORADIUSBYMEMBER: every closure
    signals every key whose logical content it changes -/
theorem table4_signals : TableSignals table4Safe := table4Safe_signals

/-- GEOADD (the API function behind the handler): whatever key's logical content changes is signalled -
    which is its own key, signalled once after the last `ZAdd` (this was a defect: `GeoAdd` changed a
    sorted set without telling the watchers; found by the regenerated `writers` table, repaired) -/
theorem geoadd_signals_its_key (s : MState) (hp : s.pebble = true) (now : Int) (key : Bytes)
    (items : List (Bytes × F64)) (k : Bytes) :
    NodisVerif.Proofs.C09Writers.changed s (Handler4.geoAdd s now key items).1 k →
      k ∈ (Handler4.geoAdd s now key items).1.signalled :=
  (frame_geoAdd s hp now key items).sound k

/-- `GEOADD key NX …` / `GEOADD key XX …` (the option word as argument 1) never reaches `execCommand`: the word
    stays in front of the items and is parsed as a longitude (FINDINGS.md D-7). So the closures around `GeoAddNX`
    / `GeoAddXX` - the former creates its key without signalling - are never built -/
theorem geoadd_option_words_never_run (args : List Bytes) (h : opt args "NX" = 1 ∨ opt args "XX" = 1) (b : Body) :
    Handler4.geoAddH args ≠ .exec b := NodisVerif.Proofs.GeoAddOpt.geoAddH_opt_not_exec args h b

example : opt [[103], Bytes.ofString "nx", [49], [50], [109]] "NX" = 1 := by decide +kernel

/-- the read commands of the GEO family never write: started as `runBody` starts every closure, they signal
    nothing, emit no change record, and leave every record logically as it was -/
theorem geo_reads_never_write (name : String) (args : List Bytes) (b : Body) (hn : name ∈ geoReads)
    (h : Handler4.table4 name args = some (.exec b)) (st : MState) (now : Int) (ch : Choice) (h0 : st.signalled = []) :
    (b st now ch).store.signalled = [] ∧ (b st now ch).store.feed = st.feed ∧
    ∀ k, NodisVerif.Proofs.C09Writers.unchanged (Store.getMeta st k) (Store.getMeta (b st now ch).store k) :=
  readOnly_effect (geoReads_readOnly name args b hn h) st now ch h0

/-- PARTIAL (SAVE is not in `table4Safe`): on a store that satisfies C11's store invariant, SAVE - the closure is
    `Store.flush` - changes no key's logical content (`Spec.Persist.lookup`: value and deadline of every name, now and
    at every later time), so there is nothing it would have to signal.  What is missing for `SignalsChanges` proper:
    that predicate quantifies over ALL Pebble stores (no invariant), and its `unchanged` is about the index record
    (identity, liveness bit), which `flush` rewrites from the copy it read at the start of the pass -/
theorem save_keeps_logical_partial (st : MState) (t now : Int) (ch : Choice)
    (h : NodisVerif.Proofs.C11.StoreInvX st none t) (ht : t ≤ now) (b : Body) (hb : Handler4.save = .exec b) :
    ∀ t', now ≤ t' → ∀ k, NodisVerif.Spec.Persist.lookup (b st now ch).store t' k = NodisVerif.Spec.Persist.lookup st t' k := by
  cases hb
  exact (NodisVerif.Proofs.C11.flush_spec h ht).1.look

/-- hypotheses satisfiable (the empty Pebble store; C11 shows the invariant is kept by every command) -/
example : NodisVerif.Proofs.C11.StoreInvX (NodisVerif.Spec.Persist.empty true) none 0 ∧ ∃ b, Handler4.save = .exec b :=
  ⟨NodisVerif.Proofs.C11.empty_inv true 0, _, rfl⟩

/-- hypotheses satisfiable: GEOPOS on a store holding a geo key -/
example : ∃ b, Handler4.table4 "GEOPOS" [[103], [109]] = some (.exec b) := ⟨_, rfl⟩
example : "GEOPOS" ∈ geoReads := by decide

end table4

/-! ### The code around the gate as a program (Model/GateProg.lean): the protocol theorems above, transferred -/
section gateprog
open NodisVerif.Gate

/-- `no_client_write_between_check_and_bodies` for the program: from a configuration in which EXEC is about to read
    its watch flags (pc e3: `conn.WatchKeys.Scan`) or to report the check (e4), in every continuation of the schedule,
    as long as `g` does not report leaving the gate, the program's trace is accepted by the protocol and every
    keyspace step in it (transaction begin / end, watch signal) is `g`'s own or an embedded caller's. -/
theorem gateprog_no_client_write_between_check_and_bodies (pre seg : List (GateProg.Tid × GateProg.Choice))
    (g : GateProg.Tid)
    (hpc : ((GateProg.run {} pre).1.loc g).pc = .e3 ∨ ((GateProg.run {} pre).1.loc g).pc = .e4)
    (hn : Ev.gout g ∉ (GateProg.run (GateProg.run {} pre).1 seg).2) :
    ∃ gs, Gate.run {} (GateProg.run {} pre).2 = some gs ∧
      (Gate.run gs (GateProg.run (GateProg.run {} pre).1 seg).2).isSome = true ∧
      SegOk g gs (GateProg.run (GateProg.run {} pre).1 seg).2 := by
  obtain ⟨gs, h, hi, hr⟩ := GateProg.reach_inv pre
  have hok := hi.ok g
  have hx : ((GateProg.run {} pre).1.loc g).held = some .x ∧ ((GateProg.run {} pre).1.loc g).rep = true := by
    generalize (GateProg.run {} pre).1.loc g = l at *
    generalize ((GateProg.run {} pre).1.sh.conn g).commit = cm at *
    rcases hpc with h | h <;> simp only [GateProg.ok, h, GateProg.frame, GateProg.cmdGate, Bool.and_eq_true] at hok <;>
      (obtain ⟨⟨_, hg⟩, hc⟩ := hok; rw [beq_iff_eq.1 hc] at hg; simpa [GateProg.gateIs] using hg)
  have hX : gs.holdsX g = true := holdsX_iff.2 ((hr.2.2 g .x).2 hx)
  obtain ⟨gs', h', _, _⟩ := GateProg.sim_run seg _ gs hi hr
  exact ⟨gs, h, by rw [h']; rfl, segment_inside_section _ gs g (inv_run _ {} gs inv_init h) hX hn⟩

/-- `client_signal_is_gated` for the program: a goroutine that serves a connection is inside `signalModifiedKey`
    (pcs g1 - g3) only while it holds a side of execMu that it has reported: the shared side of its command or of its
    blocking pop's look, or the exclusive side of its EXEC. -/
theorem gateprog_client_signal_is_gated (sch : List (GateProg.Tid × GateProg.Choice)) (g : GateProg.Tid)
    (hpc : ((GateProg.run {} sch).1.loc g).pc = .g1 ∨ ((GateProg.run {} sch).1.loc g).pc = .g2 ∨
           ((GateProg.run {} sch).1.loc g).pc = .g3)
    (hc : ((GateProg.run {} sch).1.loc g).emb = false) :
    ∃ m, (g, m) ∈ (GateProg.run {} sch).1.sh.execMu ∧ ((GateProg.run {} sch).1.loc g).rep = true := by
  obtain ⟨gs, h, hi, hr⟩ := GateProg.reach_inv sch
  have hok := hi.ok g
  have hx : ∃ m, ((GateProg.run {} sch).1.loc g).held = some m ∧ ((GateProg.run {} sch).1.loc g).rep = true := by
    generalize (GateProg.run {} sch).1.loc g = l at *
    generalize ((GateProg.run {} sch).1.sh.conn g).commit = cm at *
    rcases hpc with h | h | h <;> cases hx : l.ctx <;> cases hl : l.inLook <;>
      simp_all [GateProg.ok, GateProg.bodyOk, GateProg.gateIs]
  obtain ⟨m, hm, hrep⟩ := hx
  exact ⟨m, (hi.mu g m).2 hm, hrep⟩

open GateProg.Ex in
example : ((GateProg.run {} schedToCheck).1.loc 1).pc = .e4 ∧
    Ev.gout 1 ∉ (GateProg.run (GateProg.run {} schedToCheck).1 schedSeg).2 := by decide
/-- a signalling SET of connection 2, stopped inside signalModifiedKey -/
example : ((GateProg.run {} (GateProg.Ex.simple 1 (.watch ["k"]) ++ (GateProg.Ex.setK 2 5).take 9)).1.loc 2).pc = .g2 ∧
    ((GateProg.run {} (GateProg.Ex.simple 1 (.watch ["k"]) ++ (GateProg.Ex.setK 2 5).take 9)).1.loc 2).emb = false := by decide
/-- … and the signal reaches the watching connection, whose EXEC then answers null without running a body -/
example : ((GateProg.run {} GateProg.Ex.schedWatch).1.loc 1).noChange = false := by decide

end gateprog

end NodisVerif.C09
