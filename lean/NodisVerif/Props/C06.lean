import NodisVerif.Model.Proto
import NodisVerif.Proofs.ProtoWait
import NodisVerif.Proofs.ProtoRelease
import NodisVerif.Proofs.TxProgProgress
/-
  C06 — every command completes: no deadlock.

  Property theorems only, about the locking protocol `Model/Proto.lean`; `runAll`, `Reachable`:
  Proofs/ProtoBasic.lean. Every theorem is about ALL reachable states (any trace, any number of
  transactions, keys, records). Helper lemmas: Proofs/ProtoInv (invariant), ProtoWait, ProtoRelease.

  The argument: a transaction only blocks on a key greater than every key it holds (`lockKeys` sorts;
  `mayWait`), and whoever holds the awaited record holds it under the awaited key. So along a chain
  of blocked transactions the awaited keys strictly increase: no cycle (3), and the blocked
  transaction with the greatest awaited key waits for somebody who is not blocked (4), who can run
  to its commit, which releases everything (5).
-/
namespace NodisVerif.C06
open NodisVerif.Proto
open NodisVerif.Proofs.Proto

/-! ## 1. the ordering rule holds in every reachable state -/

/-- a blocked transaction holds only keys below the awaited one (no exception) -/
theorem waits_increase {s : PState} (hr : Reachable s) {t : Tx} {st : TxSt} {k : Key} {r : Rec} {m : Mode}
    (ht : s.tx t = some st) (hw : st.waiting = some (k, r, m)) : ∀ h ∈ st.holds, h.key < k :=
  NodisVerif.Proofs.Proto.waits_increase hr.inv ht hw

/-- a blocked transaction has not begun its commit, does not hold the awaited record, and awaits it
    under its name -/
theorem waiting_wellformed {s : PState} (hr : Reachable s) {t : Tx} {st : TxSt} {k : Key} {r : Rec} {m : Mode}
    (ht : s.tx t = some st) (hw : st.waiting = some (k, r, m)) :
    st.committing = false ∧ st.holdOf r = none ∧ assoc s.names r = some k :=
  let ⟨_, a, b, c⟩ := hr.inv.waitOk t st k r m ht hw; ⟨a, c, b⟩

/-- a blocked transaction takes no step that adds a hold other than being granted the awaited lock -/
theorem blocked_takes_no_other_lock {s s' : PState} (hr : Reachable s) {t : Tx} {st : TxSt} {k : Key} {r : Rec}
    {m : Mode} (ht : s.tx t = some st) (hw : st.waiting = some (k, r, m)) :
    (∀ k' r' m', step s (.claim t k' r' m') = none) ∧ (∀ k' r', step s (.trylock t k' r') = none) ∧
    (∀ k' r' m', step s (.wait t k' r' m') = none) ∧
    (∀ k' r' m', step s (.lock t k' r' m') = some s' → (k', r', m') = (k, r, m)) := by
  have hc := (hr.inv.waitOk t st k r m ht hw).2.1
  refine ⟨?_, ?_, ?_, ?_⟩
  · intro k' r' m'
    cases h : step s (.claim t k' r' m') with
    | none => rfl
    | some x =>
      obtain ⟨st1, h1, _, h2, _⟩ := step_claim.1 h
      rw [ht] at h1; cases h1; rw [hw] at h2; cases h2
  · intro k' r'
    cases h : step s (.trylock t k' r') with
    | none => rfl
    | some x =>
      obtain ⟨st1, h1, h2, _⟩ := step_trylock.1 h
      rw [ht] at h1; cases h1; rw [hc] at h2; cases h2
  · intro k' r' m'
    cases h : step s (.wait t k' r' m') with
    | none => rfl
    | some x =>
      obtain ⟨st1, h1, _, h2, _⟩ := step_wait.1 h
      rw [ht] at h1; cases h1; rw [hw] at h2; cases h2
  · intro k' r' m' h
    obtain ⟨st1, h1, h2, _⟩ := step_lock.1 h
    rw [ht] at h1; cases h1; rw [hw] at h2
    exact (Option.some.inj h2).symm

/-! ## 2. a hold carries the name of its record -/

theorem holder_name {s : PState} (hr : Reachable s) {t : Tx} {st : TxSt} {h : Hold}
    (ht : s.tx t = some st) (hh : h ∈ st.holds) : assoc s.names h.rid = some h.key :=
  hr.inv.holdName t st h ht hh

/-- so whoever holds the record somebody waits for holds it under the awaited key -/
theorem holder_has_awaited_key {s : PState} (hr : Reachable s) {t u : Tx} {st su : TxSt} {k : Key} {r : Rec}
    {m : Mode} {g : Hold} (ht : s.tx t = some st) (hw : st.waiting = some (k, r, m))
    (hu : s.tx u = some su) (hg : g ∈ su.holds) (e : g.rid = r) : g.key = k :=
  holder_key hr.inv ht hw hu hg e

/-! ## 3. no deadlock -/

/-- the model's `waitsFor`, spelled out -/
theorem waitsFor_means {s : PState} (hr : Reachable s) {t u : Tx} : waitsFor s t u = true ↔
    ∃ st k r m su g, s.tx t = some st ∧ st.waiting = some (k, r, m) ∧ s.tx u = some su ∧ g ∈ su.holds ∧
      g.rid = r ∧ u ≠ t ∧ (m = .w ∨ g.mode = .w) := waitsFor_iff hr.inv

/-- along a waits-for edge into a blocked transaction the awaited key strictly grows -/
theorem awaited_keys_increase {s : PState} (hr : Reachable s) {t u : Tx} {st su : TxSt} {k k' : Key}
    {r r' : Rec} {m m' : Mode} (h : waitsFor s t u = true) (ht : s.tx t = some st)
    (hw : st.waiting = some (k, r, m)) (hu : s.tx u = some su) (hw' : su.waiting = some (k', r', m')) :
    k < k' := by
  obtain ⟨k0, h0, hlt⟩ := edge_lt hr.inv h (wants_eq_some.2 ⟨su, r', m', hu, hw'⟩)
  obtain ⟨st0, r0, m0, h1, h2⟩ := wants_eq_some.1 h0
  rw [ht] at h1; cases h1; rw [hw] at h2; cases h2
  exact hlt

/-- There is no cycle t₀ → t₁ → … → tₙ → t₀ of transactions waiting for each other, of any length
    (`Walk s t [t₁, …, tₙ] t`; n = 0 is a self-loop). -/
theorem no_deadlock {s : PState} (hr : Reachable s) (t : Tx) (l : List Tx) : ¬ Walk s t l t :=
  no_closed_walk hr.inv t l

/-- the same with the transitive closure of `waitsFor` -/
theorem no_deadlock' {s : PState} (hr : Reachable s) (t : Tx) :
    ¬ Relation.TransGen (fun a b => waitsFor s a b = true) t t := no_cycle hr.inv t

/-! ## 4. progress -/

/-- If any transaction is active, one of them is not blocked: it is not waiting, or the lock it waits
    for can be granted now (`Blocked s t`: waiting for `(k, r, m)` with `s.free r m = false`). -/
theorem someone_can_move {s : PState} (hr : Reachable s) (hne : s.txs ≠ []) :
    ∃ t st, s.tx t = some st ∧
      (st.waiting = none ∨ ∃ k r m, st.waiting = some (k, r, m) ∧ s.free r m = true) := by
  obtain ⟨t, st, ht, hnb⟩ := someone_not_blocked hr.inv hne
  refine ⟨t, st, ht, ?_⟩
  cases hw : st.waiting with
  | none => exact Or.inl rfl
  | some p =>
    obtain ⟨k, r, m⟩ := p
    refine Or.inr ⟨k, r, m, rfl, ?_⟩
    cases hf : s.free r m with
    | true => rfl
    | false => exact absurd ⟨st, k, r, m, ht, hw, hf⟩ hnb

/-- a lock that can be granted is granted by a step of the protocol -/
theorem free_lock_is_granted {s : PState} {t : Tx} {st : TxSt} {k : Key} {r : Rec} {m : Mode}
    (ht : s.tx t = some st) (hw : st.waiting = some (k, r, m)) (hf : s.free r m = true) :
    (step s (.lock t k r m)).isSome = true := by
  rw [step_lock.2 ⟨st, ht, hw, hf, rfl⟩]; rfl

/-- whoever blocks a transaction is another active transaction holding the awaited record in a
    conflicting mode -/
theorem blocked_by_a_holder {s : PState} (hr : Reachable s) {t : Tx} {st : TxSt} {k : Key} {r : Rec} {m : Mode}
    (ht : s.tx t = some st) (hw : st.waiting = some (k, r, m)) (hf : s.free r m = false) :
    ∃ u, waitsFor s t u = true := by
  obtain ⟨u, g, ⟨su, hu, hg⟩, e, hm⟩ := not_free_holder hr.inv.txNodup hf
  refine ⟨u, (waitsFor_iff hr.inv).2 ⟨st, k, r, m, su, g, ht, hw, hu, hg, e, ?_, hm⟩⟩
  intro c; subst c
  rw [ht] at hu; cases hu
  exact holdOf_none.1 (hr.inv.waitOk u st k r m ht hw).2.2.2 g hg e

/-! ## 5. the commit releases everything -/

/-- a transaction ends only when it holds nothing and waits for nothing -/
theorem fin_needs_nothing {s s' : PState} {t : Tx} (h : step s (.fin t) = some s') :
    ∃ st, s.tx t = some st ∧ st.holds = [] ∧ st.waiting = none ∧ s'.tx t = none := by
  obtain ⟨st, h1, h2, h3, rfl⟩ := step_fin.1 h
  exact ⟨st, h1, h2, h3, by simp [PState.tx, assoc_erase]⟩

/-- A transaction that is not blocked and has validated what it holds (a command that returns, fails
    or panics: `defer tx.commit()`) can run `commit; unlock r₁; …; unlock rₙ; fin` without waiting for
    anybody; afterwards it is gone and index, `pending`, names and all other transactions are
    untouched. (Its placeholders may additionally be dropped; `unlock` does not require it.) -/
theorem commit_releases_everything {s : PState} (hr : Reachable s) {t : Tx} {st : TxSt}
    (ht : s.tx t = some st) (hc : st.committing = false) (hw : st.waiting = none)
    (hv : ∀ h ∈ st.holds, h.valid = true) :
    ∃ s', runAll s (.commit t :: releaseSeq t st.holds) = some s' ∧ s'.tx t = none ∧ SameButTx t s s' :=
  commit_and_release hr.inv ht hc hw hv

/-- … and a transaction whose commit has begun can always finish it -/
theorem commit_can_finish {s : PState} (hr : Reachable s) {t : Tx} {st : TxSt}
    (ht : s.tx t = some st) (hc : st.committing = true) :
    ∃ s', runAll s (releaseSeq t st.holds) = some s' ∧ s'.tx t = none ∧ SameButTx t s s' :=
  release_committing hr.inv ht hc

/-- before its commit a transaction gives up only an attempt that failed its validation -/
theorem unlock_before_commit_is_invalid {s s' : PState} {t : Tx} {st : TxSt} {r : Rec} {h : Hold}
    (hs : step s (.unlock t r) = some s') (ht : s.tx t = some st) (hc : st.committing = false)
    (hh : st.holdOf r = some h) : h.valid = false := by
  obtain ⟨st1, h1, a, b, c, _⟩ := step_unlock.1 hs
  rw [ht] at a; cases a; rw [hh] at b; cases b
  rcases c with c | c
  · rw [hc] at c; cases c
  · exact c

/-! ## 6. examples -/

/-- keys "a" "b" "c" exist (records 1 2 3) -/
def setupABC : List Ev :=
  [.begin 9, .claim 9 "a" 1 .w, .publish 9 "a" 1, .claim 9 "b" 2 .w, .publish 9 "b" 2,
   .claim 9 "c" 3 .w, .publish 9 "c" 3, .commit 9, .unlock 9 3, .unlock 9 2, .unlock 9 1, .fin 9]

/-- t1 holds "a" and waits for "b"; t2 holds "b" and waits for "c"; t3 holds "c" -/
def chainTrace : List Ev := setupABC ++
  [.begin 1, .begin 2, .begin 3,
   .wait 3 "c" 3 .w, .lock 3 "c" 3 .w, .valid 3 "c" 3 true,
   .wait 2 "b" 2 .w, .lock 2 "b" 2 .w, .valid 2 "b" 2 true,
   .wait 1 "a" 1 .w, .lock 1 "a" 1 .w, .valid 1 "a" 1 true,
   .wait 2 "c" 3 .w, .wait 1 "b" 2 .w]

/-- two transactions wait, in a chain 1 → 2 → 3, and transaction 3 can move -/
example : (runAll {} chainTrace).map (fun s =>
      (waitsFor s 1 2, waitsFor s 2 3, waitsFor s 3 1, waitsFor s 2 1, s.free 2 .w, s.free 3 .w)) =
    some (true, true, false, false, false, false) := by decide

/-- the classic deadlock (t1 locks a, t2 locks b, t1 waits for b, t2 waits for a) is not a trace of the
    protocol: the last `wait` is rejected (in `lockKeys` order t2 asks for "a" before "b") -/
def deadlockPrefix : List Ev := setupABC ++
  [.begin 1, .begin 2,
   .wait 1 "a" 1 .w, .lock 1 "a" 1 .w, .valid 1 "a" 1 true,
   .wait 2 "b" 2 .w, .lock 2 "b" 2 .w, .valid 2 "b" 2 true,
   .wait 1 "b" 2 .w]

theorem classic_deadlock_rejected :
    (runAll {} deadlockPrefix).isSome = true ∧
    ((runAll {} deadlockPrefix).bind (step · (.wait 2 "a" 1 .w))).isNone = true := by decide

/-- read modes do not help: it is rejected for a read lock too -/
example : ((runAll {} deadlockPrefix).bind (step · (.wait 2 "a" 1 .r))).isNone = true := by decide

/-- the release sequence of (5) on the chain: transaction 3 commits and goes, then 2 gets "c" -/
example : (runAll {} (chainTrace ++ [.commit 3, .unlock 3 3, .fin 3, .lock 2 "c" 3 .w])).isSome = true := by
  decide

/-! ## 7. the program level (work package T): lock order and blocking in the code of tx.go

  `Model/TxProg.lean` models `Tx.acquire` / `lockKeys` / `newKey` / `delKey` / `commit` statement by statement with
  explicit mutexes; `C05.prog_refines_proto` shows that every run of it is a run of the protocol.  Here: what that
  gives for completion, and the lock order proved directly on program states. -/

section ProgramLevel
open NodisVerif.Proofs.TxProg

/-- LOCK ORDER on the program model: a thread blocked in `m.Lock()` / `m.RLock()` (pc a8) holds only records
    whose keys are smaller than the key it waits for; it owns no record mutex outside `tx.lockedMetas`, is outside
    every `store.mu` section, and is in the sorted locking phase of its command (a call from the command body never
    waits: it finds a record the transaction already holds) -/
theorem blocked_waits_for_greater_key {c : TxProg.Cfg} (hr : ProgReachable c) {t : TxProg.Tid}
    (hpc : (c.loc t).pc = .a8) :
    (∀ g ∈ (c.loc t).held, g.key < (c.loc t).key) ∧ extra (c.loc t) = none ∧ (c.loc t).ret = .plan ∧
    inW (c.loc t).pc = false ∧ inR (c.loc t).pc = false := by
  obtain ⟨p, _, hst⟩ := hr.strong
  exact blocked_holds_smaller hst hpc

/-- TRANSFER of `no_deadlock`: the waits-for graph of the protocol state that abstracts a reachable program state
    has no cycle, and a thread is blocked in a record lock (pc a8 / a9) exactly when its transaction is `waiting` there -/
theorem prog_no_deadlock {c : TxProg.Cfg} (hr : ProgReachable c) :
    ∃ p, Strong c p ∧ (∀ t l, ¬ Walk p t l t) ∧
      ∀ t, (c.loc t).pc = .a8 → p.tx t =
        some ⟨(c.loc t).held, some ((c.loc t).key, (c.loc t).m, TxProg.modeOf (c.loc t).write), false⟩ := by
  obtain ⟨p, hp, hst⟩ := hr.strong
  refine ⟨p, hst, fun t l => no_deadlock hp t l, fun t hpc => ?_⟩
  have := hst.sim.tx_some t (by simp [hpc])
  simpa [holdsOf, waitingOf, committingOf, hpc] using this

/-- TRANSFER of `someone_can_move`: in the abstraction of a reachable program state with an active transaction,
    some transaction is not waiting, or waits for a lock the protocol can grant now -/
theorem prog_someone_can_move {c : TxProg.Cfg} (hr : ProgReachable c) {t : TxProg.Tid}
    (hact : (c.loc t).pc ≠ .init) :
    ∃ p, Strong c p ∧ ∃ u st, p.tx u = some st ∧
      (st.waiting = none ∨ ∃ k r m, st.waiting = some (k, r, m) ∧ p.free r m = true) := by
  obtain ⟨p, hp, hst⟩ := hr.strong
  refine ⟨p, hst, someone_can_move hp ?_⟩
  intro hnil
  have := hst.sim.tx_some t hact
  simp [PState.tx, hnil, assoc] at this

/-- where the code can block at all: the seven mutex acquisitions (`s.mu.RLock` a1 a10, `s.mu.Lock` a4 n2 d1 c8, the
    record lock a8); init / idle wait for the command's next call, a5 / d3 for a fresh object.  Every other
    transition is enabled in every state: nothing inside a `store.mu` section waits for anything (`store.mu` is a
    leaf lock), and `commit` waits for nothing but `store.mu` — "a failing command releases everything" -/
theorem only_lock_acquisitions_block (c : TxProg.Cfg) (t : TxProg.Tid) (ch : TxProg.Choice)
    (h : mayBlock (c.loc t).pc = false) : (TxProg.step c t ch).isSome = true :=
  enabled_unless_mayBlock c t ch h

/-- … and d2 (delKey under `store.mu`) is enabled in every reachable state: the record found in the index is
    write-held by the transaction, the `unlink-unheld` branch of the code is never taken -/
theorem delKey_never_unheld {c : TxProg.Cfg} (hr : ProgReachable c) {t : TxProg.Tid} (hpc : (c.loc t).pc = .d2)
    (ch : TxProg.Choice) : (TxProg.step c t ch).isSome = true := by
  obtain ⟨p, _, hst⟩ := hr.strong
  exact delKey_not_stuck hst hpc ch

/-- `store.mu` NEVER CLOSES A CYCLE: a thread that cannot get `store.mu` (any of the eight acquisition sites) is kept
    out by another, active thread that is inside one of its sections, and that thread's next transition is enabled
    (whenever the allocator offers a new object — `exists_fresh`: it always can).  The protocol model has no
    `store.mu` at all; this is the part of "every command completes" that only the program model can state. -/
theorem store_mutex_never_deadlocks {c : TxProg.Cfg} (hr : ProgReachable c) {t : TxProg.Tid} {ch : TxProg.Choice}
    (hpc : smuAcquire (c.loc t).pc = true) (hblocked : TxProg.step c t ch = none) :
    ∃ u, u ≠ t ∧ (c.loc u).pc ≠ .init ∧
      ∀ ch', assoc c.sh.names ch'.fresh = none → (TxProg.step c u ch').isSome = true := by
  obtain ⟨p, _, hst⟩ := hr.strong
  exact blocked_on_smu_by_a_mover hst hpc hblocked

/-- the owners of `store.mu` are exactly threads inside its sections: whoever is its writer / one of its readers is
    at a program counter between the Lock / RLock and the matching Unlock / RUnlock, and can take its next step -/
theorem store_mutex_owner_is_in_section {c : TxProg.Cfg} (hr : ProgReachable c) {u : TxProg.Tid}
    (hown : c.sh.smu.writer = some u ∨ u ∈ c.sh.smu.readers) :
    (inW (c.loc u).pc = true ∨ inR (c.loc u).pc = true) ∧
    ∀ ch, assoc c.sh.names ch.fresh = none → (TxProg.step c u ch).isSome = true := by
  obtain ⟨p, _, hst⟩ := hr.strong
  refine ⟨?_, fun ch hf => (smu_holder_can_move hst hown ch hf).2⟩
  rcases hown with h | h
  · exact Or.inl ((hst.conv u).1 h)
  · exact Or.inr ((hst.conv u).2 h)

/-- hypotheses are satisfiable: thread 1 is inside `s.mu.Lock()` (pc a5, about to register its placeholder) while thread 2
    asks for `s.mu.RLock()` (pc a1) and is kept out; thread 1 moves -/
example : let c := (TxProg.run {} (moves 1 { call := .begin [("k", true, true)], fresh := 10 } 5 ++
      moves 2 { call := .begin [("k", false, false)] } 3)).1
    (c.loc 1).pc = .a5 ∧ smuAcquire (c.loc 2).pc = true ∧ TxProg.step c 2 {} = none ∧
      (TxProg.step c 1 { fresh := 10 }).isSome = true := by decide

theorem a_fresh_record_exists (c : TxProg.Cfg) : ∃ r, assoc c.sh.names r = none := exists_fresh c.sh.names

/-- PROGRESS ON THE PROGRAM MODEL — no deadlock and no permanent stall over record mutexes and `store.mu` together:
    in every reachable program state in which some transaction is active, some ACTIVE thread has an enabled
    transition (for a suitable choice of the scheduler: a fresh object for an allocation, `commit` for a command body).
    Proof: `someone_not_blocked` in the abstraction gives a transaction that is not waiting or waits for a record the
    protocol considers free; such a thread moves, or is kept out of `store.mu` by a thread that moves
    (`store_mutex_never_deadlocks`), or the record mutex is still owned by a thread that sits between a lock operation
    and its event (`record_mutex_owner_is_accounted_for`) and therefore moves. -/
theorem prog_progress {c : TxProg.Cfg} (hr : ProgReachable c) {t0 : TxProg.Tid} (hact : (c.loc t0).pc ≠ .init) :
    ∃ t ch, (c.loc t).pc ≠ .init ∧ (TxProg.step c t ch).isSome = true := by
  obtain ⟨p, _, hf⟩ := hr.full
  exact full_progress hf hact

/-- the converse of `C05.prog_hold_owns_mutex`: whoever is the writer / a reader of a record's mutex has a protocol
    hold on the record in that mode, or is between `Lock` and its `lock` event / between the `unlock` event and
    `Unlock` (`extra`); each thread is a reader of a mutex at most once -/
theorem record_mutex_owner_is_accounted_for {c : TxProg.Cfg} (hr : ProgReachable c) (u : TxProg.Tid) (r : Rec) :
    ((c.sh.mu r).writer = some u → (r, Mode.w) ∈ ownedList (c.loc u)) ∧
    (u ∈ (c.sh.mu r).readers → (r, Mode.r) ∈ ownedList (c.loc u)) ∧ (c.sh.mu r).readers.Nodup := by
  obtain ⟨p, _, hf⟩ := hr.full
  exact ⟨(hf.conv u r).1, (hf.conv u r).2, hf.rnd r⟩

/-- hypotheses are satisfiable: in the state of `C05`'s example thread 2 is blocked in `m.RLock()` and thread 1 moves -/
example : let c := (TxProg.run {} (schedCreate.take 16)).1
    (c.loc 2).pc ≠ .init ∧ TxProg.step c 2 {} = none ∧ (TxProg.step c 1 {}).isSome = true := by decide

/-- a record lock that is free is granted: the Lock transition at a8 is enabled when nobody owns the mutex -/
theorem free_record_lock_is_granted (c : TxProg.Cfg) (t : TxProg.Tid) (ch : TxProg.Choice)
    (hpc : (c.loc t).pc = .a8) (hfree : (c.sh.mu (c.loc t).m).canLock = true) :
    (TxProg.step c t ch).isSome = true := by
  have hr : (c.sh.mu (c.loc t).m).canRLock = true := by
    simp [TxProg.Mu.canLock] at hfree; simp [TxProg.Mu.canRLock, hfree.1]
  unfold TxProg.step
  simp only [TxProg.tstep, hpc]
  cases hw : (c.loc t).write <;> simp [hfree, hr]

/-- `lockKeys` (the `mode` map, then `sort.Strings` over its keys — `TxProg.lockPlan`) yields strictly increasing
    keys, so `Call.begin (lockPlan write read)` is a command of the model for every `write`, `read` -/
theorem lockKeys_plan_is_sorted (write read : List Key) :
    TxProg.sortedPlan (TxProg.lockPlan write read) = true := lockPlan_sorted write read

theorem lockKeys_can_begin (c : TxProg.Cfg) (t : TxProg.Tid) (hpc : (c.loc t).pc = .init) (write read : List Key)
    (ch : TxProg.Choice) (hc : ch.call = .begin (TxProg.lockPlan write read)) : (TxProg.step c t ch).isSome = true :=
  begin_lockPlan_enabled c t hpc write read ch hc

example : TxProg.lockPlan ["b", "a"] ["c", "a"] = [("a", true, true), ("b", true, true), ("c", false, true)] := by decide

/-- hypotheses are satisfiable: a multi-key command locks "a" then "b" (sorted), both through placeholders, and
    its commit drops them: the read-held one by RUnlock + TryLock + drop, the write-held one directly -/
example : (TxProg.run {} schedTwoKeys).2 =
    [.begin 1, .look 1 "a" none, .claim 1 "a" 1 .w, .look 1 "b" none, .claim 1 "b" 2 .r, .commit 1,
     .unlock 1 2, .trylock 1 "b" 2, .drop 1 "b" 2, .unlock 1 2, .drop 1 "a" 1, .unlock 1 1, .fin 1] := by decide

/-- a plan that is not sorted is not a command of the model (lockKeys sorts) -/
example : TxProg.step {} 1 { call := .begin [("b", true, true), ("a", true, true)] } = none := by decide

end ProgramLevel

end NodisVerif.C06
