import NodisVerif.Proofs.C20Finds
import NodisVerif.Proofs.C20Keys
import NodisVerif.Proofs.C20ZStoreEx
import NodisVerif.Proofs.FloatDecRegions
import NodisVerif.Proofs.GeoAdd
import NodisVerif.Proofs.ProtoWireMsg
import NodisVerif.Proofs.ProtoWireBad
import NodisVerif.Proofs.ProtoWireOut
import NodisVerif.Proofs.ProtoWireAcct
import NodisVerif.Model.FeedWire
import NodisVerif.Proofs.C20ZAddPairs
/-
  C20 — The change feed replays on a replica.

  "Every state-changing command on an instance with a matching key watcher emits change records
   that, delivered in emission order through the wire encoding to an initially identical replica and
   applied there, bring the replica to the same logical state as the primary (same keys, types,
   values and deadlines).  Commands that change nothing emit nothing, records for one key are
   delivered in the order the commands took effect, and a watcher only receives records for keys
   matching its patterns."

  Model: the API functions of Model/Api.lean push a `FeedOp` at every `n.notify` site; `Feed.emission`
  = what a watcher with pattern * is handed for one call (the raw records, oldest first, with the
  documented corrections); `Feed.applyOp` = `Nodis.applyPatch`, which *parses* the rendered fields
  of a record (`Wire.parseArg`, `String.toInt?`, ...) and makes the corresponding API call;
  `Feed.applyAll` applies a batch in order and stops at the first record it cannot apply.

  Reference notions (Proofs/C20Core.lean, C20Call.lean, C20Seq.lean):
  * `Same now p r`: primary and replica satisfy the storage invariant `StoreInv` (C11) and show the
    same logical keyspace `Spec.Persist.logical · now` — the (name, value, deadline) triples of the
    live keys, cold values read through the backend; nothing shown is Go's nil string (`NoNil`; no API
    command creates one, it holds of the empty store and is preserved).
  * `Call`: the covered state-changing methods with their arguments; `Call.run` = what
    `Driver.callApi` calls; `Call.info` = what the driver hands to `Feed.emission` (for ZUnionStore /
    ZInterStore: operands, weights, aggregate); `Call.WF` = argument side conditions (int64
    deadlines/increments, lengths < 2^63, no NaN score); `Call.Region` = the finding regions
    (decidable in the logical content of the key; for the sorted-set stores: of the operands).
  * `zcoreSpec union K keys weights agg` (Proofs/C20ZStoreCore.lean): the result of ZUNION / ZINTER as a
    function of what the operand names show (`K = lookup p now`): `none` = the call panics (an operand
    of another type, ZINTER: an operand missing where it is checked), `some none` = unsupported,
    `some (some items)` = the (score, member) items; `zstorePost items L` = the destination afterwards.
  * `Replay now r c res` := ∃ r', Feed.applyAll r now (Feed.emission c res.2 res.1.feed.reverse) = some r'
                                  ∧ Same now res.1 r'.
-/
namespace NodisVerif.C20
open NodisVerif NodisVerif.Store NodisVerif.Spec.Persist NodisVerif.Proofs.C11 NodisVerif.Proofs.C20

/-! ### the relation -/

/-- `Same` holds between the watched empty primary and an empty replica (any backends) -/
theorem same_empty (pebble pebble' : Bool) (t : Int) : Same t (emptyWatched pebble) (empty pebble') :=
  Proofs.C20.same_empty pebble pebble' t

/-- `Same` is about the logical keyspace: equal (name, value, deadline) lists -/
theorem same_logical {now : Int} {p r : MState} (h : Same now p r) : logical p now = logical r now := h.eq

/-- the same keyspace now is the same keyspace at every later time (keys expire on both sides) -/
theorem same_later {now t' : Int} {p r : MState} (h : Same now p r) (ht : now ≤ t') : Same t' p r := h.mono ht

/-! ### the wire encoding -/

/-- every field of a record parses back to the value it was rendered from -/
theorem fields_roundtrip (b : Bytes) (bs : List Bytes) (n : Int) (x : F64) (t : Bool) :
    Feed.pB (Bytes.toHex b) = some b ∧ (bs.map Bytes.toHex).mapM Feed.pB = some bs ∧
    Feed.pI (toString n) = some n ∧ Feed.pF (toString x) = some x ∧ Feed.pT (toString t) = some t :=
  ⟨pB_toHex b, mapM_pB_toHex bs, pI_toString n, pF_toString x, pT_toString t⟩

/-! ### MAIN THEOREM -/

/-
  Full statement: for every state-changing call c of the API, from `Same now p r` on a watched,
  drained primary, the replica can apply `Feed.emission` of the call and then shows the primary's
  logical keyspace.  It fails inside `Call.Region` (witnesses below); it is proved for the 70 methods
  of `Call` (list at the end of the file) outside the region.
-/
/-- one call: the replica applies, at the same time `now`, what the call hands to a watcher, and
    then shows the same logical keyspace as the primary — deletions, expiry changes, renames, pops,
    counters, conditional forms included.  Records are applied through their textual fields. -/
theorem replay_call_partial (c : Call) (hwf : c.WF) {now : Int} {p r : MState} (hs : Same now p r)
    (hl : p.listeners = true) (hfd : p.feed = []) (hreg : ¬ c.Region (lookup p now)) :
    ∃ r', Feed.applyAll r now (Feed.emission c.info (c.run p now).2 (c.run p now).1.feed.reverse) = some r' ∧
      Same now (c.run p now).1 r' :=
  (call_main c hwf hs hl hfd hreg).1

/-- ... and the watcher stays attached -/
theorem call_keeps_watcher (c : Call) (hwf : c.WF) {now : Int} {p r : MState} (hs : Same now p r)
    (hl : p.listeners = true) (hfd : p.feed = []) (hreg : ¬ c.Region (lookup p now)) :
    (c.run p now).1.listeners = true :=
  (call_main c hwf hs hl hfd hreg).2

/-- a later replica time: records carry absolute deadlines, so the replica may apply them at
    `now' ≥ now` provided the primary is also looked at at `now'` — this is `same_later` composed
    with the theorem at `now'`; stated for sequences: each batch is applied at the time of its call
    and the result compared at the time of the last call (`replay_sequence`). -/
theorem replay_sequence_partial (calls : List (Call × Int)) (t : Int) (p r : MState) (hs : Same t p r)
    (hl : p.listeners = true) (hfd : p.feed = []) (hok : CallsOK t calls p) :
    ∃ r', applyBatches r (runCalls calls p).2 = some r' ∧ Same (lastTime t calls) (runCalls calls p).1 r' :=
  Proofs.C20.replay_sequence calls t p r hs hl hfd hok

/-- from the empty store (either backend on either side) -/
theorem replay_from_empty_partial (pebble pebble' : Bool) (calls : List (Call × Int)) (t : Int)
    (hok : CallsOK t calls (emptyWatched pebble)) :
    ∃ r', applyBatches (empty pebble') (runCalls calls (emptyWatched pebble)).2 = some r' ∧
      Same (lastTime t calls) (runCalls calls (emptyWatched pebble)).1 r' :=
  Proofs.C20.replay_from_empty pebble pebble' calls t hok

/-! ### commands that change nothing emit nothing -/

/-- the read-only methods (`Read`: EXISTS KEYS RANDOMKEY TTL PTTL TYPE GET GETBIT BITCOUNT GETRANGE
    STRLEN LLEN LINDEX LRANGE, every hash / set / sorted-set read on one key, SRANDMEMBER) leave the
    feed alone, on any state -/
theorem reads_emit_nothing (q : Read) (s : MState) (now : Int) :
    (q.run s now).1.feed = s.feed ∧ (q.run s now).1.listeners = s.listeners :=
  ⟨congrArg Prod.fst (read_fl q s now), congrArg Prod.snd (read_fl q s now)⟩

theorem reads_hand_over_nothing (q : Read) (s : MState) (now : Int) (hfd : s.feed = []) (c : Feed.CallInfo)
    (hc : plainMethod c.method = true) :
    Feed.emission c (q.run s now).2 (q.run s now).1.feed.reverse = [] := read_silent q s now hfd c hc

/-- conversely, for every covered call: if nothing is handed to the watchers, the logical keyspace
    is unchanged (so a change is never silent outside the finding regions) -/
theorem silent_when_unchanged_partial (c : Call) (hwf : c.WF) {now : Int} {p : MState} (hi : StoreInv p now)
    (hn : NoNil p now) (hl : p.listeners = true) (hfd : p.feed = []) (hreg : ¬ c.Region (lookup p now))
    (hsil : Feed.emission c.info (c.run p now).2 (c.run p now).1.feed.reverse = []) :
    logical (c.run p now).1 now = logical p now :=
  silent_unchanged c hwf hi hn hl hfd hreg hsil

/-
  Full statement "a call that does not change the logical keyspace emits nothing": false in the
  model for SADD / SREM / HDEL / LINSERT / LREM / LTRIM / L|RPOP / ZADD / SETBIT / SET ... (they notify
  unconditionally); such records are harmless (`replay_call_partial` covers them).
-/
theorem emits_although_unchanged_finding :
    ((Call.sadd [107] [[109]]).run wSet 0).1.feed.map (·.typ) = [23] ∧
      logical ((Call.sadd [107] [[109]]).run wSet 0).1 0 = logical wSet 0 ∧
    ((Call.srem [107] [[120]]).run wSet 0).1.feed.map (·.typ) = [24] ∧
      logical ((Call.srem [107] [[120]]).run wSet 0).1 0 = logical wSet 0 ∧
    ((Call.hdel [107] [[120]]).run wHash 0).1.feed.map (·.typ) = [6] ∧
      logical ((Call.hdel [107] [[120]]).run wHash 0).1 0 = logical wHash 0 ∧
    ((Call.linsert [107] [120] [121] true).run wList 0).1.feed.map (·.typ) = [11] ∧
      logical ((Call.linsert [107] [120] [121] true).run wList 0).1 0 = logical wList 0 ∧
    ((Call.lrem [107] [120] 0).run wList 0).1.feed.map (·.typ) = [16] ∧
      logical ((Call.lrem [107] [120] 0).run wList 0).1 0 = logical wList 0 ∧
    ((Call.zadd [107] [109] 0x3ff0000000000000).run wZSet 0).1.feed.map (·.typ) = [26] ∧
      logical ((Call.zadd [107] [109] 0x3ff0000000000000).run wZSet 0).1 0 = logical wZSet 0 ∧
    ((Call.setBit [107] (-1) true).run wStr 0).1.feed.map (·.typ) = [25] ∧
      logical ((Call.setBit [107] (-1) true).run wStr 0).1 0 = logical wStr 0 ∧
    ((Call.set [107] [118] true).run wStr 0).1.feed.map (·.typ) = [25] ∧
      logical ((Call.set [107] [118] true).run wStr 0).1 0 = logical wStr 0 :=
  Proofs.C20.emits_although_unchanged_finding

/-- the conditional forms do keep silent when they change nothing -/
theorem silent_examples :
    ((Call.persist [107]).run wStr 0).1.feed.length = 0 ∧
    ((Call.hsetNX [107] [102] [119]).run wHash 0).1.feed.length = 0 ∧
    ((Call.lset [107] 5 [98]).run wList 0).1.feed.length = 0 ∧
    ((Call.zaddXX [107] [120] 0).run wZSet 0).1.feed.length = 0 ∧
    ((Call.setXX [120] [118] false).run wStr 0).1.feed.length = 0 ∧
    ((Call.lpushX [120] [118]).run wStr 0).1.feed.length = 0 ∧
    ((Call.del [[120]]).run wStr 0).1.feed.length = 0 ∧
    ((Call.rename [120] [121]).run wStr 0).1.feed.length = 0 :=
  Proofs.C20.silent_examples

/-! ### a watcher only receives records for keys matching its patterns -/

/-- every record a covered call hands over names one of the call's key arguments (so filtering the
    feed by key pattern is well defined); for a single-key call (`c.keys = [k]`) all records name `k`.
    CLEAR hands over one CLEAR record, which names no key. -/
theorem records_name_their_key (c : Call) (hwf : c.WF) {now : Int} {p r : MState} (hs : Same now p r)
    (hl : p.listeners = true) (hfd : p.feed = []) (hreg : ¬ c.Region (lookup p now)) (hc : c ≠ .clear) :
    ∀ op ∈ Feed.emission c.info (c.run p now).2 (c.run p now).1.feed.reverse, op.key ∈ c.keys :=
  call_keys c hwf hs hl hfd hreg hc

/-- records are delivered in the order the commands took effect: a run hands over one batch per call,
    in call order, each stamped with the time of its call (within a batch: emission order) -/
theorem batches_in_call_order (calls : List (Call × Int)) (p : MState) :
    (runCalls calls p).2.map (·.2) = calls.map (·.2) := by
  induction calls generalizing p with
  | nil => rfl
  | cons cn rest ih => obtain ⟨c, now⟩ := cn; simp only [runCalls, List.map_cons, ih]

/-! ### the finding regions of the main theorem -/

/-- (a) `DecrBy k (-2^63)` on a missing key: the key is created, the counter overflows, the call
    fails; an empty string key stays on the primary, nothing is emitted, the replica differs -/
theorem replay_call_finding :
    (Call.decrBy [107] (-9223372036854775808)).Region (lookup w0 0) ∧
    logical w0 0 = [] ∧
    ((Call.decrBy [107] (-9223372036854775808)).run w0 0).1.feed.length = 0 ∧
    logical ((Call.decrBy [107] (-9223372036854775808)).run w0 0).1 0 = [([107], .str [], 0)] ∧
    ¬ Replay 0 (empty false) (Call.decrBy [107] (-9223372036854775808)).info
        ((Call.decrBy [107] (-9223372036854775808)).run w0 0) :=
  decrBy_creates_and_fails_finding

/-- (a) `SetRange k 2^31 ""` on a missing key: created, then the call panics -/
theorem replay_call_finding_setRange :
    (Call.setRange [107] 2147483648 []).Region (lookup w0 0) ∧
    ((Call.setRange [107] 2147483648 []).run w0 0).1.feed.length = 0 ∧
    logical ((Call.setRange [107] 2147483648 []).run w0 0).1 0 = [([107], .str [], 0)] ∧
    ¬ Replay 0 (empty false) (Call.setRange [107] 2147483648 []).info
        ((Call.setRange [107] 2147483648 []).run w0 0) :=
  setRange_creates_and_panics_finding

/-- in the model `SetRange k 0 ""` on a missing key is *not* in the region: it emits a SET record
    with the empty value -/
theorem setRange_zero_emits :
    ((Call.setRange [107] 0 []).run w0 0).1.feed.map (·.typ) = [25] ∧
    ¬ (Call.setRange [107] 0 []).Region (lookup w0 0) := Proofs.C20.setRange_zero_emits

/-- (b) `HMSet k {}` on a missing key: an empty hash on the primary, nothing emitted -/
theorem replay_call_finding_hmset :
    (Call.hmset [107] []).Region (lookup w0 0) ∧
    ((Call.hmset [107] []).run w0 0).1.feed.length = 0 ∧
    logical ((Call.hmset [107] []).run w0 0).1 0 = [([107], .hash [], 0)] ∧
    ¬ Replay 0 (empty false) (Call.hmset [107] []).info ((Call.hmset [107] []).run w0 0) :=
  hmset_empty_finding

/-- (b) in the model `SAdd k` / `LPush k` without members emit a record without fields; the replica
    creates the same empty collection (`replay_call_partial` covers them: no region) -/
theorem sadd_lpush_empty_emit :
    ((Call.sadd [107] []).run w0 0).1.feed.map (fun op => (op.typ, op.args)) = [(23, [])] ∧
    logical ((Call.sadd [107] []).run w0 0).1 0 = [([107], .set [], 0)] ∧
    ((Call.lpush [107] []).run w0 0).1.feed.map (fun op => (op.typ, op.args)) = [(14, [])] ∧
    logical ((Call.lpush [107] []).run w0 0).1 0 = [([107], .list DsList.empty, 0)] :=
  Proofs.C20.sadd_lpush_empty_emit

/-! ### ZUnionStore / ZInterStore: the replica re-executes the command -/

/-- the two methods, stated on the API function: the record carries destination, operands, weights and
    aggregate; the replica (same logical keyspace, any backend, any object identities) re-executes the
    command on its own copies of the operands and ends with the primary's logical keyspace.  Covers: an
    empty result (DEL record), the destination among the operands or holding another type, missing /
    expired operands (`lookup … = none`), a failing call (nothing emitted, nothing changed).  This is
    `replay_call_partial` for `Call.zunionStore` / `Call.zinterStore`. -/
theorem replay_call_zstore_partial (union : Bool) (dst : Bytes) (keys : List Bytes) (weights : List F64) (agg : Bytes)
    {now : Int} {p r : MState} (hs : Same now p r) (hl : p.listeners = true) (hfd : p.feed = [])
    (hreg : ¬ ZStoreNaN (lookup p now) union keys weights agg) :
    ∃ r', Feed.applyAll r now
        (Feed.emission { method := if union then "ZUnionStore" else "ZInterStore", keys := keys, weights := weights,
                         aggregate := agg }
          (Api.zstore union p now dst keys weights agg).2 (Api.zstore union p now dst keys weights agg).1.feed.reverse)
        = some r' ∧
      Same now (Api.zstore union p now dst keys weights agg).1 r' :=
  (zstore_main union hs hl hfd _ (by cases union <;> simp) dst keys weights agg rfl rfl rfl hreg).1

/-- why: result and effect of the command are functions of the logical keyspace.  With `items` the
    result computed from what the operands show, the destination afterwards shows `zstorePost items`
    of what it showed before (nothing for an empty result; otherwise the sorted set built from the
    items, under the deadline the destination had, none if it was created), every other name is
    unchanged, and exactly one record is appended to the feed (DEL for an empty result) -/
theorem zstore_effect (union : Bool) {s : MState} {now : Int} (h : StoreInv s now) (dst : Bytes) (keys : List Bytes)
    (weights : List F64) (agg : Bytes) (items : List DsZSet.Item)
    (he : zcoreSpec union (lookup s now) keys weights agg = some (some items)) :
    (∀ k', lookup (Api.zstore union s now dst keys weights agg).1 now k' =
      upd (lookup s now) dst (zstorePost items (lookup s now dst)) k') ∧
    (s.listeners = true →
      (Api.zstore union s now dst keys weights agg).1.feed = zstoreOp union dst items :: s.feed) :=
  ⟨(zstore_look' union h dst keys weights agg items he).2.1,
   fun hl => congrArg Prod.fst ((zstore_look' union h dst keys weights agg items he).2.2 hl)⟩

/-- a failing call (an operand of another type; unsupported arithmetic) emits nothing and changes nothing -/
theorem zstore_fails_silent (union : Bool) {s : MState} {now : Int} (h : StoreInv s now) (dst : Bytes)
    (keys : List Bytes) (weights : List F64) (agg : Bytes)
    (he : zcoreSpec union (lookup s now) keys weights agg = none ∨
          zcoreSpec union (lookup s now) keys weights agg = some none) :
    (Api.zstore union s now dst keys weights agg).1.feed = s.feed ∧
    logical (Api.zstore union s now dst keys weights agg).1 now = logical s now :=
  ⟨congrArg Prod.fst (zstore_fails union h dst keys weights agg he).fl,
   logical_ext h.idxSorted (zstore_fails union h dst keys weights agg he).inv.idxSorted
     (zstore_fails union h dst keys weights agg he).look⟩

/-- region of the two methods: an aggregated score of the result is NaN.  Witness: ZUNIONSTORE d 1 k
    WEIGHTS 0 where k holds a member with score +inf gives the destination the score NaN; the storage
    invariant (every stored sorted set is NaN-free) fails on the primary afterwards, and `Same`
    includes the invariant, so no replica state satisfies the conclusion. -/
theorem replay_call_finding_zstore_nan :
    (Call.zunionStore [100] [[107]] [0] []).Region (lookup wInf 0) ∧
    lookup ((Call.zunionStore [100] [[107]] [0] []).run wInf 0).1 0 [100] =
      some (.zset ⟨[([109], F64.qnan)], [(F64.qnan, [109])]⟩, 0) ∧
    ¬ StoreInv ((Call.zunionStore [100] [[107]] [0] []).run wInf 0).1 0 ∧
    ∀ r, ¬ Replay 0 r (Call.zunionStore [100] [[107]] [0] []).info ((Call.zunionStore [100] [[107]] [0] []).run wInf 0) :=
  zstore_nan_finding

/-- non-vacuity and shape of the record: on k = {m: 1.0}, l = {m: 2.0} (reached through the API),
    ZUNIONSTORE d 2 k l is outside the region, hands over one record of type 34 carrying aggregate,
    operands, separator (no weights), and leaves d = {m: 3.0} -/
theorem zunionStore_example :
    logical wZ2 0 = [([107], .zset ⟨[([109], 0x3ff0000000000000)], [(0x3ff0000000000000, [109])]⟩, 0),
                     ([108], .zset ⟨[([109], 0x4000000000000000)], [(0x4000000000000000, [109])]⟩, 0)] ∧
    ¬ (Call.zunionStore [100] [[107], [108]] [] []).Region (lookup wZ2 0) ∧
    Feed.emission (Call.zunionStore [100] [[107], [108]] [] []).info
        ((Call.zunionStore [100] [[107], [108]] [] []).run wZ2 0).2
        ((Call.zunionStore [100] [[107], [108]] [] []).run wZ2 0).1.feed.reverse =
      [{ typ := 34, key := [100], args := [Bytes.toHex [], Bytes.toHex [107], Bytes.toHex [108], "|"] }] ∧
    lookup ((Call.zunionStore [100] [[107], [108]] [] []).run wZ2 0).1 0 [100] =
      some (.zset ⟨[([109], 0x4008000000000000)], [(0x4008000000000000, [109])]⟩, 0) :=
  Proofs.C20.zunionStore_example

/-- the hypotheses of `replay_call_partial` hold for that call (primary = its own replica) -/
example : (Call.zunionStore [100] [[107], [108]] [] []).WF ∧ Same 0 wZ2 wZ2 ∧ wZ2.listeners = true ∧ wZ2.feed = [] ∧
    ¬ (Call.zunionStore [100] [[107], [108]] [] []).Region (lookup wZ2 0) :=
  ⟨trivial, wZ2_ok.1, wZ2_ok.2.1, wZ2_ok.2.2, Proofs.C20.zunionStore_example.2.1⟩
/-- ... hence (theorem) a replica applying the record shows d = {m: 3.0} too -/
example : ∃ r', Feed.applyAll wZ2 0
      [{ typ := 34, key := [100], args := [Bytes.toHex [], Bytes.toHex [107], Bytes.toHex [108], "|"] }] = some r' ∧
    lookup r' 0 [100] = some (.zset ⟨[([109], 0x4008000000000000)], [(0x4008000000000000, [109])]⟩, 0) := by
  obtain ⟨r', a, s⟩ := replay_call_partial (.zunionStore [100] [[107], [108]] [] []) trivial wZ2_ok.1 wZ2_ok.2.1
    wZ2_ok.2.2 Proofs.C20.zunionStore_example.2.1
  rw [Proofs.C20.zunionStore_example.2.2.1] at a
  exact ⟨r', a, by rw [s.look]; exact Proofs.C20.zunionStore_example.2.2.2⟩

/-- empty result, destination among the operands: on k = {m: 1.0}, l = {n: 2.0}, ZINTERSTORE k 2 k l
    hands over a DEL record for k, and k is gone -/
theorem zinterStore_empty_example :
    ¬ (Call.zinterStore [107] [[107], [108]] [] []).Region (lookup wZ3 0) ∧
    Feed.emission (Call.zinterStore [107] [[107], [108]] [] []).info
        ((Call.zinterStore [107] [[107], [108]] [] []).run wZ3 0).2
        ((Call.zinterStore [107] [[107], [108]] [] []).run wZ3 0).1.feed.reverse = [{ typ := 2, key := [107] }] ∧
    (lookup wZ3 0 [107]).isSome = true ∧
    lookup ((Call.zinterStore [107] [[107], [108]] [] []).run wZ3 0).1 0 [107] = none :=
  Proofs.C20.zinterStore_empty_example

/-- an operand of another type (k holds a string): nothing emitted, nothing changed -/
theorem zunionStore_wrongtype_example :
    ((Call.zunionStore [100] [[107]] [] []).run wStr 0).1.feed = [] ∧
    ∀ k, lookup ((Call.zunionStore [100] [[107]] [] []).run wStr 0).1 0 k = lookup wStr 0 k :=
  Proofs.C20.zunionStore_wrongtype_example

/-! ### non-vacuity -/

/-- a concrete run: SETEX k "5" 10 at t=1, APPEND k "6" at t=2, RENAME k k' at t=3 on the watched empty
    primary satisfies every hypothesis of `replay_from_empty_partial`; the primary hands over three
    batches and ends with k' = "56" expiring at 10001 -/
example : CallsOK 0 [(.setEX [107] [53] 10, 1), (.append [107] [54], 2), (.rename [107] [108], 3)]
    (emptyWatched false) :=
  ⟨by decide, trivial, fun h => h, by decide, trivial, fun h => h, by decide, trivial, fun h => h, trivial⟩
example : (runCalls [(.setEX [107] [53] 10, 1), (.append [107] [54], 2), (.rename [107] [108], 3)]
    (emptyWatched false)).2.map (fun b => b.1.map (·.typ)) = [[25], [25], [32]] := by decide
example : logical (runCalls [(.setEX [107] [53] 10, 1), (.append [107] [54], 2), (.rename [107] [108], 3)]
    (emptyWatched false)).1 3 = [([108], .str [53, 54], 10001)] := by decide
/-- hence (theorem) an empty Pebble replica applying the three batches ends equal -/
example : ∃ r', applyBatches (empty true)
      (runCalls [(.setEX [107] [53] 10, 1), (.append [107] [54], 2), (.rename [107] [108], 3)] (emptyWatched false)).2
      = some r' ∧ logical r' 3 = [([108], .str [53, 54], 10001)] := by
  obtain ⟨r', a, s⟩ := replay_from_empty_partial false true
    [(.setEX [107] [53] 10, 1), (.append [107] [54], 2), (.rename [107] [108], 3)] 0
    ⟨by decide, trivial, fun h => h, by decide, trivial, fun h => h, by decide, trivial, fun h => h, trivial⟩
  refine ⟨r', a, ?_⟩
  have h3 : logical r' 3 = _ := s.eq.symm
  rw [h3]
  decide
/-- hypotheses of the counter theorem are satisfiable: INCR on an existing key is outside the region -/
example : ¬ (Call.incr [107]).Region (lookup wStr 0) := by
  show ¬ AddIntCreatesAndFails _ _ _; decide
example : Same 0 wStr wStr ∧ wStr.listeners = true ∧ wStr.feed = [] := by
  have h0 := same_empty false false 0
  obtain ⟨⟨r', _, s⟩, hl⟩ := call_main (.set [107] [118] false) trivial h0 rfl rfl (fun h => h)
  have s1 : Same 0 (drain ((Call.set [107] [118] false).run (emptyWatched false) 0).1) (drain r') := s.drain
  exact ⟨⟨s1.invP, s1.invP, rfl, s1.nonil⟩, by decide, by decide⟩

/-! ### applying records late -/

/-- records must reach the replica before the clock passes a deadline the record does not carry: an
    HSET applied after the key's deadline has passed re-creates the key (without deadline) on the
    replica, while on the primary the key is gone; applied at the time of the call, the replica agrees
    with the primary at every later time.  (The closed loop of the check therefore replicates before
    every clock step.) -/
theorem late_apply_finding :
    logical wHashExp 5 = [([107], .hash [([102], [118])], 10)] ∧
    (Api.hset wHashExp 5 [107] [103] [119]).1.feed.map (·.typ) = [10] ∧
    logical (Api.hset wHashExp 5 [107] [103] [119]).1 5 = [([107], .hash [([102], [118]), ([103], [119])], 10)] ∧
    logical (Api.hset wHashExp 5 [107] [103] [119]).1 20 = [] ∧
    (∃ r', Feed.applyAll wHashExp 5 [opHSet [107] [103] [119]] = some r' ∧
      logical r' 5 = logical (Api.hset wHashExp 5 [107] [103] [119]).1 5 ∧ logical r' 20 = []) ∧
    (∃ r', Feed.applyAll wHashExp 20 [opHSet [107] [103] [119]] = some r' ∧
      logical r' 20 = [([107], .hash [([103], [119])], 0)]) :=
  Proofs.C20.late_apply_finding

/- COVERED by `replay_call_partial` / `replay_sequence_partial` (70 methods, `Call`):
     Del Unlink Expire ExpirePX ExpireNX ExpireXX ExpireLT ExpireGT ExpireAt ExpireAtNX ExpireAtXX ExpireAtLT
     ExpireAtGT Rename RenameNX Persist Clear HClear ZClear | Set GetSet SetEX SetPX SetNX SetXX Incr IncrBy Decr
     DecrBy IncrByFloat SetBit Append SetRange MSet | LPush RPush LPop RPop LInsert LPushX RPushX LRem LSet LTrim
     LPopRPush RPopLPush | HSet HDel HIncrBy HIncrByFloat HSetNX HMSet | SAdd SRem SPop SMove SDiffStore
     SInterStore SUnionStore | ZAdd ZAddXX ZAddNX ZAddLT ZAddGT ZIncrBy ZRem ZRemRangeByRank ZRemRangeByScore
     ZUnionStore ZInterStore.
   Regions (`Call.Region`, a predicate of the logical content of the key):
     * Incr/IncrBy/Decr/DecrBy: key missing and the counter operation fails (`replay_call_finding`);
     * SetRange: key missing and the call panics (`replay_call_finding_setRange`);
     * IncrByFloat / HIncrByFloat: key missing and the arithmetic leaves the model's integer-valued float
       fragment (the model answers "unsupported" after creating the key; no witness);
     * HMSet: key missing and no fields (`replay_call_finding_hmset`);
     * ZRem*: the key holds an *empty* sorted set and nothing is removed (the primary unlinks the key
       silently; not reachable through the API, no concrete witness proved);
     * ZIncrBy: the resulting score is NaN (inf + -inf, or a NaN increment through the embedded API): the
       sorted-set invariant does not cover NaN scores; no witness;
     * ZUnionStore / ZInterStore: an aggregated score of the result is NaN (`ZStoreNaN`: +inf · 0,
       +inf + -inf, a NaN weight through the embedded API): the stored sorted set violates the storage
       invariant, which `Same` includes (`replay_call_finding_zstore_nan`; whether the logical keyspaces
       still agree inside the region is not decided).  Everything else is covered: empty result,
       destination among the operands / of another type / missing, missing or expired operands, failing
       calls (`zstore_fails_silent`).
   NOT COVERED (no theorem, no counterexample): the multi-key readers Scan, ZUnion, ZInter are not in `Read`
     (SDiff/SInter/SUnion are proved read-only: `SetReader`; the computations of ZUnion / ZInter are proved
     read-only as part of the store commands: `zcore_spec`).
   Later replica time: `late_apply_finding` — a record applied after a deadline it does not carry has
     passed diverges; batches are applied at the time of their call (`applyBatches`), and the result
     holds at every later time (`same_later`). -/

/-! ### IncrByFloat / HIncrByFloat without a region (work package C)

  With the decimal float text of Model/FloatDec.lean, FormatFloat is total and the value "0" of a fresh key parses:
  the regions `IncrByFloatCreatesAndFails` / `HIncrByFloatCreatesAndFails` of `Call.Region` are empty, so these two
  calls replay for EVERY increment (fractions, exponents, ±Inf, NaN) — the "integer-valued" restriction is gone. -/

theorem replay_incrByFloat_any (k : Bytes) (d : F64) (hwf : (Call.incrByFloat k d).WF) {now : Int} {p r : MState}
    (hs : Same now p r) (hl : p.listeners = true) (hfd : p.feed = []) :
    ∃ r', Feed.applyAll r now (Feed.emission (Call.incrByFloat k d).info ((Call.incrByFloat k d).run p now).2
        ((Call.incrByFloat k d).run p now).1.feed.reverse) = some r' ∧
      Same now ((Call.incrByFloat k d).run p now).1 r' :=
  replay_call_partial _ hwf hs hl hfd (call_region_incrByFloat _ k d)

theorem replay_hincrByFloat_any (k f : Bytes) (d : F64) (hwf : (Call.hincrByFloat k f d).WF) {now : Int} {p r : MState}
    (hs : Same now p r) (hl : p.listeners = true) (hfd : p.feed = []) :
    ∃ r', Feed.applyAll r now (Feed.emission (Call.hincrByFloat k f d).info ((Call.hincrByFloat k f d).run p now).2
        ((Call.hincrByFloat k f d).run p now).1.feed.reverse) = some r' ∧
      Same now ((Call.hincrByFloat k f d).run p now).1 r' :=
  replay_call_partial _ hwf hs hl hfd (call_region_hincrByFloat _ k f d)

/-- the well-formedness side conditions are satisfiable: an increment of 0.1 on key "k", field "f" -/
example : (Call.incrByFloat [107] 0x3FB999999999999A).WF ∧ (Call.hincrByFloat [107] [102] 0x3FB999999999999A).WF := by
  refine ⟨?_, ?_⟩
  · show True; trivial
  · show ([102] : Bytes).length + 1040 < 2 ^ 63; decide
/-! ### GEOADD's records (work package D)

  `GeoAdd` (Model/Handler4.lean `geoAdd`) emits one ZADD record per item - `patch.OpZAdd{Key, Member,
  Score: float64(hash)}` - after the last `ZAdd`.  With one item the call IS `ZAdd(key, member, score)`
  (`C04.geoadd_is_zadd`: same store, same records), so `replay_call_partial` for the ZAdd call applies to it
  verbatim; for several items the records are, in order, those of the ZAdd calls item by item.  Tie: `api GeoAdd`
  in the zset family of this check (records handed to a real watcher = `Feed.emission`; closed loop). -/

section geoadd
open NodisVerif.Proofs.GeoAdd NodisVerif.Handler4

/-- with a watcher attached, GEOADD on a sorted-set key (or a missing key) appends exactly one ZADD record per
    item, in argument order (the feed is kept newest first), each naming the key, the member and the score stored -/
theorem geoadd_emits_zadd_records (s : MState) (now : Int) (key : Bytes) (it : Bytes × F64) (items : List (Bytes × F64))
    (hl : s.listeners = true) (z : ZSet)
    (hz : Api.asZSet (writeKey s now key (some (.zset DsZSet.empty))).1 key = some z) :
    (geoAdd s now key (it :: items)).1.feed = ((it :: items).map fun i => Api.opZAdd key i.1 i.2).reverse ++ s.feed := by
  rw [geoAdd_eq, hz]
  dsimp only
  have hf : fl (signal (Api.setVal (writeKey s now key (some (.zset DsZSet.empty))).1 key (.zset (zaddAll z (it :: items)).1)) key) = fl s := by
    rw [fl_signal, fl_setVal, fl_writeKey]
  have hl' : (signal (Api.setVal (writeKey s now key (some (.zset DsZSet.empty))).1 key (.zset (zaddAll z (it :: items)).1)) key).listeners = true :=
    (congrArg Prod.snd hf).trans hl
  rw [emitAll_feed key _ _ hl']
  exact congrArg (_ ++ ·) (congrArg Prod.fst hf)

/-- … and each of them is the record `ZAdd(key, member, score)` emits -/
theorem geoadd_record_is_zadd_record (s : MState) (now : Int) (key m : Bytes) (sc : F64) :
    (geoAdd s now key [(m, sc)]).1.feed = (Api.zadd s now key m sc).1.feed := by
  rw [geoAdd_single]

/-- hypotheses satisfiable: a fresh store with a watcher, two items -/
example : ∃ z, Api.asZSet (writeKey { listeners := true } 0 [103] (some (.zset DsZSet.empty))).1 [103] = some z := ⟨_, rfl⟩
example : ((geoAdd { listeners := true } 0 [103] [([97], 5), ([98], 7)]).1.feed.map fun r => (r.typ, r.key, r.args)) =
    [(26, [103], ["62", "7"]), (26, [103], ["61", "5"])] := by decide +kernel

end geoadd

/-! ### ZADD, the command (work package Z: the repair of A-48 and of the non-atomic multi-member ZADD)

  The ZADD handler calls the unexported `(*Nodis).zAddPairs` (`Api.zaddPairs`): ONE transaction for all the pairs of
  one command, one ZADD record per member actually written (a pair skipped by NX / XX / GT / LT or by an equal score
  emits nothing, so a replica is never given a score the primary refused). It is not a `Call` (the embedded API does
  not export it); its replay theorem is stated here on its own, with the hypotheses of `replay_call_partial`.
  Tie: the ZADD commands of this check's closed loop over the network protocol (primary -> Encode/DecodeOp ->
  ApplyPatch -> replica, dumps equal) and the RESP streams of C04 / C16 (replies, final state). -/
section zaddPairs

/-- a replica that agrees with the drained, watched primary agrees with it again after applying the records of one
    ZADD command - every option set, every non-empty list of pairs with representable members and no NaN score -/
theorem replay_zaddPairs {now : Int} {p r : MState} (hs : Same now p r) (hl : p.listeners = true) (hfd : p.feed = [])
    (c : Feed.CallInfo) (hc : plainMethod c.method = true) (k : Bytes) (nx xx gt lt ch : Bool)
    (pairs : List (Bytes × F64)) (hne : pairs ≠ []) (hb : ∀ q ∈ pairs, PairOK q) :
    ∃ r', Feed.applyAll r now (Feed.emission c (Api.zaddPairs p now k nx xx gt lt ch pairs).2
        (Api.zaddPairs p now k nx xx gt lt ch pairs).1.feed.reverse) = some r' ∧
      Same now (Api.zaddPairs p now k nx xx gt lt ch pairs).1 r' :=
  zaddPairs_replay hs hl hfd c hc k nx xx gt lt ch pairs hne hb

/-- the records are those of the members written, in order: on the watched empty store, `ZADD k NX 1 a 2 a 3 b`
    emits ZADD a 1 and ZADD b 3 - not the refused second score of a -/
example : ((Api.zaddPairs (emptyWatched false) 0 [107] true false false false false
      [([97], F64.ofNat 1), ([97], F64.ofNat 2), ([98], F64.ofNat 3)]).1.feed.reverse.map fun r => (r.typ, r.key, r.args)) =
    [(26, [107], ["61", toString (F64.ofNat 1)]), (26, [107], ["62", toString (F64.ofNat 3)])] := by decide +kernel

/-- hypotheses satisfiable: the watched empty primary and the empty replica, GT CH with three pairs -/
example : Same 0 (emptyWatched false) (empty false) ∧ (emptyWatched false).listeners = true ∧ (emptyWatched false).feed = [] ∧
    plainMethod "ZAdd" = true ∧
    (∀ q ∈ [(([97] : Bytes), F64.ofNat 5), ([98], F64.ofNat 1), ([110], F64.ofNat 9)], PairOK q) := by
  refine ⟨same_empty false false 0, rfl, rfl, by decide, ?_⟩
  intro q hq
  simp only [List.mem_cons, List.not_mem_nil, or_false] at hq
  rcases hq with rfl | rfl | rfl <;> exact ⟨by decide +kernel, by decide⟩

end zaddPairs
/-! ### the wire encoding of change records (patch/patch.go `Op.Encode` / `DecodeOp` over protobuf)

  Model: `Model/ProtoWire.lean` — the proto3 wire format restricted to the field kinds of patch/op.proto
  (string, bytes, int64, bool, double, repeated string / bytes, packed repeated double), schema-driven:
  `marshal sch vs` (bytes + the error flag Marshal returns and `Op.Encode` drops), `unmarshal sch b`
  (values + retained unknown bytes, `none` = error), `encodeOp` / `decodeOp` = type byte + message over
  the table `opTable` of the 36 operation types.  The table is regenerated from patch/op.pb.go and
  patch/patch.go on every run and compared (`Tie.source_patch_table_is_the_model_table`); model and code are
  compared byte for byte on every run (checks/patchwire.py: every type x edge values, malformed inputs).

  This replaces the former assumption "protobuf round-trips valid UTF-8 strings and all byte fields" by
  theorems.  Well-formed (`wfVals`, `Op.wf`; decidable): the value list fits the schema, int64 values are
  in range, `string` values (and every element of a repeated string) are valid UTF-8 (`validUTF8` = Go's
  utf8.Valid), every byte string is shorter than 2^63 (a Go slice length; the model's lists are
  unbounded), no retained unknown bytes. -/

section Wire
open NodisVerif.ProtoWire NodisVerif.Proofs.ProtoWire

/-- Unmarshal ∘ Marshal = id on well-formed values, for EVERY schema with distinct field numbers in
    1 … 2^29-1 (in particular every schema of the table: `wire_table_schemas_ok`), all sizes.
    proto3's "absent = default" needs no normalisation here: a field holding its default value is not
    emitted and decodes to the default it already is. Marshal reports no error. -/
theorem decode_encode (sch : Schema) (hs : schemaOk sch = true) (vs : List PVal) (hwf : wfVals sch vs = true) :
    decodeMsg sch (encodeMsg sch vs) = some vs ∧ (marshal sch vs).2 = false := by
  refine ⟨?_, marshal_ok hs hwf⟩
  unfold decodeMsg encodeMsg
  rw [unmarshal_marshal hs hwf]
  rfl

/-- … and nothing is retained as unknown -/
theorem unmarshal_marshal_exact (sch : Schema) (hs : schemaOk sch = true) (vs : List PVal)
    (hwf : wfVals sch vs = true) : unmarshal sch (marshal sch vs).1 = some { vals := vs, unknown := [] } :=
  unmarshal_marshal hs hwf

/-- every message schema of the table qualifies -/
theorem wire_table_schemas_ok (t : Nat) (sch : Schema) (h : schemaOf t = some sch) : schemaOk sch = true :=
  schemaOf_ok h

/-- Marshal emits the fields in field-number order (`orderedCoderFields`); the model emits them in schema
    order: in every schema of the table the two orders coincide, and the table's type numbers are 1 … 36 -/
theorem wire_table_fields_ascending :
    (opTable.all fun e => decide ((e.2.2.map (·.1)).Pairwise (· < ·))) = true ∧
    opTable.map (·.1) = (List.range 37).drop 1 := by
  decide +kernel

/-- DecodeOp (Encode op) = op for every operation type of the table and every well-formed record;
    Marshal reports no error for it -/
theorem decodeOp_encodeOp (op : Op) (h : op.wf = true) :
    decodeOp (encodeOp op) = .ok op ∧ encodeFails op = false :=
  ⟨Proofs.ProtoWire.decodeOp_encodeOp h, encodeFails_wf h⟩

/-- different well-formed records never share an encoding -/
theorem encode_injective (a b : Op) (ha : a.wf = true) (hb : b.wf = true) (h : encodeOp a = encodeOp b) :
    a = b := by
  have h1 := Proofs.ProtoWire.decodeOp_encodeOp ha
  have h2 := Proofs.ProtoWire.decodeOp_encodeOp hb
  rw [h] at h1
  rw [h1] at h2
  exact Except.ok.inj h2

/-- the same for messages of one schema -/
theorem encodeMsg_injective (sch : Schema) (hs : schemaOk sch = true) (vs ws : List PVal)
    (hv : wfVals sch vs = true) (hw : wfVals sch ws = true) (h : encodeMsg sch vs = encodeMsg sch ws) :
    vs = ws := by
  have h1 := (decode_encode sch hs vs hv).1
  have h2 := (decode_encode sch hs ws hw).1
  rw [h] at h1
  rw [h1] at h2
  exact Option.some.inj h2

/-- DecodeOp is total (the repair 12a5893 as a theorem): every input gives a record or one of three
    errors — empty input and unknown operation types are errors, not panics; and the model's answer does
    not depend on fuel: both loops (Unmarshal's field loop, the skipper of nested groups) give the same
    result for every amount of fuel at least the length of their input, so the `none` of an exhausted
    loop is never what the model answers. -/
theorem decode_total :
    decodeOp [] = .error .empty ∧
    (∀ (t : UInt8) (body : Bytes), schemaOf t.toNat = none → decodeOp (t :: body) = .error .unknownType) ∧
    (∀ (t : UInt8), schemaOf t.toNat = none ↔ (t.toNat = 0 ∨ 36 < t.toNat)) ∧
    (∀ (t : UInt8) (body : Bytes) (sch : Schema), schemaOf t.toNat = some sch →
      decodeOp (t :: body) = match unmarshal sch body with
        | none => .error .wire
        | some m => .ok { typ := t, msg := m }) ∧
    (∀ (sch : Schema) (f : Nat) (b : Bytes) (m : Msg), b.length ≤ f →
      decodeLoop sch f b m = decodeLoop sch b.length b m) ∧
    (∀ (f depth num : Nat) (b : Bytes), b.length < f →
      skipGroup f depth num b = skipGroup (b.length + 1) depth num b) := by
  refine ⟨rfl, ?_, ?_, ?_, ?_, ?_⟩
  · intro t body h
    simp only [decodeOp, h]
  · intro t
    have hlt := t.toNat_lt
    generalize t.toNat = n at hlt
    have key : ∀ k, k < 256 → (schemaOf k).isNone = (k == 0 || decide (36 < k)) := by decide +kernel
    have hk := key n hlt
    cases hs : schemaOf n with
    | none =>
      simp only [hs, Option.isNone_none] at hk
      simp only [true_iff]
      have := hk.symm
      simp only [Bool.or_eq_true, beq_iff_eq, decide_eq_true_eq] at this
      exact this
    | some sch =>
      simp only [hs, Option.isNone_some] at hk
      have := hk.symm
      simp only [Bool.or_eq_false_iff, beq_eq_false_iff_ne, decide_eq_false_iff_not] at this
      simp only [reduceCtorEq, false_iff]
      omega
  · intro t body sch h
    simp only [decodeOp, h]
    cases unmarshal sch body <;> rfl
  · intro sch f b m h
    exact decodeLoop_fuel sch f b.length b m h (Nat.le_refl _)
  · intro f depth num b h
    exact skipGroup_fuel f (b.length + 1) depth num b h (Nat.lt_succ_self _)

/-- the other half of the round trip — known finding A-200 in general form. A record a Go program can
    build (`Op.typed`: kinds fit, int64 in range, lengths below 2^63; strings hold any bytes) that is not
    well-formed (some `string` field or element of a repeated string is not valid UTF-8): Marshal fails,
    `Op.Encode` ships the truncated message, and DecodeOp ALWAYS rejects it -/
theorem encode_rejected (op : Op) (ht : op.typed = true) (hn : op.wf = false) :
    encodeFails op = true ∧ decodeOp (encodeOp op) = .error .wire :=
  decodeOp_encodeOp_bad ht hn

/-- together: a record a Go program can build arrives as itself exactly when it is well-formed, and it
    never arrives as another record -/
theorem decodeOp_encodeOp_iff (op : Op) (ht : op.typed = true) :
    (decodeOp (encodeOp op) = .ok op ↔ op.wf = true) ∧
    (∀ op', decodeOp (encodeOp op) = .ok op' → op' = op) := by
  cases hw : op.wf with
  | true =>
    have h := Proofs.ProtoWire.decodeOp_encodeOp hw
    refine ⟨⟨fun _ => rfl, fun _ => h⟩, ?_⟩
    intro op' h'
    rw [h] at h'
    exact (Except.ok.inj h').symm
  | false =>
    have h := (decodeOp_encodeOp_bad ht hw).2
    refine ⟨⟨fun h' => ?_, fun h' => by cases h'⟩, ?_⟩
    · rw [h] at h'; cases h'
    · intro op' h'
      rw [h] at h'; cases h'

/-- what DecodeOp RETURNS, for any input whatsoever, is a record Marshal accepts: every `string` field and
    every element of a repeated string is valid UTF-8, every int64 is in range (`okVals` = field-wise
    `PVal.ok`) — so a replica never receives a name that is not UTF-8, and Encode of a decoded record
    never fails -/
theorem decoded_is_encodable (b : Bytes) (op : Op) (h : decodeOp b = .ok op) :
    encodeFails op = false ∧ ∃ sch, schemaOf op.typ.toNat = some sch ∧ okVals sch op.msg.vals = true :=
  ⟨decodeOp_encodable h, decodeOp_okVals h⟩

/-- DecodeOp ∘ Encode ∘ DecodeOp = DecodeOp. Whatever bytes a replica accepted (shorter than 2^63, no
    unknown fields retained): the decoded record is well-formed — byte accounting: the decoded values never
    hold more bytes than were consumed — so its encoding is the canonical one and decodes to the same record
    (a replica can ship a record on; non-canonical inputs are normalised after one hop) -/
theorem decode_reencode (b : Bytes) (op : Op) (h : decodeOp b = .ok op) (hb : b.length < 2 ^ 63)
    (hu : op.msg.unknown = []) : op.wf = true ∧ decodeOp (encodeOp op) = .ok op := by
  have hw := decodeOp_wf h hb hu
  exact ⟨hw, Proofs.ProtoWire.decodeOp_encodeOp hw⟩

/-- hypotheses satisfiable on a non-canonical input (Expiration first and twice, over-long key length) -/
example : decodeOp [25, 0x20, 5, 0x0a, 0x81, 0x00, 107, 0x20, 7]
      = .ok { typ := 25, msg := { vals := [.bytes [107], .bytes [], .bool false, .int 7] } } ∧
    encodeOp { typ := 25, msg := { vals := [.bytes [107], .bytes [], .bool false, .int 7] } } = [25, 0x0a, 1, 107, 0x20, 7] := by
  decide +kernel

/-- hypotheses satisfiable: typed, not well-formed (an element of HDEL's repeated string is not UTF-8) -/
example : ({ typ := 6, msg := { vals := [.bytes [104], .list [[102], [0xc3, 0x28], [103]]] } } : Op).typed = true ∧
    ({ typ := 6, msg := { vals := [.bytes [104], .list [[102], [0xc3, 0x28], [103]]] } } : Op).wf = false ∧
    encodeOp { typ := 6, msg := { vals := [.bytes [104], .list [[102], [0xc3, 0x28], [103]]] } }
      = [6, 0x0a, 1, 104, 0x12, 1, 102, 0x12, 2, 0xc3, 0x28] := by
  decide +kernel

/-- hypotheses satisfiable: a SET record with a two-byte UTF-8 key, a value that is not UTF-8, KeepTTL and
    a negative deadline; its encoding, byte for byte; a ZUNIONSTORE record with an empty operand name and
    -0.0 / NaN weights -/
example : ({ typ := 25, msg := { vals := [.bytes [0xc3, 0xa9], .bytes [0xff, 0x00], .bool true, .int (-1)] } } : Op).wf = true ∧
    encodeOp { typ := 25, msg := { vals := [.bytes [0xc3, 0xa9], .bytes [0xff, 0x00], .bool true, .int (-1)] } }
      = [25, 0x0a, 2, 0xc3, 0xa9, 0x12, 2, 0xff, 0x00, 0x18, 1, 0x20, 0xff, 0xff, 0xff, 0xff, 0xff, 0xff, 0xff, 0xff, 0xff, 0x01] ∧
    ({ typ := 34, msg := { vals := [.bytes [100], .list [[97], [], [98]], .f64s [0x8000000000000000, 0x7ff8000000000001], .bytes [83]] } } : Op).wf = true := by
  decide +kernel

/-- known finding A-200 inside the model: a record whose key is not valid UTF-8 is not well-formed;
    Marshal appends the key, reports the error, `Op.Encode` drops the error and ships the truncated
    message (the value is lost), and DecodeOp rejects what was shipped -/
theorem encode_invalid_utf8_finding :
    let op : Op := { typ := 25, msg := { vals := [.bytes [0xff], .bytes [118], .bool false, .int 0] } }
    op.wf = false ∧ encodeFails op = true ∧ encodeOp op = [25, 0x0a, 1, 0xff] ∧
    decodeOp (encodeOp op) = .error .wire := by
  decide +kernel

/-- what DecodeOp tolerates beyond Encode's output (Go's Unmarshal does): fields in any order, the last
    occurrence of a scalar wins, unknown fields (here number 5, a group holding a varint) are skipped and
    retained, packed and unpacked doubles mix; re-encoding is canonical, so DecodeOp is not injective -/
theorem decode_tolerant_examples :
    decodeOp [25, 0x20, 5, 0x0a, 1, 107, 0x2b, 0x08, 1, 0x2c, 0x20, 7, 0x0a, 1, 108]
      = .ok { typ := 25, msg := { vals := [.bytes [108], .bytes [], .bool false, .int 7], unknown := [0x2b, 0x08, 1, 0x2c] } } ∧
    decodeOp [34, 0x19, 0, 0, 0, 0, 0, 0, 0xf0, 0x3f, 0x1a, 8, 0, 0, 0, 0, 0, 0, 0, 0x40]
      = .ok { typ := 34, msg := { vals := [.bytes [], .list [], .f64s [0x3ff0000000000000, 0x4000000000000000], .bytes []] } } ∧
    decodeOp [25, 0x8a, 0x00, 1, 107] = decodeOp [25, 0x0a, 1, 107] := by
  decide +kernel

end Wire

/-! ### the feed through the wire (`Model/FeedWire.lean`)

  `Feed.viaWire` = a feed record as the typed `patch.Op`, `Op.Encode`d to bytes on the primary, `DecodeOp`ed
  on the replica, rendered again.  `Feed.wireNormal` (decidable; evaluated by the driver for every record a
  `replicate` line ships, on every run: a record that is not normal makes the model print WIRE-NOT-NORMAL and
  the run fail): the record's typed form is well-formed (`Op.wf`: UTF-8 names, int64 range) and the record is
  the canonical text of its typed form.  Under it the wire is the identity, so the replay theorems, which
  apply records "through their textual fields", hold verbatim for records that went through the bytes. -/

section FeedWire
open NodisVerif.ProtoWire NodisVerif.Proofs.ProtoWire

/-- a normal record arrives as itself -/
theorem viaWire_normal (op : FeedOp) (h : Feed.wireNormal op = true) : Feed.viaWire op = some op := by
  unfold Feed.wireNormal at h
  cases hw : Feed.toWire op with
  | none => simp [hw] at h
  | some w =>
    simp only [hw, Bool.and_eq_true] at h
    obtain ⟨hwf, hf⟩ := h
    cases hfw : Feed.fromWire w with
    | none => simp [hfw] at hf
    | some op' =>
      simp only [hfw, Bool.and_eq_true, beq_iff_eq] at hf
      obtain ⟨⟨h1, h2⟩, h3⟩ := hf
      have e : op' = op := by
        cases op'; cases op
        simp only at h1 h2 h3
        subst h1; subst h2; subst h3; rfl
      simp only [Feed.viaWire, hw, Option.bind_some, Feed.throughWire, Proofs.ProtoWire.decodeOp_encodeOp hwf,
        hfw, e]

/-- a batch of normal records arrives as itself, hence the replica that applies what arrived ends where
    the replica that applies the emitted records ends -/
theorem replicate_through_wire (ops : List FeedOp) (h : ∀ op ∈ ops, Feed.wireNormal op = true) :
    ops.mapM Feed.viaWire = some ops ∧
    ∀ (r : MState) (now : Int), (ops.mapM Feed.viaWire).bind (Feed.applyAll r now) = Feed.applyAll r now ops := by
  have hm : ops.mapM Feed.viaWire = some ops := by
    induction ops with
    | nil => rfl
    | cons op rest ih =>
      rw [List.mapM_cons, viaWire_normal op (h op (List.mem_cons_self ..)),
        ih (fun o ho => h o (List.mem_cons_of_mem _ ho))]
      rfl
  exact ⟨hm, fun r now => by rw [hm]; rfl⟩

/-- the main theorem through the bytes: the records of a covered call, Encoded, Decoded and then applied,
    bring the replica to the primary's logical keyspace — provided they are normal (checked on every
    shipped record of every run) -/
theorem replay_call_through_wire_partial (c : Call) (hwf : c.WF) {now : Int} {p r : MState} (hs : Same now p r)
    (hl : p.listeners = true) (hfd : p.feed = []) (hreg : ¬ c.Region (lookup p now))
    (hn : ∀ op ∈ Feed.emission c.info (c.run p now).2 (c.run p now).1.feed.reverse, Feed.wireNormal op = true) :
    ∃ r', ((Feed.emission c.info (c.run p now).2 (c.run p now).1.feed.reverse).mapM Feed.viaWire).bind
        (Feed.applyAll r now) = some r' ∧ Same now (c.run p now).1 r' := by
  rw [(replicate_through_wire _ hn).2 r now]
  exact replay_call_partial c hwf hs hl hfd hreg

theorem batchesViaWire_normal (bs : List (List FeedOp × Int))
    (h : ∀ b ∈ bs, ∀ op ∈ b.1, Feed.wireNormal op = true) : Feed.batchesViaWire bs = some bs := by
  unfold Feed.batchesViaWire
  induction bs with
  | nil => rfl
  | cons b rest ih =>
    rw [List.mapM_cons, (replicate_through_wire b.1 (h b (List.mem_cons_self ..))).1,
      ih (fun c hc => h c (List.mem_cons_of_mem _ hc))]
    rfl

/-- sequences of calls at non-decreasing times: every batch Encoded, Decoded and applied at the time of its
    call brings the replica to the primary's logical keyspace (hypothesis as above: the shipped records are
    normal, which the driver evaluates for every record of every run) -/
theorem replay_sequence_through_wire_partial (calls : List (Call × Int)) (t : Int) (p r : MState) (hs : Same t p r)
    (hl : p.listeners = true) (hfd : p.feed = []) (hok : CallsOK t calls p)
    (hn : ∀ b ∈ (runCalls calls p).2, ∀ op ∈ b.1, Feed.wireNormal op = true) :
    ∃ r', (Feed.batchesViaWire (runCalls calls p).2).bind (applyBatches r) = some r' ∧
      Same (lastTime t calls) (runCalls calls p).1 r' := by
  rw [batchesViaWire_normal _ hn]
  exact replay_sequence_partial calls t p r hs hl hfd hok

/-- the hypothesis is satisfiable and decided by evaluation: a SET with a deadline, a ZREMRANGEBYSCORE and a
    ZUNIONSTORE record are normal; a record naming a key that is not UTF-8 is not, and does not arrive (A-200) -/
example :
    Feed.wireNormal { typ := 25, key := [107], args := [Bytes.toHex [118], toString false, toString (1700000000000 : Int)] } = true ∧
    Feed.wireNormal { typ := 31, key := [122], args := [toString (4607182418800017408 : F64), toString (4611686018427387904 : F64), toString (0 : Int)] } = true ∧
    Feed.wireNormal { typ := 34, key := [100], args := [Bytes.toHex [115, 117, 109], Bytes.toHex [97], Bytes.toHex [98], "|", toString (4607182418800017408 : F64), toString (0 : F64)] } = true ∧
    Feed.wireNormal { typ := 25, key := [0xff], args := [Bytes.toHex [118], toString false, toString (0 : Int)] } = false ∧
    Feed.viaWire { typ := 25, key := [0xff], args := [Bytes.toHex [118], toString false, toString (0 : Int)] } = none := by
  have h25 : schemaOf 25 = some [(1, .str), (2, .bytes), (3, .bool), (4, .int64)] := by decide
  have h31 : schemaOf 31 = some [(1, .str), (2, .int64), (3, .double), (4, .double)] := by decide
  have h34 : schemaOf 34 = some [(1, .str), (2, .repStr), (3, .repDouble), (4, .str)] := by decide
  refine ⟨?_, ?_, ?_, ?_, ?_⟩
  · simp only [Feed.wireNormal, Feed.toWire, h25, Feed.argsToVals, pB_toHex, pT_toString, pI_toString, List.drop]
    decide +kernel
  · simp only [Feed.wireNormal, Feed.toWire, h31, pF_toString, pI_toString]
    decide +kernel
  · have hk : (["61", "62", "|", "4607182418800017408", "0"] : List String).takeWhile (· ≠ "|") = ["61", "62"] := by decide
    have hd : (["61", "62", "|", "4607182418800017408", "0"] : List String).dropWhile (· ≠ "|") = ["|", "4607182418800017408", "0"] := by decide
    have e1 : Bytes.toHex [97] = "61" := by decide
    have e2 : Bytes.toHex [98] = "62" := by decide
    have e3 : toString (4607182418800017408 : F64) = "4607182418800017408" := by decide
    have e4 : toString (0 : F64) = "0" := by decide
    have p1 : Feed.pB "61" = some [97] := e1 ▸ pB_toHex [97]
    have p2 : Feed.pB "62" = some [98] := e2 ▸ pB_toHex [98]
    have p3 : Feed.pF "4607182418800017408" = some 4607182418800017408 := e3 ▸ pF_toString _
    have p4 : Feed.pF "0" = some 0 := e4 ▸ pF_toString _
    simp only [Feed.wireNormal, Feed.toWire, h34, e1, e2, e3, e4, hk, hd, List.drop, List.mapM_cons, List.mapM_nil, p1, p2, p3, p4, pB_toHex]
    decide +kernel
  · simp only [Feed.wireNormal, Feed.toWire, h25, Feed.argsToVals, pB_toHex, pT_toString, pI_toString, List.drop]
    decide +kernel
  · simp only [Feed.viaWire, Feed.toWire, h25, Feed.argsToVals, pB_toHex, pT_toString, pI_toString, List.drop]
    decide +kernel

end FeedWire

end NodisVerif.C20
