import NodisVerif.Model.Proto
import NodisVerif.Proofs.ProtoReg
/-
  C05 — concurrent single-key commands are linearizable: no lost or torn updates.

  Property theorems only, about the locking protocol `Model/Proto.lean` (the transition system whose
  steps are the ones `tx.go` / `store.go` report). Reference notions, all in Proofs/ProtoBasic.lean:
    `runAll s es`   the fold of `step` over a trace (`= some s'` iff every step is allowed),
    `Reachable s`   `∃ es, runAll {} es = some s`,
    `evTx e`        the transaction an event belongs to (`clear` belongs to none).
  Every theorem is about ALL reachable states: any trace, any number of transactions, keys, records.
  Helper lemmas: Proofs/ProtoBasic, ProtoStep, ProtoInv (the invariant), ProtoReg.

  Why this is linearizability of single-key commands: a command reads / updates the value that lives in
  the record it holds. (2) the record it validated is the one registered under the key; (3) it stays
  the registered one for as long as the command holds it; (1)+(5) while a writer holds it nobody else
  does. So the commands working on the current record of a key are serialized by its lock, and an
  update is never applied to a record that has already left the index (the old lost-update bug, (6)).
-/
namespace NodisVerif.C05
open NodisVerif.Proto
open NodisVerif.Proofs.Proto

/-- `runAll` is the model's own `run`, without the error report -/
theorem runAll_is_run (s s' : PState) (es : List Ev) (i : Nat) :
    run s es i = .ok s' ↔ runAll s es = some s' := run_ok_iff s s' es i

/-! ## 1. mutual exclusion -/

/-- A write hold is exclusive: if `t` holds record `h.rid` in mode w, any hold `g` of any transaction
    `u` on the same record is that very hold (no second writer, no reader, not a second hold of `t`). -/
theorem mutual_exclusion {s : PState} (hr : Reachable s) {t u : Tx} {st su : TxSt} {h g : Hold}
    (ht : s.tx t = some st) (hh : h ∈ st.holds) (hw : h.mode = .w)
    (hu : s.tx u = some su) (hg : g ∈ su.holds) (e : g.rid = h.rid) : u = t ∧ g = h := by
  have hi := hr.inv
  have : u = t := (hi.compat t u st su h g ht hu hh hg e.symm (Or.inl hw)).symm
  subst this
  rw [ht] at hu; cases hu
  exact ⟨rfl, same_hold (hi.holdNodup u st ht) hg hh e⟩

/-- the same, on the model's own `heldBy` list -/
theorem write_lock_exclusive {s : PState} (hr : Reachable s) {t : Tx} {st : TxSt} {h : Hold}
    (ht : s.tx t = some st) (hh : h ∈ st.holds) (hw : h.mode = .w) :
    ∀ p ∈ s.heldBy h.rid, p = (t, h) := by
  intro p hp
  obtain ⟨h1, h2⟩ := mem_heldBy.1 hp
  obtain ⟨su, h3, h4⟩ := holds_of_mem_allHolds hr.inv.txNodup (t := p.1) (h := p.2) h1
  obtain ⟨a, b⟩ := mutual_exclusion hr ht hh hw h3 h4 h2
  exact Prod.ext a b

/-- holds of two different transactions on one record are both read holds -/
theorem shared_means_read {s : PState} (hr : Reachable s) {t u : Tx} {st su : TxSt} {h g : Hold}
    (ht : s.tx t = some st) (hh : h ∈ st.holds) (hu : s.tx u = some su) (hg : g ∈ su.holds)
    (e : h.rid = g.rid) (hne : t ≠ u) : h.mode = .r ∧ g.mode = .r := by
  constructor
  · cases hm : h.mode with
    | r => rfl
    | w => exact absurd (hr.inv.compat t u st su h g ht hu hh hg e (Or.inl hm)) hne
  · cases hm : g.mode with
    | r => rfl
    | w => exact absurd (hr.inv.compat t u st su h g ht hu hh hg e (Or.inr hm)) hne

/-- a transaction has at most one hold per record, and a transaction id is active at most once -/
theorem one_hold_per_record {s : PState} (hr : Reachable s) {t : Tx} {st : TxSt} {h g : Hold}
    (ht : s.tx t = some st) (hh : h ∈ st.holds) (hg : g ∈ st.holds) (e : h.rid = g.rid) : h = g :=
  same_hold (hr.inv.holdNodup t st ht) hh hg e

theorem active_once {s : PState} (hr : Reachable s) : (s.txs.map Prod.fst).Nodup := hr.inv.txNodup

/-! ## 2. a validated record is the current record of the key -/

theorem valid_means_current {s s' : PState} {t : Tx} {k : Key} {r : Rec}
    (h : step s (.valid t k r true) = some s') : s'.lookup k = some r := by
  obtain ⟨st, g, _, _, _, _, ⟨c, _⟩ | ⟨_, hl, rfl⟩⟩ := step_valid.1 h
  · cases c
  · exact hl

theorem claim_means_current {s s' : PState} {t : Tx} {k : Key} {r : Rec} {m : Mode}
    (h : step s (.claim t k r m) = some s') : s'.lookup k = some r := by
  obtain ⟨st, _, _, _, hl, _, rfl⟩ := step_claim.1 h
  rw [setTx_lookup]
  unfold PState.lookup
  simp [(lookup_none hl).1, assoc_put]

/-- … and the hold is there, validated, under that key -/
theorem valid_gives_hold {s s' : PState} {t : Tx} {k : Key} {r : Rec}
    (h : step s (.valid t k r true) = some s') :
    ∃ st g, s'.tx t = some st ∧ g ∈ st.holds ∧ g.rid = r ∧ g.key = k ∧ g.valid = true := by
  obtain ⟨st, g, _, hof, _, hk, ⟨c, _⟩ | ⟨_, _, rfl⟩⟩ := step_valid.1 h
  · cases c
  · exact ⟨_, _, tx_setTx_same _ _ _, mem_setHold.2 (Or.inl rfl), (holdOf_some hof).2, hk, rfl⟩

/-! ## 3. stability: nobody but the holder (or a FLUSH) takes a held record out of the index -/

/-- As requested: `t` holds `r` validated for `k`, `r` is registered under `k`; a step of another
    transaction `u` (so not `clear`) leaves it registered. -/
theorem others_cannot_unregister {s s' : PState} (hr : Reachable s) {t u : Tx} {st : TxSt} {h : Hold}
    {e : Ev} (ht : s.tx t = some st) (hh : h ∈ st.holds) (_hv : h.valid = true)
    (hl : s.lookup h.key = some h.rid) (he : evTx e = some u) (hne : u ≠ t) (hs : step s e = some s') :
    s'.lookup h.key = some h.rid :=
  held_stays_registered hr.inv ht hh hl he hne hs

/-- What is true is stronger: ANY hold (read or write, validated or not) on `r` protects the
    registration of `r` under ANY key `k`, because `unlink` / `drop` need a write hold on `r`, which
    mutual exclusion denies to everybody else. -/
theorem held_record_stays_registered {s s' : PState} (hr : Reachable s) {t u : Tx} {st : TxSt} {h : Hold}
    {k : Key} {e : Ev} (ht : s.tx t = some st) (hh : h ∈ st.holds) (hl : s.lookup k = some h.rid)
    (he : evTx e = some u) (hne : u ≠ t) (hs : step s e = some s') : s'.lookup k = some h.rid :=
  held_stays_registered hr.inv ht hh hl he hne hs

/-- over any stretch of steps of other transactions: `t`'s state is untouched and the record it holds
    is still the registered one -/
theorem held_record_stays_registered_run {s s' : PState} (hr : Reachable s) {t : Tx} {st : TxSt} {h : Hold}
    {k : Key} {es : List Ev} (ht : s.tx t = some st) (hh : h ∈ st.holds) (hl : s.lookup k = some h.rid)
    (he : ∀ e ∈ es, ∃ u, evTx e = some u ∧ u ≠ t) (hs : runAll s es = some s') :
    s'.tx t = some st ∧ s'.lookup k = some h.rid :=
  held_stays_registered_run hr.inv ht hh hl he hs

/-- the only steps that unregister the record of a key at all: `unlink` / `drop` of that record, `clear` -/
theorem only_unlink_drop_clear_unregister {s s' : PState} (hr : Reachable s) {e : Ev} {k : Key} {r : Rec}
    (hs : step s e = some s') (hl : s.lookup k = some r) (h1 : ∀ u, e ≠ .unlink u k r)
    (h2 : ∀ u, e ≠ .drop u k r) (h3 : e ≠ .clear) : s'.lookup k = some r :=
  lookup_stable hr.inv hs hl h1 h2 h3

/-- the FLUSH exception is real: `clear` unregisters a record that is held and validated -/
example : (runAll {} [.begin 1, .claim 1 "k" 10 .w, .publish 1 "k" 10, .clear]).map
    (fun s => (s.lookup "k", s.allHolds.map fun p => (p.1, p.2.rid, p.2.valid))) =
    some (none, [(1, 10, true)]) := by decide

/-! ## 4. registrations -/

/-- index and `pending` never both register a key -/
theorem one_registered_record_per_key {s : PState} (hr : Reachable s) {k : Key} {r : Rec}
    (h : assoc s.index k = some r) : assoc s.pending k = none := hr.inv.disjoint k r h

/-- a registered record is registered under its own name (its id is in `names`) -/
theorem registered_records_named {s : PState} (hr : Reachable s) {k : Key} {r : Rec}
    (h : s.lookup k = some r) : assoc s.names r = some k := by
  rcases lookup_eq_some.1 h with h | ⟨_, h⟩
  · exact hr.inv.idxName k r h
  · exact hr.inv.pendName k r h

/-- a record is registered under at most one key -/
theorem record_under_one_key {s : PState} (hr : Reachable s) {k k' : Key} {r : Rec}
    (h : s.lookup k = some r) (h' : s.lookup k' = some r) : k = k' := by
  have a := registered_records_named hr h
  have b := registered_records_named hr h'
  rw [a] at b; exact Option.some.inj b

/-- a held record is in `names`, and the hold carries its name -/
theorem held_records_named {s : PState} (hr : Reachable s) {t : Tx} {st : TxSt} {h : Hold}
    (ht : s.tx t = some st) (hh : h ∈ st.holds) : assoc s.names h.rid = some h.key :=
  hr.inv.holdName t st h ht hh

/-! ## 5. the writers of a key are serialized -/

/-- Two different transactions never hold, at the same time, validated holds on the currently
    registered record(s) of one key unless both are readers. (The registered record of a key is
    unique, so this is mutual exclusion on it; the validity of the holds is not even needed.) -/
theorem per_key_writers_serial {s : PState} (hr : Reachable s) {t u : Tx} {st su : TxSt} {h g : Hold}
    (hne : t ≠ u) (ht : s.tx t = some st) (hh : h ∈ st.holds) (hu : s.tx u = some su) (hg : g ∈ su.holds)
    (_hv : h.valid = true ∧ g.valid = true)
    (hl : s.lookup h.key = some h.rid) (hl' : s.lookup g.key = some g.rid) (hk : h.key = g.key) :
    h.mode = .r ∧ g.mode = .r := by
  have e : h.rid = g.rid := by rw [hk, hl'] at hl; exact (Option.some.inj hl).symm
  exact shared_means_read hr ht hh hu hg e hne

/-- a writer of the current record of `k` is alone on `k`: no other transaction holds the record
    registered under `k` -/
theorem writer_is_alone {s : PState} (hr : Reachable s) {t u : Tx} {st su : TxSt} {h g : Hold} {k : Key}
    (ht : s.tx t = some st) (hh : h ∈ st.holds) (hw : h.mode = .w) (hl : s.lookup k = some h.rid)
    (hu : s.tx u = some su) (hg : g ∈ su.holds) (hl' : s.lookup k = some g.rid) : u = t ∧ g = h := by
  have e : g.rid = h.rid := by rw [hl] at hl'; exact (Option.some.inj hl').symm
  exact mutual_exclusion hr ht hh hw hu hg e

/-! ## 6. the old lost-update scenario is rejected; non-vacuity -/

/-- key "k" is created with record 10 by transaction 2 -/
def setupK : List Ev :=
  [.begin 2, .claim 2 "k" 10 .w, .publish 2 "k" 10, .commit 2, .unlock 2 10, .fin 2]

/-- T1 looks "k" up (record 10) and blocks on it; T3 locks 10 first, deletes the key (`unlink`, then the
    placeholder 11 of `delKey`), commits; now T1 gets the lock of the unlinked record 10 -/
def staleTrace : List Ev := setupK ++
  [.begin 1, .begin 3, .look 1 "k" (some 10), .look 3 "k" (some 10),
   .wait 3 "k" 10 .w, .lock 3 "k" 10 .w, .valid 3 "k" 10 true, .wait 1 "k" 10 .w,
   .unlink 3 "k" 10, .claim 3 "k" 11 .w, .commit 3, .drop 3 "k" 11, .unlock 3 11, .unlock 3 10, .fin 3,
   .lock 1 "k" 10 .w]

/-- the trace is a trace of the protocol … -/
theorem staleTrace_runs : (runAll {} staleTrace).isSome = true := by decide

/-- … after which T1 may NOT treat record 10 as the record of "k" (the old code did: lost update) … -/
theorem no_stale_update_example :
    ((runAll {} staleTrace).bind (step · (.valid 1 "k" 10 true))).isNone = true := by decide

/-- … it has to give the attempt up (`valid false`, `unlock`) and look the key up again -/
theorem stale_attempt_abandoned :
    (runAll {} (staleTrace ++ [.valid 1 "k" 10 false, .unlock 1 10, .look 1 "k" none])).isSome = true := by
  decide

/-- nor may it commit with the unvalidated hold -/
theorem stale_cannot_commit : ((runAll {} staleTrace).bind (step · (.commit 1))).isNone = true := by decide

/-- non-vacuity: a reachable state with two transactions, a shared read hold on record 10 and a write
    hold of transaction 1 on a placeholder -/
def twoReaders : List Ev := setupK ++
  [.begin 1, .begin 3, .wait 1 "k" 10 .r, .lock 1 "k" 10 .r, .valid 1 "k" 10 true,
   .wait 3 "k" 10 .r, .lock 3 "k" 10 .r, .valid 3 "k" 10 true, .claim 1 "z" 11 .w]

example : (runAll {} twoReaders).map (fun s => s.allHolds.map fun p => (p.1, p.2.rid, p.2.key, p.2.mode, p.2.valid)) =
    some [(1, 11, "z", .w, true), (1, 10, "k", .r, true), (3, 10, "k", .r, true)] := by decide

example : ∃ s, Reachable s ∧ s.lookup "k" = some 10 ∧ s.lookup "z" = some 11 := by
  cases h : runAll {} twoReaders with
  | none => exact absurd h (by decide)
  | some s =>
    refine ⟨s, ⟨_, h⟩, ?_, ?_⟩
    · have : (runAll {} twoReaders).map (·.lookup "k") = some (some 10) := by decide
      rw [h] at this; exact Option.some.inj this
    · have : (runAll {} twoReaders).map (·.lookup "z") = some (some 11) := by decide
      rw [h] at this; exact Option.some.inj this

/-- a writer waiting for the readers is not granted the lock -/
example : ((runAll {} (twoReaders ++ [.begin 4, .wait 4 "k" 10 .w])).bind (step · (.lock 4 "k" 10 .w))).isNone = true := by
  decide

end NodisVerif.C05
