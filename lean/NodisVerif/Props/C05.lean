import NodisVerif.Model.Proto
import NodisVerif.Proofs.ProtoReg
import NodisVerif.Proofs.LinProtoCheck
import NodisVerif.Proofs.LinExamples
import NodisVerif.Proofs.TxProgReach
/-
  C05 — concurrent single-key commands are linearizable: no lost or torn updates.

  Property theorems only, about the locking protocol `Model/Proto.lean` (the transition system whose
  steps are the ones `tx.go` / `store.go` report). Reference notions, all in Proofs/ProtoBasic.lean:
    `runAll s es`   the fold of `step` over a trace (`= some s'` iff every step is allowed),
    `Reachable s`   `∃ es, runAll {} es = some s`,
    `evTx e`        the transaction an event belongs to (`clear` belongs to none).
  Every theorem is about ALL reachable states: any trace, any number of transactions, keys, records.
  Helper lemmas: Proofs/ProtoBasic, ProtoStep, ProtoInv (the invariant), ProtoReg.

  Why this is linearizability of single-key commands: a command reads / updates the value that lives in
  the record it holds. (2) the record it validated is the one registered under the key; (3) it stays
  the registered one for as long as the command holds it; (1)+(5) while a writer holds it nobody else
  does. So the commands working on the current record of a key are serialized by its lock, and an
  update is never applied to a record that has already left the index (the old lost-update bug, (6)).
-/
namespace NodisVerif.C05
open NodisVerif.Proto
open NodisVerif.Proofs.Proto

/-- `runAll` is the model's own `run`, without the error report -/
theorem runAll_is_run (s s' : PState) (es : List Ev) (i : Nat) :
    run s es i = .ok s' ↔ runAll s es = some s' := run_ok_iff s s' es i

/-! ## 1. mutual exclusion -/

/-- A write hold is exclusive: if `t` holds record `h.rid` in mode w, any hold `g` of any transaction
    `u` on the same record is that very hold (no second writer, no reader, not a second hold of `t`). -/
theorem mutual_exclusion {s : PState} (hr : Reachable s) {t u : Tx} {st su : TxSt} {h g : Hold}
    (ht : s.tx t = some st) (hh : h ∈ st.holds) (hw : h.mode = .w)
    (hu : s.tx u = some su) (hg : g ∈ su.holds) (e : g.rid = h.rid) : u = t ∧ g = h := by
  have hi := hr.inv
  have : u = t := (hi.compat t u st su h g ht hu hh hg e.symm (Or.inl hw)).symm
  subst this
  rw [ht] at hu; cases hu
  exact ⟨rfl, same_hold (hi.holdNodup u st ht) hg hh e⟩

/-- the same, on the model's own `heldBy` list -/
theorem write_lock_exclusive {s : PState} (hr : Reachable s) {t : Tx} {st : TxSt} {h : Hold}
    (ht : s.tx t = some st) (hh : h ∈ st.holds) (hw : h.mode = .w) :
    ∀ p ∈ s.heldBy h.rid, p = (t, h) := by
  intro p hp
  obtain ⟨h1, h2⟩ := mem_heldBy.1 hp
  obtain ⟨su, h3, h4⟩ := holds_of_mem_allHolds hr.inv.txNodup (t := p.1) (h := p.2) h1
  obtain ⟨a, b⟩ := mutual_exclusion hr ht hh hw h3 h4 h2
  exact Prod.ext a b

/-- holds of two different transactions on one record are both read holds -/
theorem shared_means_read {s : PState} (hr : Reachable s) {t u : Tx} {st su : TxSt} {h g : Hold}
    (ht : s.tx t = some st) (hh : h ∈ st.holds) (hu : s.tx u = some su) (hg : g ∈ su.holds)
    (e : h.rid = g.rid) (hne : t ≠ u) : h.mode = .r ∧ g.mode = .r := by
  constructor
  · cases hm : h.mode with
    | r => rfl
    | w => exact absurd (hr.inv.compat t u st su h g ht hu hh hg e (Or.inl hm)) hne
  · cases hm : g.mode with
    | r => rfl
    | w => exact absurd (hr.inv.compat t u st su h g ht hu hh hg e (Or.inr hm)) hne

/-- a transaction has at most one hold per record, and a transaction id is active at most once -/
theorem one_hold_per_record {s : PState} (hr : Reachable s) {t : Tx} {st : TxSt} {h g : Hold}
    (ht : s.tx t = some st) (hh : h ∈ st.holds) (hg : g ∈ st.holds) (e : h.rid = g.rid) : h = g :=
  same_hold (hr.inv.holdNodup t st ht) hh hg e

theorem active_once {s : PState} (hr : Reachable s) : (s.txs.map Prod.fst).Nodup := hr.inv.txNodup

/-! ## 2. a validated record is the current record of the key -/

theorem valid_means_current {s s' : PState} {t : Tx} {k : Key} {r : Rec}
    (h : step s (.valid t k r true) = some s') : s'.lookup k = some r := by
  obtain ⟨st, g, _, _, _, _, ⟨c, _⟩ | ⟨_, hl, rfl⟩⟩ := step_valid.1 h
  · cases c
  · exact hl

theorem claim_means_current {s s' : PState} {t : Tx} {k : Key} {r : Rec} {m : Mode}
    (h : step s (.claim t k r m) = some s') : s'.lookup k = some r := by
  obtain ⟨st, _, _, _, hl, _, rfl⟩ := step_claim.1 h
  rw [setTx_lookup]
  unfold PState.lookup
  simp [(lookup_none hl).1, assoc_put]

/-- … and the hold is there, validated, under that key -/
theorem valid_gives_hold {s s' : PState} {t : Tx} {k : Key} {r : Rec}
    (h : step s (.valid t k r true) = some s') :
    ∃ st g, s'.tx t = some st ∧ g ∈ st.holds ∧ g.rid = r ∧ g.key = k ∧ g.valid = true := by
  obtain ⟨st, g, _, hof, _, hk, ⟨c, _⟩ | ⟨_, _, rfl⟩⟩ := step_valid.1 h
  · cases c
  · exact ⟨_, _, tx_setTx_same _ _ _, mem_setHold.2 (Or.inl rfl), (holdOf_some hof).2, hk, rfl⟩

/-! ## 3. stability: nobody but the holder (or a FLUSH) takes a held record out of the index -/

/-- As requested: `t` holds `r` validated for `k`, `r` is registered under `k`; a step of another
    transaction `u` (so not `clear`) leaves it registered. -/
theorem others_cannot_unregister {s s' : PState} (hr : Reachable s) {t u : Tx} {st : TxSt} {h : Hold}
    {e : Ev} (ht : s.tx t = some st) (hh : h ∈ st.holds) (_hv : h.valid = true)
    (hl : s.lookup h.key = some h.rid) (he : evTx e = some u) (hne : u ≠ t) (hs : step s e = some s') :
    s'.lookup h.key = some h.rid :=
  held_stays_registered hr.inv ht hh hl he hne hs

/-- What is true is stronger: ANY hold (read or write, validated or not) on `r` protects the
    registration of `r` under ANY key `k`, because `unlink` / `drop` need a write hold on `r`, which
    mutual exclusion denies to everybody else. -/
theorem held_record_stays_registered {s s' : PState} (hr : Reachable s) {t u : Tx} {st : TxSt} {h : Hold}
    {k : Key} {e : Ev} (ht : s.tx t = some st) (hh : h ∈ st.holds) (hl : s.lookup k = some h.rid)
    (he : evTx e = some u) (hne : u ≠ t) (hs : step s e = some s') : s'.lookup k = some h.rid :=
  held_stays_registered hr.inv ht hh hl he hne hs

/-- over any stretch of steps of other transactions: `t`'s state is untouched and the record it holds
    is still the registered one -/
theorem held_record_stays_registered_run {s s' : PState} (hr : Reachable s) {t : Tx} {st : TxSt} {h : Hold}
    {k : Key} {es : List Ev} (ht : s.tx t = some st) (hh : h ∈ st.holds) (hl : s.lookup k = some h.rid)
    (he : ∀ e ∈ es, ∃ u, evTx e = some u ∧ u ≠ t) (hs : runAll s es = some s') :
    s'.tx t = some st ∧ s'.lookup k = some h.rid :=
  held_stays_registered_run hr.inv ht hh hl he hs

/-- the only steps that unregister the record of a key at all: `unlink` / `drop` of that record, `clear` -/
theorem only_unlink_drop_clear_unregister {s s' : PState} (hr : Reachable s) {e : Ev} {k : Key} {r : Rec}
    (hs : step s e = some s') (hl : s.lookup k = some r) (h1 : ∀ u, e ≠ .unlink u k r)
    (h2 : ∀ u, e ≠ .drop u k r) (h3 : e ≠ .clear) : s'.lookup k = some r :=
  lookup_stable hr.inv hs hl h1 h2 h3

/-- the FLUSH exception is real: `clear` unregisters a record that is held and validated -/
example : (runAll {} [.begin 1, .claim 1 "k" 10 .w, .publish 1 "k" 10, .clear]).map
    (fun s => (s.lookup "k", s.allHolds.map fun p => (p.1, p.2.rid, p.2.valid))) =
    some (none, [(1, 10, true)]) := by decide

/-! ## 4. registrations -/

/-- index and `pending` never both register a key -/
theorem one_registered_record_per_key {s : PState} (hr : Reachable s) {k : Key} {r : Rec}
    (h : assoc s.index k = some r) : assoc s.pending k = none := hr.inv.disjoint k r h

/-- a registered record is registered under its own name (its id is in `names`) -/
theorem registered_records_named {s : PState} (hr : Reachable s) {k : Key} {r : Rec}
    (h : s.lookup k = some r) : assoc s.names r = some k := by
  rcases lookup_eq_some.1 h with h | ⟨_, h⟩
  · exact hr.inv.idxName k r h
  · exact hr.inv.pendName k r h

/-- a record is registered under at most one key -/
theorem record_under_one_key {s : PState} (hr : Reachable s) {k k' : Key} {r : Rec}
    (h : s.lookup k = some r) (h' : s.lookup k' = some r) : k = k' := by
  have a := registered_records_named hr h
  have b := registered_records_named hr h'
  rw [a] at b; exact Option.some.inj b

/-- a held record is in `names`, and the hold carries its name -/
theorem held_records_named {s : PState} (hr : Reachable s) {t : Tx} {st : TxSt} {h : Hold}
    (ht : s.tx t = some st) (hh : h ∈ st.holds) : assoc s.names h.rid = some h.key :=
  hr.inv.holdName t st h ht hh

/-! ## 5. the writers of a key are serialized -/

/-- Two different transactions never hold, at the same time, validated holds on the currently
    registered record(s) of one key unless both are readers. (The registered record of a key is
    unique, so this is mutual exclusion on it; the validity of the holds is not even needed.) -/
theorem per_key_writers_serial {s : PState} (hr : Reachable s) {t u : Tx} {st su : TxSt} {h g : Hold}
    (hne : t ≠ u) (ht : s.tx t = some st) (hh : h ∈ st.holds) (hu : s.tx u = some su) (hg : g ∈ su.holds)
    (_hv : h.valid = true ∧ g.valid = true)
    (hl : s.lookup h.key = some h.rid) (hl' : s.lookup g.key = some g.rid) (hk : h.key = g.key) :
    h.mode = .r ∧ g.mode = .r := by
  have e : h.rid = g.rid := by rw [hk, hl'] at hl; exact (Option.some.inj hl).symm
  exact shared_means_read hr ht hh hu hg e hne

/-- a writer of the current record of `k` is alone on `k`: no other transaction holds the record
    registered under `k` -/
theorem writer_is_alone {s : PState} (hr : Reachable s) {t u : Tx} {st su : TxSt} {h g : Hold} {k : Key}
    (ht : s.tx t = some st) (hh : h ∈ st.holds) (hw : h.mode = .w) (hl : s.lookup k = some h.rid)
    (hu : s.tx u = some su) (hg : g ∈ su.holds) (hl' : s.lookup k = some g.rid) : u = t ∧ g = h := by
  have e : g.rid = h.rid := by rw [hl] at hl'; exact (Option.some.inj hl').symm
  exact mutual_exclusion hr ht hh hw hu hg e

/-! ## 6. the old lost-update scenario is rejected; non-vacuity -/

/-- key "k" is created with record 10 by transaction 2 -/
def setupK : List Ev :=
  [.begin 2, .claim 2 "k" 10 .w, .publish 2 "k" 10, .commit 2, .unlock 2 10, .fin 2]

/-- T1 looks "k" up (record 10) and blocks on it; T3 locks 10 first, deletes the key (`unlink`, then the
    placeholder 11 of `delKey`), commits; now T1 gets the lock of the unlinked record 10 -/
def staleTrace : List Ev := setupK ++
  [.begin 1, .begin 3, .look 1 "k" (some 10), .look 3 "k" (some 10),
   .wait 3 "k" 10 .w, .lock 3 "k" 10 .w, .valid 3 "k" 10 true, .wait 1 "k" 10 .w,
   .unlink 3 "k" 10, .claim 3 "k" 11 .w, .commit 3, .drop 3 "k" 11, .unlock 3 11, .unlock 3 10, .fin 3,
   .lock 1 "k" 10 .w]

/-- the trace is a trace of the protocol … -/
theorem staleTrace_runs : (runAll {} staleTrace).isSome = true := by decide

/-- … after which T1 may NOT treat record 10 as the record of "k" (the old code did: lost update) … -/
theorem no_stale_update_example :
    ((runAll {} staleTrace).bind (step · (.valid 1 "k" 10 true))).isNone = true := by decide

/-- … it has to give the attempt up (`valid false`, `unlock`) and look the key up again -/
theorem stale_attempt_abandoned :
    (runAll {} (staleTrace ++ [.valid 1 "k" 10 false, .unlock 1 10, .look 1 "k" none])).isSome = true := by
  decide

/-- nor may it commit with the unvalidated hold -/
theorem stale_cannot_commit : ((runAll {} staleTrace).bind (step · (.commit 1))).isNone = true := by decide

/-- non-vacuity: a reachable state with two transactions, a shared read hold on record 10 and a write
    hold of transaction 1 on a placeholder -/
def twoReaders : List Ev := setupK ++
  [.begin 1, .begin 3, .wait 1 "k" 10 .r, .lock 1 "k" 10 .r, .valid 1 "k" 10 true,
   .wait 3 "k" 10 .r, .lock 3 "k" 10 .r, .valid 3 "k" 10 true, .claim 1 "z" 11 .w]

example : (runAll {} twoReaders).map (fun s => s.allHolds.map fun p => (p.1, p.2.rid, p.2.key, p.2.mode, p.2.valid)) =
    some [(1, 11, "z", .w, true), (1, 10, "k", .r, true), (3, 10, "k", .r, true)] := by decide

example : ∃ s, Reachable s ∧ s.lookup "k" = some 10 ∧ s.lookup "z" = some 11 := by
  cases h : runAll {} twoReaders with
  | none => exact absurd h (by decide)
  | some s =>
    refine ⟨s, ⟨_, h⟩, ?_, ?_⟩
    · have : (runAll {} twoReaders).map (·.lookup "k") = some (some 10) := by decide
      rw [h] at this; exact Option.some.inj this
    · have : (runAll {} twoReaders).map (·.lookup "z") = some (some 11) := by decide
      rw [h] at this; exact Option.some.inj this

/-- a writer waiting for the readers is not granted the lock -/
example : ((runAll {} (twoReaders ++ [.begin 4, .wait 4 "k" 10 .w])).bind (step · (.lock 4 "k" 10 .w))).isNone = true := by
  decide

end NodisVerif.C05

/-! ## 7. from lock intervals to linearizability

  The generic part (Proofs/LinCore.lean, LinCorollaries.lean, LinSplit.lean; core Lean only). An abstract
  object is a sequential specification `O.apply : State → Op → State × Ret` with read-only operations
  (`O.readOnly o → (O.apply s o).1 = s`). An execution is a list of events `inv i o`, `acq i`, `eff i`,
  `rel i`, `res i r` over operation ids; `Lin.WF O σ0 es` = the executable transition system `Lin.step`
  accepts it from the shared state σ0: per operation  inv (acq rel)* acq eff rel (acq rel)* res  (the
  plain order inv acq eff rel res, plus retries of the lock), a writer's `acq` needs the lock free, a
  reader's needs it free of writers, `eff i` turns the shared state σ into `(apply σ o).1` and records
  `(apply σ o).2`, `res i r` returns the recorded result.
    `Lin.hist es`             the inv / res events of es
    `Lin.Prec h i j`          `res i _` comes before `inv j _` in h
    `Lin.IsLin O σ0 h lin`    lin : List (id × op × result) has no id twice, contains only invoked
                              operations and every completed one with the result it returned, orders i
                              before j whenever `Prec h i j`, and is a legal sequential execution of
                              `apply` from σ0 with exactly these results (`Lin.Legal`)
    `Lin.Linearizable O σ0 h` `∃ lin, IsLin O σ0 h lin`
-/
namespace NodisVerif.C05
open NodisVerif.Proto
open NodisVerif.Proofs.Proto
open NodisVerif.Lin

section Generic
variable {State Op Ret : Type} [DecidableEq Ret]

/-- THEOREM. The history of every well-formed execution — any number of operations, any interleaving —
    is linearizable, and the order of the `eff` events is a linearization. -/
theorem locked_bodies_linearizable (O : Obj State Op Ret) (σ0 : State) (es : List (Lin.Ev Op Ret))
    (h : WF O σ0 es) : ∃ lin, IsLin O σ0 (hist es) lin ∧ ids lin = effOrder es :=
  Lin.locked_bodies_linearizable O σ0 es h

/-- … the sequential execution ends in the shared state the concurrent one ends in … -/
theorem linearization_final_state {O : Obj State Op Ret} {σ0 : State} {es : List (Lin.Ev Op Ret)}
    {c : Lin.Cfg State Op Ret} (h : Lin.run O true { σ := σ0 } es = some c) :
    IsLin O σ0 (hist es) c.lin ∧ ids c.lin = effOrder es ∧ final O σ0 c.lin = c.σ :=
  run_linearizable h

/-- … and the linearization point `eff i` of a completed operation lies between `inv i` and `res i`. -/
theorem linearization_point_between {O : Obj State Op Ret} {σ0 : State} {es : List (Lin.Ev Op Ret)}
    {c : Lin.Cfg State Op Ret} (h : Lin.run O true { σ := σ0 } es = some c) {i : Nat} {r : Ret}
    (hr : Lin.Ev.res i r ∈ es) : ∃ o, [Lin.Ev.inv i o, Lin.Ev.eff i, Lin.Ev.res i r].Sublist es :=
  lin_point_between h hr

/-- the lock discipline that `WF` checks, as a property of every prefix: two operations that are both
    between `acq` and `rel` are both read-only -/
theorem lock_intervals_disjoint {O : Obj State Op Ret} {σ0 : State} {es : List (Lin.Ev Op Ret)}
    {c : Lin.Cfg State Op Ret} (h : Lin.run O true { σ := σ0 } es = some c) {i j : Nat} {si sj : OpSt Op Ret}
    (h1 : c.ops i = some si) (h2 : c.ops j = some sj) (l1 : si.locked = true) (l2 : sj.locked = true)
    (hne : i ≠ j) : O.readOnly si.op = true ∧ O.readOnly sj.op = true :=
  intervals_disjoint h h1 h2 l1 l2 hne

/-- a completed operation (a read in particular) returns what `apply` computes on the state after a
    prefix of the writes in linearization order -/
theorem readers_see_a_prefix_state {O : Obj State Op Ret} {σ0 : State} {es : List (Lin.Ev Op Ret)}
    {c : Lin.Cfg State Op Ret} (h : Lin.run O true { σ := σ0 } es = some c) {i : Nat} {r : Ret}
    (hr : Lin.Ev.res i r ∈ es) :
    ∃ o p q, c.lin = p ++ (i, o, r) :: q ∧ writes O p <+: writes O c.lin ∧
      r = (O.apply (final O σ0 (writes O p)) o).2 :=
  Lin.readers_see_a_prefix_state h hr

/-- What the lock buys: when the body is NOT one atomic event but reads the shared state at `rd i` and
    writes `apply` of that snapshot back at a later `wr i` (both inside one `acq … rel` interval, events
    of other operations in between), the history is still linearizable … -/
theorem split_bodies_linearizable (O : Obj State Op Ret) (σ0 : State) (es : List (Split.Ev Op Ret))
    (h : Split.WF O σ0 es) : Linearizable O σ0 (Split.hist es) :=
  Split.split_bodies_linearizable O σ0 es h

end Generic

/-- … whereas without the lock checks two such increments both read 0 and both write 1: the history
    `inv 1, inv 2, res 1 0, res 2 0` has no linearization (and the lock discipline rejects the execution) -/
theorem lost_update_without_lock :
    ¬ Split.WF counter 0 Examples.lostUpdate ∧
    (Split.run counter false { core := { σ := 0 } } Examples.lostUpdate).map (fun c => c.core.σ) = some 1 ∧
    ¬ Linearizable counter 0 (Split.hist Examples.lostUpdate) :=
  ⟨Examples.lostUpdate_rejected, Examples.lostUpdate_runs_unlocked, Examples.lost_update_without_lock⟩

/-- no lost update: if every invoked operation on the counter (`false` = increment, `true` = read) has
    completed, the counter ends at its initial value plus the number of increments invoked … -/
theorem no_lost_update {σ0 : Int} {es : List (Lin.Ev Bool Int)} {c : Lin.Cfg Int Bool Int}
    (h : Lin.run counter true { σ := σ0 } es = some c)
    (hall : ∀ i o, Lin.Ev.inv i o ∈ es → ∃ r, Lin.Ev.res i r ∈ es) :
    c.σ = σ0 + (((invs es).filter fun p => !p.2).length : Int) :=
  Lin.no_lost_update h hall

/-- … so k increments and nothing else end at σ0 + k -/
theorem no_lost_update_k {σ0 : Int} {es : List (Lin.Ev Bool Int)} {c : Lin.Cfg Int Bool Int}
    (h : Lin.run counter true { σ := σ0 } es = some c)
    (hall : ∀ i o, Lin.Ev.inv i o ∈ es → ∃ r, Lin.Ev.res i r ∈ es)
    (hincr : ∀ i o, Lin.Ev.inv i o ∈ es → o = false) : c.σ = σ0 + ((invs es).length : Int) :=
  Lin.no_lost_update_k h hall hincr

/-- no double pop: two different completed pops on a list of distinct elements return different
    elements (and elements of the list) -/
theorem no_double_pop {α : Type} [DecidableEq α] {s0 : List α} (hs : s0.Nodup)
    {es : List (Lin.Ev Unit (Option α))} {c : Lin.Cfg (List α) Unit (Option α)}
    (h : Lin.run (popper α) true { σ := s0 } es = some c) {i j : Nat} {a b : α} (hne : i ≠ j)
    (hi : Lin.Ev.res i (some a) ∈ es) (hj : Lin.Ev.res j (some b) ∈ es) : a ≠ b ∧ a ∈ s0 ∧ b ∈ s0 :=
  ⟨Lin.no_double_pop hs h hne hi hj, pop_returns_element h hi, pop_returns_element h hj⟩

/-- non-vacuity: two increments and a read on a counter at 10, all three overlapping, the reader
    between the writers: well-formed; the linearization is 1, 3, 2 with results 10, 11, 11 -/
example : WF counter 10 Examples.ex3 ∧
    (Lin.run counter true { σ := 10 } Examples.ex3).map (fun c => (c.lin, c.σ)) =
      some ([(1, false, 10), (3, true, 11), (2, false, 11)], 12) ∧
    hist Examples.ex3 = [.inv 1 false, .inv 2 false, .inv 3 true, .res 1 10, .res 3 11, .res 2 11] :=
  ⟨Examples.ex3_wf, Examples.ex3_lin, Examples.ex3_hist⟩

example : Split.WF counter 10 Examples.exSplit := Examples.exSplit_wf

/-! ## 8. the intervals of the protocol obey the lock discipline; single-key commands are linearizable

    `HoldsCur s k t r m`    in s, t holds — validated, in mode m — the record r registered under k now
    `Releases t k r e`      e is `unlock t r`, `unlink t k r` or `drop t k r`
    `InInterval es k t m p` the state after the first p events lies in an interval of t on the current
                            record of k: `HoldsCur` after some event a < p, no `Releases` since
-/

/-- the interval starts when `acquire` has validated the record (or claimed the missing key) … -/
theorem interval_starts_at_validation {s s' : PState} {t : Tx} {k : Key} {r : Rec}
    (hs : step s (.valid t k r true) = some s') : ∃ m, HoldsCur s' k t r m := holdsCur_of_valid hs

theorem interval_starts_at_claim {s s' : PState} {t : Tx} {k : Key} {r : Rec} {m : Mode}
    (hs : step s (.claim t k r m) = some s') : HoldsCur s' k t r m := holdsCur_of_claim hs

/-- … lasts as long as `t` neither unlocks the record nor unregisters it itself, over any steps of
    anybody, FLUSH excepted (section 3: nobody else can unregister it; C07.1: `t` keeps the lock) … -/
theorem interval_lasts_until_release {s s' : PState} (hr : Reachable s) {es : List Ev} {k : Key} {t : Tx}
    {r : Rec} {m : Mode} (hc : HoldsCur s k t r m) (hs : runAll s es = some s')
    (hcl : ∀ e ∈ es, e ≠ .clear) (hrel : ∀ e ∈ es, ¬ Releases t k r e) : HoldsCur s' k t r m :=
  holdsCur_run hr.inv hc hs hcl hrel

/-- … in particular from the validation to the `commit` of that run of the transaction, unless the
    command unlinks the record itself (DEL) … -/
theorem interval_until_commit {es : List Ev} {s : PState} (hs : runAll {} es = some s) {t : Tx} {k : Key}
    {r : Rec} {a c : Nat} {v : Ev} (hv : es[a]? = some v)
    (hval : v = .valid t k r true ∨ ∃ m, v = .claim t k r m) (hc : es[c]? = some (.commit t))
    (hnf : ∀ p, a < p → p < c → es[p]? ≠ some (.fin t))
    (hnu : ∀ p, a < p → p < c → es[p]? ≠ some (.unlink t k r)) :
    ∃ m, ∀ p, a < p → p ≤ c → InInterval es k t m p :=
  Proofs.Proto.interval_until_commit hs hv hval hc hnf hnu

/-- … and two transactions are inside such intervals for one key at the same time only as readers of
    the same record (mutual exclusion + uniqueness of the registered record, sections 1, 4, 5). -/
theorem key_intervals_well_formed_state {s : PState} (hr : Reachable s) {k : Key} {t u : Tx} {r r' : Rec}
    {m m' : Mode} (h1 : HoldsCur s k t r m) (h2 : HoldsCur s k u r' m') (hne : t ≠ u) :
    r = r' ∧ m = .r ∧ m' = .r :=
  holdsCur_exclusive hr.inv h1 h2 hne

/-- THEOREM. In a FLUSH-free trace of the protocol the intervals of two different transactions on the
    current record of one key overlap (share a position) only if both are readers: the lock-discipline
    hypothesis of the generic theorem holds for the commands on each key. -/
theorem key_intervals_well_formed {es : List Ev} {s : PState} (hs : runAll {} es = some s)
    (hcl : ∀ e ∈ es, e ≠ .clear) {k : Key} {t u : Tx} {m m' : Mode} {p : Nat} (hp : p ≤ es.length)
    (h1 : InInterval es k t m p) (h2 : InInterval es k u m' p) (hne : t ≠ u) : m = .r ∧ m' = .r :=
  key_intervals_disjoint hs hcl hp h1 h2 hne

/-- THEOREM (single-key commands are linearizable). `ms` interleaves steps of the protocol (`inl`) with
    the events of operations on key `k` (`inr`; the operation of transaction `t` has id `t`).
    `LinProto.Placed O k {} {σ := σ0} ms` says:
      (a) the protocol steps are a trace of the protocol from the empty state, without FLUSH;
      (b) `acq t` comes at a moment when `HoldsCur k t` holds (i.e. after `acquire` has returned), in
          write mode unless the operation is read-only;
      (c) while the operation is between `acq t` and `rel t`, `t` takes no `Releases` step for that
          record (by `interval_until_commit`: `rel t` at the latest at the commit, or before the
          command's own `unlink`);
      (d) apart from the lock checks the operations' events are accepted by `Lin.step`: `inv`, then the
          body `eff` somewhere between `acq` and `rel`, then `res` with the result of the body.
    (b)–(d) are THE assumption that is not in the protocol model: the effect of a command on the value
    of its key happens between the return of `acquire` and the commit (tx.go: `exec` runs `fn(tx)` and
    then the deferred `commit`), and its reply carries the result computed there.
    Conclusion: all lock checks of the generic theorem pass (the operations' execution is `WF`), hence
    the history of the operations on `k` is linearizable w.r.t. ANY sequential specification `O`. -/
theorem single_key_commands_linearizable {State Op Ret : Type} [DecidableEq Ret] (O : Obj State Op Ret)
    (σ0 : State) (k : Key) (ms : List (Proto.Ev ⊕ Lin.Ev Op Ret))
    (h : LinProto.Placed O k {} { σ := σ0 } ms) :
    WF O σ0 (LinProto.opEvents ms) ∧ Linearizable O σ0 (hist (LinProto.opEvents ms)) :=
  LinProto.placed_linearizable O σ0 k ms h

/-- (a) spelled out: the protocol part of such an interleaving is a FLUSH-free trace of the protocol -/
theorem placed_is_protocol_trace {State Op Ret : Type} [DecidableEq Ret] {O : Obj State Op Ret}
    {σ0 : State} {k : Key} {ms : List (Proto.Ev ⊕ Lin.Ev Op Ret)}
    (h : LinProto.Placed O k {} { σ := σ0 } ms) :
    (∃ s, runAll {} (LinProto.protoEvents ms) = some s) ∧ ∀ e ∈ LinProto.protoEvents ms, e ≠ .clear :=
  LinProto.placed_proto_runs h

/-- the same for bodies in two steps (`rd t` … `wr t` between `acq t` and `rel t`): here the lock checks
    discharged by the protocol are what makes the history linearizable (`lost_update_without_lock`) -/
theorem single_key_commands_linearizable_split {State Op Ret : Type} [DecidableEq Ret]
    (O : Obj State Op Ret) (σ0 : State) (k : Key) (ms : List (Proto.Ev ⊕ Split.Ev Op Ret))
    (h : LinProto.PlacedSplit O k {} { core := { σ := σ0 } } ms) :
    Split.WF O σ0 (LinProto.opEventsSplit ms) ∧ Linearizable O σ0 (Split.hist (LinProto.opEventsSplit ms)) :=
  LinProto.placedSplit_linearizable O σ0 k ms h

/-- non-vacuity: key "k" holds a counter; commands 1, 2 (INCR) and 3 (GET) overlap, 2 and 3 block on the
    record lock while 1 works, the reader is served before writer 2 (`LinProto.exTrace`, 45 events) -/
example : LinProto.Placed counter "k" {} { σ := 0 } LinProto.exTrace := LinProto.exTrace_placed

example : hist (LinProto.opEvents LinProto.exTrace) =
    [.inv 1 false, .inv 2 false, .inv 3 true, .res 1 0, .res 3 1, .res 2 1] := by decide

example : Linearizable counter 0 (hist (LinProto.opEvents LinProto.exTrace)) :=
  (single_key_commands_linearizable counter 0 "k" _ LinProto.exTrace_placed).2

example : LinProto.PlacedSplit counter "k" {} { core := { σ := 0 } } LinProto.exTraceSplit :=
  LinProto.exTraceSplit_placed

/-- the hypotheses of `interval_until_commit` are satisfiable: in `setupK` transaction 2 claims "k" at
    position 1 and commits at position 3 -/
example : ∃ m, ∀ p, 1 < p → p ≤ 3 → InInterval setupK "k" 2 m p := by
  cases h : runAll {} setupK with
  | none => exact absurd h (by decide)
  | some s =>
    refine interval_until_commit (a := 1) (c := 3) (r := 10) h (by decide) (Or.inr ⟨.w, rfl⟩) (by decide) ?_ ?_
    · intro p h1 h2
      have : p = 2 := by omega
      subst this; decide
    · intro p h1 h2
      have : p = 2 := by omega
      subst this; decide

/-! ## 9. the program level: the CODE of tx.go refines the protocol  (work package T)

  `Model/TxProg.lean` is a small-step interleaving semantics of `Tx.acquire`, `lockKeys` (the sorted locking
  phase), `newKey`, `delKey` and `commit`: one transition = one mutex operation or one access to shared state,
  `store.mu` and every record's RWMutex are explicit, and every verifTrace call site emits its protocol event.
  Everything above is about the PROTOCOL `Model/Proto.lean`; the theorems below say that every run of the
  PROGRAM is a run of the protocol, so that all of the above transfers to the program model, and they prove
  directly on program states what §3 of DESIGN.md had to assume about the hook ("reported inside the critical
  section") and about commands ("data is touched between acquire's return and the commit").
  Helper files: Proofs/TxProgBase (abstraction `absTx`, relation `Sim`), TxProgSim/SimA/SimB/SimC (one lemma per
  program counter), TxProgRefine, TxProgStrong/Local/Guard/Shared/Inv (the inductive invariant `Strong`),
  TxProgCS, TxProgReach.
  Also in the program model: the one-record mini transactions of store.go / key.go (`gcRecord`, `flushRecord`, the
  visit of Keys / Scan; pcs g1 … g13).  Not in it: `store.clear` (protocol level only). -/

section ProgramLevel
open NodisVerif.Proofs.TxProg

/-- MAIN THEOREM. For EVERY schedule (any number of threads, any interleaving, any choice of commands, fresh
    records and TryLock outcomes) the sequence of events the program emits is accepted by `Proto.step` from the
    initial state, and the final program state is related to the final protocol state by the simulation
    relation (`Strong` contains `Sim`). -/
theorem prog_refines_proto (sch : List (TxProg.Tid × TxProg.Choice)) :
    ∃ p, runAll {} (TxProg.run {} sch).2 = some p ∧ Strong (TxProg.run {} sch).1 p :=
  strong_refines Strong.init sch

/-- the same with the model's own `run` (the function the driver uses on recorded traces) -/
theorem prog_trace_accepted (sch : List (TxProg.Tid × TxProg.Choice)) :
    ∃ p, run {} (TxProg.run {} sch).2 0 = .ok p := by
  obtain ⟨p, h, _⟩ := prog_refines_proto sch
  exact ⟨p, (run_ok_iff _ _ _ _).2 h⟩

/-- one step: the simulation diagram (a silent transition is matched by no protocol step) -/
theorem prog_step_simulated {c c' : TxProg.Cfg} {p : PState} {t : TxProg.Tid} {ch : TxProg.Choice} {e : Option Ev}
    (hst : Strong c p) (h : TxProg.step c t ch = some (c', e)) : ∃ p', optStep p e = some p' ∧ Strong c' p' :=
  strong_step hst h

/-- every reachable program state has a reachable protocol state as its abstraction -/
theorem prog_state_abstracts {c : TxProg.Cfg} (h : ProgReachable c) : ∃ p, Reachable p ∧ Strong c p := h.strong

/-- the abstraction, spelled out: index, pending and record names are the program's; the protocol state of
    transaction `t` is `absTx` of thread `t`'s program counter and locals -/
theorem prog_abstraction {c : TxProg.Cfg} {p : PState} (hst : Strong c p) :
    p.index = c.sh.index ∧ p.pending = c.sh.pending ∧ p.names = c.sh.names ∧ ∀ t, p.tx t = absTx (c.loc t) :=
  ⟨hst.sim.idx, hst.sim.pend, hst.sim.names, hst.sim.tx⟩

/-- TRANSFER of (1) `mutual_exclusion`: a write hold of thread `t` in a reachable PROGRAM state excludes every
    other hold on that record, of any thread -/
theorem prog_mutual_exclusion {c : TxProg.Cfg} (hr : ProgReachable c) {t u : TxProg.Tid} {g g' : Hold}
    (hg : g ∈ holdsOf (c.loc t)) (hw : g.mode = .w) (hg' : g' ∈ holdsOf (c.loc u)) (e : g'.rid = g.rid) :
    u = t ∧ g' = g := by
  obtain ⟨p, hp, hst⟩ := hr.strong
  have ht : (c.loc t).pc ≠ .init := by intro h; simp [holdsOf, h] at hg
  have hu : (c.loc u).pc ≠ .init := by intro h; simp [holdsOf, h] at hg'
  exact mutual_exclusion hp (hst.sim.tx_some t ht) hg hw (hst.sim.tx_some u hu) hg' e

/-- the same fact read off the mutexes of the program state, without the detour through the protocol: the two
    threads would both own the record's RWMutex, one of them as its writer -/
theorem prog_mutual_exclusion_mutex {c : TxProg.Cfg} (hr : ProgReachable c) {t u : TxProg.Tid} {g g' : Hold}
    (hne : u ≠ t) (hg : g ∈ holdsOf (c.loc t)) (hw : g.mode = .w) (hg' : g' ∈ holdsOf (c.loc u)) :
    g'.rid ≠ g.rid := by
  obtain ⟨p, _, hst⟩ := hr.strong
  exact prog_mutex hst.sim hne hg hw hg'

/-- every hold of the abstraction is backed by the record's mutex: the thread is its writer / one of its readers -/
theorem prog_hold_owns_mutex {c : TxProg.Cfg} (hr : ProgReachable c) {t : TxProg.Tid} {g : Hold}
    (hg : g ∈ holdsOf (c.loc t)) : owns (c.sh.mu g.rid) t g.mode := by
  obtain ⟨p, _, hst⟩ := hr.strong
  exact (hst.sim.thr t).own g hg

/-- TRANSFER of (2) `valid_means_current`: when the program reports a successful re-validation, the record is
    the one registered under the key in the program's own index / pending maps -/
theorem prog_valid_means_current {c c' : TxProg.Cfg} (hr : ProgReachable c) {t : TxProg.Tid} {ch : TxProg.Choice}
    {k : Key} {r : Rec} (h : TxProg.step c t ch = some (c', some (.valid t k r true))) :
    c'.sh.lookup k = some r := by
  obtain ⟨p, _, hst⟩ := hr.strong
  obtain ⟨p', h1, hst'⟩ := strong_step hst h
  rw [← hst'.sim.lookup]
  exact valid_means_current h1

/-- TRANSFER of (3): before its commit, the record registered under the name of any record in `tx.lockedMetas`
    is itself in `tx.lockedMetas` — a command that re-names a key it has locked finds the record it holds -/
theorem prog_held_name_registered {c : TxProg.Cfg} (hr : ProgReachable c) {t : TxProg.Tid}
    (hg : grow (c.loc t).pc = true) (hd : (c.loc t).pc ≠ .d3) {g : Hold} (hm : g ∈ (c.loc t).held) :
    ∃ g' ∈ (c.loc t).held, c.sh.lookup g.key = some g'.rid := by
  obtain ⟨p, _, hst⟩ := hr.strong
  exact (hst.sf t).reg hg g hm (fun x => absurd x hd)

/-- EVENTS INSIDE THE CRITICAL SECTION (the assumption "read off the 48 hook lines", DESIGN.md §3, now a theorem
    about the program model): whenever a transition emits an event, the emitting thread holds, in the state in
    which it emits, the lock that makes the reported step atomic — `store.mu` shared for look / valid,
    `store.mu` exclusive for claim / publish / unlink / drop, the record's own mutex for lock / unlock / trylock -/
theorem events_inside_critical_section {c c' : TxProg.Cfg} (hr : ProgReachable c) {t : TxProg.Tid}
    {ch : TxProg.Choice} {ev : Ev} (h : TxProg.step c t ch = some (c', some ev)) : InCS c.sh t ev := by
  obtain ⟨p, _, hst⟩ := hr.strong
  exact events_in_cs hst h

/-- an event is emitted by the thread it names -/
theorem event_names_its_thread {c c' : TxProg.Cfg} {t : TxProg.Tid} {ch : TxProg.Choice} {ev : Ev}
    (h : TxProg.step c t ch = some (c', some ev)) : evTx ev = some t := by
  unfold TxProg.step at h
  split at h
  · cases h
  · rename_i hts; cases h; exact tstep_evTx hts

/-- `store.mu` is exclusive in the program model: a thread inside an `s.mu.Lock()` section is alone in such a
    section and nobody is inside an `s.mu.RLock()` section -/
theorem store_mutex_exclusive {c : TxProg.Cfg} (hr : ProgReachable c) {t u : TxProg.Tid}
    (ht : inW (c.loc t).pc = true) : (inW (c.loc u).pc = true → u = t) ∧ inR (c.loc u).pc = false := by
  obtain ⟨p, _, hst⟩ := hr.strong
  exact smu_exclusive hst ht

/-- PLACED (the assumption of `single_key_commands_linearizable`, here a theorem): the command body (pc `idle`)
    and the write of `newKey` into the record (pc `n1`) run between acquire's return and the commit — the
    transaction is active, neither blocked nor committing, every record of `tx.lockedMetas` has been validated,
    its mutex is owned in the recorded mode, and it is (or its successor placeholder is) the registered one -/
theorem command_body_is_placed {c : TxProg.Cfg} (hr : ProgReachable c) {t : TxProg.Tid}
    (hpc : (c.loc t).pc = .idle ∨ (c.loc t).pc = .n1) :
    ∃ p, Reachable p ∧ p.tx t = some { holds := (c.loc t).held, waiting := none, committing := false } ∧
    ∀ g ∈ (c.loc t).held, g.valid = true ∧ owns (c.sh.mu g.rid) t g.mode ∧
      ∃ g' ∈ (c.loc t).held, c.sh.lookup g.key = some g'.rid := by
  obtain ⟨p, hp, hst⟩ := hr.strong
  exact ⟨p, hp, body_is_placed hst hpc⟩

/-- the one place where tx.go itself writes record data: `newKey` fills the record in (pc n1) while the thread is
    the writer of the record's mutex, and no other thread has any hold on the record -/
theorem newKey_fills_in_under_write_lock {c : TxProg.Cfg} (hr : ProgReachable c) {t : TxProg.Tid}
    (hpc : (c.loc t).pc = .n1) :
    owns (c.sh.mu (c.loc t).m) t .w ∧ ∀ u, u ≠ t → ∀ g' ∈ holdsOf (c.loc u), g'.rid ≠ (c.loc t).m := by
  obtain ⟨p, _, hst⟩ := hr.strong
  exact newKey_writes_locked hst hpc

/-- the eviction pass (`gcRecord`, pcs g1 … g13 of the program model; `flushRecord` and the visit of Keys / Scan are
    the same code without the unlink): when it unlinks a dead key (pc g8) the record it validated is still the one
    in the index, the thread is the writer of the record's mutex and inside `store.mu` — so the `unlink` it
    reports is the unlink of exactly that record, and no command holds the record -/
theorem gc_unlinks_the_indexed_record {c : TxProg.Cfg} (hr : ProgReachable c) {t : TxProg.Tid}
    (hpc : (c.loc t).pc = .g8) :
    assoc c.sh.index (c.loc t).key = some (c.loc t).m ∧ owns (c.sh.mu (c.loc t).m) t .w ∧
    c.sh.smu.writer = some t ∧ ∀ u, u ≠ t → ∀ g' ∈ holdsOf (c.loc u), g'.rid ≠ (c.loc t).m := by
  obtain ⟨p, _, hst⟩ := hr.strong
  have hf := (hst.sim.thr t).facts
  simp only [Facts, hpc] at hf
  have hh : (⟨(c.loc t).m, (c.loc t).key, .w, (c.loc t).okcur⟩ : Hold) ∈ holdsOf (c.loc t) := by simp [holdsOf, hpc]
  exact ⟨(hst.sf t).gidx (Or.inr (Or.inr hpc)) hf.2, (hst.sim.thr t).own _ hh, (hst.sf t).w (by simp [hpc, inW]),
    fun u hu g' hg' => prog_mutex hst.sim hu hh rfl hg'⟩

/-- hypotheses are satisfiable, and a stale record is left alone: the eviction pass unlinks the dead key "k"; a second
    mini transaction on the same record, taken from an older snapshot, fails its validation and commits nothing -/
example : (TxProg.run {} schedGc).2 =
    [.begin 1, .look 1 "k" none, .claim 1 "k" 10 .w, .look 1 "k" (some 10), .publish 1 "k" 10, .commit 1,
     .unlock 1 10, .fin 1,
     .begin 3, .wait 3 "k" 10 .w, .lock 3 "k" 10 .w, .valid 3 "k" 10 true, .unlink 3 "k" 10, .commit 3,
     .unlock 3 10, .fin 3,
     .begin 4, .wait 4 "k" 10 .w, .lock 4 "k" 10 .w, .valid 4 "k" 10 false, .unlock 4 10, .fin 4] := by decide

example : ((TxProg.run {} (schedGc.take 28)).1.loc 3).pc = .g8 := by decide

/-- hypotheses are satisfiable: a schedule in which thread 1 creates "k" through a placeholder while thread 2's
    read waits for the placeholder, is granted the lock after thread 1's commit and validates; the emitted trace -/
example : (TxProg.run {} schedCreate).2 =
    [.begin 1, .look 1 "k" none, .claim 1 "k" 10 .w, .begin 2, .look 2 "k" (some 10), .wait 2 "k" 10 .r,
     .look 1 "k" (some 10), .publish 1 "k" 10, .commit 1, .unlock 1 10, .fin 1,
     .lock 2 "k" 10 .r, .valid 2 "k" 10 true, .commit 2, .unlock 2 10, .fin 2] := by decide

/-- in the middle of that schedule: thread 1 is in `newKey` at pc n1, holding placeholder 10 as its writer, while
    thread 2 is blocked at pc a8 in `m.RLock()` — a reachable state for `newKey_fills_in_under_write_lock`,
    `command_body_is_placed` and `blocked_waits_for_greater_key` -/
example : ((TxProg.run {} (schedCreate.take 16)).1.loc 1).pc = .n1 ∧
    ((TxProg.run {} (schedCreate.take 16)).1.loc 2).pc = .a8 ∧
    ((TxProg.run {} (schedCreate.take 16)).1.sh.mu 10).writer = some 1 ∧
    TxProg.step (TxProg.run {} (schedCreate.take 16)).1 2 {} = none := by decide

example : ProgReachable (TxProg.run {} (schedCreate.take 16)).1 := ⟨_, rfl⟩

end ProgramLevel

end NodisVerif.C05
