import NodisVerif.Model.DsList
import NodisVerif.Model.Api
import NodisVerif.Model.WF
import NodisVerif.Spec.List
import NodisVerif.Proofs.C02
import NodisVerif.Proofs.C02Api
import NodisVerif.Proofs.C02Rotate
import NodisVerif.Proofs.LinkedListRun
import NodisVerif.Proofs.LinkedListTotal
/-
  C02 — lists behave as exact sequences under every push/pop/index/trim command.

  Property theorems only; helper lemmas live in Proofs/C02.lean (data structure) and
  Proofs/C02Api.lean (store / API layer).  The reference semantics is Spec/List.lean (Redis
  conventions on a plain `List Bytes`: 0-based, negative indexes from the tail, inclusive ranges,
  out-of-range range bounds clamp).

  Everything is unbounded: every list, every byte string, every `Int` index / count (negative, zero,
  beyond either end).  No finding region was needed: the model agrees with the reference semantics
  on *all* inputs for every command below (so there are no `_finding` theorems; the one `_partial`
  theorem, `rotate_api_partial` in section 7, carries a state hypothesis about shared value objects;
  a destination of another type makes LPOPRPUSH / RPOPLPUSH fail without popping anything,
  `rotate_api_wrong_type_dest`).
  The only hypothesis that occurs is `LList.WF` (cached counter = number of nodes) for the commands
  that read the cached counter (LINDEX, LSET, LLEN and the integer replies); it is an invariant
  (section 1), so it holds for every list reachable from `DsList.empty`.
-/
namespace NodisVerif.C02
open NodisVerif
open NodisVerif.Proofs.C02

/-! ## 1. The reported length always equals the number of elements -/

theorem length_inv_empty : DsList.empty.WF := empty_wf

theorem length_inv_lpush (l : LList) (h : l.WF) (data : List Bytes) : (DsList.lpush l data).WF :=
  lpush_wf l h data

theorem length_inv_rpush (l : LList) (h : l.WF) (data : List Bytes) : (DsList.rpush l data).WF :=
  rpush_wf l h data

theorem length_inv_lpop (l : LList) (h : l.WF) (count : Int) : (DsList.lpop l count).1.WF :=
  lpop_wf l h count

theorem length_inv_rpop (l : LList) (h : l.WF) (count : Int) : (DsList.rpop l count).1.WF :=
  rpop_wf l h count

theorem length_inv_linsert (l : LList) (h : l.WF) (pivot v : Bytes) (before : Bool) :
    (DsList.linsert l pivot v before).1.WF :=
  linsert_wf l h pivot v before

theorem length_inv_lrem (l : LList) (h : l.WF) (count : Int) (v : Bytes) :
    (DsList.lrem l count v).1.WF :=
  lrem_wf l h count v

theorem length_inv_lset (l : LList) (h : l.WF) (i : Int) (v : Bytes) : (DsList.lset l i v).1.WF :=
  lset_wf l h i v

theorem length_inv_ltrim (l : LList) (h : l.WF) (start stop : Int) : (DsList.ltrim l start stop).WF :=
  ltrim_wf l h start stop

/-- LLEN (the cached counter) is the number of elements -/
theorem llen_eq_count (l : LList) (h : l.WF) : DsList.llen l = l.items.length := h

/-- non-vacuity of `WF`: a list built by the model's own operations, with 3 elements -/
example : (DsList.lpush (DsList.rpush DsList.empty [[1], [2, 2]]) [[]]).WF ∧
    (DsList.lpush (DsList.rpush DsList.empty [[1], [2, 2]]) [[]]).items = [[], [1], [2, 2]] :=
  ⟨by unfold LList.WF; decide, by decide⟩

/-! ## 2. LRANGE -/

/-- every `Int` start/stop, every list (no well-formedness needed: `forEach` walks the chain) -/
theorem lrange_spec (l : LList) (start stop : Int) :
    DsList.lrange l start stop = Spec.List.lrange l.items start stop :=
  forEach_eq l start stop

/-! ## 3. The other commands -/

theorem lindex_spec (l : LList) (h : l.WF) (i : Int) :
    DsList.lindex l i = Spec.List.lindex l.items i :=
  lindex_eq l h i

/-- LSET: fails (list untouched, flag false) exactly when the reference says "index out of range",
    otherwise exactly position `i` is overwritten and the counter is unchanged -/
theorem lset_spec (l : LList) (h : l.WF) (i : Int) (v : Bytes) :
    DsList.lset l i v =
      match Spec.List.lset l.items i v with
      | none => (l, false)
      | some xs => ({ items := xs, length := l.length }, true) :=
  lset_eq l h i v

/-- LTRIM keeps exactly `LRANGE start stop`: all `Int` bounds, negative and out of range included -/
theorem ltrim_spec (l : LList) (start stop : Int) :
    (DsList.ltrim l start stop).items = Spec.List.ltrim l.items start stop :=
  ltrim_items l start stop

/-- LINSERT: -1 and an untouched list when the pivot is absent, otherwise the value goes next to the
    first occurrence of the pivot and the reply is the incremented counter -/
theorem linsert_spec (l : LList) (pivot v : Bytes) (before : Bool) :
    DsList.linsert l pivot v before =
      match Spec.List.linsert l.items pivot v before with
      | none => (l, -1)
      | some xs => ({ items := xs, length := l.length + 1 }, l.length + 1) :=
  linsert_eq l pivot v before

/-- on a well-formed list the LINSERT reply is the new number of elements -/
theorem linsert_reply (l : LList) (h : l.WF) (pivot v : Bytes) (before : Bool) (xs : List Bytes)
    (hs : Spec.List.linsert l.items pivot v before = some xs) :
    (DsList.linsert l pivot v before).2 = xs.length := by
  have hw := linsert_wf l h pivot v before
  rw [linsert_eq, hs] at hw ⊢
  exact hw

/-- LREM, all three sign cases at once: remaining elements, counter, and the returned count -/
theorem lrem_spec (l : LList) (count : Int) (v : Bytes) :
    DsList.lrem l count v =
      ({ items := (Spec.List.lrem l.items count v).1,
         length := l.length - ((Spec.List.lrem l.items count v).2 : Nat) },
       (((Spec.List.lrem l.items count v).2 : Nat) : Int)) :=
  lrem_eq l count v

/-- LPOP: exactly what the model returns. `none` (Go nil slice, list untouched) iff the list is
    empty or `count ≤ 0`; otherwise the first `min count n` elements head-first, the rest stays. -/
theorem lpop_spec (l : LList) (count : Int) :
    DsList.lpop l count =
      if l.items = [] ∨ count ≤ 0 then (l, none)
      else ({ items := (Spec.List.lpop l.items count.toNat).2,
              length := l.length - (min count.toNat l.items.length : Nat) },
            some (Spec.List.lpop l.items count.toNat).1) :=
  lpop_eq l count

/-- RPOP: `none` iff the list is empty or `count ≤ 0`; otherwise the last `min count n` elements
    tail-first, the rest stays. -/
theorem rpop_spec (l : LList) (count : Int) :
    DsList.rpop l count =
      if l.items = [] ∨ count ≤ 0 then (l, none)
      else ({ items := (Spec.List.rpop l.items count.toNat).2,
              length := l.length - (min count.toNat l.items.length : Nat) },
            some (Spec.List.rpop l.items count.toNat).1) :=
  rpop_eq l count

theorem lpush_spec (l : LList) (data : List Bytes) :
    DsList.lpush l data =
      { items := Spec.List.lpush l.items data, length := l.length + data.length } :=
  lpush_eq l data

theorem rpush_spec (l : LList) (data : List Bytes) :
    DsList.rpush l data =
      { items := Spec.List.rpush l.items data, length := l.length + data.length } :=
  rpush_eq l data

/-! ### every command sequence

  `modelStep l c` (Proofs/C02.lean) applies one command to the model list and forms the reply the
  way list.go does (push → LLen, pop → popped elements with nil rendered as the empty array,
  linsert / lrem → the returned integer, lset → the flag, lrange → the visited elements).
  `Spec.List.step` is the same command on the abstract sequence.  `Spec.List.run` folds a step
  function over a command list collecting the replies. -/

/-- one command: invariant kept, same resulting sequence, same reply -/
theorem step_refines (l : LList) (h : l.WF) (c : Spec.List.Cmd) :
    (modelStep l c).1.WF ∧
    (modelStep l c).1.items = (Spec.List.step l.items c).1 ∧
    (modelStep l c).2 = (Spec.List.step l.items c).2 :=
  modelStep_refines l h c

/-- every finite command sequence from every well-formed list: every reply and the final list agree
    with the abstract sequence, and the counter is still exact -/
theorem sequence_refines (l : LList) (h : l.WF) (cs : List Spec.List.Cmd) :
    (Spec.List.run modelStep l cs).1.WF ∧
    (Spec.List.run modelStep l cs).1.items = (Spec.List.run Spec.List.step l.items cs).1 ∧
    (Spec.List.run modelStep l cs).2 = (Spec.List.run Spec.List.step l.items cs).2 :=
  run_refines l h cs

/-- in particular from the empty list (a freshly created key) -/
theorem sequence_refines_from_empty (cs : List Spec.List.Cmd) :
    (Spec.List.run modelStep DsList.empty cs).1.items = (Spec.List.run Spec.List.step [] cs).1 ∧
    (Spec.List.run modelStep DsList.empty cs).2 = (Spec.List.run Spec.List.step [] cs).2 :=
  (run_refines DsList.empty empty_wf cs).2

/-! ## 4. Nothing is lost, duplicated, reordered or altered -/

theorem no_loss_roundtrip (xs : List Bytes) :
    DsList.lrange (DsList.rpush DsList.empty xs) 0 (-1) = xs := by
  rw [lrange_spec, rpush_spec]
  exact lrange_full _

theorem no_loss_roundtrip_lpush (xs : List Bytes) :
    DsList.lrange (DsList.lpush DsList.empty xs) 0 (-1) = xs.reverse := by
  rw [lrange_spec, lpush_spec]
  simp only [DsList.empty, Spec.List.lpush, List.append_nil]
  exact lrange_full _

/-! Sanity of the reference semantics itself: the index-arithmetic definitions agree with the
    "mirror image" reading of the tail-side commands, and LREM only ever deletes copies of `v`. -/

theorem spec_rpop_is_mirrored_lpop (xs : List Bytes) (k : Nat) :
    Spec.List.rpop xs k =
      ((Spec.List.lpop xs.reverse k).1, (Spec.List.lpop xs.reverse k).2.reverse) :=
  spec_rpop_mirror xs k

theorem spec_lrem_negative_is_mirrored (xs : List Bytes) (v : Bytes) (c : Int) (h : c < 0) :
    Spec.List.lrem xs c v =
      ((Spec.List.lrem xs.reverse (-c) v).1.reverse, (Spec.List.lrem xs.reverse (-c) v).2) :=
  spec_lrem_mirror xs v c h

example : ((-2 : Int) < 0) ∧
    Spec.List.lrem [[1], [2], [1], [3], [1]] (-2) [1] = ([[1], [2], [3]], 2) := by decide

/-- LREM: the result is a subsequence, the other elements are all still there in order, the reply is
    `min |count| (occurrences)` (all occurrences for 0), and kept + removed = before -/
theorem spec_lrem_exact (xs : List Bytes) (c : Int) (v : Bytes) :
    (Spec.List.lrem xs c v).1.Sublist xs ∧
    (Spec.List.lrem xs c v).1.filter (· ≠ v) = xs.filter (· ≠ v) ∧
    (Spec.List.lrem xs c v).2 = (if c = 0 then xs.count v else min c.natAbs (xs.count v)) ∧
    (Spec.List.lrem xs c v).1.length + (Spec.List.lrem xs c v).2 = xs.length :=
  ⟨spec_removeAt_sublist xs _, spec_lrem_others xs c v, spec_lrem_count xs c v, spec_lrem_length xs c v⟩

/-! ## 5. Rotation conserves elements -/

/-- LPOPRPUSH data path: `lpop src 1` then `rpush dst popped`. The two lists together hold a
    permutation of what they held; an empty source yields nil and changes nothing; otherwise exactly
    the head of `src` moves to the tail of `dst`. -/
theorem rotate_conserves (src dst : LList) :
    let p := DsList.lpop src 1
    let dst' := DsList.rpush dst (p.2.getD [])
    (p.1.items ++ dst'.items).Perm (src.items ++ dst.items) ∧
    (src.items = [] → p = (src, none) ∧ dst' = dst) ∧
    (∀ x rest, src.items = x :: rest →
      p.1.items = rest ∧ p.2 = some [x] ∧ dst'.items = dst.items ++ [x]) :=
  rotate_left src dst

/-- RPOPLPUSH data path: `rpop src 1` then `lpush dst popped`: exactly the last element of `src`
    becomes the head of `dst`. -/
theorem rotate_conserves_rpoplpush (src dst : LList) :
    let p := DsList.rpop src 1
    let dst' := DsList.lpush dst (p.2.getD [])
    (p.1.items ++ dst'.items).Perm (src.items ++ dst.items) ∧
    (src.items = [] → p = (src, none) ∧ dst' = dst) ∧
    (∀ init x, src.items = init ++ [x] →
      p.1.items = init ∧ p.2 = some [x] ∧ dst'.items = x :: dst.items) :=
  rotate_right src dst

/-! ## 6. API level: a list that becomes empty ceases to exist

  `HotList s k l now` (Proofs/C02Api.lean) unfolds to: the index is sorted by key (what the btree
  guarantees), `l` is well formed, and `k` is indexed with a record that is ok (state bit 1), not
  expired at `now`, and whose in-memory value is `.list l`. -/

theorem hotList_iff (s : MState) (k : Bytes) (l : LList) (now : Int) :
    HotList s k l now ↔
      (AList.Sorted s.index ∧ l.WF ∧
       ∃ m, Store.getMeta s k = some m ∧ m.isOk = true ∧ m.expired now = false ∧
            m.value = some (.list l)) :=
  Iff.rfl

/-- LPOP / RPOP through the API: the reply is the popped elements (nil as empty); if nothing is left
    the key is gone from the index, otherwise the key holds exactly the remaining list -/
theorem pop_empty_ceases (left : Bool) (s : MState) (k : Bytes) (l : LList) (now count : Int)
    (h : HotList s k l now) :
    let r := if left then DsList.lpop l count else DsList.rpop l count
    (Api.pop left s now k count).2 = .blist ((r.2.getD []).map some) ∧
    (r.1.items = [] → Store.getMeta (Api.pop left s now k count).1 k = none) ∧
    (r.1.items ≠ [] → Store.valOf (Api.pop left s now k count).1 k = some (.list r.1)) :=
  api_pop left s k l now count h

/-- popping at least as many elements as there are removes the key -/
theorem pop_all_ceases (left : Bool) (s : MState) (k : Bytes) (l : LList) (now count : Int)
    (h : HotList s k l now) (hc : (l.items.length : Int) ≤ count) :
    Store.getMeta (Api.pop left s now k count).1 k = none := by
  apply (api_pop left s k l now count h).2.1
  cases left
  · simp only [Bool.false_eq_true, if_false, rpop_eq]
    split
    · rename_i hh
      show l.items = []
      rcases hh with hh | hh
      · exact hh
      · exact List.length_eq_zero_iff.mp (by omega)
    · simp only [Spec.List.rpop, List.take_eq_nil_iff]
      omega
  · simp only [if_true, lpop_eq]
    split
    · rename_i hh
      show l.items = []
      rcases hh with hh | hh
      · exact hh
      · exact List.length_eq_zero_iff.mp (by omega)
    · simp only [Spec.List.lpop, List.drop_eq_nil_iff]
      omega

theorem lrem_empty_ceases (s : MState) (k v : Bytes) (l : LList) (now count : Int)
    (h : HotList s k l now) :
    let r := DsList.lrem l count v
    (Api.lrem s now k v count).2 = .int r.2 ∧
    (r.1.items = [] → Store.getMeta (Api.lrem s now k v count).1 k = none) ∧
    (r.1.items ≠ [] → Store.valOf (Api.lrem s now k v count).1 k = some (.list r.1)) :=
  api_lrem s k v l now count h

theorem ltrim_empty_ceases (s : MState) (k : Bytes) (l : LList) (now start stop : Int)
    (h : HotList s k l now) :
    let l' := DsList.ltrim l start stop
    (Api.ltrim s now k start stop).2 = .unit ∧
    (l'.items = [] → Store.getMeta (Api.ltrim s now k start stop).1 k = none) ∧
    (l'.items ≠ [] → Store.valOf (Api.ltrim s now k start stop).1 k = some (.list l')) :=
  api_ltrim s k l now start stop h

/-! The same three, and every other single-list method of list.go, stated end-to-end against the
    reference semantics.  `HoldsSeq s k xs` (Proofs/C02Api.lean): key `k` holds a hot list value
    that is well formed and whose elements are exactly `xs`. -/

theorem holdsSeq_iff (s : MState) (k : Bytes) (xs : List Bytes) :
    HoldsSeq s k xs ↔ ∃ l', Store.valOf s k = some (.list l') ∧ l'.WF ∧ l'.items = xs :=
  Iff.rfl

theorem pop_api (left : Bool) (s : MState) (k : Bytes) (l : LList) (now count : Int)
    (h : HotList s k l now) :
    let r := if left then Spec.List.lpop l.items count.toNat else Spec.List.rpop l.items count.toNat
    (Api.pop left s now k count).2 = .blist (r.1.map some) ∧
    (r.2 = [] → Store.getMeta (Api.pop left s now k count).1 k = none) ∧
    (r.2 ≠ [] → HoldsSeq (Api.pop left s now k count).1 k r.2) :=
  spec_api_pop left s k l now count h

theorem lrem_api (s : MState) (k v : Bytes) (l : LList) (now count : Int) (h : HotList s k l now) :
    let r := Spec.List.lrem l.items count v
    (Api.lrem s now k v count).2 = .int r.2 ∧
    (r.1 = [] → Store.getMeta (Api.lrem s now k v count).1 k = none) ∧
    (r.1 ≠ [] → HoldsSeq (Api.lrem s now k v count).1 k r.1) :=
  spec_api_lrem s k v l now count h

theorem ltrim_api (s : MState) (k : Bytes) (l : LList) (now start stop : Int) (h : HotList s k l now) :
    let r := Spec.List.ltrim l.items start stop
    (Api.ltrim s now k start stop).2 = .unit ∧
    (r = [] → Store.getMeta (Api.ltrim s now k start stop).1 k = none) ∧
    (r ≠ [] → HoldsSeq (Api.ltrim s now k start stop).1 k r) :=
  spec_api_ltrim s k l now start stop h

/-- LPUSH / RPUSH on an existing list: reply = new element count -/
theorem push_api (left : Bool) (s : MState) (k : Bytes) (l : LList) (now : Int) (vs : List Bytes)
    (h : HotList s k l now) :
    (Api.push left s now k vs).2 = .int ((l.items.length + vs.length : Nat) : Int) ∧
    HoldsSeq (Api.push left s now k vs).1 k
      (if left then Spec.List.lpush l.items vs else Spec.List.rpush l.items vs) :=
  spec_api_push left s k l now vs h

/-- LPUSH / RPUSH on a key that is not indexed creates the list -/
theorem push_api_create (left : Bool) (s : MState) (k : Bytes) (now : Int) (vs : List Bytes)
    (h : Store.getMeta s k = none) :
    (Api.push left s now k vs).2 = .int (vs.length : Nat) ∧
    HoldsSeq (Api.push left s now k vs).1 k (if left then vs.reverse else vs) :=
  api_push_create left s k now vs h

/-- LPUSHX / RPUSHX on an existing list -/
theorem pushX_api (left : Bool) (s : MState) (k : Bytes) (l : LList) (now : Int) (v : Bytes)
    (h : HotList s k l now) :
    (Api.pushX left s now k v).2 = .int ((l.items.length + 1 : Nat) : Int) ∧
    HoldsSeq (Api.pushX left s now k v).1 k (if left then v :: l.items else l.items ++ [v]) :=
  spec_api_pushX left s k l now v h

theorem linsert_api (s : MState) (k pivot v : Bytes) (before : Bool) (l : LList) (now : Int)
    (h : HotList s k l now) :
    match Spec.List.linsert l.items pivot v before with
    | none => (Api.linsert s now k pivot v before).2 = .int (-1) ∧
              HoldsSeq (Api.linsert s now k pivot v before).1 k l.items
    | some xs => (Api.linsert s now k pivot v before).2 = .int xs.length ∧
              HoldsSeq (Api.linsert s now k pivot v before).1 k xs :=
  spec_api_linsert s k pivot v before l now h

theorem lset_api (s : MState) (k v : Bytes) (i : Int) (l : LList) (now : Int) (h : HotList s k l now) :
    match Spec.List.lset l.items i v with
    | none => (Api.lset s now k i v).2 = .bool false ∧ HoldsSeq (Api.lset s now k i v).1 k l.items
    | some xs => (Api.lset s now k i v).2 = .bool true ∧ HoldsSeq (Api.lset s now k i v).1 k xs :=
  spec_api_lset s k v i l now h

theorem lindex_api (s : MState) (k : Bytes) (i : Int) (l : LList) (now : Int) (h : HotList s k l now) :
    (Api.lindex s now k i).2 = .bytes (Spec.List.lindex l.items i) :=
  spec_api_lindex s k i l now h

theorem lrange_api (s : MState) (k : Bytes) (a b : Int) (l : LList) (now : Int) (h : HotList s k l now) :
    (Api.lrange s now k a b).2 = .blist ((Spec.List.lrange l.items a b).map some) :=
  spec_api_lrange s k a b l now h

/-- LLEN through the API is the number of elements -/
theorem llen_api (s : MState) (k : Bytes) (l : LList) (now : Int) (h : HotList s k l now) :
    (Api.llen s now k).2 = .int l.items.length :=
  api_llen s k l now h

/-- a concrete state satisfying `HotList`: two keys, `"k"` holds the 2-element list -/
def demoState : MState :=
  { index := [([97], { exp := 0, value := some (.str [1]), state := 1 }),
              ([107], { exp := 5000, value := some (.list { items := [[1], [2]], length := 2 }), state := 3 })] }

theorem demoState_hot : HotList demoState [107] { items := [[1], [2]], length := 2 } 1000 :=
  ⟨⟨by decide, trivial⟩, rfl, _, rfl, rfl, by decide, rfl⟩

/-- non-vacuity of `push_api_create`: `"x"` is not indexed there -/
example : Store.getMeta demoState [120] = none := by decide

/-- ... and on it the theorems say what execution says: RPOP 2 deletes the key, LLEN is 2 -/
example : Store.getMeta (Api.pop false demoState 1000 [107] 2).1 [107] = none ∧
    (Api.llen demoState 1000 [107]).2 = .int 2 :=
  ⟨pop_all_ceases false demoState [107] _ 1000 2 demoState_hot (by decide),
   llen_api demoState [107] _ 1000 demoState_hot⟩

/-! ## 7. API level: LPOPRPUSH / RPOPLPUSH (`Api.rotate`, two keys)

  Full statement (what Redis does): for every state in which `src` holds a list, the command returns
  the moved element, removes it from one end of `src` (deleting `src` if it becomes empty) and adds
  it at the other end of `dst` (created if missing) — also when `src = dst` (the list is rotated) —
  returns nil, changing nothing, when `src` does not exist, and fails with a type error, changing
  nothing, when `dst` exists with another type.

      ∀ s src dst …, (Api.rotate left s now src dst).2 = .bytes (moved element or none) ∧ …

  After the source list has been obtained — and before anything is popped — the code looks `dst` up
  with a nil constructor and fails when that lookup reports a live record that is not a list.  The
  statement is proved in pieces, by the shape of the source and of the destination:
    * `src` not indexed, not ok or expired: nil reply, nothing but the access counter of `src`
      changes, `dst` is not looked at                                  (`rotate_api_missing_source`);
    * `src` a hot list, `dst` a live record of another type (`DstWrongType`): the command fails,
      *both* values are kept — no element is popped, none is lost —, only the two access counters
      change                                                       (`rotate_api_wrong_type_dest`);
    * `src` an indexed list without elements: value untouched for every `dst`; nil reply for every
      `dst` that passes the type check (`DstPasses`), failure otherwise (`rotate_api_empty_source`);
    * `src = dst`, a hot non-empty list: the list is rotated in place   (`rotate_api_same_key`);
    * `src ≠ dst`, `src` a hot non-empty list, destination absent or a hot list (`RotDst`):
      `rotate_api_partial`.  The one remaining restriction, which is why the name keeps `_partial`,
      is the state hypothesis inside `RotDst` that the two records do not share one value object
      (`rotate_api_alias_witness` shows that this hypothesis cannot be dropped). -/

theorem rotDst_iff (s : MState) (src dst : Bytes) (d : LList) (now : Int) :
    RotDst s src dst d now ↔
      ∃ msrc, Store.getMeta s src = some msrc ∧
      ((Store.getMeta s dst = none ∧ d = DsList.empty ∧ (s.pebble = true ∨ msrc.oid ≠ s.nextId + 1)) ∨
       (d.WF ∧ ∃ md, Store.getMeta s dst = some md ∧ md.isOk = true ∧ md.expired now = false ∧
          md.value = some (.list d) ∧
          (s.pebble = true ∨ md.oid ≠ msrc.oid ∨ (md.oid = 0 ∧ msrc.oid = 0)))) :=
  Iff.rfl

/-- `left = true`: LPOPRPUSH (head of `src` → tail of `dst`); `left = false`: RPOPLPUSH (tail of `src`
    → head of `dst`).  Reply = the moved element; `src` keeps exactly the rest (and is deleted when
    nothing is left); `dst` holds exactly its old elements plus the moved one. -/
theorem rotate_api_partial (left : Bool) (s : MState) (src dst : Bytes) (l d : LList) (now : Int)
    (x : Bytes) (rest : List Bytes)
    (hsrc : HotList s src l now) (hne : src ≠ dst)
    (hl : l.items = if left then x :: rest else rest ++ [x])
    (hd : RotDst s src dst d now) :
    (Api.rotate left s now src dst).2 = .bytes (some x) ∧
    (rest = [] → Store.getMeta (Api.rotate left s now src dst).1 src = none) ∧
    (rest ≠ [] → HoldsSeq (Api.rotate left s now src dst).1 src rest) ∧
    HoldsSeq (Api.rotate left s now src dst).1 dst (if left then d.items ++ [x] else x :: d.items) :=
  api_rotate left s src dst l d now x rest hsrc hne hl hd

/-- source absent, or indexed but not ok / past its deadline: nil reply; no other record changes, the
    source record (if any) only has its access counter bumped, the backend is untouched (the lookup
    uses a nil constructor, so no record is unlinked or replaced and `unpersist` never runs: no
    backend entry is removed).  `dst` is never looked at. -/
theorem rotate_api_missing_source (left : Bool) (s : MState) (now : Int) (src dst : Bytes)
    (h : Store.getMeta s src = none ∨
         ∃ m, Store.getMeta s src = some m ∧ (m.isOk = false ∨ m.expired now = true)) :
    (Api.rotate left s now src dst).2 = .bytes none ∧
    (∀ k, k ≠ src → Store.getMeta (Api.rotate left s now src dst).1 k = Store.getMeta s k) ∧
    Store.getMeta (Api.rotate left s now src dst).1 src =
      (Store.getMeta s src).map (fun m => { m with count := m.count + 1 }) ∧
    (Api.rotate left s now src dst).1.disk = s.disk := by
  rcases h with h | ⟨m, hm, hd⟩
  · rw [api_rotate_absent left s now src dst h]
    exact ⟨rfl, fun _ _ => rfl, by rw [h]; rfl, rfl⟩
  · rw [api_rotate_dead left s now src dst m hm hd]
    refine ⟨rfl, ?_, ?_, ?_⟩
    · intro k hk
      show Store.getMeta (Store.putMeta (Store.lockW s src) src _) k = _
      rw [putMeta_other _ _ _ _ (Ne.symm hk), lockW_getMeta]
    · show Store.getMeta (Store.putMeta (Store.lockW s src) src _) src = _
      rw [putMeta_self, hm]; rfl
    · exact lockW_disk s src

/-- in the absent case the state is literally unchanged -/
theorem rotate_api_absent_source (left : Bool) (s : MState) (now : Int) (src dst : Bytes)
    (h : Store.getMeta s src = none) : Api.rotate left s now src dst = (s, .bytes none) :=
  api_rotate_absent left s now src dst h

/-- non-vacuity: `"x"` is absent from `demoState`; `"k"` (deadline 5000) is expired at 6000 -/
example : (Store.getMeta demoState [120] = none ∨
      ∃ m, Store.getMeta demoState [120] = some m ∧ (m.isOk = false ∨ m.expired 1000 = true)) ∧
    (Store.getMeta demoState [107] = none ∨
      ∃ m, Store.getMeta demoState [107] = some m ∧ (m.isOk = false ∨ m.expired 6000 = true)) :=
  ⟨Or.inl (by decide), Or.inr ⟨_, rfl, Or.inr (by decide)⟩⟩

theorem dstPasses_iff (s : MState) (src dst : Bytes) (now : Int) :
    DstPasses s src dst now ↔
      (dst = src ∨ Store.getMeta s dst = none ∨
       (∃ md, Store.getMeta s dst = some md ∧ (md.isOk = false ∨ md.expired now = true)) ∨
       (∃ md d, Store.getMeta s dst = some md ∧ md.isOk = true ∧ md.expired now = false ∧
          md.value = some (.list d))) :=
  Iff.rfl

theorem dstWrongType_iff (s : MState) (dst : Bytes) (v : Val) (now : Int) :
    DstWrongType s dst v now ↔
      ((∀ d, v ≠ .list d) ∧
       ∃ md, Store.getMeta s dst = some md ∧ md.isOk = true ∧ md.expired now = false ∧
         md.value = some v) :=
  Iff.rfl

/-- source an indexed hot list with no elements: the value stays whatever `dst` is (only the two
    lookups happened); the reply is nil for every destination that passes the type check — the
    source itself, a key that is absent / not ok / expired, a hot list — and the command fails for
    the others (a hot destination of another type: `rotate_api_wrong_type_dest`, which does not need
    the source to be empty) -/
theorem rotate_api_empty_source (left : Bool) (s : MState) (now : Int) (src dst : Bytes) (l : LList)
    (hsrc : HotList s src l now) (he : l.items = []) :
    ((Api.rotate left s now src dst).2 = .bytes none ∨ (Api.rotate left s now src dst).2 = .panic) ∧
    Store.valOf (Api.rotate left s now src dst).1 src = some (.list l) ∧
    (DstPasses s src dst now → (Api.rotate left s now src dst).2 = .bytes none) :=
  api_rotate_empty left s now src dst l hsrc he

example : HotList { index := [([107], { exp := 0, value := some (.list DsList.empty), state := 1 })] }
    [107] DsList.empty 1000 ∧ DsList.empty.items = [] ∧
    DstPasses { index := [([107], { exp := 0, value := some (.list DsList.empty), state := 1 })] }
      [107] [108] 1000 :=
  ⟨⟨trivial, rfl, _, rfl, rfl, by decide, rfl⟩, rfl, Or.inr (Or.inl rfl)⟩

/-- destination a live record of another type (whatever the source list holds, empty or not): the
    command fails *before* anything is popped.  The source still holds its whole list, the
    destination still holds its value; the two records only had their access counters bumped, no
    other record and no backend entry changed.  (Before the repair of the Go code the element was
    popped from `src` first and then lost.) -/
theorem rotate_api_wrong_type_dest (left : Bool) (s : MState) (now : Int) (src dst : Bytes) (l : LList)
    (v : Val) (hsrc : HotList s src l now) (hd : DstWrongType s dst v now) :
    (Api.rotate left s now src dst).2 = .panic ∧
    Store.valOf (Api.rotate left s now src dst).1 src = some (.list l) ∧
    Store.valOf (Api.rotate left s now src dst).1 dst = some v ∧
    (∀ k, Store.getMeta (Api.rotate left s now src dst).1 k =
      if k = src ∨ k = dst then (Store.getMeta s k).map (fun m => { m with count := m.count + 1 })
      else Store.getMeta s k) ∧
    (Api.rotate left s now src dst).1.disk = s.disk :=
  api_rotate_wrong_type left s now src dst l v hsrc hd

/-- non-vacuity: in `demoState` the key `"a"` holds a string; RPOPLPUSH k a fails and `"k"` still
    holds [1, 2] -/
example : DstWrongType demoState [97] (.str [1]) 1000 ∧
    (Api.rotate false demoState 1000 [107] [97]).2 = .panic ∧
    Store.valOf (Api.rotate false demoState 1000 [107] [97]).1 [107] =
      some (.list { items := [[1], [2]], length := 2 }) :=
  have hd : DstWrongType demoState [97] (.str [1]) 1000 :=
    ⟨fun _ h => (by cases h), _, rfl, rfl, by decide, rfl⟩
  have h := rotate_api_wrong_type_dest false demoState 1000 [107] [97] _ _ demoState_hot hd
  ⟨hd, h.1, h.2.1⟩

/-- `src = dst` holding a hot non-empty list: the list is rotated in place.  `left = true`
    (LPOPRPUSH k k): `x :: rest` becomes `rest ++ [x]`; `left = false` (RPOPLPUSH k k): `rest ++ [x]`
    becomes `x :: rest`; the reply is the moved element `x`.  This includes the one-element list
    (`rest = []`): the key is unlinked by the pop and created again by the second lookup, so the
    result is stated through the hot value of the key, not through its record.  A call that starts
    without locks (as every call does) is not hung afterwards: the second lookup reuses the write
    lock the call already holds. -/
theorem rotate_api_same_key (left : Bool) (s : MState) (k : Bytes) (l : LList) (now : Int)
    (x : Bytes) (rest : List Bytes)
    (hsrc : HotList s k l now)
    (hl : l.items = if left then x :: rest else rest ++ [x]) :
    (Api.rotate left s now k k).2 = .bytes (some x) ∧
    HoldsSeq (Api.rotate left s now k k).1 k (if left then rest ++ [x] else x :: rest) ∧
    (s.held = [] → (Api.rotate left s now k k).1.hung = s.hung) :=
  api_rotate_same left s k l now x rest hsrc hl

/-- on `demoState` (`"k"` = [1, 2], no locks, not hung): LPOPRPUSH k k replies 1, leaves [2, 1] and
    returns -/
example : (Api.rotate true demoState 1000 [107] [107]).2 = .bytes (some [1]) ∧
    HoldsSeq (Api.rotate true demoState 1000 [107] [107]).1 [107] [[2], [1]] ∧
    (Api.rotate true demoState 1000 [107] [107]).1.hung = false :=
  have h := rotate_api_same_key true demoState [107] _ 1000 [1] [[2]] demoState_hot rfl
  ⟨h.1, h.2.1, h.2.2 rfl⟩

/-- one-element list: RPOPLPUSH k k replies the element and the key still holds it -/
example :
    let s : MState := { index := [([107], { exp := 0, value := some (.list { items := [[7]], length := 1 }), state := 1 })] }
    (Api.rotate false s 1000 [107] [107]).2 = .bytes (some [7]) ∧
    HoldsSeq (Api.rotate false s 1000 [107] [107]).1 [107] [[7]] := by
  intro s
  have hs : HotList s [107] { items := [[7]], length := 1 } 1000 :=
    ⟨trivial, rfl, _, rfl, rfl, by decide, rfl⟩
  have h := rotate_api_same_key false s [107] _ 1000 [7] [] hs rfl
  exact ⟨h.1, h.2.1⟩

/-- two index records sharing one value object (oid 7, in-memory backend): after LPOPRPUSH a → b
    both keys show `[2, 1]`; as two independent sequences `a` would be `[2]` and `b` `[1, 2, 1]` -/
theorem rotate_api_alias_witness :
    let s : MState :=
      { index := [([97], { exp := 0, value := some (.list { items := [[1], [2]], length := 2 }), state := 1, oid := 7 }),
                  ([98], { exp := 0, value := some (.list { items := [[1], [2]], length := 2 }), state := 1, oid := 7 })],
        nextId := 8 }
    Store.valOf (Api.rotate true s 1000 [97] [98]).1 [97] = some (.list { items := [[2], [1]], length := 2 }) ∧
    Store.valOf (Api.rotate true s 1000 [97] [98]).1 [98] = some (.list { items := [[2], [1]], length := 2 }) := by
  decide

/-- non-vacuity of `RotDst`: destination absent (`"l"`) ... -/
example : RotDst demoState [107] [108] DsList.empty 1000 :=
  ⟨_, rfl, Or.inl ⟨rfl, rfl, Or.inr (by decide)⟩⟩

/-- ... and destination an existing list with its own value object -/
def demoState2 : MState :=
  { index := [([107], { exp := 0, value := some (.list { items := [[1], [2]], length := 2 }), state := 1, kid := 1, oid := 2 }),
              ([108], { exp := 0, value := some (.list { items := [[9]], length := 1 }), state := 1, kid := 3, oid := 4 })],
    nextId := 5 }

example : HotList demoState2 [107] { items := [[1], [2]], length := 2 } 1000 ∧
    RotDst demoState2 [107] [108] { items := [[9]], length := 1 } 1000 :=
  ⟨⟨⟨by decide, trivial⟩, rfl, _, rfl, rfl, by decide, rfl⟩,
   ⟨_, rfl, Or.inr ⟨rfl, _, rfl, rfl, by decide, rfl, Or.inr (Or.inl (by decide))⟩⟩⟩


/-! ## 8. The doubly linked list itself: head / tail / prev / next / length on a heap of nodes

  `Model/LinkedList.lean` mirrors ds/list/linked_list.go statement by statement on a heap of nodes
  (pointers are indexes, nil is `none`, nodes are only appended, an unlinked node stays as garbage).  A result
  is `Res.ok …`, `Res.panic` (nil dereference) or `Res.fuel` (a pointer walk ran out of its fuel, which is
  `heap.size + 1` at every loop entry).  `LinkedList.Inv l` says: there is a chain `c` of distinct heap indexes,
  head = first, tail = last (both nil iff `c` is empty), next of c[i] = c[i+1] (nil for the last), prev of
  c[i] = c[i-1] (nil for the first), length = |c|.  `abs l` is the data met walking from head (under `Inv`:
  the data along the chain), `absL l` the sequence-level list `{ items := abs l, length := l.length }`.

  For ALL heaps satisfying `Inv` and all arguments (every `Int`): every method returns `Res.ok` (so it neither
  panics nor runs out of fuel), keeps `Inv`, and its reply and the abstraction of its result are those of the
  corresponding function of Model/DsList.lean on `absL l`.  Hence every theorem of sections 1–6 about
  `DsList.*` on `l.items` now speaks about the pointer structure (`ptr_*_redis` spell three of them out).
  The only hypothesis beyond `Inv`: LRem with `count = math.MinInt64` (Go: "remove all", because `-count`
  overflows; DsList: up to 2^63 occurrences from the tail) needs a list of at most 2^63 nodes. -/

section Pointer
open NodisVerif.LinkedList

/-- the chain of the invariant, spelled out with indexes (the statement of the work package) -/
theorem ptr_inv_iff (l : PList) :
    Inv l ↔ ∃ c : List Nat, c.Nodup ∧ Seg l.heap none c none ∧ l.head = c.head? ∧ l.tail = c.getLast? ∧
      l.length = c.length :=
  ⟨fun ⟨c, h⟩ => ⟨c, h.nodup, h.seg, h.head, h.tail, h.length⟩,
   fun ⟨c, h1, h2, h3, h4, h5⟩ => ⟨c, ⟨h1, h2, h3, h4, h5⟩⟩⟩

/-- `Seg` read pointwise: node k of the chain has prev = node k-1 (nil for the first) and next = node k+1
    (nil for the last) -/
theorem ptr_seg_pointwise (h : Heap) (c : List Nat) (hs : Seg h none c none) (k : Nat) (hk : k < c.length) :
    ∃ n, h[c[k]]? = some n ∧
      n.prev = (if k = 0 then none else c[k - 1]?) ∧ n.next = c[k + 1]? := by
  have hsplit : c = c.take k ++ c[k] :: c.drop (k + 1) := by
    rw [List.getElem_cons_drop, List.take_append_drop]
  have hs' := hs
  rw [hsplit] at hs'
  obtain ⟨n, h1, h2, h3⟩ := seg_mid h _ _ _ none none hs'
  refine ⟨n, h1, ?_, ?_⟩
  · rw [h2, lst_none]
    cases k with
    | zero => simp
    | succ k =>
      simp only [Nat.add_one_ne_zero, ↓reduceIte, Nat.add_sub_cancel]
      rw [List.getLast?_take]
      simp only [Nat.add_one_ne_zero, ↓reduceIte, Nat.add_sub_cancel]
      rw [Option.or_of_isSome (by simp; omega)]
  · rw [h3, hd_none, List.head?_drop]

theorem ptr_inv_empty : Inv LinkedList.empty ∧ absL LinkedList.empty = DsList.empty :=
  ⟨⟨[], empty_invC⟩, by rw [absL_eq empty_invC]; rfl⟩

/-- under the invariant the cached length is the number of nodes on the chain: `LList.WF` of sections 1–6 -/
theorem ptr_wf (l : PList) (h : Inv l) : (absL l).WF := by
  obtain ⟨c, hc⟩ := h
  rw [absL_eq hc]; unfold LList.WF; simp

/-- backward walk (from tail following prev) = reverse of the forward walk (from head following next) -/
theorem bwd_eq_reverse_fwd (l : PList) (h : Inv l) : bwd l = (fwd l).reverse :=
  bwd_eq_reverse_fwd_of_inv h

/-- … node by node, not only their data -/
theorem bwd_nodes_eq_reverse_fwd_nodes (l : PList) (h : Inv l) : bwdIdx l = (fwdIdx l).reverse := by
  obtain ⟨c, hc⟩ := h
  rw [fwdIdx_eq hc, bwdIdx_eq hc]

theorem ptr_lpush (l : PList) (h : Inv l) (data : List Bytes) :
    ∃ l', lpush l data = .ok l' ∧ Inv l' ∧ absL l' = DsList.lpush (absL l) data := by
  obtain ⟨c, hc⟩ := h
  obtain ⟨l', c', e, hi, ha, _⟩ := lpush_refines l c hc data
  exact ⟨l', e, ⟨c', hi⟩, ha⟩

theorem ptr_rpush (l : PList) (h : Inv l) (data : List Bytes) :
    ∃ l', rpush l data = .ok l' ∧ Inv l' ∧ absL l' = DsList.rpush (absL l) data := by
  obtain ⟨c, hc⟩ := h
  obtain ⟨l', c', e, hi, ha, _⟩ := rpush_refines l c hc data
  exact ⟨l', e, ⟨c', hi⟩, ha⟩

theorem ptr_lpop (l : PList) (h : Inv l) (count : Int) :
    ∃ l', lpop l count = .ok (l', (DsList.lpop (absL l) count).2) ∧ Inv l' ∧
      absL l' = (DsList.lpop (absL l) count).1 := by
  obtain ⟨c, hc⟩ := h
  obtain ⟨l', c', e, hi, ha, _⟩ := lpop_refines l c hc count
  exact ⟨l', e, ⟨c', hi⟩, ha⟩

theorem ptr_rpop (l : PList) (h : Inv l) (count : Int) :
    ∃ l', rpop l count = .ok (l', (DsList.rpop (absL l) count).2) ∧ Inv l' ∧
      absL l' = (DsList.rpop (absL l) count).1 := by
  obtain ⟨c, hc⟩ := h
  obtain ⟨l', c', e, hi, ha, _⟩ := rpop_refines l c hc count
  exact ⟨l', e, ⟨c', hi⟩, ha⟩

theorem ptr_size (l : PList) (h : Inv l) : LinkedList.size l = .ok (DsList.size (absL l)) := by
  obtain ⟨c, hc⟩ := h; exact size_refines l c hc

theorem ptr_llen (l : PList) : llen l = DsList.llen (absL l) := rfl

theorem ptr_llen_count (l : PList) (h : Inv l) : llen l = (abs l).length :=
  ptr_wf l h

theorem ptr_lrange (l : PList) (h : Inv l) (start stop : Int) :
    LinkedList.lrange l start stop = .ok (DsList.lrange (absL l) start stop) := by
  obtain ⟨c, hc⟩ := h; exact lrange_refines l c hc start stop

theorem ptr_lindex (l : PList) (h : Inv l) (index : Int) :
    LinkedList.lindex l index = .ok (DsList.lindex (absL l) index) := by
  obtain ⟨c, hc⟩ := h; exact lindex_refines l c hc index

theorem ptr_lset (l : PList) (h : Inv l) (index : Int) (value : Bytes) :
    ∃ l', LinkedList.lset l index value = .ok (l', (DsList.lset (absL l) index value).2) ∧ Inv l' ∧
      absL l' = (DsList.lset (absL l) index value).1 := by
  obtain ⟨c, hc⟩ := h
  obtain ⟨l', e, hi, ha, _⟩ := lset_refines l c hc index value
  exact ⟨l', e, ⟨c, hi⟩, ha⟩

theorem ptr_linsert (l : PList) (h : Inv l) (pivot data : Bytes) (before : Bool) :
    ∃ l', LinkedList.linsert l pivot data before = .ok (l', (DsList.linsert (absL l) pivot data before).2) ∧
      Inv l' ∧ absL l' = (DsList.linsert (absL l) pivot data before).1 := by
  obtain ⟨c, hc⟩ := h
  obtain ⟨l', c', e, hi, ha, _⟩ := linsert_refines l c hc pivot data before
  exact ⟨l', e, ⟨c', hi⟩, ha⟩

/-- all three variants (lRem, lRevRem, lRemAll) behind LRem's dispatch on the sign of `count` -/
theorem ptr_lrem (l : PList) (h : Inv l) (count : Int) (value : Bytes)
    (hmin : count = minInt64 → ((abs l).length : Int) ≤ 9223372036854775808) :
    ∃ l', LinkedList.lrem l count value = .ok (l', (DsList.lrem (absL l) count value).2) ∧ Inv l' ∧
      absL l' = (DsList.lrem (absL l) count value).1 := by
  obtain ⟨c, hc⟩ := h
  have hlen : (abs l).length = c.length := by rw [abs_eq hc]; simp
  obtain ⟨l', c', e, hi, ha, _⟩ := lrem_refines l c hc count value (by rw [← hlen]; exact hmin)
  exact ⟨l', e, ⟨c', hi⟩, ha⟩

theorem ptr_ltrim (l : PList) (h : Inv l) (start stop : Int) :
    ∃ l', LinkedList.ltrim l start stop = .ok l' ∧ Inv l' ∧ absL l' = DsList.ltrim (absL l) start stop := by
  obtain ⟨c, hc⟩ := h
  obtain ⟨l', c', e, hi, ha, _⟩ := ltrim_refines l c hc start stop
  exact ⟨l', e, ⟨c', hi⟩, ha⟩

/-- GetValue: the pointer walk feeds the byte codec of Model/Codec.lean -/
theorem ptr_getValue (l : PList) (h : Inv l) : getValue l = .ok (Codec.encodeList (absL l)) := by
  obtain ⟨c, hc⟩ := h; exact getValue_refines l c hc

/-- SetValue: the decoding loop of Model/Codec.lean, every element through RPush -/
theorem ptr_setValue (l : PList) (h : Inv l) (b : Bytes) (fuel : Nat) (r : LList)
    (hd : Codec.decodeList b (absL l) fuel = some r) :
    ∃ l', setValue b l fuel = .ok l' ∧ Inv l' ∧ absL l' = r := by
  obtain ⟨c, hc⟩ := h
  obtain ⟨l', c', e, hi, ha⟩ := setValue_refines fuel b l c hc r hd
  exact ⟨l', e, ⟨c', hi⟩, ha⟩

/-- … and it fails exactly when the sequence-level decoder does (slice out of range = Go's panic) -/
theorem ptr_setValue_fails (l : PList) (h : Inv l) (b : Bytes) (fuel : Nat)
    (hd : Codec.decodeList b (absL l) fuel = none) :
    setValue b l fuel = .panic ∨ setValue b l fuel = .fuel := by
  obtain ⟨c, hc⟩ := h; exact setValue_fails fuel b l c hc hd

/-- three of the sequence-level theorems restated on the pointer structure: LRANGE / LINDEX return, and
    LTRIM leaves, exactly what Redis' semantics says for the data along the chain -/
theorem ptr_lrange_redis (l : PList) (h : Inv l) (start stop : Int) :
    LinkedList.lrange l start stop = .ok (Spec.List.lrange (abs l) start stop) := by
  rw [ptr_lrange l h, lrange_spec]; rfl

theorem ptr_lindex_redis (l : PList) (h : Inv l) (index : Int) :
    LinkedList.lindex l index = .ok (Spec.List.lindex (abs l) index) := by
  rw [ptr_lindex l h, lindex_spec _ (ptr_wf l h)]; rfl

theorem ptr_ltrim_redis (l : PList) (h : Inv l) (start stop : Int) :
    ∃ l', LinkedList.ltrim l start stop = .ok l' ∧ Inv l' ∧ abs l' = Spec.List.ltrim (abs l) start stop := by
  obtain ⟨l', e, hi, ha⟩ := ptr_ltrim l h start stop
  refine ⟨l', e, hi, ?_⟩
  have := congrArg LList.items ha
  rw [ltrim_spec] at this
  exact this

/-- one call of any method: under `Inv` (and the 2^63 bound for LRem MinInt64) the pointer structure
    returns `ok` — no walk runs out of fuel, nothing dereferences nil — with the reply and the new abstract
    list of the sequence model, and `Inv` holds again.  (`stepD` is `none` only for SetValue on bytes whose
    decoding panics in Go: `ptr_setValue_fails`.) -/
theorem ptr_step (l : PList) (h : Inv l) (op : Op) (hok : OpOk (absL l) op) (L' : LList) (r : Reply)
    (hd : stepD (absL l) op = some (L', r)) :
    ∃ l', stepP l op = .ok (l', r) ∧ Inv l' ∧ absL l' = L' := by
  obtain ⟨c, hc⟩ := h
  obtain ⟨l', c', e, hi, ha⟩ := LinkedList.step_refines l c hc op hok L' r hd
  exact ⟨l', e, ⟨c', hi⟩, ha⟩

/-- under the invariant no method runs out of fuel and no method panics -/
theorem fuel_sufficient (l : PList) (h : Inv l) (op : Op) (hok : OpOk (absL l) op)
    (hd : (stepD (absL l) op).isSome) : stepP l op ≠ .fuel ∧ stepP l op ≠ .panic := by
  obtain ⟨⟨L', r⟩, hs⟩ := Option.isSome_iff_exists.mp hd
  obtain ⟨l', e, _⟩ := ptr_step l h op hok L' r hs
  rw [e]; exact ⟨by simp, by simp⟩

/-- from any list satisfying `Inv`, any finite sequence of methods keeps `Inv` and refines the run of DsList -/
theorem run_refines_ptr (l : PList) (h : Inv l) (ops : List Op) (hok : RunOk (absL l) ops)
    (L' : LList) (rs : List Reply) (hd : runD (absL l) ops = some (L', rs)) :
    ∃ l', runP l ops = .ok (l', rs) ∧ Inv l' ∧ absL l' = L' := by
  obtain ⟨c, hc⟩ := h
  obtain ⟨l', c', e, hi, ha⟩ := run_refines_invC ops l c hc hok L' rs hd
  exact ⟨l', e, ⟨c', hi⟩, ha⟩

/-- from the empty list: every reachable state satisfies `Inv`, is the state of the sequence model, gave
    the sequence model's replies, and its backward walk is the reverse of its forward walk -/
theorem run_inv (ops : List Op) (hok : RunOk DsList.empty ops) (L' : LList) (rs : List Reply)
    (hd : runD DsList.empty ops = some (L', rs)) :
    ∃ l', runP LinkedList.empty ops = .ok (l', rs) ∧ Inv l' ∧ absL l' = L' ∧ bwd l' = (fwd l').reverse := by
  have he := ptr_inv_empty
  obtain ⟨l', e, hi, ha⟩ := run_refines_ptr LinkedList.empty he.1 ops (by rw [he.2]; exact hok) L' rs
    (by rw [he.2]; exact hd)
  exact ⟨l', e, hi, ha, bwd_eq_reverse_fwd l' hi⟩

/-- `RunOk` is only about LRem with count = MinInt64: a run without such a call needs no side condition -/
theorem runOk_of_no_minInt64 (ops : List Op) (h : ∀ v, Op.lrem minInt64 v ∉ ops) (l : LList) : RunOk l ops := by
  induction ops generalizing l with
  | nil => trivial
  | cons op rest ih =>
    refine ⟨?_, fun l' _ _ => ih (fun v hm => h v (List.mem_cons_of_mem _ hm)) l'⟩
    cases op with
    | lrem c v =>
      intro hc; subst hc
      exact absurd (List.mem_cons_self ..) (h v)
    | _ => trivial

/-- unconditionally (also for LRem MinInt64 on more than 2^63 nodes, where the sequence model is left):
    under `Inv` every method returns `ok` and `Inv` holds again — no walk runs out of fuel, no nil is
    dereferenced — except SetValue on bytes whose decoding loop panics in Go (slice bounds out of range),
    which is exactly when the sequence-level decoder `Codec.decodeList` fails -/
theorem ptr_step_total (l : PList) (h : Inv l) (op : Op) :
    (∃ l' r, stepP l op = .ok (l', r) ∧ Inv l') ∨
    (∃ b, op = .setValue b ∧ stepP l op = .panic ∧ stepD (absL l) op = none) := by
  obtain ⟨c, hc⟩ := h
  rcases step_total l c hc op with ⟨l', c', r, e, hi⟩ | hp
  · exact Or.inl ⟨l', r, e, ⟨c', hi⟩⟩
  · exact Or.inr hp

/-- the decoding loop of SetValue never uses up `len(bytes) + 1` units of fuel -/
theorem ptr_setValue_fuel (l : PList) (h : Inv l) (b : Bytes) : setValue b l (b.length + 1) ≠ .fuel := by
  obtain ⟨c, hc⟩ := h
  exact setValue_no_fuel _ b l c hc (by omega)

/-- every state reachable from the empty list by any finite sequence of methods satisfies `Inv`, its
    backward walk is the reverse of its forward walk, and no run ever stops for lack of fuel
    (no side condition at all) -/
theorem run_inv_total (ops : List Op) :
    runP LinkedList.empty ops ≠ .fuel ∧
    ∀ l' rs, runP LinkedList.empty ops = .ok (l', rs) → Inv l' ∧ bwd l' = (fwd l').reverse := by
  obtain ⟨h1, h2⟩ := run_total ops LinkedList.empty [] empty_invC
  refine ⟨h1, fun l' rs h => ?_⟩
  have hi : Inv l' := h2 l' rs h
  exact ⟨hi, bwd_eq_reverse_fwd l' hi⟩

/-- non-vacuity: a concrete heap with garbage (node 1 was unlinked and still points into the chain)
    satisfying `Inv`, with chain 3 → 0 → 2 -/
def demoPtr : PList :=
  { heap := #[{ data := [97], next := some 2, prev := some 3 }, { data := [120], next := some 2, prev := some 0 },
              { data := [97], next := none, prev := some 0 }, { data := [98], next := some 0, prev := none }],
    head := some 3, tail := some 2, length := 3 }

example : Inv demoPtr ∧ abs demoPtr = [[98], [97], [97]] ∧ bwd demoPtr = [[97], [97], [98]] :=
  ⟨⟨[3, 0, 2], by decide, ⟨_, rfl, rfl, rfl, _, rfl, rfl, rfl, _, rfl, rfl, rfl, trivial⟩, rfl, rfl, rfl⟩,
   by decide, by decide⟩

/-- … reached by the model's own methods from the empty list (RPush a x a; LPush b; LRem 1 x), and the
    hypotheses of `run_inv` hold for that run -/
example : (runP LinkedList.empty [.rpush [[97], [120], [97]], .lpush [[98]], .lrem 1 [120]]).bind
      (fun r => .ok (r.1 == demoPtr)) = .ok true ∧
    RunOk DsList.empty [.rpush [[97], [120], [97]], .lpush [[98]], .lrem 1 [120]] ∧
    (runD DsList.empty [.rpush [[97], [120], [97]], .lpush [[98]], .lrem 1 [120]]).isSome :=
  ⟨by decide, runOk_of_no_minInt64 _ (by intro v hm; simp [minInt64] at hm) _, by decide⟩

/-- the side condition of `ptr_lrem` / `OpOk` on the same state, for the one count that needs it -/
example : (minInt64 = minInt64 → ((abs demoPtr).length : Int) ≤ 9223372036854775808) ∧
    OpOk (absL demoPtr) (.lrem minInt64 [97]) :=
  ⟨fun _ => by decide, fun _ => by decide⟩

/-- the hypothesis of `ptr_setValue` on the same state: two well-formed length-prefixed elements -/
example : (Codec.decodeList [2, 98, 4, 99, 99] (absL demoPtr) 6).isSome := by decide

/-- … and of `ptr_setValue_fails`: a length prefix that points past the end of the bytes -/
example : Codec.decodeList [6, 98] (absL demoPtr) 3 = none := by decide

end Pointer

end NodisVerif.C02
