import NodisVerif.Proofs.C13Examples
import NodisVerif.Proofs.C13Inv
/-
  C13 — crash safety of the Pebble backend.

  "If the process is killed at any instant, the next open succeeds and every key then holds a state
  it actually held at some moment no earlier than the last completed SAVE (or completed background
  flush) before the kill — never a torn, mixed, fabricated or older value, and never a key that had
  already been absent at that flush.  Repeated kill/recover cycles preserve this."

  Model.  The backend `MState.disk` is keyed by the encoded (deadline, name); every `diskSet` /
  `diskDelete` of the model is one synchronous atomic Pebble call.  `Proofs/C13Calls.lean` lists the
  calls of `persist` (SET new, then DELETE old), `unpersist`, `flush`, `gc` (`persistCalls`, ...,
  tied to the model functions by `*_eq_calls`); a kill during a step leaves the backend after a
  PREFIX of its calls: `(applyCalls s (calls.take n)).disk`.  The next open is `Store.reopen`
  (`newStore`): a total function (it always "succeeds"); `recovered d name` is the (deadline, value)
  it makes of the content `d` for `name`: the record it builds for the name, read back through the
  backend it leaves (the entry of that name scanned last, `recovered_is_last_entry`).

  Hypotheses.  `DiskWF d`: the backend content is sorted by key and every entry sits under the
  encoding of its own (name, deadline) — what a Pebble instance only written through `storage.Set`
  holds (kept by every call, `wf_after_calls`).  `DiskAgrees s name m`: the backend holds for `name`
  exactly the entry recorded in `m.stored` (or none).  `StoreAgrees s`: `DiskWF`, index sorted, and
  `DiskAgrees` for every index record; established by `reopen` on every well-formed content, also on
  one with two entries for a name (`reopen_establishes_invariant`), so kill/recover cycles compose.
  Values are compared as stored entries (the byte codec round trip is C11's subject).
-/
namespace NodisVerif.C13
open NodisVerif NodisVerif.Store

/-! ### the persistence steps are their call sequences -/

/-- `metadata.persist` = SET under the current deadline, then DELETE of the earlier entry -/
theorem persist_is_its_calls (s : MState) (name : Bytes) (m : Meta) (hf : s.failSet = 0) :
    (persist s name m).1.disk = (applyCalls s (persistCalls s name m)).disk :=
  persist_eq_calls s name m hf

theorem unpersist_is_its_calls (s : MState) (name : Bytes) (m : Meta) :
    (unpersist s name m).disk = (applyCalls s (unpersistCalls name m)).disk :=
  unpersist_eq_calls s name m

theorem flush_is_its_calls (s : MState) (now : Int) (hf : s.failSet = 0) (hp : s.pebble = true) :
    (flush s now).disk = (applyCalls s (flushCalls s now)).disk :=
  flush_eq_calls s now hf hp

theorem gc_is_its_calls (s : MState) (now : Int) (hf : s.failSet = 0) (hp : s.pebble = true) :
    (gc s now).disk = (applyCalls s (gcCalls s now)).disk :=
  gc_eq_calls s now hf hp

/-- every call keeps the backend well-formed -/
theorem wf_after_calls (s : MState) (cs : List DiskCall) (h : DiskWF s.disk) (hc : ∀ c ∈ cs, c.Exact s.pebble)
    (n : Nat) : DiskWF (applyCalls s (cs.take n)).disk := by
  rw [applyCalls_disk _ _ (take_subset_exact hc n)]
  exact diskWF_run h _ (take_subset_exact hc n)

/-- what `reopen` recovers for a name is the entry of that name met last by its scan -/
theorem recovered_is_last_entry {d : AList DiskEntry} (h : DiskWF d) (name : Bytes) :
    recovered d name = (lastFor d name).map fun e => (e.exp, e.val) :=
  recovered_eq h name

/-! ### 1. `persist` is crash safe -/

/-- A kill after any number `n` of the calls of `persist` (0: before the SET; 1: between SET and
    DELETE, both entries on disk; 2: done): the key is recovered EITHER as before the step OR with the
    new deadline and value — in particular never as absent when it was present —, and every other
    key is recovered as before. -/
theorem persist_crash_safe (s : MState) (name : Bytes) (m : Meta) (v : Val)
    (hwf : DiskWF s.disk) (ha : DiskAgrees s name m) (hv : m.value = some v) (n : Nat) :
    (recovered (applyCalls s ((persistCalls s name m).take n)).disk name = recovered s.disk name
      ∨ recovered (applyCalls s ((persistCalls s name m).take n)).disk name = some (m.exp, v))
    ∧ (recovered s.disk name ≠ none →
        recovered (applyCalls s ((persistCalls s name m).take n)).disk name ≠ none)
    ∧ ∀ other, other ≠ name →
        recovered (applyCalls s ((persistCalls s name m).take n)).disk other = recovered s.disk other := by
  have hex := take_subset_exact (persistCalls_exact s name m) n
  rw [applyCalls_disk _ _ hex]
  have h1 := (persist_crash_disk s.pebble hwf ha hv n).1
  refine ⟨h1, ?_, ?_⟩
  · intro hne
    rcases h1 with h1 | h1
    · unfold persistCalls; rw [h1]; exact hne
    · unfold persistCalls; rw [h1]; simp
  · intro other ho
    apply recovered_run_other _ hwf hex
    intro c hc
    rw [persistCalls_name s name m c (List.mem_of_mem_take hc)]
    exact fun e => ho e.symm

/-- the completed step: the key is recovered with its new deadline and value, and the backend
    agrees with the updated record (the invariant is kept) -/
theorem persist_completed (s : MState) (name : Bytes) (m : Meta) (v : Val)
    (hwf : DiskWF s.disk) (ha : DiskAgrees s name m) (hv : m.value = some v) :
    recovered (applyCalls s (persistCalls s name m)).disk name = some (m.exp, v)
    ∧ DiskAgrees (applyCalls s (persistCalls s name m)) name { m with stored := some m.exp } := by
  unfold DiskAgrees
  rw [applyCalls_disk _ _ (persistCalls_exact s name m)]
  exact (persist_crash_disk s.pebble hwf ha hv 0).2

/-- the same about the model function itself -/
theorem persist_completed_model (s : MState) (name : Bytes) (m : Meta) (v : Val)
    (hwf : DiskWF s.disk) (ha : DiskAgrees s name m) (hv : m.value = some v) (hf : s.failSet = 0) :
    recovered (persist s name m).1.disk name = some (m.exp, v)
    ∧ DiskAgrees (persist s name m).1 name (persist s name m).2.1 := by
  have h := persist_completed s name m v hwf ha hv
  rw [persist_state s name m hf]
  exact h

/-! ### 2. the order of the two calls matters -/

/-- FINDING (repaired in the Go code): with the order DELETE-then-SET a kill after the first call
    loses the key.  State `Ex.s0`: key "k" stored under deadline 0, now with deadline 5; all
    hypotheses of `persist_crash_safe` hold, the key is recovered before the step, and after the
    first call of the old sequence it is recovered as ABSENT. -/
theorem persist_order_matters_finding :
    DiskWF Ex.s0.disk ∧ DiskAgrees Ex.s0 Ex.k1 Ex.m1 ∧ Ex.m1.value = some (.str [2])
    ∧ recovered Ex.s0.disk Ex.k1 = some (0, .str [1])
    ∧ recovered (applyCalls Ex.s0 ((persistCallsOld Ex.s0 Ex.k1 Ex.m1).take 1)).disk Ex.k1 = none :=
  ⟨Ex.disk0_wf, Ex.s0_k1_agrees, rfl, Ex.recovered_before, Ex.old_order_loses_key⟩

/-! ### 3. `unpersist` is crash safe -/

/-- after any prefix of the calls of `unpersist` the key is recovered as before or as absent (the
    state after the DELETE); other keys as before -/
theorem unpersist_crash_safe (s : MState) (name : Bytes) (m : Meta)
    (hwf : DiskWF s.disk) (ha : DiskAgrees s name m) (n : Nat) :
    (recovered (applyCalls s ((unpersistCalls name m).take n)).disk name = recovered s.disk name
      ∨ recovered (applyCalls s ((unpersistCalls name m).take n)).disk name = none)
    ∧ ∀ other, other ≠ name →
        recovered (applyCalls s ((unpersistCalls name m).take n)).disk other = recovered s.disk other := by
  have hex := take_subset_exact (unpersistCalls_exact s.pebble name m) n
  rw [applyCalls_disk _ _ hex]
  refine ⟨(unpersist_crash_disk hwf ha n).1, ?_⟩
  intro other ho
  apply recovered_run_other _ hwf hex
  intro c hc
  rw [unpersistCalls_name name m c (List.mem_of_mem_take hc)]
  exact fun e => ho e.symm

/-- the completed step: the key is gone, and the backend agrees with a record saying so -/
theorem unpersist_completed (s : MState) (name : Bytes) (m : Meta)
    (hwf : DiskWF s.disk) (ha : DiskAgrees s name m) :
    recovered (unpersist s name m).disk name = none
    ∧ DiskAgrees (unpersist s name m) name { m with stored := none } := by
  unfold DiskAgrees
  rw [unpersist_eq_calls, applyCalls_disk _ _ (unpersistCalls_exact s.pebble name m)]
  exact (unpersist_crash_disk hwf ha 0).2

/-! ### 4. SAVE / background flush / eviction pass -/

/-- A kill after any number of the calls of `flush`: every name is recovered either as before the
    pass or as the completed pass leaves it (per key independently). -/
theorem flush_crash_safe (s : MState) (now : Int) (h : StoreAgrees s) (n : Nat) (name : Bytes) :
    recovered (applyCalls s ((flushCalls s now).take n)).disk name = recovered s.disk name
    ∨ recovered (applyCalls s ((flushCalls s now).take n)).disk name
        = recovered (applyCalls s (flushCalls s now)).disk name := by
  rw [applyCalls_disk _ _ (take_subset_exact (flushCalls_exact s now) n),
    applyCalls_disk _ _ (flushCalls_exact s now)]
  exact pass_crash s now s.index h.diskWF h.records n name

/-- the same with the model's `flush` as the completed pass -/
theorem flush_crash_safe_model (s : MState) (now : Int) (h : StoreAgrees s) (hf : s.failSet = 0)
    (hp : s.pebble = true) (n : Nat) (name : Bytes) :
    recovered (applyCalls s ((flushCalls s now).take n)).disk name = recovered s.disk name
    ∨ recovered (applyCalls s ((flushCalls s now).take n)).disk name = recovered (flush s now).disk name := by
  rw [flush_eq_calls s now hf hp]
  exact flush_crash_safe s now h n name

/-- likewise for one pass of `gc` -/
theorem gc_crash_safe (s : MState) (now : Int) (h : StoreAgrees s) (n : Nat) (name : Bytes) :
    recovered (applyCalls s ((gcCalls s now).take n)).disk name = recovered s.disk name
    ∨ recovered (applyCalls s ((gcCalls s now).take n)).disk name
        = recovered (applyCalls s (gcCalls s now)).disk name := by
  rw [applyCalls_disk _ _ (take_subset_exact (gcCalls_exact s now) n),
    applyCalls_disk _ _ (gcCalls_exact s now)]
  unfold gcCalls
  split
  · left; simp [runCalls]
  · exact pass_crash s now s.index h.diskWF h.records n name

theorem gc_crash_safe_model (s : MState) (now : Int) (h : StoreAgrees s) (hf : s.failSet = 0)
    (hp : s.pebble = true) (n : Nat) (name : Bytes) :
    recovered (applyCalls s ((gcCalls s now).take n)).disk name = recovered s.disk name
    ∨ recovered (applyCalls s ((gcCalls s now).take n)).disk name = recovered (gc s now).disk name := by
  rw [gc_eq_calls s now hf hp]
  exact gc_crash_safe s now h n name

/-! ### 5. a completed SAVE -/

/-- After all calls of `flush` (a completed SAVE / background flush), for every index record:
    an expired or not-ok key is recovered as ABSENT; a live modified key is recovered with exactly
    its current deadline and value; a live unmodified key as before; names without a record as
    before. -/
theorem completed_flush_is_recovered (s : MState) (now : Int) (h : StoreAgrees s) (hf : s.failSet = 0)
    (hp : s.pebble = true) :
    (∀ key m, (key, m) ∈ s.index →
      ((m.expired now = true ∨ m.isOk = false) → recovered (flush s now).disk key = none)
      ∧ (∀ v, m.expired now = false → m.isOk = true → m.isModified = true → m.value = some v →
          recovered (flush s now).disk key = some (m.exp, v))
      ∧ (m.expired now = false → m.isOk = true → m.isModified = false →
          recovered (flush s now).disk key = recovered s.disk key))
    ∧ ∀ name, AList.get? s.index name = none → recovered (flush s now).disk name = recovered s.disk name := by
  rw [flush_eq_calls s now hf hp, applyCalls_disk _ _ (flushCalls_exact s now)]
  obtain ⟨h1, h2⟩ := pass_full s now s.index h.diskWF h.records
  constructor
  · intro key m hm
    have := (h1 (key, m) hm).1
    unfold flushCalls
    rw [this]
    unfold target
    refine ⟨?_, ?_, ?_⟩
    · intro hd
      have : (m.expired now || !m.isOk) = true := by
        rcases hd with hd | hd <;> simp [hd]
      simp [this]
    · intro v h3 h4 h5 h6
      simp [h3, h4, h5, h6]
    · intro h3 h4 h5
      simp [h3, h4, h5]
  · intro name hn
    apply h2
    intro p hp' e
    have := Proofs.AListLemmas2.get?_of_mem s.index h.idxSorted p.1 p.2 hp'
    rw [e, hn] at this
    cases this

/-- a completed SAVE keeps the per-record agreement, with what each record then says is stored -/
theorem completed_flush_agrees (s : MState) (now : Int) (h : StoreAgrees s) (hf : s.failSet = 0)
    (hp : s.pebble = true) :
    DiskWF (flush s now).disk
    ∧ ∀ key m, (key, m) ∈ s.index → AgreesD (flush s now).disk key (storedAfter now m) := by
  rw [flush_eq_calls s now hf hp, applyCalls_disk _ _ (flushCalls_exact s now)]
  exact ⟨diskWF_run h.diskWF _ (flushCalls_exact s now),
    fun key m hm => ((pass_full s now s.index h.diskWF h.records).1 (key, m) hm).2⟩

/-- a completed SAVE keeps the whole invariant (the `stored` fields `flush` writes into the index
    records are what it left in the backend): the next SAVE is crash safe again -/
theorem flush_preserves_invariant (s : MState) (now : Int) (h : StoreAgrees s) (hf : s.failSet = 0)
    (hp : s.pebble = true) : StoreAgrees (flush s now) :=
  flush_agrees s now h hf hp

/-- so does a completed eviction pass -/
theorem gc_preserves_invariant (s : MState) (now : Int) (h : StoreAgrees s) (hf : s.failSet = 0)
    (hp : s.pebble = true) : StoreAgrees (gc s now) :=
  gc_agrees s now h hf hp

/-! ### 6. kill / recover cycles -/

/-- reopening is idempotent on the logical content: the backend `reopen` leaves (shadowed entries
    deleted) is recovered exactly as the backend it found -/
theorem recover_twice {d : AList DiskEntry} (h : DiskWF d) (name : Bytes) :
    recovered (reopened d).disk name = recovered d name :=
  recovered_reopened h name

/-- `reopen` on ANY well-formed content (also one with two entries for a name, as a kill between the
    SET and the DELETE leaves it) establishes the invariant the crash-safety theorems need, with a
    writable Pebble backend: the next SAVE is crash safe again -/
theorem reopen_establishes_invariant {d : AList DiskEntry} (h : DiskWF d) :
    StoreAgrees (reopened d) ∧ (reopened d).failSet = 0 ∧ (reopened d).pebble = true :=
  ⟨reopened_agrees h, reopened_failSet d, reopened_pebble d⟩

/-- `Store.reopen` of any state is `reopened` of its backend content (index and backend) -/
theorem reopen_of_state (s : MState) :
    (reopen s).disk = (reopened s.disk).disk ∧ (reopen s).index = (reopened s.disk).index :=
  ⟨reopen_disk s, reopen_index s⟩

/-- any number of open / kill-while-idle cycles -/
def reopenTimes : Nat → AList DiskEntry → AList DiskEntry
  | 0, d => d
  | k + 1, d => reopenTimes k (reopened d).disk

theorem recover_many {d : AList DiskEntry} (h : DiskWF d) (k : Nat) (name : Bytes) :
    DiskWF (reopenTimes k d) ∧ recovered (reopenTimes k d) name = recovered d name := by
  induction k generalizing d with
  | zero => exact ⟨h, rfl⟩
  | succ k ih =>
    obtain ⟨a, b⟩ := ih (reopened_spec h).1
    exact ⟨a, b.trans (recovered_reopened h name)⟩

/-- one full cycle: kill during a SAVE after `n` calls, reopen.  The reopened store satisfies the
    invariant again, and what it holds for every name is what was recovered: the state before the
    SAVE or the state the SAVE writes. -/
theorem kill_during_flush_then_open (s : MState) (now : Int) (h : StoreAgrees s) (n : Nat) :
    StoreAgrees (reopened (applyCalls s ((flushCalls s now).take n)).disk)
    ∧ ∀ name,
        recovered (reopened (applyCalls s ((flushCalls s now).take n)).disk).disk name
          = recovered (applyCalls s ((flushCalls s now).take n)).disk name
        ∧ (recovered (applyCalls s ((flushCalls s now).take n)).disk name = recovered s.disk name
            ∨ recovered (applyCalls s ((flushCalls s now).take n)).disk name
                = recovered (applyCalls s (flushCalls s now)).disk name) := by
  have hwf := wf_after_calls s (flushCalls s now) h.diskWF (flushCalls_exact s now) n
  exact ⟨reopened_agrees hwf, fun name => ⟨recovered_reopened hwf name, flush_crash_safe s now h n name⟩⟩

/-! ### 7. no torn, mixed or fabricated entries -/

/-- after any prefix of any list of calls, every entry on disk was on the initial disk or is, whole,
    the entry of one `set` call of the list -/
theorem calls_atomic_untorn_general (s : MState) (cs : List DiskCall) (hc : ∀ c ∈ cs, c.Exact s.pebble)
    (n : Nat) (k : Bytes) (e : DiskEntry) (hm : (k, e) ∈ (applyCalls s (cs.take n)).disk) :
    (k, e) ∈ s.disk ∨ ∃ c ∈ cs, c.entry? = some e := by
  rw [applyCalls_disk _ _ (take_subset_exact hc n)] at hm
  exact untorn_run cs s.disk n k e hm

/-- ... in particular for the call lists of the persistence steps -/
theorem calls_atomic_untorn (s : MState) (name : Bytes) (m : Meta) (now : Int) (cs : List DiskCall)
    (hcs : cs = persistCalls s name m ∨ cs = persistCallsOld s name m ∨ cs = unpersistCalls name m
      ∨ cs = flushCalls s now ∨ cs = gcCalls s now)
    (n : Nat) (k : Bytes) (e : DiskEntry) (hm : (k, e) ∈ (applyCalls s (cs.take n)).disk) :
    (k, e) ∈ s.disk ∨ ∃ c ∈ cs, c.entry? = some e := by
  apply calls_atomic_untorn_general s cs _ n k e hm
  rcases hcs with rfl | rfl | rfl | rfl | rfl
  · exact persistCalls_exact s name m
  · exact persistCallsOld_exact s name m
  · exact unpersistCalls_exact s.pebble name m
  · exact flushCalls_exact s now
  · exact gcCalls_exact s now

/-- ... and what is recovered for a name after any prefix is such a whole entry: an entry of that
    name of the initial disk, or the entry of one `set` call -/
theorem recovered_untorn (s : MState) (cs : List DiskCall) (hwf : DiskWF s.disk)
    (hc : ∀ c ∈ cs, c.Exact s.pebble) (n : Nat) (name : Bytes) (x : Int) (v : Val)
    (hr : recovered (applyCalls s (cs.take n)).disk name = some (x, v)) :
    ∃ e, e.name = name ∧ e.exp = x ∧ e.val = v
      ∧ ((Codec.encodeKey name x, e) ∈ s.disk ∨ ∃ c ∈ cs, c.entry? = some e) := by
  obtain ⟨e, h1, h2, h3, h4⟩ := recovered_some_mem (wf_after_calls s cs hwf hc n) hr
  exact ⟨e, h2, h3, h4, calls_atomic_untorn_general s cs hc n _ e h1⟩

/-! ### non-vacuity: a concrete state, the two-entry window -/

/-- `Ex.s0` (key "k": stored under deadline 0, now deadline 5 and a new value, modified; key "z":
    clean, cold) satisfies the invariant -/
example : StoreAgrees Ex.s0 := Ex.s0_agrees
example : DiskWF Ex.s0.disk ∧ DiskAgrees Ex.s0 Ex.k1 Ex.m1 ∧ Ex.m1.value = some (.str [2]) :=
  ⟨Ex.disk0_wf, Ex.s0_k1_agrees, rfl⟩
example : Ex.s0.failSet = 0 ∧ Ex.s0.pebble = true := ⟨rfl, rfl⟩
/-- its `persist` / SAVE calls -/
example : persistCalls Ex.s0 Ex.k1 Ex.m1 = [.set Ex.k1 5 Ex.new1, .del Ex.k1 0] := Ex.persistCalls_s0
example : flushCalls Ex.s0 1 = [.set Ex.k1 5 Ex.new1, .del Ex.k1 0] := Ex.flushCalls_s0
/-- a kill between the two calls leaves both entries of "k" on disk ... -/
example : (applyCalls Ex.s0 ((persistCalls Ex.s0 Ex.k1 Ex.m1).take 1)).disk
    = [([0, 107], Ex.old1), ([0, 122], Ex.ent2), ([10, 107], Ex.new1)] := Ex.window_disk
/-- ... and "k" is recovered with the new deadline and value (the entry scanned last), where before
    the step it was recovered with the old ones -/
example : recovered Ex.s0.disk Ex.k1 = some (0, .str [1])
    ∧ recovered (applyCalls Ex.s0 ((persistCalls Ex.s0 Ex.k1 Ex.m1).take 1)).disk Ex.k1 = some (5, .str [2]) :=
  ⟨Ex.recovered_before, Ex.recovered_window⟩
/-- the mirror case (deadline removed, 5 → 0): in the window the entry scanned last is the OLD one -/
example : (applyCalls Ex.s1 ((persistCalls Ex.s1 Ex.k1 Ex.m1').take 1)).disk
    = [([0, 107], Ex.new0), ([0, 122], Ex.ent2), ([10, 107], Ex.old5)] := Ex.window_disk'
example : recovered (applyCalls Ex.s1 ((persistCalls Ex.s1 Ex.k1 Ex.m1').take 1)).disk Ex.k1 = some (5, .str [1])
    ∧ recovered Ex.s1.disk Ex.k1 = some (5, .str [1]) := Ex.recovered_window'
/-- the hypothesis `m.value = some v` of `persist_crash_safe` is needed in the model (a record without
    value: nothing is written, the earlier entry is still deleted); `flush` / `gc` never do that -/
example : persistCalls Ex.s0 Ex.k1 Ex.m1c = [.del Ex.k1 0]
    ∧ recovered (applyCalls Ex.s0 (persistCalls Ex.s0 Ex.k1 Ex.m1c)).disk Ex.k1 = none := Ex.persist_cold_loses_key
/-- after both calls only the new entry of "k" is left -/
example : (applyCalls Ex.s0 (persistCalls Ex.s0 Ex.k1 Ex.m1)).disk
    = [([0, 122], Ex.ent2), ([10, 107], Ex.new1)] := Ex.done_disk

end NodisVerif.C13
