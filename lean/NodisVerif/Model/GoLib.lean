import NodisVerif.Basic
import NodisVerif.Model.Varint
/-
  GoLib — the hand-written, TRUSTED run-time library of the Go → Lean translator (extract/go2lean.go,
  docs/go2lean.md).  Everything the translator emits is built from the definitions of this file and
  from core Lean; nothing here is generated.

  Representation (decided once):
    * every Go integer type (int, int8 … int64, uint, uint8 … uint64, byte, rune) is a Lean `Int` that
      lies in the range of its Go type; every operation that can leave the range is followed by an
      explicit `wrap t` (two's complement for signed, modulo 2^n for unsigned).  `int`/`uint` are 64 bit.
      Why not `BitVec n` / `UInt64`: the hand-written model of this framework is written on `Int` with
      `wrap64`, the only arithmetic automation allowed here is `omega` (no `bv_decide`), and `omega`
      decides exactly this fragment (`+ - *const / % by literals`, comparisons).
    * `string` and `[]byte` are `Bytes = List UInt8` (the model's type); a nil slice is the empty slice;
      capacity = length.  Other `[]T` of integers are `List Int`.
    * `float64` is its IEEE bit pattern (an `Int` in 0 … 2^64-1), only passed through / compared by a
      library predicate.
    * `error` is `Option String` (`nil` = `none`).
    * a panic is a value: translated functions live in `Except Panic`.
-/
namespace NodisVerif.GoLib

inductive Panic where
  | index        -- index out of range
  | slice        -- slice bounds out of range
  | divide       -- integer divide by zero
  | shift        -- negative shift amount
  | makeslice    -- makeslice: len out of range
  | nilDeref     -- nil pointer dereference
  | fuel         -- NOT a Go panic: the fuel of a translated `for cond` loop ran out (the measure was too small)
  deriving DecidableEq, Repr, Inhabited

abbrev M := Except Panic
abbrev Error := Option String

instance [DecidableEq α] : DecidableEq (Except Panic α) := fun a b =>
  match a, b with
  | .ok x, .ok y => if h : x = y then isTrue (by rw [h]) else isFalse (by intro e; cases e; exact h rfl)
  | .error x, .error y => if h : x = y then isTrue (by rw [h]) else isFalse (by intro e; cases e; exact h rfl)
  | .ok _, .error _ => isFalse (by intro e; cases e)
  | .error _, .ok _ => isFalse (by intro e; cases e)

/-- a Go integer type: width and signedness -/
structure IT where
  bits : Nat
  signed : Bool
  deriving DecidableEq, Repr

namespace IT
def i8 : IT := ⟨8, true⟩
def i16 : IT := ⟨16, true⟩
def i32 : IT := ⟨32, true⟩
def i64 : IT := ⟨64, true⟩
def u8 : IT := ⟨8, false⟩
def u16 : IT := ⟨16, false⟩
def u32 : IT := ⟨32, false⟩
def u64 : IT := ⟨64, false⟩
end IT

/-- value reduced into the range of `t` as Go's arithmetic does -/
def wrap (t : IT) (x : Int) : Int :=
  let m : Int := 2 ^ t.bits
  let r := x % m
  if t.signed && decide (r ≥ m / 2) then r - m else r

/-- the unsigned view of a value of type `t` (identity on unsigned types) -/
def toU (t : IT) (x : Int) : Nat := (x % (2 ^ t.bits : Int)).toNat

def inRange (t : IT) (x : Int) : Bool :=
  if t.signed then decide (-(2 ^ (t.bits - 1) : Int) ≤ x) && decide (x < (2 ^ (t.bits - 1) : Int))
  else decide (0 ≤ x) && decide (x < (2 ^ t.bits : Int))

def band (t : IT) (a b : Int) : Int := wrap t ((toU t a &&& toU t b : Nat) : Int)
def bor (t : IT) (a b : Int) : Int := wrap t ((toU t a ||| toU t b : Nat) : Int)
def bxor (t : IT) (a b : Int) : Int := wrap t ((toU t a ^^^ toU t b : Nat) : Int)
/-- `a &^ b` -/
def bandnot (t : IT) (a b : Int) : Int := wrap t ((toU t a &&& (2 ^ t.bits - 1 - toU t b) : Nat) : Int)
/-- `^a` -/
def bnot (t : IT) (a : Int) : Int := wrap t ((2 ^ t.bits - 1 - toU t a : Nat) : Int)

/-- `a << n` for a count that cannot be negative (unsigned type or constant). A count ≥ the width gives 0 (Go), which
    `wrap t (a * 2 ^ n)` also yields; the case is split off so that evaluation never builds 2 ^ (a 64-bit number). -/
def shl (t : IT) (a n : Int) : Int := if n ≥ t.bits then 0 else wrap t (a * 2 ^ n.toNat)
/-- `a >> n` (arithmetic for signed, logical for unsigned: floor division either way) -/
def shr (t : IT) (a n : Int) : Int := if n ≥ t.bits then (if a < 0 then -1 else 0) else a / 2 ^ n.toNat
/-- shifts by a count of signed type: a negative count panics -/
def shlS (t : IT) (a n : Int) : M Int := if n < 0 then throw .shift else pure (shl t a n)
def shrS (t : IT) (a n : Int) : M Int := if n < 0 then throw .shift else pure (shr t a n)

/-- `a / b`: truncated; divide by zero panics; MinInt / -1 wraps -/
def div (t : IT) (a b : Int) : M Int := if b = 0 then throw .divide else pure (wrap t (Int.tdiv a b))
/-- `a % b`: sign of the dividend -/
def mod (_t : IT) (a b : Int) : M Int := if b = 0 then throw .divide else pure (Int.tmod a b)

/-! ### byte sequences -/

def len (s : List α) : Int := s.length

def byteOf (x : Int) : UInt8 := UInt8.ofNat (x % 256).toNat

/-- `s[i]` on a string / []byte -/
def idx (s : Bytes) (i : Int) : M Int :=
  if 0 ≤ i ∧ i < s.length then pure ((s.getD i.toNat 0).toNat : Int) else throw .index

/-- `s[i]` on a slice of integers -/
def idxI (s : List Int) (i : Int) : M Int :=
  if 0 ≤ i ∧ i < s.length then pure (s.getD i.toNat 0) else throw .index

/-- `s[i] = v` on a []byte (v already in 0..255) -/
def setIdx (s : Bytes) (i v : Int) : M Bytes :=
  if 0 ≤ i ∧ i < s.length then pure (s.set i.toNat (byteOf v)) else throw .index

def setIdxI (s : List Int) (i v : Int) : M (List Int) :=
  if 0 ≤ i ∧ i < s.length then pure (s.set i.toNat v) else throw .index

/-- `s[lo:hi]` (capacity = length) -/
def slice (s : List α) (lo hi : Int) : M (List α) :=
  if 0 ≤ lo ∧ lo ≤ hi ∧ hi ≤ s.length then pure ((s.drop lo.toNat).take (hi - lo).toNat) else throw .slice

/-- `make([]byte, n)` -/
def makeBytes (n : Int) : M Bytes := if n < 0 then throw .makeslice else pure (List.replicate n.toNat 0)
def makeInts (n : Int) : M (List Int) := if n < 0 then throw .makeslice else pure (List.replicate n.toNat 0)

/-- `copy(dst[lo:], src)`: the new dst (the number copied is min(len dst - lo, len src)) -/
def copyAt (dst : Bytes) (lo : Int) (src : Bytes) : M Bytes :=
  if 0 ≤ lo ∧ lo ≤ dst.length then
    let k := min (dst.length - lo.toNat) src.length
    pure (dst.take lo.toNat ++ src.take k ++ dst.drop (lo.toNat + k))
  else throw .slice

def bytesOfInts (l : List Int) : Bytes := l.map byteOf

/-- indices and elements of `for i, c := range b` over a []byte -/
def enum (s : Bytes) : List (Int × Int) := s.zipIdx.map fun (c, i) => ((i : Int), (c.toNat : Int))
def enumI (s : List Int) : List (Int × Int) := s.zipIdx.map fun (c, i) => ((i : Int), c)

/-- the values of `for i := lo; i < hi; i++` -/
def irange (lo hi : Int) : List Int := (List.range (hi - lo).toNat).map fun (k : Nat) => lo + (k : Int)

/-! ### UTF-8: `for i, r := range s` over a string -/

/-- decode one rune as Go's `range` does: (rune, width); invalid ⇒ (0xFFFD, 1) -/
def decodeRune (b : Bytes) : Nat × Nat :=
  match b with
  | [] => (0xFFFD, 1)
  | b0 :: rest =>
    let x := b0.toNat
    if x < 0x80 then (x, 1)
    else if x < 0xC2 then (0xFFFD, 1)
    else if x < 0xE0 then
      (match rest with
       | b1 :: _ => if 0x80 ≤ b1.toNat ∧ b1.toNat < 0xC0 then ((x - 0xC0) * 64 + (b1.toNat - 0x80), 2) else (0xFFFD, 1)
       | _ => (0xFFFD, 1))
    else if x < 0xF0 then
      (match rest with
       | b1 :: b2 :: _ =>
         let lo := if x = 0xE0 then 0xA0 else 0x80
         let hi := if x = 0xED then 0xA0 else 0xC0
         if lo ≤ b1.toNat ∧ b1.toNat < hi ∧ 0x80 ≤ b2.toNat ∧ b2.toNat < 0xC0 then
           ((x - 0xE0) * 4096 + (b1.toNat - 0x80) * 64 + (b2.toNat - 0x80), 3)
         else (0xFFFD, 1)
       | _ => (0xFFFD, 1))
    else if x < 0xF5 then
      (match rest with
       | b1 :: b2 :: b3 :: _ =>
         let lo := if x = 0xF0 then 0x90 else 0x80
         let hi := if x = 0xF4 then 0x90 else 0xC0
         if lo ≤ b1.toNat ∧ b1.toNat < hi ∧ 0x80 ≤ b2.toNat ∧ b2.toNat < 0xC0 ∧ 0x80 ≤ b3.toNat ∧ b3.toNat < 0xC0 then
           ((x - 0xF0) * 262144 + (b1.toNat - 0x80) * 4096 + (b2.toNat - 0x80) * 64 + (b3.toNat - 0x80), 4)
         else (0xFFFD, 1)
       | _ => (0xFFFD, 1))
    else (0xFFFD, 1)

def runesAux : Bytes → Nat → Nat → List (Int × Int)
  | _, _, 0 => []
  | [], _, _ => []
  | b, off, fuel + 1 =>
    let (r, w) := decodeRune b
    ((off : Int), (r : Int)) :: runesAux (b.drop w) (off + w) fuel

/-- (byte offset, rune) pairs of `for i, r := range s` -/
def runes (s : Bytes) : List (Int × Int) := runesAux s 0 s.length

/-! ### modelled standard library -/

/-- `binary.MaxVarintLen64` -/
def binary_MaxVarintLen64 : Int := 10
def math_MinInt64 : Int := -9223372036854775808
def math_MaxInt64 : Int := 9223372036854775807

/-- `binary.PutVarint(b, x)`: (new b, n); panics when b is too short (as the real one does) -/
def binary_PutVarint (b : Bytes) (x : Int) : M (Bytes × Int) :=
  let v := Varint.putVarint x
  if v.length ≤ b.length then pure (v ++ b.drop v.length, (v.length : Int)) else throw .index

/-- `binary.Varint(b)`: (value, n) -/
def binary_Varint (b : Bytes) : Int × Int := Varint.varint b

/-- little-endian bytes of a uint64 -/
def u64le (x : Int) : Bytes := (List.range 8).map fun i => UInt8.ofNat ((x.toNat >>> (8 * i)) % 256)

/-- `binary.LittleEndian.PutUint64(b, v)`: new b -/
def binary_LittleEndian_PutUint64 (b : Bytes) (v : Int) : M Bytes :=
  if 8 ≤ b.length then pure (u64le v ++ b.drop 8) else throw .index

/-- `binary.LittleEndian.Uint64(b)` -/
def binary_LittleEndian_Uint64 (b : Bytes) : M Int :=
  if 8 ≤ b.length then
    pure (((b.take 8).zipIdx.foldl (fun acc (x, i) => acc + x.toNat <<< (8 * i)) 0 : Nat) : Int)
  else throw .index

/-- `bits.Len64(x)`: number of bits needed to represent x; 0 for 0 -/
def bits_Len64 (x : Int) : Int := if x ≤ 0 then 0 else ((x.toNat.log2 + 1 : Nat) : Int)

/-- `math.IsNaN` on the bit pattern: exponent all ones, mantissa non-zero -/
def math_IsNaN (bits : Int) : Bool :=
  let n := bits.toNat
  (n / 2 ^ 52) % 2048 == 2047 && n % 2 ^ 52 != 0

/-- string `<` (bytewise) -/
def strLt (a b : Bytes) : Bool := Bytes.lt a b

/-- `a && b` where evaluating `b` may panic: b is only evaluated when a holds -/
def andThen (a : Bool) (b : M Bool) : M Bool := if a then b else pure false
def orElse (a : Bool) (b : M Bool) : M Bool := if a then pure true else b

/-- the natural numbers below the fuel of a `for cond` loop -/
def fuelList (n : Int) : List Nat := List.range (n.toNat + 1)

end NodisVerif.GoLib
