import NodisVerif.Model.DsList
import NodisVerif.Model.Codec
/-
  ds/list/linked_list.go with its pointers: the doubly linked list as a heap of nodes.

  A pointer `*Node` is an index into `heap` (`Option Nat`, `none` = nil).  `&Node{data: d}` appends a node
  to the heap; nothing is ever freed: an unlinked node stays where it is, as garbage, with the `prev` /
  `next` it had when it was unlinked (exactly what the Go code leaves behind for the collector; the walks
  in lRemAll / lRem / lRevRem / LTrim read `currentNode.next` of a node they have just unlinked).

  Every method is mirrored statement by statement (the Go statement is quoted at each step).  A loop that
  walks pointers takes fuel (`heap.size + 1` at every entry; `Proofs/LinkedList*.lean` prove that this is
  enough whenever the invariant holds); running out is the distinct result `Res.fuel`.  A nil dereference
  the Go code would commit is `Res.panic`; an index outside the heap (no Go counterpart: a Go pointer
  always points to a node) is reported as `Res.panic` as well.

  Integers: Go's `int64` arguments and the `length` counter are `Int` here.  The only place where the
  64-bit width shows in linked_list.go is `LRem` (`count == math.MinInt64`, because `-count` overflows);
  that test is mirrored.  `l.length + index` / `l.size() + start` cannot overflow for a non-negative
  length and a negative int64 argument.
-/
namespace NodisVerif.LinkedList

structure Node where
  data : Bytes
  next : Option Nat := none
  prev : Option Nat := none
deriving Repr, DecidableEq, Inhabited

abbrev Heap := Array Node

/-- `type LinkedList struct { head, tail *Node; length int64 }` plus the heap the pointers live in -/
structure PList where
  heap   : Heap := #[]
  head   : Option Nat := none
  tail   : Option Nat := none
  length : Int := 0
deriving Repr, DecidableEq, Inhabited

inductive Res (α : Type) where
  | ok (a : α)
  | panic          -- nil pointer dereference (or an index outside the heap)
  | fuel           -- a pointer walk ran out of fuel
deriving Repr, DecidableEq, Inhabited

namespace Res
@[inline] def bind {α β} (x : Res α) (f : α → Res β) : Res β :=
  match x with
  | .ok a => f a
  | .panic => .panic
  | .fuel => .fuel
instance : Monad Res where
  pure := .ok
  bind := Res.bind
@[simp] theorem bind_ok {α β} (a : α) (f : α → Res β) : (Res.ok a >>= f) = f a := rfl
@[simp] theorem bind_panic {α β} (f : α → Res β) : ((Res.panic : Res α) >>= f) = .panic := rfl
@[simp] theorem bind_fuel {α β} (f : α → Res β) : ((Res.fuel : Res α) >>= f) = .fuel := rfl
@[simp] theorem pure_eq {α} (a : α) : (pure a : Res α) = .ok a := rfl
end Res

/-! ### heap primitives -/

/-- `*p` -/
def rd (h : Heap) (i : Nat) : Res Node :=
  match h[i]? with
  | some n => .ok n
  | none => .panic

/-- `p.next = v` -/
def setNext (h : Heap) (i : Nat) (v : Option Nat) : Res Heap :=
  match h[i]? with
  | some n => .ok (h.setIfInBounds i { n with next := v })
  | none => .panic

/-- `p.prev = v` -/
def setPrev (h : Heap) (i : Nat) (v : Option Nat) : Res Heap :=
  match h[i]? with
  | some n => .ok (h.setIfInBounds i { n with prev := v })
  | none => .panic

/-- `p.data = v` -/
def setData (h : Heap) (i : Nat) (v : Bytes) : Res Heap :=
  match h[i]? with
  | some n => .ok (h.setIfInBounds i { n with data := v })
  | none => .panic

/-- `NewLinkedList()` -/
def empty : PList := {}

/-! ### LPush / RPush -/

/-- one iteration of `for _, datum := range data` in LPush -/
def lpush1 (l : PList) (datum : Bytes) : Res PList :=
  let new := l.heap.size
  let heap := l.heap.push { data := datum }                    -- newNode := &Node{data: datum}
  match l.head with
  | none =>                                                     -- if l.head == nil {
    .ok { heap, head := some new, tail := some new,             --   l.head = newNode; l.tail = newNode
          length := l.length + 1 }                              -- l.length++
  | some hd => do                                               -- } else {
    let heap ← setNext heap new (some hd)                       --   newNode.next = l.head
    let heap ← setPrev heap hd (some new)                       --   l.head.prev = newNode
    .ok { heap, head := some new, tail := l.tail,               --   l.head = newNode
          length := l.length + 1 }                              -- l.length++

def lpush (l : PList) (data : List Bytes) : Res PList := data.foldlM lpush1 l

/-- one iteration of the loop of RPush -/
def rpush1 (l : PList) (datum : Bytes) : Res PList :=
  let new := l.heap.size
  let heap := l.heap.push { data := datum }                    -- newNode := &Node{data: datum}
  match l.head with
  | none =>                                                     -- if l.head == nil {
    .ok { heap, head := some new, tail := some new, length := l.length + 1 }
  | some _ =>                                                   -- } else {
    match l.tail with
    | none => .panic                                            --   l.tail.next with l.tail == nil
    | some tl => do
      let heap ← setNext heap tl (some new)                     --   l.tail.next = newNode
      let heap ← setPrev heap new (some tl)                     --   newNode.prev = l.tail
      .ok { heap, head := l.head, tail := some new,             --   l.tail = newNode
            length := l.length + 1 }                            -- l.length++

def rpush (l : PList) (data : List Bytes) : Res PList := data.foldlM rpush1 l

/-! ### LPop / RPop -/

/-- `for i := int64(0); i < count; i++ { … }` of LPop; `result = none` is Go's nil slice -/
def lpopLoop : Nat → PList → Int → Int → Option (List Bytes) → Res (PList × Option (List Bytes))
  | 0, _, _, _, _ => .fuel
  | fuel + 1, l, i, count, result =>
    if ¬ i < count then .ok (l, result) else
    match l.head with
    | none => .ok (l, result)                                   -- if l.head == nil { break }
    | some hd => do
      let n ← rd l.heap hd
      let result := some (result.getD [] ++ [n.data])           -- result = append(result, l.head.data)
      match n.next with                                         -- l.head = l.head.next
      | some h2 => do                                           -- if l.head != nil {
        let heap ← setPrev l.heap h2 none                       --   l.head.prev = nil
        lpopLoop fuel { l with heap, head := some h2, length := l.length - 1 } (i + 1) count result
      | none =>                                                 -- } else { l.tail = nil }
        lpopLoop fuel { l with head := none, tail := none, length := l.length - 1 } (i + 1) count result

def lpop (l : PList) (count : Int) : Res (PList × Option (List Bytes)) :=
  match l.head with
  | none => .ok (l, none)                                       -- if l.head == nil { return nil }
  | some _ => lpopLoop (l.heap.size + 1) l 0 count none

def rpopLoop : Nat → PList → Int → Int → Option (List Bytes) → Res (PList × Option (List Bytes))
  | 0, _, _, _, _ => .fuel
  | fuel + 1, l, i, count, result =>
    if ¬ i < count then .ok (l, result) else
    match l.tail with
    | none => .ok (l, result)                                   -- if l.tail == nil { break }
    | some tl => do
      let n ← rd l.heap tl
      let result := some (result.getD [] ++ [n.data])           -- result = append(result, l.tail.data)
      match n.prev with                                         -- l.tail = l.tail.prev
      | some t2 => do                                           -- if l.tail != nil {
        let heap ← setNext l.heap t2 none                       --   l.tail.next = nil
        rpopLoop fuel { l with heap, tail := some t2, length := l.length - 1 } (i + 1) count result
      | none =>                                                 -- } else { l.head = nil }
        rpopLoop fuel { l with head := none, tail := none, length := l.length - 1 } (i + 1) count result

def rpop (l : PList) (count : Int) : Res (PList × Option (List Bytes)) :=
  match l.tail with
  | none => .ok (l, none)                                       -- if l.tail == nil { return nil }
  | some _ => rpopLoop (l.heap.size + 1) l 0 count none

/-! ### size / forEach / LRange / LLen -/

/-- `for currentNode != nil { length++; currentNode = currentNode.next }` -/
def sizeLoop : Nat → Heap → Option Nat → Int → Res Int
  | _, _, none, len => .ok len
  | 0, _, some _, _ => .fuel
  | fuel + 1, h, some cur, len => do
    let n ← rd h cur
    sizeLoop fuel h n.next (len + 1)

def size (l : PList) : Res Int := sizeLoop (l.heap.size + 1) l.heap l.head 0

/-- the loop of forEach; `acc` collects what `fn` was called with -/
def forEachLoop : Nat → Heap → Option Nat → Int → Int → Int → List Bytes → Res (List Bytes)
  | _, _, none, _, _, _, acc => .ok acc
  | 0, _, some _, _, _, _, _ => .fuel
  | fuel + 1, h, some cur, index, start, stop, acc => do
    let n ← rd h cur
    let acc := if index ≥ start ∧ index ≤ stop then acc ++ [n.data] else acc   -- fn(currentNode.data)
    if index > stop then .ok acc                                               -- break
    else forEachLoop fuel h n.next (index + 1) start stop acc

def forEach (l : PList) (start stop : Int) : Res (List Bytes) := do
  let start ←                                                   -- if start < 0 {
    if start < 0 then do
      let sz ← size l                                           --   start = l.size() + start
      pure (if sz + start < 0 then 0 else sz + start)           --   if start < 0 { start = 0 }
    else pure start
  let stop ←                                                    -- if end < 0 { end = l.size() + end }
    if stop < 0 then do
      let sz ← size l
      pure (sz + stop)
    else pure stop
  if start > stop then .ok []                                   -- if start > end { return }
  else forEachLoop (l.heap.size + 1) l.heap l.head 0 start stop []

def lrange (l : PList) (start stop : Int) : Res (List Bytes) := forEach l start stop

def llen (l : PList) : Int := l.length

/-! ### LIndex / LSet -/

def lindexLoop : Nat → Heap → Option Nat → Int → Int → Res (Option Bytes)
  | _, _, none, _, _ => .ok none                                -- return nil
  | 0, _, some _, _, _ => .fuel
  | fuel + 1, h, some cur, currentIndex, index => do
    let n ← rd h cur
    if currentIndex = index then .ok (some n.data)              -- return currentNode.data
    else lindexLoop fuel h n.next (currentIndex + 1) index

def lindex (l : PList) (index : Int) : Res (Option Bytes) :=
  let index := if index < 0 then l.length + index else index   -- if index < 0 { index = l.length + index }
  lindexLoop (l.heap.size + 1) l.heap l.head 0 index

def lsetLoop : Nat → Heap → Option Nat → Int → Int → Bytes → Res (Heap × Bool)
  | _, h, none, _, _, _ => .ok (h, false)                       -- return false
  | 0, _, some _, _, _, _ => .fuel
  | fuel + 1, h, some cur, currentIndex, index, value => do
    let n ← rd h cur
    if currentIndex = index then do
      let h ← setData h cur value                               -- currentNode.data = value
      .ok (h, true)                                             -- return true
    else lsetLoop fuel h n.next (currentIndex + 1) index value

def lset (l : PList) (index : Int) (value : Bytes) : Res (PList × Bool) := do
  let index := if index < 0 then l.length + index else index
  let (h, b) ← lsetLoop (l.heap.size + 1) l.heap l.head 0 index value
  .ok ({ l with heap := h }, b)

/-! ### LInsert -/

/-- the body of `if bytes.Equal(currentNode.data, pivot) { … }`; `n` is `*currentNode` -/
def insertAtNode (l : PList) (cur : Nat) (n : Node) (data : Bytes) (before : Bool) : Res (PList × Int) := do
  let new := l.heap.size
  let heap := l.heap.push { data := data }                      -- newNode := &Node{data: data}
  let l := { l with heap }
  let l ←
    if before then do
      let l ← match n.prev with                                 -- if currentNode.prev != nil {
        | some p => do
          let heap ← setNext l.heap p (some new)                --   currentNode.prev.next = newNode
          let heap ← setPrev heap new (some p)                  --   newNode.prev = currentNode.prev
          pure { l with heap }
        | none => pure { l with head := some new }              -- } else { l.head = newNode }
      let heap ← setNext l.heap new (some cur)                  -- newNode.next = currentNode
      let heap ← setPrev heap cur (some new)                    -- currentNode.prev = newNode
      pure { l with heap }
    else do
      let l ← match n.next with                                 -- if currentNode.next != nil {
        | some q => do
          let heap ← setPrev l.heap q (some new)                --   currentNode.next.prev = newNode
          let heap ← setNext heap new (some q)                  --   newNode.next = currentNode.next
          pure { l with heap }
        | none => pure { l with tail := some new }              -- } else { l.tail = newNode }
      let heap ← setPrev l.heap new (some cur)                  -- newNode.prev = currentNode
      let heap ← setNext heap cur (some new)                    -- currentNode.next = newNode
      pure { l with heap }
  let l := { l with length := l.length + 1 }                    -- l.length++
  .ok (l, l.length)                                             -- return l.length

def linsertLoop : Nat → PList → Option Nat → Bytes → Bytes → Bool → Res (PList × Int)
  | _, l, none, _, _, _ => .ok (l, -1)                          -- return -1
  | 0, _, some _, _, _, _ => .fuel
  | fuel + 1, l, some cur, pivot, data, before => do
    let n ← rd l.heap cur
    if n.data = pivot then insertAtNode l cur n data before
    else linsertLoop fuel l n.next pivot data before

def linsert (l : PList) (pivot data : Bytes) (before : Bool) : Res (PList × Int) :=
  linsertLoop (l.heap.size + 1) l l.head pivot data before

/-! ### LRem -/

/-- `if currentNode.prev != nil { currentNode.prev.next = currentNode.next } else { l.head = currentNode.next }`
    (`n` is `*currentNode` as it is when the statement starts) -/
def bypassNext (l : PList) (n : Node) : Res PList :=
  match n.prev with                                             -- if currentNode.prev != nil {
  | some p => do
    let heap ← setNext l.heap p n.next                          --   currentNode.prev.next = currentNode.next
    pure { l with heap }
  | none => pure { l with head := n.next }                      -- } else { l.head = currentNode.next }

/-- `if currentNode.next != nil { currentNode.next.prev = currentNode.prev } else { l.tail = currentNode.prev }` -/
def bypassPrev (l : PList) (n : Node) : Res PList :=
  match n.next with                                             -- if currentNode.next != nil {
  | some q => do
    let heap ← setPrev l.heap q n.prev                          --   currentNode.next.prev = currentNode.prev
    pure { l with heap }
  | none => pure { l with tail := n.prev }                      -- } else { l.tail = currentNode.prev }

/-- the pointer surgery shared by lRemAll, lRem and LTrim (node `cur` is taken out of the chain; its own
    `prev` / `next` are left as they are).  `*currentNode` is read again after the first store (the store
    goes to another node's field, which could be the same node in a corrupted structure). -/
def unlink (l : PList) (cur : Nat) : Res PList := do
  let n ← rd l.heap cur
  let l ← bypassNext l n
  let n ← rd l.heap cur
  let l ← bypassPrev l n
  .ok { l with length := l.length - 1 }                         -- l.length--

/-- the same surgery in the order lRevRem writes it (next side first) -/
def unlinkRev (l : PList) (cur : Nat) : Res PList := do
  let n ← rd l.heap cur
  let l ← bypassPrev l n
  let n ← rd l.heap cur
  let l ← bypassNext l n
  .ok { l with length := l.length - 1 }                         -- l.length--

def lremAllLoop : Nat → PList → Option Nat → Bytes → Int → Res (PList × Int)
  | _, l, none, _, removed => .ok (l, removed)
  | 0, _, some _, _, _ => .fuel
  | fuel + 1, l, some cur, value, removed => do
    let n ← rd l.heap cur
    if n.data = value then do                                   -- if bytes.Equal(currentNode.data, value) {
      let l ← unlink l cur
      let n ← rd l.heap cur
      lremAllLoop fuel l n.next value (removed + 1)             -- removed++; currentNode = currentNode.next
    else lremAllLoop fuel l n.next value removed

def lremAll (l : PList) (value : Bytes) : Res (PList × Int) :=
  lremAllLoop (l.heap.size + 1) l l.head value 0

def lremLoop : Nat → PList → Option Nat → Int → Bytes → Int → Res (PList × Int)
  | _, l, none, _, _, removed => .ok (l, removed)
  | 0, _, some _, _, _, _ => .fuel
  | fuel + 1, l, some cur, count, value, removed => do
    let n ← rd l.heap cur
    if n.data = value ∧ (count = 0 ∨ removed < count) then do   -- if bytes.Equal(…) { if count == 0 || removed < count {
      let l ← unlink l cur
      let n ← rd l.heap cur
      lremLoop fuel l n.next count value (removed + 1)
    else lremLoop fuel l n.next count value removed

def lremFwd (l : PList) (count : Int) (value : Bytes) : Res (PList × Int) :=
  lremLoop (l.heap.size + 1) l l.head count value 0

def lrevRemLoop : Nat → PList → Option Nat → Int → Bytes → Int → Res (PList × Int)
  | _, l, none, _, _, removed => .ok (l, removed)
  | 0, _, some _, _, _, _ => .fuel
  | fuel + 1, l, some cur, count, value, removed => do
    let n ← rd l.heap cur
    if n.data = value ∧ (count = 0 ∨ removed < count) then do
      let l ← unlinkRev l cur
      let n ← rd l.heap cur
      lrevRemLoop fuel l n.prev count value (removed + 1)       -- currentNode = currentNode.prev
    else lrevRemLoop fuel l n.prev count value removed

def lrevRem (l : PList) (count : Int) (value : Bytes) : Res (PList × Int) :=
  lrevRemLoop (l.heap.size + 1) l l.tail count value 0

def minInt64 : Int := -9223372036854775808

def lrem (l : PList) (count : Int) (value : Bytes) : Res (PList × Int) :=
  if count > 0 then lremFwd l count value
  else if count < 0 then
    if count = minInt64 then lremAll l value                    -- -count overflows
    else lrevRem l (-count) value
  else lremAll l value

/-! ### LTrim -/

def ltrimLoop : Nat → PList → Option Nat → Int → Int → Int → Res PList
  | _, l, none, _, _, _ => .ok l
  | 0, _, some _, _, _, _ => .fuel
  | fuel + 1, l, some cur, currentIndex, start, stop =>
    if currentIndex < start ∨ currentIndex > stop then do
      let l ← unlink l cur
      let n ← rd l.heap cur
      ltrimLoop fuel l n.next (currentIndex + 1) start stop
    else do
      let n ← rd l.heap cur
      ltrimLoop fuel l n.next (currentIndex + 1) start stop

def ltrim (l : PList) (start stop : Int) : Res PList := do
  let start ← if start < 0 then do let sz ← size l; pure (sz + start) else pure start
  let stop ← if stop < 0 then do let sz ← size l; pure (sz + stop) else pure stop
  ltrimLoop (l.heap.size + 1) l l.head 0 start stop

/-! ### GetValue / SetValue (pointer part; the byte layout is Model/Codec.lean) -/

def getValue (l : PList) : Res Bytes := do
  let items ← forEach l 0 (-1)
  pure (items.flatMap Codec.lenPrefixed)

/-- `SetValue`: same decoding loop as `Codec.decodeList`, pushing with `RPush`; a slice out of range is
    Go's panic -/
def setValue : Bytes → PList → Nat → Res PList
  | _, _, 0 => .fuel
  | [], l, _ => .ok l
  | b, l, fuel + 1 =>
    let (vLen, n) := Varint.varint b
    if n = 0 then .ok l else
    match Codec.slice? b n (n + vLen), Codec.from? b (n + vLen) with
    | some v, some rest => do
      let l ← rpush l [v]
      setValue rest l fuel
    | _, _ => .panic

/-! ### observation: the two walks (used by the dump of the driver and as `abs`) -/

/-- indexes met from `cur` following `next` -/
def walkNext : Nat → Heap → Option Nat → List Nat
  | _, _, none => []
  | 0, _, some _ => []
  | fuel + 1, h, some cur =>
    match h[cur]? with
    | some n => cur :: walkNext fuel h n.next
    | none => [cur]

def walkPrev : Nat → Heap → Option Nat → List Nat
  | _, _, none => []
  | 0, _, some _ => []
  | fuel + 1, h, some cur =>
    match h[cur]? with
    | some n => cur :: walkPrev fuel h n.prev
    | none => [cur]

def dataAt (h : Heap) (i : Nat) : Bytes := (h[i]?.map (·.data)).getD []

/-- nodes from head following `next` -/
def fwdIdx (l : PList) : List Nat := walkNext (l.heap.size + 1) l.heap l.head
/-- nodes from tail following `prev` -/
def bwdIdx (l : PList) : List Nat := walkPrev (l.heap.size + 1) l.heap l.tail

def fwd (l : PList) : List Bytes := (fwdIdx l).map (dataAt l.heap)
def bwd (l : PList) : List Bytes := (bwdIdx l).map (dataAt l.heap)

/-- the sequence the structure represents: data along the chain from head -/
def abs (l : PList) : List Bytes := fwd l

/-- the sequence-level list (Model/DsList.lean) the structure represents -/
def absL (l : PList) : LList := { items := abs l, length := l.length }

end NodisVerif.LinkedList
