import NodisVerif.Model.SkiplistZSet
/-
  ds/zset/sorted_set.go, the ordered QUERIES (`forEachByRank` / `rangeByRank` / `ZRange` / `ZRevRange`,
  `rangeCount` / `ZCount`, `zRange` = `ZRangeByScore` / `ZRevRangeByScore`) on the pointer-level skiplist of
  Model/Skiplist.lean, statement by statement: `node.level[0].forward` = `getLevel h n 0` then `.forward`,
  `node.backward` = `getNode h n` then `.backward`. A nil dereference (`consumer(&node.Item)` on nil) is
  `Err.panic`; the pointer loop of `zRange` has no natural bound and takes fuel `heap.length + 1`.
  The list-level mirrors are `DsZSet.forEachByRank`, `DsZSet.zCount`, `DsZSet.rangeByScore`.
-/
namespace NodisVerif.Skiplist
open NodisVerif.DsZSet (Item)

/-- `if desc { node = node.backward } else { node = node.level[0].forward }` on a non-nil node -/
def stepPtr (h : List Node) (desc : Bool) (n : Nat) : M (Option Nat) :=
  if desc then do
    let nd ← getNode h n
    pure nd.backward
  else do
    let lv ← getLevel h n 0
    pure lv.forward

/-- `for i := 0; i <= sliceSize; i++ { consumer(&node.Item); step }` with a consumer that always continues and
    appends; second argument = remaining iterations -/
def pzWalk (h : List Node) (desc : Bool) : Option Nat → Nat → List Item → M (List Item)
  | _, 0, acc => pure acc.reverse
  | none, _ + 1, _ => throw .panic                  -- `&node.Item` on nil
  | some n, k + 1, acc => do
    let nd ← getNode h n                             -- `consumer(&node.Item)`
    let next ← stepPtr h desc n
    pzWalk h desc next k (nd.item :: acc)

/-- `sortedSet.forEachByRank(start, stop, desc, consumer)` with the consumer of `rangeByRank` (append, continue) -/
def pzForEachByRank (p : PZSet) (start stop : Int) (desc : Bool) : M (List Item) :=
  let size := pzCard p
  if start > size then pure [] else
  let start := if start = 0 then 1 else start
  let stop := if stop < 0 then size + stop + 1 else stop
  if stop < start then pure [] else
  let start := if start < 0 then size + start else start
  let stop := if stop > size then size else stop
  do
  -- find start node
  let node : Option Nat ←
    if desc then do
      -- `node = tail; if start > 1 { node = getByRank(size - start) }`
      if start > 1 then getByRank p.sl (size - start) else pure p.sl.tail
    else do
      -- `node = header.level[0].forward; if start > 1 { node = getByRank(start) }`
      let l0 ← getLevel p.sl.heap 0 0
      if start > 1 then getByRank p.sl start else pure l0.forward
  let sliceSize := wrap64 (stop - start)             -- `int(stop - start)`
  if sliceSize < 0 then pure [] else pzWalk p.sl.heap desc node (sliceSize.toNat + 1) []

/-- `sortedSet.ZRange(start, stop)` -/
def pzRange (p : PZSet) (a b : Int) : M (List Item) := pzForEachByRank p a b false
/-- `sortedSet.ZRevRange(start, stop)` -/
def pzRevRange (p : PZSet) (a b : Int) : M (List Item) := pzForEachByRank p a b true

/-- `sortedSet.rangeCount(min, max, mode)` = `ZCount`: `forEachByRank(0, ZCard(), false, …)` counting the matches -/
def pzCount (p : PZSet) (min max : F64) (mode : Nat) : M Int := do
  let items ← pzForEachByRank p 0 (pzCard p) false
  pure ((items.filter fun it => DsZSet.inMin mode min it.1 && DsZSet.inMax mode max it.1).length : Int)

/-- the loop of `zRange`: `for node != nil { score; if out of the closed range break; excluded; offset / append /
    limit; step }`; first argument = fuel -/
def pzScoreLoop (h : List Node) (desc : Bool) (min max : F64) (mode : Nat) (limit : Int) :
    Nat → Option Nat → Int → List Item → M (List Item)
  | _, none, _, acc => pure acc.reverse
  | 0, some _, _, _ => throw .fuel
  | fuel + 1, some n, offset, acc => do
    let nd ← getNode h n
    let sc := nd.score
    if !(F64.le min sc && F64.le sc max) then pure acc.reverse else
    let excluded := (mode % 2 = 1 ∧ F64.eq sc min) ∨ (mode / 2 % 2 = 1 ∧ F64.eq sc max)
    if excluded then do
      let next ← stepPtr h desc n
      pzScoreLoop h desc min max mode limit fuel next offset acc
    else if offset > 0 then do
      let next ← stepPtr h desc n
      pzScoreLoop h desc min max mode limit fuel next (offset - 1) acc
    else
      let acc := nd.item :: acc
      if limit > 0 ∧ (acc.length : Int) = limit then pure acc.reverse
      else do
        let next ← stepPtr h desc n
        pzScoreLoop h desc min max mode limit fuel next offset acc

/-- `sortedSet.zRange(min, max, offset, limit, desc, mode)` = `ZRangeByScore` / `ZRevRangeByScore` -/
def pzRangeByScore (p : PZSet) (min max : F64) (offset limit : Int) (desc : Bool) (mode : Nat) : M (List Item) :=
  if limit = 0 ∨ offset < 0 then pure [] else do
  let start ← if desc then getLastInRange p.sl min max else getFirstInRange p.sl min max
  pzScoreLoop p.sl.heap desc min max mode limit (p.sl.heap.length + 1) start offset []

end NodisVerif.Skiplist
