import NodisVerif.Model.Conn
/-
  handler.go, one function per handler: argument checks and parsing done *outside* `execCommand`
  (replied immediately, also inside MULTI), the closure handed to `execCommand`, and the rendering
  of the API result. `HRes.crash` = a panic outside the closure; since the dispatch-level
  `recover` (fix: commit "a panic in a command handler outside execCommand …") it is one error
  reply.  Families: connection/keyspace/strings here, the others in Handler2/Handler3.
-/
namespace NodisVerif.Handler
open Resp Api

def maxStringSize : Int := 536870912     -- 512 MiB

def ok : Tok := .simple (Bytes.ofString "OK")
def e : Tok := .err 0
def errReply : HRes := .direct [e]

/-- Go `strconv.ParseInt(s, 10, 64)`: (value, failed?) — on a range error Go returns the nearest
    bound, which handlers that drop the error then use -/
def parseIntGo (s : Bytes) : Int × Bool :=
  match parseInt64 s with
  | some v => (v, false)
  | none =>
    let (neg, ds) := match s with
      | 43 :: r => (false, r)
      | 45 :: r => (true, r)
      | r => (false, r)
    if !ds.isEmpty && ds.all isDigit then (if neg then int64Min else int64Max, true) else (0, true)

def bulkList (xs : List Bytes) : List Tok := .arr xs.length :: xs.map .bulk

def optBulk : Option Bytes → Tok
  | some v => .bulk v
  | none => .nullBulk

/-- closure helper: run an API call, turn `.panic` into a panicking body, `.hang` likewise never
    produces a reply (the harness treats it separately) -/
def call (r : MState × Out) (k : MState → Out → BodyOut) : BodyOut :=
  match r with
  | (s, .panic) => { store := s, toks := [], panicked := true }
  | (s, o) => k s o

def done (s : MState) (ts : List Tok) : BodyOut := { store := s, toks := ts }

def intOf : Out → Int
  | .int n => n
  | .many (.int n :: _) => n
  | _ => 0

def commit (s : MState) : MState := Api.commit s

/-- `redis.FormatFloat64`-parsed argument on the model's float fragment: `none` = first byte of an
    empty string (panic), `some none` = parse error -/
def floatArg (a : Bytes) : Option (Option (Option F64)) :=
  match a with
  | [] => none
  | c :: rest =>
    let body := if c = 40 then rest else a
    some (match Api.parseFloatText body with
          | none => some none            -- outside the model's fragment: treated by callers as unsupported
          | some none => none
          | some (some x) => if F64.isNaN x then none else some (some x))   -- `err == nil && math.IsNaN(v)` ⇒ error

/-! ## connection and server commands -/

def ping (args : List Bytes) : HRes :=
  .exec fun s _ _ => done s [match args with | [] => .bulk (Bytes.ofString "PONG") | a :: _ => .bulk a]

def echo (args : List Bytes) : HRes :=
  .exec fun s _ _ => done s [match args with | [] => .nullBulk | a :: _ => .bulk a]

def dbSize : HRes := .exec fun s _ _ => done s [.int s.index.length]

def flushDB : HRes := .exec fun s _ _ => done (Store.clear s) [ok]

/-! ## keyspace -/

def del (args : List Bytes) : HRes :=
  if args.isEmpty then errReply else
  .exec fun s now _ => call (Api.del s now args) fun s o => done s [.int (intOf o)]

def exists_ (args : List Bytes) : HRes :=
  if args.isEmpty then errReply else
  .exec fun s now _ => call (Api.exists_ s now args) fun s o => done s [.int (intOf o)]

def expire (args : List Bytes) : HRes :=
  match args with
  | key :: secs :: _ =>
    .exec fun s now _ =>
      let seconds := (parseIntGo secs).1
      let r :=
        if opt args "NX" > 1 then Api.expireNX s now key seconds
        else if opt args "XX" > 1 then Api.expireXX s now key seconds
        else if opt args "LT" > 1 then Api.expireLT s now key seconds
        else if opt args "GT" > 1 then Api.expireGT s now key seconds
        else Api.expire s now key seconds
      call r fun s o => done s [.int (intOf o)]
  | _ => errReply

/-- `time.Unix(ts, 0).UnixMilli()` with int64 wrap-around of the multiplication -/
def unixMilli (ts : Int) : Int := wrap64 (ts * 1000)

def expireAt (args : List Bytes) : HRes :=
  match args with
  | key :: tsArg :: _ =>
    match parseIntGo tsArg with
    | (_, true) => errReply
    | (ts, false) =>
      .exec fun s now _ =>
        let t := unixMilli ts
        let r :=
          if opt args "NX" > 1 then Api.expireAtNX s now key t
          else if opt args "XX" > 1 then Api.expireAtXX s now key t
          else if opt args "LT" > 1 then Api.expireAtLT s now key t
          else if opt args "GT" > 1 then Api.expireAtGT s now key t
          else Api.expireAt s now key t
        call r fun s o => done s [.int (intOf o)]
  | _ => errReply

def keys (args : List Bytes) : HRes :=
  match args with
  | pat :: _ => .exec fun s now _ =>
      call (Api.keys s now pat) fun s o => done s (match o with | .slist ks => bulkList ks | _ => [])
  | _ => errReply

def ttl (args : List Bytes) : HRes :=
  match args with
  | key :: _ => .exec fun s now _ =>
      call (Api.ttl s now key) fun s o =>
        let v := intOf o
        done s [.int (if v = -1 then -1 else if v = -2 then -2 else v / 1000000000)]
  | _ => errReply

def pttl (args : List Bytes) : HRes :=
  match args with
  | key :: _ => .exec fun s now _ => call (Api.pttl s now key) fun s o => done s [.int (intOf o)]
  | _ => errReply

def persist (args : List Bytes) : HRes :=
  match args with
  | key :: _ => .exec fun s now _ => call (Api.persist s now key) fun s o => done s [.int (intOf o)]
  | _ => errReply

def randomKey : HRes :=
  .exec fun s now ch =>
    call (Api.randomKey s now (ch.bind (·.head?))) fun s o =>
      done s [match o with | .str k => (if k.isEmpty then .nullBulk else .bulk k) | _ => .nullBulk]

def rename (args : List Bytes) : HRes :=
  match args with
  | a :: b :: _ => .exec fun s now _ =>
      call (Api.rename s now a b) fun s o => done s [match o with | .err false => ok | _ => e]
  | _ => errReply

def renameNx (args : List Bytes) : HRes :=
  match args with
  | a :: b :: _ => .exec fun s now _ =>
      call (Api.renameNX s now a b) fun s o => done s [.int (match o with | .err false => 1 | _ => 0)]
  | _ => errReply

def typ (args : List Bytes) : HRes :=
  match args with
  | key :: _ => .exec fun s now _ =>
      call (Api.type_ s now key) fun s o => done s [match o with | .str t => .simple t | _ => .simple []]
  | _ => errReply

def typeCodeOf (t : Bytes) : Nat :=
  if t = Bytes.ofString "STRING" then 1 else if t = Bytes.ofString "LIST" then 3
  else if t = Bytes.ofString "HASH" then 5 else if t = Bytes.ofString "SET" then 2
  else if t = Bytes.ofString "ZSET" then 4 else 0

/-- SCAN cursor [MATCH p] [COUNT n] [TYPE t]: everything but the scan itself happens outside the closure -/
def scan (args : List Bytes) : HRes :=
  match args with
  | [] => errReply
  | c :: _ =>
    match parseIntGo c with
    | (_, true) => errReply
    | (cursor, false) =>
      let mIdx := opt args "MATCH"
      let cIdx := opt args "COUNT"
      let tIdx := opt args "TYPE"
      -- cmd.Args[cmd.Options.X] outside the closure: an option word in last position indexes past the end
      match (if mIdx > 0 then argAt args mIdx else some [42]) with
      | none => .crash
      | some pat =>
        let countR : Option (Option Int) :=
          if cIdx > 0 then
            match argAt args cIdx with
            | none => none
            | some a => (match parseIntGo a with | (_, true) => some none | (v, false) => some (some v))
          else some (some 10)
        match countR with
        | none => .crash
        | some none => errReply
        | some (some count) =>
          if cIdx > 0 ∧ count = 0 then errReply else
          match (if tIdx > 0 then argAt args tIdx else some []) with
          | none => .crash
          | some t =>
            let typ := if tIdx > 0 then typeCodeOf (upper t) else 0
            .exec fun s now _ =>
              call (Api.scan s now cursor pat count typ) fun s o =>
                match o with
                | .many [.int next, .slist ks] => done s ([.arr 2, .bulk (formatInt next)] ++ bulkList ks)
                | _ => done s []

/-! ## strings -/

/-- SET key value [NX|XX] [GET] [EX s|PX ms|EXAT ts|PXAT ms|KEEPTTL] — several separate API calls -/
def setString (args : List Bytes) : HRes :=
  match args with
  | key :: value :: _ =>
    .exec fun s now _ =>
      let keep := opt args "KEEPTTL" > 1
      -- GET
      let (s, getR, gp) :=
        if opt args "GET" > 1 then
          match Api.get s now key with
          | (s, .panic) => (s, none, true)
          | (s, .bytes b) => (commit s, b, false)
          | (s, _) => (s, none, false)
        else (s, none, false)
      if gp then { store := s, toks := [], panicked := true } else
      -- the write
      let wr : MState × Option Bool :=          -- none = panic, some false = condition not met
        if opt args "NX" > 1 then
          match Api.setNX s now key value keep with
          | (s, .bool b) => (s, some b) | (s, _) => (s, none)
        else if opt args "XX" > 1 then
          match Api.setXX s now key value keep with
          | (s, .bool b) => (s, some b) | (s, _) => (s, none)
        else
          match Api.set s now key value keep with
          | (s, .panic) => (s, none) | (s, _) => (s, some true)
      match wr with
      | (s, none) => { store := s, toks := [], panicked := true }
      | (s, some false) => done s [.nullBulk]
      | (s, some true) =>
        let s := commit s
        let argI (w : String) : Option Int := (argAt args (opt args w)).map fun a => (parseIntGo a).1
        if opt args "EX" > 1 then
          match argI "EX" with
          | none => { store := s, toks := [], panicked := true }
          | some secs => call (Api.expire s now key secs) fun s _ => done s [ok]
        else if opt args "PX" > 1 then
          match argI "PX" with
          | none => { store := s, toks := [], panicked := true }
          | some ms => call (Api.expirePX s now key ms) fun s o => done s [if intOf o = 0 then .nullBulk else ok]
        else if opt args "EXAT" > 1 then
          match argI "EXAT" with
          | none => { store := s, toks := [], panicked := true }
          | some ts => call (Api.expireAt s now key (unixMilli ts)) fun s o => done s [if intOf o = 0 then .nullBulk else ok]
        else if opt args "PXAT" > 1 then
          match argI "PXAT" with
          | none => { store := s, toks := [], panicked := true }
          | some ms => call (Api.expireAt s now key ms) fun s _ => done s [ok]
        else
          match getR with
          | some g => done s [.bulk g]
          | none => done s [ok]
  | _ => errReply

def pairsOf : List Bytes → List (Bytes × Bytes)
  | a :: b :: r => (a, b) :: pairsOf r
  | _ => []

def mSet (args : List Bytes) : HRes :=
  if args.isEmpty ∨ args.length % 2 ≠ 0 then errReply else
  .exec fun s now _ =>
    let rec go : List (Bytes × Bytes) → MState → BodyOut
      | [], s => done s [ok]
      | (k, v) :: rest, s =>
        match Api.set s now k v false with
        | (s, .panic) => { store := s, toks := [], panicked := true }
        | (s, _) => go rest (commit s)
    go (pairsOf args) s

def appendString (args : List Bytes) : HRes :=
  match args with
  | k :: v :: _ => .exec fun s now _ => call (Api.append s now k v) fun s o => done s [.int (intOf o)]
  | _ => errReply

def setex (args : List Bytes) : HRes :=
  match args with
  | k :: secs :: v :: _ => .exec fun s now _ => call (Api.setEX s now k v (parseIntGo secs).1) fun s _ => done s [ok]
  | _ => errReply

def setnx (args : List Bytes) : HRes :=
  match args with
  | k :: v :: _ => .exec fun s now _ =>
      call (Api.setNX s now k v false) fun s o => done s [.int (match o with | .bool true => 1 | _ => 0)]
  | _ => errReply

/-- INCR / DECR: any error of the API call (non-numeric, overflow) is an error reply -/
def incrDecr (neg : Bool) (args : List Bytes) : HRes :=
  match args with
  | k :: _ => .exec fun s now _ =>
      call (Api.addInt s now k 1 neg) fun s o =>
        match o with
        | .many [.int v, .err false] => done s [.int v]
        | _ => done s [e]
  | _ => errReply

def incrDecrBy (neg : Bool) (args : List Bytes) : HRes :=
  match args with
  | k :: d :: _ =>
    match parseIntGo d with
    | (_, true) => errReply
    | (delta, false) => .exec fun s now _ =>
        call (Api.addInt s now k delta neg) fun s o =>
          match o with
          | .many [.int v, .err false] => done s [.int v]
          | _ => done s [e]
  | _ => errReply

def incrByFloat (args : List Bytes) : HRes :=
  match args with
  | k :: d :: _ =>
    match floatArg d with
    | none => .crash                      -- s[0] on an empty argument
    | some none => errReply
    | some (some none) => .exec fun s _ _ => { store := s, toks := [.simple (Bytes.ofString "UNSUPPORTED")] }
    | some (some (some delta)) => .exec fun s now _ =>
        call (Api.incrByFloat s now k delta) fun s o =>
          match o with
          | .many [.f64 v, .err false] => done s [match Api.formatFloat v with | some t => .bulk t | none => .simple (Bytes.ofString "UNSUPPORTED")]
          | .unsupported => done s [.simple (Bytes.ofString "UNSUPPORTED")]
          | _ => done s [e]
  | _ => errReply

def getString (args : List Bytes) : HRes :=
  match args with
  | k :: _ => .exec fun s now _ =>
      call (Api.get s now k) fun s o => done s [match o with | .bytes b => optBulk b | _ => .nullBulk]
  | _ => errReply

def getSet (args : List Bytes) : HRes :=
  match args with
  | k :: v :: _ => .exec fun s now _ =>
      call (Api.getSet s now k v) fun s o => done s [match o with | .bytes b => optBulk b | _ => .nullBulk]
  | _ => errReply

/-- MGET reads every key first (a wrong-typed key fails the command before anything is written),
    then writes the array -/
def mGet (args : List Bytes) : HRes :=
  if args.isEmpty then errReply else
  .exec fun s now _ =>
    let rec go : List Bytes → MState → List Tok → BodyOut
      | [], s, acc => done s (.arr args.length :: acc)
      | k :: rest, s, acc =>
        match Api.get s now k with
        | (s, .panic) => { store := s, toks := [], panicked := true }
        | (s, .bytes b) => go rest (commit s) (acc ++ [optBulk b])
        | (s, _) => go rest (commit s) acc
    go args s []

def setRange (args : List Bytes) : HRes :=
  match args with
  | k :: off :: v :: _ =>
    match parseIntGo off with
    | (_, true) => errReply
    | (o, false) =>
      if o < 0 ∨ o > maxStringSize ∨ o + v.length > maxStringSize then errReply else
      .exec fun s now _ => call (Api.setRange s now k o v) fun s r => done s [.int (intOf r)]
  | _ => errReply

def getRange (args : List Bytes) : HRes :=
  match args with
  | k :: a :: b :: _ =>
    match parseIntGo a, parseIntGo b with
    | (st, false), (en, false) => .exec fun s now _ =>
        call (Api.getRange s now k st en) fun s o =>
          done s [.bulk (match o with | .bytes (some v) => v | _ => [])]
    | _, _ => errReply
  | _ => errReply

def strLen (args : List Bytes) : HRes :=
  match args with
  | k :: _ => .exec fun s now _ => call (Api.strLen s now k) fun s o => done s [.int (intOf o)]
  | _ => errReply

def setBit (args : List Bytes) : HRes :=
  match args with
  | k :: off :: v :: _ =>
    match parseIntGo off with
    | (_, true) => errReply
    | (o, false) =>
      if o < 0 ∨ o ≥ maxStringSize * 8 then errReply else
      match parseIntGo v with
      | (_, true) => errReply
      | (b, false) =>
        if b ≠ 0 ∧ b ≠ 1 then errReply else
        .exec fun s now _ => call (Api.setBit s now k o (b = 1)) fun s r => done s [.int (intOf r)]
  | _ => errReply

def getBit (args : List Bytes) : HRes :=
  match args with
  | k :: off :: _ =>
    match parseIntGo off with
    | (_, true) => errReply
    | (o, false) =>
      if o < 0 then errReply else
      .exec fun s now _ => call (Api.getBit s now k o) fun s r => done s [.int (intOf r)]
  | _ => errReply

def bitCount (args : List Bytes) : HRes :=
  match args with
  | [] => errReply
  | k :: rest =>
    let st := match rest with | a :: _ => parseIntGo a | _ => (0, false)
    let en := match rest with | _ :: b :: _ => parseIntGo b | _ => (0, false)
    if st.2 ∨ en.2 then errReply else
    .exec fun s now _ =>
      call (Api.bitCount s now k st.1 en.1 (opt args "BIT" > 2)) fun s r => done s [.int (intOf r)]

/-- dispatch table of this file; `none` = not one of these commands -/
def table1 (name : String) (args : List Bytes) : Option HRes :=
  match name with
  | "PING" => some (ping args)
  | "ECHO" => some (echo args)
  | "DBSIZE" => some dbSize
  | "FLUSHDB" | "FLUSHALL" => some flushDB
  | "DEL" | "UNLINK" => some (del args)
  | "EXISTS" => some (exists_ args)
  | "EXPIRE" => some (expire args)
  | "EXPIREAT" => some (expireAt args)
  | "KEYS" => some (keys args)
  | "RANDOMKEY" => some randomKey
  | "TTL" => some (ttl args)
  | "PTTL" => some (pttl args)
  | "PERSIST" => some (persist args)
  | "RENAME" => some (rename args)
  | "RENAMENX" => some (renameNx args)
  | "TYPE" => some (typ args)
  | "SCAN" => some (scan args)
  | "SET" => some (setString args)
  | "MSET" => some (mSet args)
  | "APPEND" => some (appendString args)
  | "SETEX" => some (setex args)
  | "SETNX" => some (setnx args)
  | "GET" => some (getString args)
  | "GETSET" => some (getSet args)
  | "MGET" => some (mGet args)
  | "SETRANGE" => some (setRange args)
  | "GETRANGE" => some (getRange args)
  | "STRLEN" => some (strLen args)
  | "INCR" => some (incrDecr false args)
  | "DECR" => some (incrDecr true args)
  | "INCRBY" => some (incrDecrBy false args)
  | "DECRBY" => some (incrDecrBy true args)
  | "INCRBYFLOAT" => some (incrByFloat args)
  | "SETBIT" => some (setBit args)
  | "GETBIT" => some (getBit args)
  | "BITCOUNT" => some (bitCount args)
  | _ => none

end NodisVerif.Handler
