import NodisVerif.Model.Resp
/-
  redis/resp.go, reader side: `Reader.ReadCommand` and everything below it, on a connection whose
  `Read` calls deliver arbitrary fragments of the byte stream.

  A source is a list of chunks; `Read(p)` returns `min (len p) (len head)` bytes of the head chunk
  (net.Conn semantics; never 0 bytes without an error). The reader's buffer is modelled by its
  window: `before` = the byte just before the window start in the buffer (none when the window
  starts at offset 0 — `indexByte(-2)` with a one-byte window then indexes buf[-1] and panics),
  `win` = the bytes read since the last `malloc()`.
-/
namespace NodisVerif.RespReader
open Resp

abbrev Source := List Bytes

/-- `reader.Read(p)` with `len p = k > 0`: `none` = io.EOF -/
def srcRead : Source → Nat → Option (Bytes × Source)
  | [], _ => none
  | [] :: rest, k => srcRead rest k          -- an exhausted chunk: the next Read sees the next chunk
  | (c :: cs) :: rest, k =>
    let chunk := c :: cs
    if k ≥ chunk.length then some (chunk, rest) else some (chunk.take k, chunk.drop k :: rest)

def srcFlat (s : Source) : Bytes := s.flatMap id

inductive RErr
  | eof                 -- io.EOF from the connection
  | expectedArrayLength
  | expectedArray
  | expectedBulk
  | badInteger
  | tooLarge            -- bulk length negative or beyond the 512 MiB protocol limit
deriving Repr, DecidableEq

structure Cmd where
  name : Bytes
  args : List Bytes
deriving Repr, DecidableEq

structure RState where
  src    : Source
  before : Option UInt8 := none     -- buf[r.r - 1], none if r.r = 0
  win    : Bytes := []              -- buf[r.r : r.r + r.l]
deriving Repr

inductive Res (α : Type)
  | ok (a : α) (st : RState)
  | err (e : RErr) (st : RState)
  | panic                            -- index out of range: the connection goroutine dies (and with it the process)

/-- `readByte`: appends exactly one byte to the window -/
def readByte (st : RState) : Res Unit :=
  match srcRead st.src 1 with
  | none => .err .eof st
  | some (bs, src) => .ok () { st with src := src, win := st.win ++ bs }

/-- `readByteN(n)` for n ≥ 0: reads until the window holds at least n bytes (each Read is asked for
    the missing bytes only, so it never holds more) -/
def readByteN (st : RState) (n : Nat) : Nat → Res Unit
  | 0 => .err .eof st
  | fuel + 1 =>
    if st.win.length ≥ n then .ok () st else
    match srcRead st.src (n - st.win.length) with
    | none => .err .eof st
    | some (bs, src) => readByteN { st with src := src, win := st.win ++ bs } n fuel

/-- `malloc()`: the window is consumed -/
def malloc (st : RState) : RState :=
  { st with before := (st.win.getLast?).orElse (fun _ => st.before), win := [] }

/-- `readLine`: read single bytes until the window has more than one byte and ends in '\n', then
    drop the last two bytes -/
def readLine (st : RState) : Nat → Res Unit
  | 0 => .err .eof st
  | fuel + 1 =>
    match readByte st with
    | .ok _ st =>
      if st.win.length > 1 ∧ st.win.getLast? = some 10 then .ok () { st with win := st.win.take (st.win.length - 2) }
      else readLine st fuel
    | .err e st => .err e st
    | .panic => .panic

def remaining (st : RState) : Nat := (srcFlat st.src).length

/-- `readInteger`: a line parsed with ParseInt (window consumed) -/
def readInteger (st : RState) : Res Int :=
  match readLine st (remaining st + 1) with
  | .ok _ st =>
    let txt := st.win
    let st := malloc st
    (match parseInt64 txt with
     | some v => .ok v st
     | none => .err .badInteger st)
  | .err e st => .err e st
  | .panic => .panic

def maxBulk : Int := 536870912

/-- `readBulk` -/
def readBulk (st : RState) : Res Bytes :=
  match readByte st with
  | .err e st => .err e st
  | .panic => .panic
  | .ok _ st =>
    if st.win.head? ≠ some 36 then .err .expectedBulk st else
    let st := malloc st
    match readInteger st with
    | .err e st => .err e st
    | .panic => .panic
    | .ok l st =>
      if l < 0 ∨ l > maxBulk then .err .tooLarge st else
      match readByteN st l.toNat (remaining st + 1) with
      | .err e st => .err e st
      | .panic => .panic
      | .ok _ st =>
        let v := st.win
        let st := malloc st
        match readLine st (remaining st + 1) with
        | .err e st => .err e st
        | .panic => .panic
        | .ok _ st => .ok v (malloc st)

/-- the bulk loop of `ReadCommand` -/
def readBulks (st : RState) : Nat → List Bytes → Res (List Bytes)
  | 0, acc => .ok acc.reverse st
  | k + 1, acc =>
    match readBulk st with
    | .ok v st => readBulks st k (v :: acc)
    | .err _ st => .err .expectedArray st
    | .panic => .panic

/-- `indexByte(i)` for i ∈ {-1, -2} on the current window -/
def lastByte (st : RState) : Option UInt8 := st.win.getLast?
def prevByte (st : RState) : Option (Option UInt8) :=          -- outer none = index -1 (panic)
  if st.win.length ≥ 2 then some st.win[st.win.length - 2]?
  else match st.before with
    | some b => some (some b)
    | none => none

/-- `readUtil(end)`: (lineEnd, state); the window then holds the token -/
def readUtil (endB : UInt8) (st : RState) : Nat → Res Bool
  | 0 => .err .eof st
  | fuel + 1 =>
    match readByte st with
    | .err e st => .err e st
    | .panic => .panic
    | .ok _ st =>
      let dropLast (st : RState) : RState := { st with win := st.win.take (st.win.length - 1) }
      if lastByte st = some 13 then readUtil endB (dropLast st) fuel
      else if lastByte st = some 10 then .ok true (dropLast st)
      else if lastByte st = some endB then
        match prevByte st with
        | none => .panic
        | some p => if p ≠ some 92 then .ok false (dropLast st) else readUtil endB st fuel
      else readUtil endB st fuel

/-- the argument loop of `ReadInlineCommand` -/
def inlineArgs (st : RState) : Nat → List Bytes → Res (List Bytes)
  | 0, acc => .ok acc.reverse st
  | fuel + 1, acc =>
    match readByte st with
    | .err .eof st => .ok acc.reverse st             -- io.EOF ends the command normally
    | .err e st => .err e st
    | .panic => .panic
    | .ok _ st =>
      let first := st.win.head?
      if first = some 32 ∨ first = some 9 then inlineArgs (malloc st) fuel acc else
      let quoted := first = some 39 ∨ first = some 34
      let st' := if quoted then malloc st else st
      match readUtil (if quoted then first.getD 32 else 32) st' (remaining st' + 1) with
      | .err e st => .err e st
      | .panic => .panic
      | .ok lineEnd st =>
        let v := st.win
        let st := malloc st
        if lineEnd then .ok (v :: acc).reverse st else inlineArgs st fuel (v :: acc)

/-- `ReadInlineCommand` (the first byte is already in the window) -/
def readInline (st : RState) : Res Cmd :=
  match readUtil 32 st (remaining st + 1) with
  | .err e st => .err e st
  | .panic => .panic
  | .ok lineEnd st =>
    let name := upper st.win
    let st := malloc st
    if lineEnd then .ok { name := name, args := [] } st else
    match inlineArgs st (remaining st + 1) [] with
    | .ok args st => .ok { name := name, args := args } st
    | .err e st => .err e st
    | .panic => .panic

/-- `ReadCommand` (after `reset()`: window at offset 0) -/
def readCommand (src : Source) : Res Cmd :=
  let st : RState := { src := src }
  match readByte st with
  | .err e st => .err e st
  | .panic => .panic
  | .ok _ st =>
    if st.win.head? ≠ some 42 then readInline st else
    let st := malloc st
    match readInteger st with
    | .err _ st => .err .expectedArrayLength st
    | .panic => .panic
    | .ok l st =>
      match readBulks st l.toNat [] with
      | .err e st => .err e st
      | .panic => .panic
      | .ok [] st => .ok { name := [], args := [] } st
      | .ok (n :: args) st => .ok { name := upper n, args := args } st

/-- the per-connection loop of `handleConn`: commands in order until the first error -/
def readAll (src : Source) : Nat → List Cmd → List Cmd × Option RErr × Bool
  | 0, acc => (acc.reverse, none, false)
  | fuel + 1, acc =>
    match readCommand src with
    | .ok c st => readAll st.src fuel (c :: acc)
    | .err e _ => (acc.reverse, some e, false)
    | .panic => (acc.reverse, none, true)

end NodisVerif.RespReader
