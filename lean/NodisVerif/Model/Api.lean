import NodisVerif.Model.Store
import NodisVerif.Model.FloatDec
/-
  One function per exported method of *Nodis (key.go, str.go, list.go, hash.go, set.go, zset.go),
  mirroring the Go bodies statement by statement on the single-threaded store model.
  `Out.panic` = the Go method panics (through the embedded API the caller sees the panic; over
  RESP `execCommand` turns it into one error reply). State changes made before the panic persist.
-/
namespace NodisVerif

abbrev Item := F64 × Bytes

inductive Out
  | unit
  | int (n : Int)
  | bool (b : Bool)
  | bytes (b : Option Bytes)
  | str (s : Bytes)
  | err (isErr : Bool)
  | f64 (x : F64)
  | blist (xs : List (Option Bytes))
  | slist (xs : List Bytes)
  | ilist (xs : List (Option Item))
  | bmap (m : List (Bytes × Option Bytes))
  | item (i : Option Item)
  | many (xs : List Out)
  | panic
  | hang               -- the call never returns (self-deadlock on a key lock)
  | unsupported        -- float arithmetic outside the model's integer-valued fragment
deriving Repr, Inhabited

namespace Api
open Store

abbrev R := MState × Out

/-- the hot value of `key` as a given type; `none` = type assertion panics -/
def asStr (s : MState) (key : Bytes) : Option DsStr.S :=
  match valOf s key with | some (.str v) => some (some v) | some .strNil => some none | _ => none
def asList (s : MState) (key : Bytes) : Option LList :=
  match valOf s key with | some (.list v) => some v | _ => none
def asHash (s : MState) (key : Bytes) : Option (AList Bytes) :=
  match valOf s key with | some (.hash v) => some v | _ => none
def asSet (s : MState) (key : Bytes) : Option (AList Unit) :=
  match valOf s key with | some (.set v) => some v | _ => none
def asZSet (s : MState) (key : Bytes) : Option ZSet :=
  match valOf s key with | some (.zset v) => some v | _ => none

/-- mutate the value object of `key` in place. With the in-memory backend the same object may be
    referenced by backend entries and (after a reopen) by other index records: they all see it. -/
def setVal (s : MState) (key : Bytes) (v : Val) : MState :=
  match getMeta s key with
  | none => s
  | some m =>
    let s := putMeta s key { m with value := some v }
    if s.pebble ∨ m.oid = 0 then s else
    { s with
      index := s.index.map fun (k, m') =>
        if m'.oid = m.oid ∧ m'.value.isSome then (k, { m' with value := some v }) else (k, m'),
      disk := s.disk.map fun (k, e) => if e.oid = m.oid then (k, { e with val := v }) else (k, e) }

/-- mutate `m.key.Expiration` -/
def setExp (s : MState) (key : Bytes) (e : Int) : MState :=
  match getMeta s key with
  | none => s
  | some m =>
    putMeta s key { m with exp := e }
def expOf (s : MState) (key : Bytes) : Int := ((getMeta s key).map (·.exp)).getD 0

/-- `tx.commit()`: the call's locks are released (between the separate transactions of one command) -/
def commit (s : MState) : MState := { s with held := [] }

def strVal : DsStr.S → Val
  | some v => .str v
  | none => .strNil

/-! ## key.go -/

def del (s : MState) (now : Int) (keys : List Bytes) : R :=
  let (s, c) := keys.foldl (fun (acc : MState × Int) key =>
    let (s, ok) := writeKey acc.1 now key none
    if !ok then (s, acc.2) else
    -- unlink, then signalModifiedKey(key, meta) on the unlinked record: watchers of the name are told
    (emit { delKey s key with signalled := key :: s.signalled } { typ := 2, key := key }, acc.2 + 1)) (s, 0)
  (s, .int c)

def exists_ (s : MState) (now : Int) (keys : List Bytes) : R :=
  let (s, c) := keys.foldl (fun (acc : MState × Int) key =>
    let (s, ok) := readKey acc.1 now key
    (s, if ok then acc.2 + 1 else acc.2)) (s, 0)
  (s, .int c)

def opExpire (key : Bytes) (e : Int) : FeedOp := { typ := 3, key := key, args := [toString e] }

/-- common tail of the EXPIRE family: set deadline, signal, notify -/
def applyExp (s : MState) (key : Bytes) (e : Int) : MState :=
  let s := setExp s key e
  emit (signal s key) (opExpire key e)

def expire (s : MState) (now : Int) (key : Bytes) (seconds : Int) : R :=
  if seconds = 0 then del s now [key] else
  let (s, ok) := writeKey s now key none
  if !ok then (s, .int 0) else
  (applyExp s key (wrap64 (now + wrap64 (seconds * 1000))), .int 1)

def expirePX (s : MState) (now : Int) (key : Bytes) (ms : Int) : R :=
  if ms = 0 then del s now [key] else
  let (s, ok) := writeKey s now key none
  if !ok then (s, .int 0) else
  (applyExp s key (wrap64 (now + ms)), .int 1)

def expireNX (s : MState) (now : Int) (key : Bytes) (seconds : Int) : R :=
  let (s, ok) := writeKey s now key none
  if !ok then (s, .int 0) else
  if expOf s key ≠ 0 then (s, .int 0) else
  (applyExp s key (wrap64 (now + wrap64 (seconds * 1000))), .int 1)

def expireXX (s : MState) (now : Int) (key : Bytes) (seconds : Int) : R :=
  let (s, ok) := writeKey s now key none
  if !ok then (s, .int 0) else
  if expOf s key = 0 then (s, .int 0) else
  (applyExp s key (wrap64 (now + wrap64 (seconds * 1000))), .int 1)

/-- LT / GT compare against the stored deadline with "no deadline" = 0, i.e. the *smallest* value
    (Redis treats it as infinite; the repository's tests pin this convention: known finding) -/
def expireLT (s : MState) (now : Int) (key : Bytes) (seconds : Int) : R :=
  let (s, ok) := writeKey s now key none
  if !ok then (s, .int 0) else
  if expOf s key = 0 then (s, .int 0) else
  let deadline := wrap64 (now + wrap64 (seconds * 1000))
  if deadline < expOf s key then (applyExp s key deadline, .int 1) else (s, .int 0)

def expireGT (s : MState) (now : Int) (key : Bytes) (seconds : Int) : R :=
  let (s, ok) := writeKey s now key none
  if !ok then (s, .int 0) else
  let deadline := wrap64 (now + wrap64 (seconds * 1000))
  if expOf s key < deadline then (applyExp s key deadline, .int 1) else (s, .int 0)

def expireAt (s : MState) (now : Int) (key : Bytes) (ts : Int) : R :=
  let (s, ok) := writeKey s now key none
  if !ok then (s, .int 0) else (applyExp s key ts, .int 1)

def expireAtNX (s : MState) (now : Int) (key : Bytes) (ts : Int) : R :=
  let (s, ok) := writeKey s now key none
  if !ok then (s, .int 0) else
  if expOf s key ≠ 0 then (s, .int 0) else (applyExp s key ts, .int 1)

def expireAtXX (s : MState) (now : Int) (key : Bytes) (ts : Int) : R :=
  let (s, ok) := writeKey s now key none
  if !ok then (s, .int 0) else
  if expOf s key = 0 then (s, .int 0) else (applyExp s key ts, .int 1)

def expireAtLT (s : MState) (now : Int) (key : Bytes) (ts : Int) : R :=
  let (s, ok) := writeKey s now key none
  if !ok then (s, .int 0) else
  if expOf s key = 0 then (s, .int 0) else
  if ts < expOf s key then (applyExp s key ts, .int 1) else (s, .int 0)

def expireAtGT (s : MState) (now : Int) (key : Bytes) (ts : Int) : R :=
  let (s, ok) := writeKey s now key none
  if !ok then (s, .int 0) else
  if expOf s key < ts then (applyExp s key ts, .int 1) else (s, .int 0)

def keys (s : MState) (now : Int) (pat : Bytes) : R :=
  (s, .slist ((s.index.filter fun (k, m) => Glob.matched pat k && !m.expired now).map (·.1)))

def liveKeys (s : MState) (now : Int) : List Bytes :=
  (s.index.filter fun (_, m) => !m.expired now).map (·.1)

/-- RandomKey is relational: the implementation's choice must be a live key ("" iff none) -/
def randomKey (s : MState) (now : Int) (choice : Option Bytes) : R :=
  let live := liveKeys s now
  match choice with
  | none => (s, if live.isEmpty || live.contains [] then .str [] else .str [63, 63])   -- "" is also the empty-named key; "??" = a key was expected
  | some c => (s, if live.contains c then .str c else .str [63, 63])

/-- TTL: a time.Duration in ns, rounded to whole seconds (half away from zero) -/
def ttl (s : MState) (now : Int) (key : Bytes) : R :=
  let (s, ok) := readKey s now key
  if !ok then (s, .int (-2)) else
  let e := expOf s key
  if e = 0 then (s, .int (-1)) else
  -- time.Until saturates; Duration.Round(time.Second) rounds half up and saturates
  let dns := e * 1000000 - now * 1000000
  let d := if dns > int64Max then int64Max else dns       -- > 0 here
  let r := d % 1000000000
  if r + r < 1000000000 then (s, .int (d - r))
  else if d + 1000000000 - r > int64Max then (s, .int int64Max)
  else (s, .int (d + 1000000000 - r))

def pttl (s : MState) (now : Int) (key : Bytes) : R :=
  let (s, ok) := readKey s now key
  if !ok then (s, .int (-2)) else
  let e := expOf s key
  if e = 0 then (s, .int (-1)) else (s, .int (e - now))

def rename (s : MState) (now : Int) (key dst : Bytes) : R :=
  let (s, ok) := writeKey s now key none
  if !ok then (s, .err true) else
  match getMeta s key with
  | none => (s, .err true)
  | some m =>
    if key = dst then (s, .err false) else   -- RENAME a a is a no-op
    let (s, dok) := writeKey s now dst none
    let s := delKey s key
    let s :=
      if !dok then
        -- dstMeta is an empty record; give it a key object carrying the source's deadline and publish it
        let (kid, s) := fresh s
        -- (an expired / unreadable record still indexed under dst is replaced, with its backend entry)
        let s := match getMeta s dst with | some dead => unpersist s dst dead | none => s
        putMeta s dst { exp := m.exp, value := none, kid := kid }
      else s
    -- dstMeta.setValue(meta.value): shares the source's value object
    let s := match m.value with
      | some v => modMeta s dst fun d => ({ d with oid := m.oid }.setValue v)
      | none => s
    -- the deadline moves with the value
    let s := setExp s dst m.exp
    -- signalModifiedKey(key, meta) on the unlinked source; signalModifiedKey(dstKey, dstMeta)
    let s := { modMeta s dst Meta.markModified with signalled := dst :: key :: s.signalled }
    (emit s { typ := 32, key := key, args := [Bytes.toHex dst] }, .err false)

def renameNX (s : MState) (now : Int) (key dst : Bytes) : R :=
  let (s, dok) := writeKey s now dst none
  if dok then (s, .err true) else
  let (s, ok) := writeKey s now key none
  if !ok then (s, .err true) else
  match getMeta s key with
  | none => (s, .err true)
  | some m =>
    let s := delKey s key
    let (kid, s) := fresh s
    let d : Meta := { exp := m.exp, value := none, kid := kid, oid := m.oid }
    let d := match m.value with | some v => d.setValue v | none => d
    let s := match getMeta s dst with | some dead => unpersist s dst dead | none => s
    let s := putMeta s dst d.markModified
    let s := { s with signalled := dst :: key :: s.signalled }
    (emit s { typ := 32, key := key, args := [Bytes.toHex dst] }, .err false)

def type_ (s : MState) (now : Int) (key : Bytes) : R :=
  let (s, ok) := readKey s now key
  if !ok then (s, .str (Bytes.ofString "none")) else
  match valOf s key with
  | some v => (s, .str (Bytes.ofString (typeName v.typeCode)))
  | none => (s, .panic)

/-- `Scan(cursor, match, count, typ)`: positional cursor over the index. A cursor is the 1-based
    position of the first entry to visit (0 = from the start); the reply's cursor is the position of
    the first entry not visited, or 0 when the scan reached the end. -/
def scan (s : MState) (now : Int) (cursor : Int) (pat : Bytes) (count : Int) (typ : Nat) : R :=
  let keyLen : Int := s.index.length
  if keyLen = 0 then (s, .many [.int 0, .slist []]) else
  if cursor > keyLen then (s, .many [.int 0, .slist []]) else
  -- the closure over the btree scan, as a fold with early exit; `none` cursor = ran off the end
  let rec go (ents : List (Bytes × Meta)) (s : MState) (cursor iter count : Int) (acc : List Bytes) : MState × Int × List Bytes :=
    match ents with
    | [] => (s, 0, acc.reverse)
    | (key, m) :: rest =>
      let iter := iter + 1
      let cursor := wrap64 (cursor - 1)          -- `cursor--` wraps at int64 min
      if cursor > 0 then go rest s cursor iter count acc else
      if count = 0 then (s, iter, acc.reverse) else
      let count := wrap64 (count - 1)
      -- rLockKey: count++
      let s := modMeta s key fun m => { m with count := m.count + 1 }
      if Glob.matched pat key && !m.expired now then
        -- a record that never had its value loaded does not know its type: load it for a TYPE filter
        let (s, vt) :=
          if typ ≠ 0 ∧ m.vtype = 0 ∧ m.value.isNone then
            match loadValue s key m with
            | some (v, oid) => (modMeta s key fun m' => ({ m' with oid := oid }.setValue v), v.typeCode)
            | none => (s, m.vtype)
          else (s, m.vtype)
        if typ ≠ 0 ∧ vt ≠ typ then go rest s cursor iter count acc
        else go rest s cursor iter count (key :: acc)
      else go rest s cursor iter count acc
  let (s, next, ks) := go s.index s cursor 0 count []
  (s, .many [.int next, .slist ks])

def persist (s : MState) (now : Int) (key : Bytes) : R :=
  let (s, ok) := writeKey s now key none
  if !ok then (s, .int 0) else
  if expOf s key = 0 then (s, .int 0) else
  let s := signal (setExp s key 0) key
  (emit s { typ := 33, key := key }, .int 1)

/-! ## str.go -/

def opSet (key : Bytes) (v : Bytes) (keep : Bool) (exp : Int := 0) : FeedOp :=
  { typ := 25, key := key, args := [Bytes.toHex v, toString keep, toString exp] }

def setOpt (s : MState) (now : Int) (key : Bytes) (value : DsStr.S) (keepTTL : Bool) : R :=
  let (s, _) := writeKey s now key (some (.str []))
  match asStr s key with
  | none => (s, .panic)
  | some _ =>
    let s := setVal s key (strVal value)
    let s := if !keepTTL then setExp s key 0 else s
    (emit (signal s key) (opSet key (DsStr.bytes value) keepTTL), .unit)

def set (s : MState) (now : Int) (key value : Bytes) (keepTTL : Bool) : R :=
  let (s, _) := writeKey s now key (some (.str []))
  match asStr s key with
  | none => (s, .panic)
  | some _ =>
    let s := setVal s key (.str value)
    let s := if !keepTTL then setExp s key 0 else s
    (emit (signal s key) (opSet key value keepTTL), .unit)

def getSet (s : MState) (now : Int) (key value : Bytes) : R :=
  let (s, ok) := writeKey s now key none
  if !ok then
    -- no such key: a brand-new record (as in SETNX), and there is no old value
    let s := newKeyWith s key none (.str [])
    let s := setVal s key (.str value)
    let s := setExp s key 0
    (emit (signal s key) (opSet key value false), .bytes none)
  else
  match asStr s key with
  | none => (s, .panic)
  | some old =>
    let s := setVal s key (.str value)
    let s := setExp s key 0
    (emit (signal s key) (opSet key value false), .bytes old)

def setEX (s : MState) (now : Int) (key value : Bytes) (seconds : Int) : R :=
  let (s, _) := writeKey s now key (some (.str []))
  match asStr s key with
  | none => (s, .panic)
  | some _ =>
    let s := setVal s key (.str value)
    let s := setExp s key (wrap64 (now + wrap64 (seconds * 1000)))
    (emit (signal s key) (opSet key value false (expOf s key)), .unit)

def setPX (s : MState) (now : Int) (key value : Bytes) (ms : Int) : R :=
  let (s, _) := writeKey s now key (some (.str []))
  match asStr s key with
  | none => (s, .panic)
  | some _ =>
    let s := setVal s key (.str value)
    let s := setExp s key (wrap64 (now + ms))
    (emit (signal s key) (opSet key value false (expOf s key)), .unit)

def setNX (s : MState) (now : Int) (key value : Bytes) (keepTTL : Bool) : R :=
  let (s, ok) := writeKey s now key none
  if ok then (s, .bool false) else
  -- meta = tx.newKey(meta, key, n.newStr): meta is the *empty copy*, so a brand-new record is
  -- published even if an (expired / unreadable) record is still indexed under that name
  let s := newKeyWith s key none (.str [])
  let s := if !keepTTL then setExp s key 0 else s
  let s := setVal s key (.str value)
  (emit (signal s key) (opSet key value keepTTL), .bool true)

def setXX (s : MState) (now : Int) (key value : Bytes) (keepTTL : Bool) : R :=
  let (s, ok) := writeKey s now key none
  if !ok then (s, .bool false) else
  match asStr s key with
  | none => (s, .panic)
  | some _ =>
    let s := setVal s key (.str value)
    let s := if !keepTTL then setExp s key 0 else s
    (emit (signal s key) (opSet key value keepTTL), .bool true)

def get (s : MState) (now : Int) (key : Bytes) : R :=
  let (s, ok) := readKey s now key
  if !ok then (s, .bytes none) else
  match asStr s key with
  | none => (s, .panic)
  | some v => (s, .bytes v)

/-- Incr / IncrBy / Decr / DecrBy: a non-numeric value or an int64 overflow is an error and changes nothing -/
def addInt (s : MState) (now : Int) (key : Bytes) (delta : Int) (neg : Bool) (_swallow : Bool := false) : R :=
  let (s, _) := writeKey s now key (some (.str []))
  match asStr s key with
  | none => (s, .panic)
  | some v =>
    match (if neg then DsStr.decr v delta else DsStr.incr v delta) with
    | none => (s, .many [.int 0, .err true])
    | some (v', n) =>
      let s := setVal s key (strVal v')
      (emit (signal s key) (opSet key (formatInt n) false), .many [.int n, .err false])

def isIntText (b : Bytes) : Bool :=
  match b with
  | 43 :: ds => !ds.isEmpty && ds.all isDigit && ds.length ≤ 15
  | 45 :: ds => !ds.isEmpty && ds.all isDigit && ds.length ≤ 15
  | ds => !ds.isEmpty && ds.all isDigit && ds.length ≤ 15

/-- `strconv.readFloat` syntax for base 10 after the sign: digits/underscores with at most one '.',
    at least one digit, optional exponent `e[sign]digits`, nothing left over -/
def decimalFloatSyntax (body : Bytes) : Bool :=
  let rec mant : Bytes → Bool → Bool → Bytes × Bool       -- rest, sawDigit
    | [], _, d => ([], d)
    | c :: r, dot, d =>
      if isDigit c then mant r dot true
      else if c = 95 then mant r dot d
      else if c = 46 ∧ !dot then mant r true d
      else (c :: r, d)
  let (rest, d) := mant body false false
  if !d then false else
  match rest with
  | [] => true
  | e :: r =>
    if e = 101 ∨ e = 69 then
      let r := match r with | 43 :: r' => r' | 45 :: r' => r' | r' => r'
      !r.isEmpty && r.any isDigit && r.all (fun c => isDigit c || c = 95)
    else false

/-- (the model before Model/FloatDec.lean; kept because `Proofs/FloatDecInt.lean` proves the new functions agree
    with it on its domain) ParseFloat on the integer-valued fragment: some (some x) parsed, some none = certainly an
    error (a byte that no float syntax allows in that position class), none = outside the model
    (hex floats, inf/nan spellings, fractions, exponents, underscores, very long digit strings) -/
def parseFloatTextInt (b : Bytes) : Option (Option F64) :=
  if isIntText b then (match parseInt64 b with
    | some n => (F64.ofInt? n).map some
    | none => none)
  else if b.isEmpty then some none
  else
    let body := match b with | 43 :: r => r | 45 :: r => r | r => r
    match body with
    | [] => some none
    | c :: _ =>
      if c = 105 ∨ c = 73 ∨ c = 110 ∨ c = 78 then none                    -- i I n N : inf / nan spellings
      else if body.take 2 = [48, 120] ∨ body.take 2 = [48, 88] then none  -- 0x / 0X : hex float
      else if decimalFloatSyntax body then none                            -- well-formed, but not an integer the model handles
      else some none

/-- FormatFloat(x,'f',-1,64) for integer-valued doubles -/
def formatFloatInt (x : F64) : Option Bytes :=
  (F64.toInt? x).map fun n => if n = 0 ∧ x >>> 63 == 1 then [45, 48] else formatInt n

/-- `strconv.ParseFloat(b, 64)`: `some (some x)` parsed, `some none` = error (syntax or range), `none` = outside the
    model (hexadecimal floats, more than 800 significant digits). Decimal text of any form: Model/FloatDec.lean -/
def parseFloatText (b : Bytes) : Option (Option F64) := FloatDec.parseFloat b

/-- `strconv.FormatFloat(x, 'f', -1, 64)` (total; the `Option` is kept for the callers' shape) -/
def formatFloat (x : F64) : Option Bytes := some (FloatDec.formatShortest x)

def incrByFloat (s : MState) (now : Int) (key : Bytes) (delta : F64) : R :=
  let (s, _) := writeKey s now key (some (.str []))
  match asStr s key with
  | none => (s, .panic)
  | some v =>
    let txt := if (DsStr.bytes v).isEmpty then [48] else DsStr.bytes v
    match parseFloatText txt with
    | none => (s, .unsupported)
    | some none => (s, .many [.f64 0, .err true])
    | some (some old) =>
      match F64.add? old delta with
      | none => (s, .unsupported)
      | some sum =>
        match formatFloat sum with
        | none => (s, .unsupported)
        | some t =>
          let s := setVal s key (.str t)
          (emit (signal s key) (opSet key t false), .many [.f64 sum, .err false])

def setBit (s : MState) (now : Int) (key : Bytes) (offset : Int) (value : Bool) : R :=
  let (s, _) := writeKey s now key (some (.str []))
  match asStr s key with
  | none => (s, .panic)
  | some v =>
    let (v', old) := DsStr.setBit v offset value
    let s := setVal s key (strVal v')
    (emit (signal s key) (opSet key (DsStr.bytes v') false), .int old)

def getBit (s : MState) (now : Int) (key : Bytes) (offset : Int) : R :=
  let (s, ok) := readKey s now key
  if !ok then (s, .int 0) else
  match asStr s key with
  | none => (s, .panic)
  | some v => (s, .int (DsStr.getBit v offset))

def bitCount (s : MState) (now : Int) (key : Bytes) (start stop : Int) (bit : Bool) : R :=
  let (s, ok) := readKey s now key
  if !ok then (s, .int 0) else
  match asStr s key with
  | none => (s, .panic)
  | some v => (s, .int (if bit then DsStr.bitCountByBit v start stop else DsStr.bitCount v start stop))

def append (s : MState) (now : Int) (key value : Bytes) : R :=
  let (s, _) := writeKey s now key (some (.str []))
  match asStr s key with
  | none => (s, .panic)
  | some v =>
    let (v', n) := DsStr.append v value
    let s := setVal s key (strVal v')
    (emit (signal s key) (opSet key (DsStr.bytes v') false), .int n)

def getRange (s : MState) (now : Int) (key : Bytes) (start stop : Int) : R :=
  let (s, ok) := readKey s now key
  if !ok then (s, .bytes none) else
  match asStr s key with
  | none => (s, .panic)
  | some v =>
    (s, .bytes (DsStr.getRange v start stop))

def strLen (s : MState) (now : Int) (key : Bytes) : R :=
  let (s, ok) := readKey s now key
  if !ok then (s, .int 0) else
  match asStr s key with
  | none => (s, .panic)
  | some v => (s, .int (DsStr.len v))

def setRange (s : MState) (now : Int) (key : Bytes) (offset : Int) (value : Bytes) : R :=
  let (s, _) := writeKey s now key (some (.str []))
  match asStr s key with
  | none => (s, .panic)
  | some v =>
    match DsStr.setRange v offset value with
    | none => (s, .panic)
    | some (v', n) =>
      let s := setVal s key (strVal v')
      (emit (signal s key) (opSet key (DsStr.bytes v') false), .int n)

def mset (s : MState) (now : Int) (pairs : List Bytes) : R :=
  if pairs.length % 2 ≠ 0 then (s, .unit) else
  let rec go : List Bytes → MState → R
    | k :: v :: rest, s =>
      (match set s now k v false with
       | (s, .panic) => (s, .panic)
       | (s, _) => go rest (commit s))
    | _, s => (s, .unit)
  go pairs s

/-! ## list.go -/

def opList (typ : Nat) (key : Bytes) (args : List String) : FeedOp := { typ := typ, key := key, args := args }

def push (left : Bool) (s : MState) (now : Int) (key : Bytes) (values : List Bytes) : R :=
  let (s, _) := writeKey s now key (some (.list DsList.empty))
  match asList s key with
  | none => (s, .panic)
  | some l =>
    let l' := if left then DsList.lpush l values else DsList.rpush l values
    let s := setVal s key (.list l')
    (emit (signal s key) (opList (if left then 14 else 21) key (values.map Bytes.toHex)), .int (DsList.llen l'))

def pop (left : Bool) (s : MState) (now : Int) (key : Bytes) (count : Int) : R :=
  let (s, ok) := writeKey s now key none
  if !ok then (s, .blist []) else
  match asList s key with
  | none => (s, .panic)
  | some l =>
    let (l', r) := if left then DsList.lpop l count else DsList.rpop l count
    let s := setVal s key (.list l')
    let s := if DsList.llen l' = 0 then delKey s key else s
    (emit (signal s key) (opList (if left then 12 else 19) key [toString count]), .blist ((r.getD []).map some))

def llen (s : MState) (now : Int) (key : Bytes) : R :=
  let (s, ok) := readKey s now key
  if !ok then (s, .int 0) else
  match asList s key with
  | none => (s, .int (-1))
  | some l => (s, .int (DsList.llen l))

def lindex (s : MState) (now : Int) (key : Bytes) (i : Int) : R :=
  let (s, ok) := readKey s now key
  if !ok then (s, .bytes none) else
  match asList s key with
  | none => (s, .panic)
  | some l => (s, .bytes (DsList.lindex l i))

def linsert (s : MState) (now : Int) (key pivot data : Bytes) (before : Bool) : R :=
  let (s, ok) := writeKey s now key none
  if !ok then (s, .int 0) else
  match asList s key with
  | none => (s, .panic)
  | some l =>
    let (l', r) := DsList.linsert l pivot data before
    let s := setVal s key (.list l')
    (emit (signal s key) (opList 11 key [Bytes.toHex pivot, Bytes.toHex data, toString before]), .int r)

def pushX (left : Bool) (s : MState) (now : Int) (key data : Bytes) : R :=
  let (s, ok) := writeKey s now key none
  if !ok then (s, .int 0) else
  match asList s key with
  | none => (s, .panic)
  | some l =>
    let l' := if left then DsList.lpush l [data] else DsList.rpush l [data]
    let s := setVal s key (.list l')
    (emit (signal s key) (opList (if left then 15 else 22) key [Bytes.toHex data]), .int (DsList.llen l'))

def lrem (s : MState) (now : Int) (key data : Bytes) (count : Int) : R :=
  let (s, ok) := writeKey s now key none
  if !ok then (s, .int 0) else
  match asList s key with
  | none => (s, .panic)
  | some l =>
    let (l', r) := DsList.lrem l count data
    let s := setVal s key (.list l')
    let s := if DsList.llen l' = 0 then delKey s key else s
    (emit (signal s key) (opList 16 key [Bytes.toHex data, toString count]), .int r)

def lset (s : MState) (now : Int) (key : Bytes) (index : Int) (data : Bytes) : R :=
  let (s, ok) := writeKey s now key none
  if !ok then (s, .bool false) else
  match asList s key with
  | none => (s, .panic)
  | some l =>
    let (l', r) := DsList.lset l index data
    if !r then (s, .bool false) else
    let s := setVal s key (.list l')
    (emit (signal s key) (opList 17 key [toString index, Bytes.toHex data]), .bool true)

def ltrim (s : MState) (now : Int) (key : Bytes) (start stop : Int) : R :=
  let (s, ok) := writeKey s now key none
  if !ok then (s, .unit) else
  match asList s key with
  | none => (s, .panic)
  | some l =>
    let l' := DsList.ltrim l start stop
    let s := setVal s key (.list l')
    let s := if DsList.llen l' = 0 then delKey s key else s
    (emit (signal s key) (opList 18 key [toString start, toString stop]), .unit)

def lrange (s : MState) (now : Int) (key : Bytes) (start stop : Int) : R :=
  let (s, ok) := readKey s now key
  if !ok then (s, .blist []) else
  match asList s key with
  | none => (s, .panic)
  | some l => (s, .blist ((DsList.lrange l start stop).map some))

/-- LPopRPush (left = true) / RPopLPush; nil when nothing was popped. With src = dst the second
    lookup reuses the lock this call already holds (or finds the key gone and recreates it). -/
def rotate (left : Bool) (s : MState) (now : Int) (src dst : Bytes) : R :=
  let (s, ok) := writeKey s now src none
  if !ok then (s, .bytes none) else
  match asList s src with
  | none => (s, .panic)
  | some l =>
    -- a destination of another type fails the command before anything is popped
    let (s, dok) := writeKey s now dst none
    if dok && (asList s dst).isNone then (s, .panic) else
    let (l', r) := if left then DsList.lpop l 1 else DsList.rpop l 1
    match r with
    | none => (s, .bytes none)
    | some vs =>
      let s := setVal s src (.list l')
      let s := if DsList.llen l' = 0 then delKey s src else s
      let s := signal s src
      let (s, _) := writeKey s now dst (some (.list DsList.empty))
      match asList s dst with
      | none => (s, .panic)
      | some d =>
        let d' := if left then DsList.rpush d vs else DsList.lpush d vs
        let s := setVal s dst (.list d')
        let s := signal s dst
        (emit s (opList (if left then 13 else 20) src [Bytes.toHex dst]), .bytes vs.head?)

/-! ## hash.go -/

def hset (s : MState) (now : Int) (key field value : Bytes) : R :=
  let (s, _) := writeKey s now key (some (.hash []))
  match asHash s key with
  | none => (s, .panic)
  | some h =>
    let (h', r) := DsHash.hset h field value
    let s := setVal s key (.hash h')
    (emit (signal s key) { typ := 10, key := key, args := [Bytes.toHex field, Bytes.toHex value] }, .int r)

def hget (s : MState) (now : Int) (key field : Bytes) : R :=
  let (s, ok) := readKey s now key
  if !ok then (s, .bytes none) else
  match asHash s key with
  | none => (s, .panic)
  | some h => (s, .bytes (DsHash.hget h field))

def hdel (s : MState) (now : Int) (key : Bytes) (fields : List Bytes) : R :=
  let (s, ok) := writeKey s now key none
  if !ok then (s, .int 0) else
  match asHash s key with
  | none => (s, .panic)
  | some h =>
    let (h', r) := DsHash.hdel h fields
    let s := setVal s key (.hash h')
    let s := if DsHash.hlen h' = 0 then delKey s key else s
    (emit (signal s key) { typ := 6, key := key, args := fields.map Bytes.toHex }, .int r)

def hread (f : AList Bytes → Out) (dflt : Out) (s : MState) (now : Int) (key : Bytes) : R :=
  let (s, ok) := readKey s now key
  if !ok then (s, dflt) else
  match asHash s key with
  | none => (s, .panic)
  | some h => (s, f h)

def hlen := hread (fun h => .int (DsHash.hlen h)) (.int 0)
def hkeys := hread (fun h => .slist (DsHash.hkeys h)) (.slist [])
def hvals := hread (fun h => .blist ((DsHash.hvals h).map some)) (.blist [])
def hgetall := hread (fun h => .bmap (h.map fun (k, v) => (k, some v))) (.bmap [])
def hexists (s : MState) (now : Int) (key field : Bytes) := hread (fun h => .bool (DsHash.hexists h field)) (.bool false) s now key
def hstrlen (s : MState) (now : Int) (key field : Bytes) := hread (fun h => .int (DsHash.hstrlen h field)) (.int 0) s now key
def hmget (s : MState) (now : Int) (key : Bytes) (fields : List Bytes) := hread (fun h => .blist (DsHash.hmget h fields)) (.blist []) s now key
def hscan (s : MState) (now : Int) (key : Bytes) (cursor : Int) (pat : Bytes) (count : Int) :=
  hread (fun h => let (c, kv) := DsHash.hscan h cursor pat count
                  .many [.int c, .bmap (kv.map fun (k, v) => (k, some v))]) (.many [.int 0, .bmap []]) s now key

def hincrby (s : MState) (now : Int) (key field : Bytes) (delta : Int) : R :=
  let (s, _) := writeKey s now key (some (.hash []))
  match asHash s key with
  | none => (s, .panic)
  | some h =>
    -- signal and notify happen whether or not the increment succeeded
    let fin (s : MState) := emit (signal s key) { typ := 7, key := key, args := [Bytes.toHex field, toString delta] }
    match DsHash.hincrby h field delta with
    | none => (fin s, .many [.int 0, .err true])
    | some (h', v) => (fin (setVal s key (.hash h')), .many [.int v, .err false])

def hincrbyfloat (s : MState) (now : Int) (key field : Bytes) (delta : F64) : R :=
  let (s, _) := writeKey s now key (some (.hash []))
  match asHash s key with
  | none => (s, .panic)
  | some h =>
    let fin (s : MState) := emit (signal s key) { typ := 8, key := key, args := [Bytes.toHex field, toString delta] }
    match DsHash.hget h field with
    | none =>
      (match formatFloat delta with
       | none => (s, .unsupported)
       | some t => (fin (setVal s key (.hash (DsHash.hset h field t).1)), .many [.f64 delta, .err false]))
    | some old =>
      match parseFloatText old with
      | none => (s, .unsupported)
      | some none => (fin s, .many [.f64 0, .err true])
      | some (some o) =>
        match F64.add? o delta with
        | none => (s, .unsupported)
        | some sum =>
          match formatFloat sum with
          | none => (s, .unsupported)
          | some t => (fin (setVal s key (.hash (DsHash.hset h field t).1)), .many [.f64 sum, .err false])

def hsetnx (s : MState) (now : Int) (key field value : Bytes) : R :=
  let (s, _) := writeKey s now key (some (.hash []))
  match asHash s key with
  | none => (s, .panic)
  | some h =>
    if DsHash.hexists h field then (s, .int 0) else
    let (h', r) := DsHash.hset h field value
    let s := setVal s key (.hash h')
    (emit (signal s key) { typ := 10, key := key, args := [Bytes.toHex field, Bytes.toHex value] }, .int r)

/-- HMSet: number of fields that were new -/
def hmset (s : MState) (now : Int) (key : Bytes) (pairs : List (Bytes × Bytes)) : R :=
  let (s, _) := writeKey s now key (some (.hash []))
  match asHash s key with
  | none => (s, .panic)
  | some h =>
    let (h', c) := pairs.foldl (fun (acc : AList Bytes × Int) (k, v) =>
        let (h2, r) := DsHash.hset acc.1 k v
        (h2, acc.2 + r)) (h, 0)
    let s := setVal s key (.hash h')
    -- one OpHSet per field, in Go map order: the feed checker compares them as a multiset
    let s := signal s key
    let s := pairs.foldl (fun s (k, v) => emit s { typ := 10, key := key, args := [Bytes.toHex k, Bytes.toHex v] }) s
    (s, .int c)

/-! ## set.go -/

def sadd (s : MState) (now : Int) (key : Bytes) (members : List Bytes) : R :=
  let (s, _) := writeKey s now key (some (.set []))
  match asSet s key with
  | none => (s, .panic)
  | some st =>
    let (st', r) := DsSet.sadd st members
    let s := setVal s key (.set st')
    (emit (signal s key) { typ := 23, key := key, args := members.map Bytes.toHex }, .int r)

def sread (f : AList Unit → Out) (dflt : Out) (s : MState) (now : Int) (key : Bytes) : R :=
  let (s, ok) := readKey s now key
  if !ok then (s, dflt) else
  match asSet s key with
  | none => (s, .panic)
  | some st => (s, f st)

def scard := sread (fun st => .int (DsSet.scard st)) (.int 0)
def smembers := sread (fun st => .slist (DsSet.members st)) (.slist [])
def sismember (s : MState) (now : Int) (key m : Bytes) := sread (fun st => .bool (DsSet.mem st m)) (.bool false) s now key
def sscan (s : MState) (now : Int) (key : Bytes) (cursor : Int) (pat : Bytes) (count : Int) :=
  sread (fun st => let (c, ks) := DsSet.sscan st cursor pat count
                   .many [.int c, .slist ks]) (.many [.int 0, .slist []]) s now key

/-- read several keys in order, under one exec; each `none` = not ok -/
def readMany (s : MState) (now : Int) (keys : List Bytes) : MState × List (Option (Option (AList Unit))) :=
  keys.foldl (fun (acc : MState × List (Option (Option (AList Unit)))) k =>
    let (s, ok) := readKey acc.1 now k
    (s, acc.2 ++ [if ok then some (asSet s k) else none])) (s, [])

/-- SDiff: members of the first set that are in none of the others; a missing key is the empty set -/
def sdiff (s : MState) (now : Int) (keys : List Bytes) : R :=
  match keys with
  | [] => (s, .slist [])
  | k0 :: rest =>
    let (s, ok) := readKey s now k0
    if !ok then (s, .slist []) else
    let (s, others) := readMany s now rest
    match asSet s k0 with
    | none => (s, .panic)
    | some st =>
      -- wrong-typed operands panic on the type assertion; missing ones are skipped
      if others.any (fun o => match o with | some none => true | _ => false) then (s, .panic) else
      let os := others.filterMap fun o => match o with | some (some x) => some x | _ => none
      (s, .slist (DsSet.sdiff st os))

/-- SInter: a missing operand (first or later) makes the intersection empty -/
def sinter (s : MState) (now : Int) (keys : List Bytes) : R :=
  match keys with
  | [] => (s, .slist [])
  | [k] => smembers s now k
  | k0 :: rest =>
    let (s, ok) := readKey s now k0
    if !ok then (s, .slist []) else
    -- operands are read in order; the first missing one ends the call with the empty set
    let rec go (ks : List Bytes) (s : MState) (acc : List (AList Unit)) : MState × Option (Option (List (AList Unit))) :=
      match ks with
      | [] => (s, some (some acc))
      | k :: more =>
        let (s, ok) := readKey s now k
        if !ok then (s, some none) else
        match asSet s k with
        | none => (s, none)
        | some x => go more s (acc ++ [x])
    match go rest s [] with
    | (s, none) => (s, .panic)
    | (s, some none) => (s, .slist [])
    | (s, some (some os)) =>
      match asSet s k0 with
      | none => (s, .panic)
      | some st => (s, .slist (DsSet.sinter st os))

/-- SUnion: missing operands are skipped; all missing = the empty set -/
def sunion (s : MState) (now : Int) (keys : List Bytes) : R :=
  match keys with
  | [] => (s, .slist [])
  | [k] => smembers s now k
  | _ =>
    let (s, all) := readMany s now keys
    if all.any (fun o => match o with | some none => true | _ => false) then (s, .panic) else
    let os := all.filterMap fun o => match o with | some (some x) => some x | _ => none
    match os with
    | [] => (s, .slist [])
    | st :: rest => (s, .slist (DsSet.sunion st rest))

/-- S*STORE = compute, Del(destination), SAdd(destination, members...) as three calls -/
def sstore (op : MState → Int → List Bytes → R) (s : MState) (now : Int) (dst : Bytes) (keys : List Bytes) : R :=
  if keys.isEmpty then (s, .int 0) else
  match op s now keys with
  | (s, .slist ms) =>
    let (s, _) := del (commit s) now [dst]
    if ms.isEmpty then (s, .int 0) else       -- an empty result stores nothing: the destination ceases to exist
    sadd (commit s) now dst ms
  | (s, o) => (s, o)

def srem (s : MState) (now : Int) (key : Bytes) (members : List Bytes) : R :=
  let (s, ok) := writeKey s now key none
  if !ok then (s, .int 0) else
  match asSet s key with
  | none => (s, .panic)
  | some st =>
    let (st', r) := DsSet.srem st members
    let s := setVal s key (.set st')
    let s := if DsSet.scard st' = 0 then delKey s key else s
    (emit (signal s key) { typ := 24, key := key, args := members.map Bytes.toHex }, .int r)

def distinct : List Bytes → Bool
  | [] => true
  | x :: xs => !xs.contains x && distinct xs

/-- SPop is relational: the implementation's choice must be distinct current members, exactly
    min(count, card) of them (count 0 is treated as 1); the model removes exactly those. -/
def spop (s : MState) (now : Int) (key : Bytes) (count : Int) (choice : List Bytes) : R :=
  let (s, ok) := writeKey s now key none
  if !ok then (s, .slist []) else
  match asSet s key with
  | none => (s, .panic)
  | some st =>
    let count := if count = 0 then 1 else count
    let want : Nat := if count ≤ 0 then 0 else min count.toNat st.length
    let valid := choice.all (DsSet.mem st) && distinct choice && choice.length = want
    if !valid then (s, .str (Bytes.ofString "INVALID-CHOICE")) else
    let (st', _) := DsSet.srem st choice
    let s := setVal s key (.set st')
    let s := if DsSet.scard st' = 0 then delKey s key else s
    (emit (signal s key) { typ := 24, key := key, args := choice.map Bytes.toHex }, .slist choice)

def srandmember (s : MState) (now : Int) (key : Bytes) (count : Int) (choice : List Bytes) : R :=
  let (s, ok) := readKey s now key
  if !ok then (s, .slist []) else
  match asSet s key with
  | none => (s, .panic)
  | some st =>
    if count < 0 ∧ st.isEmpty then (s, .panic) else      -- rand.Intn(0) on an existing-but-empty set
    let valid :=
      if count = 0 then choice.isEmpty
      else if count > 0 then choice.all (DsSet.mem st) && distinct choice && choice.length = min count.toNat st.length
      else choice.all (DsSet.mem st) && choice.length = (-count).toNat
    if valid then (s, .slist choice) else (s, .str (Bytes.ofString "INVALID-CHOICE"))

def smove (s : MState) (now : Int) (src dst member : Bytes) : R :=
  let (s, ok) := writeKey s now src none
  if !ok then (s, .bool false) else
  match asSet s src with
  | none => (s, .panic)
  | some st =>
    -- a destination of another type fails the command before the member leaves the source
    let (s, dok) := writeKey s now dst none
    if dok && (asSet s dst).isNone then (s, .panic) else
    let (st', m) := DsSet.srem st [member]
    let s := setVal s src (.set st')
    if m = 0 then (s, .bool false) else
    let s := if DsSet.scard st' = 0 then delKey s src else s
    let s := signal s src
    let (s, _) := writeKey s now dst (some (.set []))      -- src = dst while still indexed: self-deadlock (Store.lockW)
    match asSet s dst with
    | none => (s, .panic)
    | some d =>
      let (d', _) := DsSet.sadd d [member]
      let s := setVal s dst (.set d')
      (emit (signal s dst) { typ := 23, key := dst, args := [Bytes.toHex member] }, .bool true)

/-! ## zset.go -/

def opZAdd (key m : Bytes) (sc : F64) : FeedOp := { typ := 26, key := key, args := [Bytes.toHex m, toString sc] }

/-- ZAdd / ZAddXX / ZAddNX: the key is created if missing (also for XX); always signals -/
def zaddWith (f : ZSet → Bytes → F64 → ZSet × Int) (s : MState) (now : Int) (key m : Bytes) (sc : F64) : R :=
  let (s, _) := writeKey s now key (some (.zset DsZSet.empty))
  match asZSet s key with
  | none => (s, .panic)
  | some z =>
    let (z', r) := f z m sc
    let s := setVal s key (.zset z')
    (emit (signal s key) (opZAdd key m sc), .int r)

def zadd := zaddWith DsZSet.zAdd
/-- ZAddXX never creates a key -/
def zaddXX (s : MState) (now : Int) (key m : Bytes) (sc : F64) : R :=
  let (s, ok) := writeKey s now key none
  if !ok then (s, .int 0) else
  match asZSet s key with
  | none => (s, .panic)
  | some z =>
    let (z', r) := DsZSet.zAddXX z m sc
    if !AList.contains z.dict m then (s, .int 0) else
    let s := setVal s key (.zset z')
    (emit (signal s key) (opZAdd key m sc), .int r)
def zaddNX := zaddWith DsZSet.zAddNX

/-- ZAddLT / ZAddGT: signal only when the score changed -/
def zaddCmp (f : ZSet → Bytes → F64 → ZSet × Bool) (s : MState) (now : Int) (key m : Bytes) (sc : F64) : R :=
  let (s, ok) := writeKey s now key none        -- LT / GT never create a key
  if !ok then (s, .int 0) else
  match asZSet s key with
  | none => (s, .panic)
  | some z =>
    let (z', changed) := f z m sc
    if changed then
      let s := setVal s key (.zset z')
      (emit (signal s key) (opZAdd key m sc), .int 1)
    else (s, .int 0)

def zaddLT := zaddCmp DsZSet.zAddLT
def zaddGT := zaddCmp DsZSet.zAddGT

/-- the loop state of `zAddPairs`: the sorted set, the two counters and the records to emit -/
structure ZAcc where
  z : ZSet
  added : Int
  changed : Int
  ops : List (Bytes × F64)

/-- one turn of the loop of `zAddPairs` (Redis' option rules): a member that is there is skipped under NX, when the
    score is (IEEE-)equal, under GT unless greater, under LT unless less - else updated; a member that is not there
    is skipped under XX - else added -/
def zaddStep (nx xx gt lt : Bool) (a : ZAcc) (p : Bytes × F64) : ZAcc :=
  match DsZSet.zScore a.z p.1 with
  | some old =>
    if nx || F64.eq p.2 old || (gt && !(F64.gt p.2 old)) || (lt && !(F64.lt p.2 old)) then a
    else { z := (DsZSet.zAdd a.z p.1 p.2).1, added := a.added, changed := a.changed + 1, ops := a.ops ++ [p] }
  | none =>
    if xx then a
    else { z := (DsZSet.zAdd a.z p.1 p.2).1, added := a.added + 1, changed := a.changed, ops := a.ops ++ [p] }

/-- zAddPairs (unexported; the ZADD command): all pairs in ONE transaction; XX never creates the key; the key is
    signalled once and one ZADD record per written member is emitted - nothing of both when nothing was written -/
def zaddPairs (s : MState) (now : Int) (key : Bytes) (nx xx gt lt ch : Bool) (pairs : List (Bytes × F64)) : R :=
  if pairs.isEmpty then (s, .int 0) else
  let (s, ok) := writeKey s now key (if xx then none else some (.zset DsZSet.empty))
  if xx && !ok then (s, .int 0) else
  match asZSet s key with
  | none => (s, .panic)
  | some z =>
    let a := pairs.foldl (zaddStep nx xx gt lt) { z := z, added := 0, changed := 0, ops := [] }
    let reply : Int := if ch then a.added + a.changed else a.added
    if a.ops.isEmpty then (s, .int reply) else
    let s := setVal s key (.zset a.z)
    let s := signal s key
    let s := a.ops.foldl (fun s p => emit s (opZAdd key p.1 p.2)) s
    (s, .int reply)

def zread (f : ZSet → Out) (dflt : Out) (s : MState) (now : Int) (key : Bytes) : R :=
  let (s, ok) := readKey s now key
  if !ok then (s, dflt) else
  match asZSet s key with
  | none => (s, .panic)
  | some z => (s, f z)

def zcard := zread (fun z => .int (DsZSet.zCard z)) (.int 0)

def optRank (r : Option Int) : Out :=
  match r with
  | some r => .many [.int r, .err false]
  | none => .many [.int 0, .err true]

/-- a key that does not exist has no ranks and no scores: ZRank / ZRevRank / ZScore report an error there
    (since the repair "ZSCORE / ZRANK / ZREVRANK of a missing key replied 0"), as for a non-member -/
def zrank (s : MState) (now : Int) (key m : Bytes) := zread (fun z => optRank (DsZSet.zRank z m)) (.many [.int 0, .err true]) s now key
def zrevrank (s : MState) (now : Int) (key m : Bytes) :=
  zread (fun z => optRank (DsZSet.zRevRank z m)) (.many [.int 0, .err true]) s now key

def rankWithScore (desc : Bool) (s : MState) (now : Int) (key m : Bytes) :=
  zread (fun z => match AList.get? z.dict m with
    | some sc => .many [.int (DsZSet.getRank z m desc), .item (some (sc, m))]
    | none => .many [.int 0, .item none]) (.many [.int 0, .item none]) s now key

def zscore (s : MState) (now : Int) (key m : Bytes) :=
  zread (fun z => match DsZSet.zScore z m with
    | some sc => .many [.f64 sc, .err false]
    | none => .many [.f64 0, .err true]) (.many [.f64 0, .err true]) s now key

def zincrby (s : MState) (now : Int) (key m : Bytes) (delta : F64) : R :=
  let (s, _) := writeKey s now key (some (.zset DsZSet.empty))
  match asZSet s key with
  | none => (s, .panic)
  | some z =>
    let sum? := match AList.get? z.dict m with
      | some old => F64.add? delta old
      | none => some delta
    match sum? with
    | none => (s, .unsupported)
    | some sum =>
      let s := setVal s key (.zset (DsZSet.zIncrByWith z m sum))
      (emit (signal s key) { typ := 28, key := key, args := [Bytes.toHex m, toString delta] }, .f64 sum)

def membersOf (r : Option (List Item)) : Out :=
  match r with
  | none => .panic
  | some items => .slist (items.map (·.2))
def itemsOf (r : Option (List Item)) : Out :=
  match r with
  | none => .panic
  | some items => .ilist (items.map some)

def zrange (desc withScores : Bool) (s : MState) (now : Int) (key : Bytes) (start stop : Int) :=
  zread (fun z =>
    let r := DsZSet.forEachByRank z start stop desc
    if withScores then itemsOf r else membersOf r)
    (if withScores then .ilist [] else .slist []) s now key

def zrangeByScore (desc withScores : Bool) (s : MState) (now : Int) (key : Bytes) (min max : F64) (offset count : Int) (mode : Int) :=
  zread (fun z =>
    let r := some (DsZSet.rangeByScore z min max offset count desc (mode % 4).toNat)
    if withScores then itemsOf r else membersOf r)
    (if withScores then .ilist [] else .slist []) s now key

def zrem (s : MState) (now : Int) (key : Bytes) (members : List Bytes) : R :=
  let (s, ok) := writeKey s now key none
  if !ok then (s, .int 0) else
  match asZSet s key with
  | none => (s, .panic)
  | some z =>
    let (z', r) := DsZSet.zRem z members
    let s := setVal s key (.zset z')
    let s := if DsZSet.zCard z' = 0 then delKey s key else s
    if r > 0 then (emit (signal s key) { typ := 29, key := key, args := members.map Bytes.toHex }, .int r)
    else (s, .int r)

def zremRangeByRank (s : MState) (now : Int) (key : Bytes) (start stop : Int) : R :=
  let (s, ok) := writeKey s now key none
  if !ok then (s, .int 0) else
  match asZSet s key with
  | none => (s, .panic)
  | some z =>
    let (z', r) := DsZSet.zRemRangeByRank z start stop
    let s := setVal s key (.zset z')
    let s := if DsZSet.zCard z' = 0 then delKey s key else s
    if r > 0 then (emit (signal s key) { typ := 30, key := key, args := [toString start, toString stop] }, .int r)
    else (s, .int r)

def zremRangeByScore (s : MState) (now : Int) (key : Bytes) (min max : F64) (mode : Int) : R :=
  let (s, ok) := writeKey s now key none
  if !ok then (s, .int 0) else
  match asZSet s key with
  | none => (s, .panic)
  | some z =>
    let (z', r) := DsZSet.zRemRangeByScore z min max (mode % 4).toNat
    let s := setVal s key (.zset z')
    let s := if DsZSet.zCard z' = 0 then delKey s key else s
    if r > 0 then (emit (signal s key) { typ := 31, key := key, args := [toString min, toString max, toString mode] }, .int r)
    else (s, .int r)

def zexists (s : MState) (now : Int) (key m : Bytes) := zread (fun z => .bool (DsZSet.zExists z m)) (.bool false) s now key

def zcount (s : MState) (now : Int) (key : Bytes) (min max : F64) (mode : Int) :=
  zread (fun z => match DsZSet.zCount z min max (mode % 4).toNat with
    | some c => .int c
    | none => .panic) (.int 0) s now key

/-- ZMax / ZMin dereference tail / first without a nil check -/
def zmax := zread (fun z => match z.sl.getLast? with | some it => .item (some it) | none => .panic) (.item none)
def zmin := zread (fun z => match z.sl.head? with | some it => .item (some it) | none => .panic) (.item none)

def zscan (s : MState) (now : Int) (key : Bytes) (cursor : Int) (pat : Bytes) (count : Int) :=
  zread (fun z => let (c, items) := DsZSet.zScan z cursor pat count
    .many [.int c, .ilist (items.map some)]) (.many [.int 0, .ilist []]) s now key

/-- accumulate one (member, score) of one operand into the result map of ZUnion / ZInter:
    the weighted score is added to / min'ed / max'ed with what is there -/
def aggregate (agg : Bytes) (weight : F64) (acc : AList F64) (it : Item) : Option (AList F64) :=
  let (sc, m) := it
  let ws := F64.mul sc weight
  let isSum := agg = Bytes.ofString "SUM" ∨ agg.isEmpty
  let isMin := agg = Bytes.ofString "MIN"
  let isMax := agg = Bytes.ofString "MAX"
  match AList.get? acc m with
  | none => if isSum ∨ isMin ∨ isMax then some (AList.set acc m ws) else some acc
  | some cur =>
    if isSum then some (AList.set acc m (F64.add cur ws))
    else if isMin then some (if F64.lt ws cur then AList.set acc m ws else acc)
    else if isMax then some (if F64.gt ws cur then AList.set acc m ws else acc)
    else some acc

def weightAt (weights : List F64) (i : Nat) : F64 := weights.getD i 0x3ff0000000000000

/-- ZUnion: result in member order (the Go result comes out of a map; the harness sorts it) -/
def zunionCore (s : MState) (now : Int) (keys : List Bytes) (weights : List F64) (agg : Bytes) : MState × Option (Option (List Item)) :=
  -- outer none = panic, inner none = unsupported arithmetic
  let rec go (ks : List (Bytes × Nat)) (s : MState) (acc : Option (AList F64)) : MState × Option (Option (AList F64)) :=
    match ks with
    | [] => (s, some acc)
    | (k, i) :: rest =>
      let (s, ok) := readKey s now k
      if !ok then go rest s acc else
      match asZSet s k with
      | none => (s, none)
      | some z =>
        match DsZSet.forEachByRank z 0 (-1) false with
        | none => (s, none)
        | some items =>
          let acc := items.foldl (fun a it => a.bind fun a => aggregate agg (weightAt weights i) a it) acc
          go rest s acc
  let (s, r) := go keys.zipIdx s (some [])
  (s, r.map fun o => o.map fun m => m.map fun (k, v) => (v, k))

def zunion (s : MState) (now : Int) (keys : List Bytes) (weights : List F64) (agg : Bytes) : R :=
  match zunionCore s now keys weights agg with
  | (s, none) => (s, .panic)
  | (s, some none) => (s, .unsupported)
  | (s, some (some items)) => (s, .ilist (items.map some))

/-- ZInter: for every operand in turn, its members that are in *all* other operands (each check
    re-reads the other key); a missing operand ends the call with an empty result -/
def zinterCore (s : MState) (now : Int) (keys : List Bytes) (weights : List F64) (agg : Bytes) : MState × Option (Option (List Item)) :=
  let rec go (ks : List (Bytes × Nat)) (s : MState) (acc : Option (AList F64)) : MState × Option (Option (AList F64)) :=
    match ks with
    | [] => (s, some acc)
    | (k, i) :: rest =>
      let (s, ok) := readKey s now k
      if !ok then (s, some (some [])) else          -- `return nil`: v stays nil
      match asZSet s k with
      | none => (s, none)
      | some z =>
        match DsZSet.forEachByRank z 0 (-1) false with
        | none => (s, none)
        | some items =>
          -- for every member: walk all operands in order (each `tx.readKey` bumps the counter, also
          -- for the operand itself), skip j = i, stop at the first operand lacking the member; an
          -- operand that is missing or of another type panics on the type assertion when reached
          let rec inner (js : List (Bytes × Nat)) (s : MState) (m : Bytes) : MState × Option Bool :=
            match js with
            | [] => (s, some true)
            | (o, j) :: more =>
              let (s, ok) := readKey s now o
              if j = i then inner more s m else
              if !ok then (s, none) else           -- missing / expired operand: nil value, the assertion panics
              match asZSet s o with
              | none => (s, none)
              | some oz => if DsZSet.zExists oz m then inner more s m else (s, some false)
          let rec outer (its : List Item) (s : MState) (acc : Option (AList F64)) : MState × Option (Option (AList F64)) :=
            match its with
            | [] => (s, some acc)
            | it :: more =>
              match inner keys.zipIdx s it.2 with
              | (s, none) => (s, none)
              | (s, some found) =>
                let acc := if found then acc.bind fun a => aggregate agg (weightAt weights i) a it else acc
                outer more s acc
          match outer items s acc with
          | (s, none) => (s, none)
          | (s, some acc) => go rest s acc
  let (s, r) := go keys.zipIdx s (some [])
  (s, r.map fun o => o.map fun m => m.map fun (k, v) => (v, k))

def zinter (s : MState) (now : Int) (keys : List Bytes) (weights : List F64) (agg : Bytes) : R :=
  match zinterCore s now keys weights agg with
  | (s, none) => (s, .panic)
  | (s, some none) => (s, .unsupported)
  | (s, some (some items)) => (s, .ilist (items.map some))

/-- Z*STORE: nested exec; the destination keeps its previous members (merged, not replaced) -/
def zstore (union : Bool) (s : MState) (now : Int) (dst : Bytes) (keys : List Bytes) (weights : List F64) (agg : Bytes) : R :=
  let core := if union then zunionCore else zinterCore
  let step (s : MState) (items : List Item) : R :=
    -- an empty result: the destination ceases to exist (watchers and the feed are told)
    if items.isEmpty then (emit { delKey s dst with signalled := dst :: s.signalled } { typ := 2, key := dst }, .int 0) else
    -- the destination is replaced whatever it held, not merged
    let z' := items.foldl (fun z it => (DsZSet.zAdd z it.2 it.1).1) DsZSet.empty
    -- meta.setValue(result): a new value object (the old one may live on in the in-memory backend)
    let (oid, s) := fresh s
    let s := modMeta s dst fun m => ({ m with oid := oid }.setValue (.zset z'))
    (emit (signal s dst) { typ := if union then 34 else 35, key := dst }, .int items.length)
  -- both forms compute the result (in a nested transaction that is committed) before the
  -- destination is looked up, locked or created
  match core s now keys weights agg with
  | (s, none) => (s, .panic)
  | (s, some none) => (s, .unsupported)
  | (s, some (some items)) =>
    let (s, _) := writeKey (commit s) now dst (some (.zset DsZSet.empty))
    step s items

end Api
end NodisVerif
