import NodisVerif.Model.Feed
import NodisVerif.Model.ProtoWire
/-
  The change feed on the wire: a record of the feed model (`FeedOp`: type, key, the fields the emitter
  sets, rendered as text) as the typed record `patch.Op` (`ProtoWire.Op`: type byte + message), and back.
  `viaWire` = what a replica's `DecodeOp` hands to `applyPatch` for a record the primary shipped with
  `Op.Encode`: toWire, the bytes of `ProtoWire.encodeOp`, `ProtoWire.decodeOp`, fromWire.
-/
namespace NodisVerif.Feed
open ProtoWire

/-- rendered fields → field values, along the message's schema behind the key: one rendered field per
    scalar field, a repeated field (always the last one) takes all that remain -/
def argsToVals : Schema → List String → Option (List PVal)
  | [], [] => some []
  | [], _ :: _ => none
  | (_, k) :: sch, args =>
    match k with
    | .repStr | .repBytes => if sch.isEmpty then (args.mapM pB).map fun l => [.list l] else none
    | .repDouble => if sch.isEmpty then (args.mapM pF).map fun l => [.f64s l] else none
    | .str | .bytes =>
      match args with
      | a :: rest => do
        let b ← pB a
        let vs ← argsToVals sch rest
        some (.bytes b :: vs)
      | [] => none
    | .int64 =>
      match args with
      | a :: rest => do
        let i ← pI a
        let vs ← argsToVals sch rest
        some (.int i :: vs)
      | [] => none
    | .bool =>
      match args with
      | a :: rest => do
        let t ← pT a
        let vs ← argsToVals sch rest
        some (.bool t :: vs)
      | [] => none
    | .double =>
      match args with
      | a :: rest => do
        let x ← pF a
        let vs ← argsToVals sch rest
        some (.f64 x :: vs)
      | [] => none

def valToArgs : PVal → List String
  | .bytes b => [Bytes.toHex b]
  | .int i => [toString i]
  | .bool t => [toString t]
  | .f64 x => [toString x]
  | .list l => l.map Bytes.toHex
  | .f64s l => l.map toString

/-- the typed record of a feed record. Three messages are not rendered in schema order: ZREM (the
    emitter leaves `Member` empty and sets `Members`), ZREMRANGEBYSCORE (rendered min, max, mode; the
    message has Mode, Min, Max) and the Z*STORE records (aggregate, operands, `|`, weights). -/
def toWire (op : FeedOp) : Option ProtoWire.Op :=
  if op.typ ≥ 256 then none else
  match schemaOf op.typ with
  | none => none
  | some sch =>
    let vals : Option (List PVal) :=
      match op.typ, op.args with
      | 29, ms => (ms.mapM pB).map fun l => [.bytes [], .list l]
      | 31, [a, b, m] => do some [.int (← pI m), .f64 (← pF a), .f64 (← pF b)]
      | 31, _ => none
      | 34, agg :: rest | 35, agg :: rest => do
        let ks ← (rest.takeWhile (· ≠ "|")).mapM pB
        let ws ← ((rest.dropWhile (· ≠ "|")).drop 1).mapM pF
        some [.list ks, .f64s ws, .bytes (← pB agg)]
      | 34, [] | 35, [] => none
      | _, args => argsToVals (sch.drop 1) args
    vals.map fun vs => { typ := UInt8.ofNat op.typ, msg := { vals := .bytes op.key :: vs } }

/-- the feed record of a typed record (what the harness's `renderOp` prints for a `patch.Op`) -/
def fromWire (w : ProtoWire.Op) : Option FeedOp :=
  match w.msg.vals with
  | .bytes key :: vs =>
    let t := w.typ.toNat
    match t, vs with
    | 29, [.bytes _, .list ms] => some { typ := t, key := key, args := ms.map Bytes.toHex }
    | 29, _ => none
    | 31, [.int m, .f64 a, .f64 b] => some { typ := t, key := key, args := [toString a, toString b, toString m] }
    | 31, _ => none
    | 34, [.list ks, .f64s ws, .bytes agg] | 35, [.list ks, .f64s ws, .bytes agg] =>
      some { typ := t, key := key, args := [Bytes.toHex agg] ++ ks.map Bytes.toHex ++ ["|"] ++ ws.map toString }
    | 34, _ | 35, _ => none
    | _, vs => some { typ := t, key := key, args := (vs.map valToArgs).flatten }
  | _ => none

/-- Encode on the primary, DecodeOp on the replica; `none` = the replica cannot decode the record -/
def throughWire (w : ProtoWire.Op) : Option ProtoWire.Op :=
  match decodeOp (encodeOp w) with
  | .ok w' => some w'
  | .error _ => none

def viaWire (op : FeedOp) : Option FeedOp := (toWire op).bind fun w => (throughWire w).bind fromWire

/-- the batches of a run (records of one call, time of the call), record by record through the bytes -/
def batchesViaWire (bs : List (List FeedOp × Int)) : Option (List (List FeedOp × Int)) :=
  bs.mapM fun b => (b.1.mapM viaWire).map fun ops => (ops, b.2)

/-- the record is one the wire carries unchanged, and its text is the canonical rendering -/
def wireNormal (op : FeedOp) : Bool :=
  match toWire op with
  | none => false
  | some w => w.wf && (match fromWire w with
    | some op' => op'.typ == op.typ && op'.key == op.key && op'.args == op.args
    | none => false)

end NodisVerif.Feed
