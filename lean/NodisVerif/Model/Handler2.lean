import NodisVerif.Model.Handler
/-
  handler.go, list / hash / set families (without the blocking pops and the *SCAN commands).
  Same conventions as Handler.lean: what the Go handler evaluates before `execCommand` is evaluated
  outside the `Body` (error reply ⇒ `.direct`, panic ⇒ `.crash`), the closure is the `Body`,
  several API calls of one closure are separated by `commit`.
-/
namespace NodisVerif.Handler2
open Resp Api Handler

def panicWith (s : MState) (ts : List Tok) : BodyOut := { store := s, toks := ts, panicked := true }

def unsupported : Tok := .simple (Bytes.ofString "UNSUPPORTED")

/-! ## lists -/

/-- LPUSH / RPUSH key v [v …] -/
def pushH (left : Bool) (args : List Bytes) : HRes :=
  match args with
  | key :: v :: rest => .exec fun s now _ =>
      call (Api.push left s now key (v :: rest)) fun s o => done s [.int (intOf o)]
  | _ => errReply

/-- LPOP / RPOP key [count]. `n.LPop` returns a nil slice exactly when nothing was popped (missing
    key, count ≤ 0: `result` is only ever assigned by `append`), so `v == nil` ⟺ the model's list
    is empty. The reply shape depends on the *value* of count, not on its presence: `LPOP k 1` is a
    bulk, `LPOP k 2` an array. -/
def popH (left : Bool) (args : List Bytes) : HRes :=
  match args with
  | [] => errReply
  | key :: rest =>
    let cnt := match rest with | c :: _ => parseIntGo c | [] => (1, false)
    if cnt.2 then errReply else
    .exec fun s now _ =>
      call (Api.pop left s now key cnt.1) fun s o =>
        match o with
        | .blist (v :: vs) =>
          let bs := (v :: vs).map (·.getD [])
          -- without a count one bulk string; with a count (also 1) an array (since the repair "LPOP k 1 replied a bulk string")
          if rest.isEmpty then done s [.bulk (v.getD [])] else done s (bulkList bs)
        | _ => done s [.nullBulk]

/-- LLEN: -1 (value of another type) is rendered as a null bulk -/
def llenH (args : List Bytes) : HRes :=
  match args with
  | key :: _ => .exec fun s now _ =>
      call (Api.llen s now key) fun s o => done s [if intOf o = -1 then .nullBulk else .int (intOf o)]
  | _ => errReply

/-- LINDEX: the index is parsed inside the closure and the error dropped (0, or the int64 bound) -/
def lIndexH (args : List Bytes) : HRes :=
  match args with
  | key :: i :: _ => .exec fun s now _ =>
      call (Api.lindex s now key (parseIntGo i).1) fun s o =>
        done s [match o with | .bytes b => optBulk b | _ => .nullBulk]
  | _ => errReply

/-- LINSERT key BEFORE|<anything else> pivot value -/
def lInsertH (args : List Bytes) : HRes :=
  match args with
  | key :: w :: pivot :: value :: _ => .exec fun s now _ =>
      call (Api.linsert s now key pivot value (upper w = Bytes.ofString "BEFORE")) fun s o => done s [.int (intOf o)]
  | _ => errReply

/-- LPUSHX key value: further values are ignored -/
def lPushxH (args : List Bytes) : HRes :=
  match args with
  | key :: v :: _ => .exec fun s now _ => call (Api.pushX true s now key v) fun s o => done s [.int (intOf o)]
  | _ => errReply

def rPushxH (args : List Bytes) : HRes :=
  match args with
  | key :: v :: _ => .exec fun s now _ => call (Api.pushX false s now key v) fun s o => done s [.int (intOf o)]
  | _ => errReply

/-- LREM key count value: arity check for two, `cmd.Args[2]` read inside the closure -/
def lRemH (args : List Bytes) : HRes :=
  match args with
  | key :: c :: rest =>
    match parseIntGo c with
    | (_, true) => errReply
    | (count, false) => .exec fun s now _ =>
        match rest with
        | [] => panicWith s []
        | v :: _ => call (Api.lrem s now key v count) fun s o => done s [.int (intOf o)]
  | _ => errReply

/-- the common prologue of LTRIM / LRANGE: arity check for two, `cmd.Args[2]` read outside the closure -/
def startStop (args : List Bytes) (k : Bytes → Int → Int → HRes) : HRes :=
  match args with
  | key :: a :: rest =>
    match parseIntGo a with
    | (_, true) => errReply
    | (start, false) =>
      match rest with
      | [] => .crash
      | b :: _ =>
        match parseIntGo b with
        | (_, true) => errReply
        | (stop, false) => k key start stop
  | _ => errReply

def lTrimH (args : List Bytes) : HRes :=
  startStop args fun key start stop => .exec fun s now _ =>
    call (Api.ltrim s now key start stop) fun s _ => done s [ok]

def lRangeH (args : List Bytes) : HRes :=
  startStop args fun key start stop => .exec fun s now _ =>
    call (Api.lrange s now key start stop) fun s o =>
      done s (match o with | .blist vs => bulkList (vs.map (·.getD [])) | _ => [.arr 0])

/-- LSET key index value: one call of `n.LSet`; its result decides between OK and the range error (missing key,
    no such element on either side). (Until the repair "LSET with an index below -len replied OK" the handler
    compared the index with a separate LLEN and dropped LSet's result.) -/
def lSetH (args : List Bytes) : HRes :=
  match args with
  | key :: i :: value :: _ =>
    match parseIntGo i with
    | (_, true) => errReply
    | (index, false) => .exec fun s now _ =>
        call (Api.lset s now key index value) fun s o =>
          match o with
          | .bool true => done s [ok]
          | _ => done s [e]
  | _ => errReply

/-- LPOPRPUSH (left) / RPOPLPUSH src dst -/
def rotateH (left : Bool) (args : List Bytes) : HRes :=
  match args with
  | src :: dst :: _ => .exec fun s now _ =>
      call (Api.rotate left s now src dst) fun s o =>
        done s [match o with | .bytes b => optBulk b | _ => .nullBulk]
  | _ => errReply

/-! ## hashes -/

/-- a Go map built from pairs: the last value of a repeated field wins -/
def mapOf (ps : List (Bytes × Bytes)) : List (Bytes × Bytes) :=
  ps.foldl (fun acc (k, v) => acc.filter (·.1 ≠ k) ++ [(k, v)]) []

/-- HSET key f v [f v …]: one `HMSet` with the map of all complete pairs, i.e. one transaction. (Until the repair
    "HSET with several pairs was two transactions" the handler ran `HSet` for the first pair and `HMSet` for the rest:
    another client could see the hash with only the first field of one HSET.) -/
def hSetH (args : List Bytes) : HRes :=
  match args with
  | key :: f :: v :: rest => .exec fun s now _ =>
      call (Api.hmset s now key (mapOf (pairsOf (f :: v :: rest)))) fun s o => done s [.int (intOf o)]
  | _ => errReply

/-- HGET: `string(v) == ""` ⇒ null — an existing field holding the empty string reads as missing -/
def hGetH (args : List Bytes) : HRes :=
  match args with
  | key :: f :: _ => .exec fun s now _ =>
      call (Api.hget s now key f) fun s o =>
        -- a field that exists with the empty string as its value is an empty bulk, not null (since the
        -- repair "HGET of a field holding the empty string replied null")
        done s [match o with | .bytes (some v) => .bulk v | _ => .nullBulk]
  | _ => errReply

def hDelH (args : List Bytes) : HRes :=
  match args with
  | key :: f :: rest => .exec fun s now _ => call (Api.hdel s now key (f :: rest)) fun s o => done s [.int (intOf o)]
  | _ => errReply

def hLenH (args : List Bytes) : HRes :=
  match args with
  | key :: _ => .exec fun s now _ => call (Api.hlen s now key) fun s o => done s [.int (intOf o)]
  | _ => errReply

def hKeysH (args : List Bytes) : HRes :=
  match args with
  | key :: _ => .exec fun s now _ =>
      call (Api.hkeys s now key) fun s o => done s (match o with | .slist ks => bulkList ks | _ => [.arr 0])
  | _ => errReply

def boolInt : Out → Int
  | .bool true => 1
  | _ => 0

def hExistsH (args : List Bytes) : HRes :=
  match args with
  | key :: f :: _ => .exec fun s now _ => call (Api.hexists s now key f) fun s o => done s [.int (boolInt o)]
  | _ => errReply

/-- HGETALL: header `2·len`, then the pairs in Go map order (canonicalised by harness and driver) -/
def hGetAllH (args : List Bytes) : HRes :=
  match args with
  | key :: _ => .exec fun s now _ =>
      call (Api.hgetall s now key) fun s o =>
        match o with
        | .bmap m => done s (.arr (2 * m.length) :: m.flatMap fun (k, v) => [.bulk k, .bulk (v.getD [])])
        | _ => done s [.arr 0]
  | _ => errReply

/-- HINCRBY key field n: the increment is parsed outside; the API error text is the reply -/
def hIncrByH (args : List Bytes) : HRes :=
  match args with
  | key :: f :: d :: _ =>
    match parseIntGo d with
    | (_, true) => errReply
    | (delta, false) => .exec fun s now _ =>
        call (Api.hincrby s now key f delta) fun s o =>
          match o with
          | .many [.int v, .err false] => done s [.int v]
          | _ => done s [e]
  | _ => errReply

def hIncrByFloatH (args : List Bytes) : HRes :=
  match args with
  | key :: f :: d :: _ =>
    match floatArg d with
    | none => .crash                      -- s[0] on an empty argument
    | some none => errReply
    | some (some none) => .exec fun s _ _ => { store := s, toks := [unsupported] }
    | some (some (some delta)) => .exec fun s now _ =>
        call (Api.hincrbyfloat s now key f delta) fun s o =>
          match o with
          | .many [.f64 v, .err false] => done s [match Api.formatFloat v with | some t => .bulk t | none => unsupported]
          | .unsupported => done s [unsupported]
          | _ => done s [e]
  | _ => errReply

def hSetNXH (args : List Bytes) : HRes :=
  match args with
  | key :: f :: v :: _ => .exec fun s now _ => call (Api.hsetnx s now key f v) fun s o => done s [.int (intOf o)]
  | _ => errReply

/-- HMGET key f [f …]: `n.HMGet` returns nil exactly when the key is missing (`make([][]byte, len(fields))`
    with at least one field is never nil), and then one null per field is written — the same tokens
    the per-field rendering gives, so the model's empty list (only possible for a missing key) is
    padded to the number of fields. A stored value is never a nil slice (`[]byte(arg)`), so null ⟺
    field absent. -/
def hMGetH (args : List Bytes) : HRes :=
  match args with
  | key :: f :: rest => .exec fun s now _ =>
      let fields := f :: rest
      call (Api.hmget s now key fields) fun s o =>
        match o with
        | .blist [] => done s (.arr fields.length :: fields.map fun _ => .nullBulk)
        | .blist vs => done s (.arr vs.length :: vs.map optBulk)
        | _ => done s [.arr 0]
  | _ => errReply

/-- HMSET key f v [f v …]: a trailing field without value is ignored -/
def hMSetH (args : List Bytes) : HRes :=
  match args with
  | key :: f :: v :: rest => .exec fun s now _ =>
      call (Api.hmset s now key (mapOf (pairsOf (f :: v :: rest)))) fun s _ => done s [ok]
  | _ => errReply

/-- HCLEAR key = `n.Del(key)`, whatever the type -/
def hClearH (args : List Bytes) : HRes :=
  match args with
  | key :: _ => .exec fun s now _ => call (Api.del s now [key]) fun s _ => done s [ok]
  | _ => errReply

def hStrLenH (args : List Bytes) : HRes :=
  match args with
  | key :: f :: _ => .exec fun s now _ => call (Api.hstrlen s now key f) fun s o => done s [.int (intOf o)]
  | _ => errReply

def hValsH (args : List Bytes) : HRes :=
  match args with
  | key :: _ => .exec fun s now _ =>
      call (Api.hvals s now key) fun s o =>
        done s (match o with | .blist vs => bulkList (vs.map (·.getD [])) | _ => [.arr 0])
  | _ => errReply

/-! ## sets -/

def sAddH (args : List Bytes) : HRes :=
  match args with
  | key :: m :: rest => .exec fun s now _ => call (Api.sadd s now key (m :: rest)) fun s o => done s [.int (intOf o)]
  | _ => errReply

def sMoveH (args : List Bytes) : HRes :=
  match args with
  | src :: dst :: m :: _ => .exec fun s now _ => call (Api.smove s now src dst m) fun s o => done s [.int (boolInt o)]
  | _ => errReply

/-- the model's verdict on an impossible choice is passed through as a simple string so that it
    shows up as a divergence -/
def invalidChoice (o : Out) : List Tok :=
  match o with
  | .str x => [.simple x]
  | _ => [.nullBulk]

/-- SPOP key [count]: null for no result; a single bulk when no count argument was *given*
    (contrast LPOP), otherwise an array -/
def sPopH (args : List Bytes) : HRes :=
  match args with
  | [] => errReply
  | key :: rest =>
    let cnt := match rest with | c :: _ => parseIntGo c | [] => (1, false)
    if cnt.2 then errReply else
    .exec fun s now ch =>
      call (Api.spop s now key cnt.1 (ch.getD [])) fun s o =>
        match o with
        | .slist [] => done s [.nullBulk]
        | .slist (r :: rs) => if rest.isEmpty then done s [.bulk r] else done s (bulkList (r :: rs))
        | o => done s (invalidChoice o)

def sCardH (args : List Bytes) : HRes :=
  match args with
  | key :: _ => .exec fun s now _ => call (Api.scard s now key) fun s o => done s [.int (intOf o)]
  | _ => errReply

/-- SDIFF / SINTER / SUNION: at least two keys are demanded -/
def sOpH (op : MState → Int → List Bytes → Api.R) (args : List Bytes) : HRes :=
  match args with
  | _ :: _ :: _ => .exec fun s now _ =>
      call (op s now args) fun s o => done s (match o with | .slist ms => bulkList ms | _ => [.arr 0])
  | _ => errReply

/-- SDIFFSTORE / SINTERSTORE / SUNIONSTORE dst key [key …]: the store itself treats a missing operand as the empty
    set and replaces the destination by the result (an empty result deletes it). (Until the repair "S*STORE with a
    missing operand replied 0 and left the destination as it was" the handlers first counted the operands with
    `Exists` and did nothing unless all of them - SUNIONSTORE: one of them - existed; `all` is what is left of that.) -/
def sStoreH (op : MState → Int → List Bytes → Api.R) (_all : Bool) (args : List Bytes) : HRes :=
  match args with
  | dst :: k :: rest => .exec fun s now _ =>
      call (Api.sstore op s now dst (k :: rest)) fun s o => done s [.int (intOf o)]
  | _ => errReply

def sIsMemberH (args : List Bytes) : HRes :=
  match args with
  | key :: m :: _ => .exec fun s now _ => call (Api.sismember s now key m) fun s o => done s [.int (boolInt o)]
  | _ => errReply

def sMembersH (args : List Bytes) : HRes :=
  match args with
  | key :: _ => .exec fun s now _ =>
      call (Api.smembers s now key) fun s o => done s (match o with | .slist ms => bulkList ms | _ => [.arr 0])
  | _ => errReply

/-- SRANDMEMBER key [count] -/
def sRandMemberH (args : List Bytes) : HRes :=
  match args with
  | [] => errReply
  | key :: rest =>
    let cnt := match rest with | c :: _ => parseIntGo c | [] => (1, false)
    -- a count below -maxRandomCount (1 <<< 20) is rejected like a non-number
    if cnt.2 || cnt.1 < -1048576 then errReply else
    let hasCount := !rest.isEmpty
    .exec fun s now ch =>
      call (Api.srandmember s now key cnt.1 (ch.getD [])) fun s o =>
        match o with
        | .slist [] => done s [if hasCount then .arr 0 else .nullBulk]
        | .slist (r :: rs) => if hasCount then done s (bulkList (r :: rs)) else done s [.bulk r]
        | o => done s (invalidChoice o)

def sRemH (args : List Bytes) : HRes :=
  match args with
  | key :: m :: rest => .exec fun s now _ => call (Api.srem s now key (m :: rest)) fun s o => done s [.int (intOf o)]
  | _ => errReply

def table2 (name : String) (args : List Bytes) : Option HRes :=
  match name with
  | "LPUSH" => some (pushH true args)
  | "RPUSH" => some (pushH false args)
  | "LPOP" => some (popH true args)
  | "RPOP" => some (popH false args)
  | "LLEN" => some (llenH args)
  | "LINDEX" => some (lIndexH args)
  | "LINSERT" => some (lInsertH args)
  | "LPUSHX" => some (lPushxH args)
  | "RPUSHX" => some (rPushxH args)
  | "LREM" => some (lRemH args)
  | "LTRIM" => some (lTrimH args)
  | "LSET" => some (lSetH args)
  | "LRANGE" => some (lRangeH args)
  | "LPOPRPUSH" => some (rotateH true args)
  | "RPOPLPUSH" => some (rotateH false args)
  | "HSET" => some (hSetH args)
  | "HGET" => some (hGetH args)
  | "HDEL" => some (hDelH args)
  | "HLEN" => some (hLenH args)
  | "HKEYS" => some (hKeysH args)
  | "HEXISTS" => some (hExistsH args)
  | "HGETALL" => some (hGetAllH args)
  | "HINCRBY" => some (hIncrByH args)
  | "HINCRBYFLOAT" => some (hIncrByFloatH args)
  | "HSETNX" => some (hSetNXH args)
  | "HMGET" => some (hMGetH args)
  | "HMSET" => some (hMSetH args)
  | "HCLEAR" => some (hClearH args)
  | "HSTRLEN" => some (hStrLenH args)
  | "HVALS" => some (hValsH args)
  | "SADD" => some (sAddH args)
  | "SMOVE" => some (sMoveH args)
  | "SCARD" => some (sCardH args)
  | "SPOP" => some (sPopH args)
  | "SDIFF" => some (sOpH Api.sdiff args)
  | "SDIFFSTORE" => some (sStoreH Api.sdiff true args)
  | "SINTER" => some (sOpH Api.sinter args)
  | "SINTERSTORE" => some (sStoreH Api.sinter true args)
  | "SUNION" => some (sOpH Api.sunion args)
  | "SUNIONSTORE" => some (sStoreH Api.sunion false args)
  | "SISMEMBER" => some (sIsMemberH args)
  | "SMEMBERS" => some (sMembersH args)
  | "SRANDMEMBER" => some (sRandMemberH args)
  | "SREM" => some (sRemH args)
  | _ => none

end NodisVerif.Handler2
