import NodisVerif.Basic
/-
  redis/resp.go, writer side and command metadata: reply tokens and their byte rendering,
  `strings.ToUpper` of internal/strings (Go `range` over a string, i.e. UTF-8 decoding), and the
  option-word table of `readOptions`.
-/
namespace NodisVerif.Resp

/-- one write call of the RESP writer. An array header is a token of its own because handlers write
    it separately from the elements (so "exactly one well-formed value" is a statement, not a type). -/
inductive Tok
  | simple (s : Bytes)        -- WriteString / WriteOK
  | err (kind : Nat)          -- WriteError: 0 generic, 1 "WRONGTYPE …" (recovered panic), 2 "EXECABORT …"
  | int (n : Int)             -- WriteInt64
  | bulk (b : Bytes)          -- WriteBulk
  | nullBulk                  -- WriteBulkNull
  | arr (n : Int)             -- WriteArray (header only)
  | nullArr                   -- WriteArrayNull
deriving Repr, DecidableEq, Inhabited

def crlf : Bytes := [13, 10]

def errText : Nat → Bytes
  | 1 => Bytes.ofString "WRONGTYPE Operation against a key holding the wrong kind of value"
  | 2 => Bytes.ofString "EXECABORT Transaction discarded because of previous errors."
  | _ => Bytes.ofString "ERR"

/-- the bytes the writer appends for one token -/
def render : Tok → Bytes
  | .simple s => 43 :: s ++ crlf
  | .err k => 45 :: errText k ++ crlf
  | .int n => 58 :: formatInt n ++ crlf
  | .bulk b => 36 :: formatInt b.length ++ crlf ++ b ++ crlf
  | .nullBulk => Bytes.ofString "$-1\r\n"
  | .arr n => 42 :: formatInt n ++ crlf
  | .nullArr => Bytes.ofString "*-1\r\n"

def renderAll (ts : List Tok) : Bytes := ts.flatMap render

/-- number of tokens of the value starting at the head of `ts` (`none` = incomplete) -/
def valueSize : List Tok → Nat → Option Nat
  | _, 0 => none
  | [], _ => none
  | .arr n :: rest, fuel + 1 =>
    let rec elems (k : Nat) (ts : List Tok) (acc : Nat) : Option Nat :=
      match k with
      | 0 => some acc
      | k + 1 =>
        match valueSize ts fuel with
        | none => none
        | some sz => elems k (ts.drop sz) (acc + sz)
    if n < 0 then some 1 else elems n.toNat rest 1
  | _ :: _, _ + 1 => some 1

/-- the token list is exactly one complete, well-formed RESP value -/
def oneValue (ts : List Tok) : Bool := valueSize ts (ts.length + 1) == some ts.length

/-! ### `strings.ToUpper`: iterates runes, writes one byte at each rune's start offset -/

/-- decode one UTF-8 rune as Go's `range` does: (rune value, width); invalid ⇒ (0xFFFD, 1) -/
def decodeRune (b : Bytes) : Nat × Nat :=
  match b with
  | [] => (0xFFFD, 1)
  | b0 :: rest =>
    let x := b0.toNat
    if x < 0x80 then (x, 1)
    else if x < 0xC2 then (0xFFFD, 1)
    else if x < 0xE0 then
      (match rest with
       | b1 :: _ => if 0x80 ≤ b1.toNat ∧ b1.toNat < 0xC0 then ((x - 0xC0) * 64 + (b1.toNat - 0x80), 2) else (0xFFFD, 1)
       | _ => (0xFFFD, 1))
    else if x < 0xF0 then
      (match rest with
       | b1 :: b2 :: _ =>
         let lo := if x = 0xE0 then 0xA0 else 0x80
         let hi := if x = 0xED then 0xA0 else 0xC0
         if lo ≤ b1.toNat ∧ b1.toNat < hi ∧ 0x80 ≤ b2.toNat ∧ b2.toNat < 0xC0 then
           ((x - 0xE0) * 4096 + (b1.toNat - 0x80) * 64 + (b2.toNat - 0x80), 3)
         else (0xFFFD, 1)
       | _ => (0xFFFD, 1))
    else if x < 0xF5 then
      (match rest with
       | b1 :: b2 :: b3 :: _ =>
         let lo := if x = 0xF0 then 0x90 else 0x80
         let hi := if x = 0xF4 then 0x90 else 0xC0
         if lo ≤ b1.toNat ∧ b1.toNat < hi ∧ 0x80 ≤ b2.toNat ∧ b2.toNat < 0xC0 ∧ 0x80 ≤ b3.toNat ∧ b3.toNat < 0xC0 then
           ((x - 0xF0) * 262144 + (b1.toNat - 0x80) * 4096 + (b2.toNat - 0x80) * 64 + (b3.toNat - 0x80), 4)
         else (0xFFFD, 1)
       | _ => (0xFFFD, 1))
    else (0xFFFD, 1)

def upperAux : Bytes → Nat → Bytes
  | _, 0 => []
  | [], _ => []
  | b, fuel + 1 =>
    let (r, w) := decodeRune b
    let c : Nat := if 97 ≤ r ∧ r ≤ 122 then r - 32 else r
    UInt8.ofNat (c % 256) :: (List.replicate (w - 1) 0 ++ upperAux (b.drop w) fuel)

/-- `strings.ToUpper(v)` -/
def upper (v : Bytes) : Bytes := (upperAux v (v.length + 1)).take v.length

/-! ### option words (`readOptions`) -/

/-- (word, adds one): value-taking options record the index of the *following* argument -/
def optionTable : List (String × Bool) :=
  [("NX", false), ("XX", false), ("LT", false), ("GT", false), ("MATCH", true), ("COUNT", true), ("TYPE", true),
   ("EX", true), ("EXAT", true), ("PX", true), ("PXAT", true), ("GET", false), ("KEEPTTL", false), ("CH", false),
   ("INCR", false), ("WITHSCORES", false), ("LIMIT", true), ("BYSCORE", false), ("BYLEX", false), ("REV", false),
   ("WEIGHTS", true), ("AGGREGATE", true), ("BYTE", false), ("BIT", false), ("KM", false), ("M", false), ("FT", false),
   ("MI", false), ("ASC", false), ("DESC", false), ("ANY", false), ("WITHDIST", false), ("WITHCOORD", false), ("WITHHASH", false)]

/-- `cmd.Options.<word>` after reading all arguments: the last argument that is literally the word
    (case-insensitively) determines the index; 0 = not present (or present as argument 0). -/
def opt (args : List Bytes) (word : String) : Int :=
  let plus : Int := if (optionTable.find? (·.1 == word)).map (·.2) == some true then 1 else 0
  (args.zipIdx.foldl (fun (acc : Int) (a, i) => if upper a = Bytes.ofString word then (i : Int) + plus else acc) 0)

/-- `cmd.Args[i]` with Go's bounds check: `none` = index out of range panic -/
def argAt (args : List Bytes) (i : Int) : Option Bytes := if i < 0 then none else args[i.toNat]?

end NodisVerif.Resp
