/-
  nodis.go `Serve` / list.go `blockingPop` / handler.go `exec`: the gate that makes EXEC exclusive
  (`store.execMu`), as a transition system over the steps the implementation reports through its
  `verifTrace` hook (build tag verif).

  Every command of a network client is served by the connection's goroutine. `Serve` takes the gate
  shared for every command, exclusively for EXEC, and not at all for BLPOP / BRPOP (which may wait for
  a long time) - a blocking pop takes the shared side itself for each look at its keys. All effects of a
  command on the keyspace happen inside transactions (`Tx`: begin ... end), watched keys are marked by
  `signalModifiedKey`, EXEC checks its watch flags (`chk`) and then runs the queued bodies (`run`).

  Goroutines that have never served a connection (embedded callers, background eviction and flush) are
  not subject to the gate: they appear in `txb` / `sig` events without restriction. That is the stated
  limit of EXEC's isolation (DESIGN.md, limits), not something the model hides.

  `step s e = none` means: the implementation reported a step that the gate protocol does not allow in
  the state reached by the steps before it.
-/
namespace NodisVerif.Gate

abbrev G := Nat          -- goroutine
abbrev T := Nat          -- transaction

inductive GMode | s | x
deriving DecidableEq, Repr

inductive Ev
  | serve (g : G)                 -- g serves a connection (reported for every command, also BLPOP / BRPOP)
  | gin (g : G) (m : GMode)       -- the gate has been acquired (reported after Lock / RLock returned)
  | gout (g : G)                  -- the gate is about to be released
  | txb (g : G) (t : T)           -- a transaction begins on g
  | txe (g : G) (t : T)           -- it has committed and released everything
  | sig (g : G)                   -- a watched key is being marked as modified, on g
  | chk (g : G)                   -- EXEC reads its watch flags
  | run (g : G)                   -- EXEC starts the next queued body
deriving Repr

structure GState where
  clients : List G := []              -- goroutines that serve connections
  holders : List (G × GMode) := []
  active  : List (T × G) := []        -- open transactions
deriving Repr

namespace GState
def holds (s : GState) (g : G) : Bool := s.holders.any (·.1 == g)
def holdsX (s : GState) (g : G) : Bool := s.holders.any fun h => h.1 == g && h.2 == .x
def isClient (s : GState) (g : G) : Bool := s.clients.contains g
/-- a client's step on the keyspace needs the gate; others are free -/
def allowed (s : GState) (g : G) : Bool := !s.isClient g || s.holds g
end GState

def step (s : GState) : Ev → Option GState
  | .serve g =>
    if s.isClient g then some s else
    if s.active.any (·.2 == g) then none else         -- a connection's goroutine starts by serving
    some { s with clients := g :: s.clients }
  | .gin g m =>
    if s.holds g then none else                       -- never re-entered: a pending writer would deadlock it
    match m with
    | .x => if s.holders.isEmpty then some { s with holders := [(g, .x)] } else none
    | .s => if s.holders.all (·.2 == .s) then some { s with holders := (g, .s) :: s.holders } else none
  | .gout g =>
    if !s.holds g then none else
    if s.active.any (·.2 == g) then none else         -- a command's transactions are over when it leaves
    some { s with holders := s.holders.filter (·.1 != g) }
  | .txb g t =>
    if s.active.any (·.1 == t) then none else
    if !s.allowed g then none else
    some { s with active := (t, g) :: s.active }
  | .txe g t =>
    if !s.active.contains (t, g) then none else
    some { s with active := s.active.filter (·.1 != t) }
  | .sig g => if s.allowed g then some s else none
  | .chk g => if s.holdsX g then some s else none
  | .run g => if s.holdsX g then some s else none

def run (s : GState) : List Ev → Option GState
  | [] => some s
  | e :: es => (step s e).bind fun s' => run s' es

end NodisVerif.Gate
