/-
  list.go: the wake-up protocol of BLPOP / BRPOP (`blockingPop`, `addBlockKeys`, `notifyBlockingKey`,
  `removeBlockingKeys`), as a transition system over the steps the implementation reports through
  its `verifTrace` hook.

  A waiter owns a channel with room for ONE wake-up. It registers for all its keys first, then
  repeatedly: tries to pop from each key in argument order; if every try failed it blocks until a
  wake-up is in its buffer or its timer fires. A push (which holds the key) puts a wake-up into the
  buffer of every waiter registered for the key - without ever blocking: a full buffer is left full.

  `seen k` (ghost): the waiter has made a failed pop attempt on k after the last push to k, i.e. it
  knows about every push to k. The theorems of Props/C18.lean say that a waiter that sleeps with an
  empty buffer has seen everything (no push is ever missed), that a push never blocks, that a
  null reply comes only from the timer and only when one was armed.
-/
namespace NodisVerif.Block

abbrev W := Nat
abbrev Key := String

inductive Phase
  | registering                 -- `addBlockKeys` is running
  | scan (i : Nat)              -- about to try keys[i]
  | blocked                     -- in `select`
  | gotElem (k : Key)           -- returned an element of key k
  | gotNull                     -- returned null
  | aborted                     -- a pop attempt panicked (wrong type): the call is unwinding
deriving DecidableEq, Repr

structure WSt where
  keys   : List Key := []       -- the keys it is registered for, in registration (= argument) order
  reg    : List Key := []       -- those it has not unregistered from yet
  buf    : Bool := false        -- a wake-up is waiting in the channel
  seen   : List Key := []       -- ghost: keys tried (and found empty) since their last push
  phase  : Phase := .registering
  timed  : Bool := false        -- a timer is armed (timeout > 0)
  notified : Nat := 0           -- ghost: wake-ups offered so far
  woken    : Nat := 0           -- ghost: wake-ups consumed so far
deriving Repr

inductive Ev
  | reg (w : W) (k : Key)                 -- registered for k (under the waiters lock); the first one creates the waiter
  | try_ (w : W) (k : Key) (got : Bool)   -- pop attempt on k
  | block (w : W) (timed : Bool)
  | wake (w : W)
  | timeout (w : W)
  | notify (w : W) (k : Key)              -- a push to k offers w a wake-up (never blocks: a full buffer stays full)
  | abort (w : W)                         -- a pop attempt panicked; the deferred clean-up follows
  | unreg (w : W) (k : Key)
  | fin (w : W)
deriving Repr

abbrev BState := List (W × WSt)

def get (s : BState) (w : W) : Option WSt := (s.find? (·.1 == w)).map (·.2)
def set (s : BState) (w : W) (st : WSt) : BState := (w, st) :: s.filter (fun p => !(p.1 == w))
def del (s : BState) (w : W) : BState := s.filter (fun p => !(p.1 == w))

def step (s : BState) : Ev → Option BState
  | .reg w k =>
    let st := (get s w).getD {}
    -- registration happens before the first pop attempt
    if st.phase != .registering then none else
    some (set s w { st with keys := st.keys ++ [k], reg := st.reg ++ [k] })
  | .try_ w k got =>
    match get s w with
    | none => none                                  -- a pop attempt of a waiter that has not registered
    | some st =>
      let i := match st.phase with | .registering => some 0 | .scan i => some i | _ => none
      match i with
      | none => none
      | some i =>
        if st.keys[i]? != some k then none else     -- keys are tried in argument order
        if got then some (set s w { st with phase := .gotElem k })
        else some (set s w { st with phase := .scan (i + 1), seen := k :: st.seen })
  | .block w timed =>
    match get s w with
    | none => none
    | some st =>
      -- only after every key has been tried in this round
      if st.phase != .scan st.keys.length then none else
      some (set s w { st with phase := .blocked, timed := timed })
  | .wake w =>
    match get s w with
    | none => none
    | some st =>
      if st.phase != .blocked || !st.buf then none else
      some (set s w { st with phase := .scan 0, buf := false, woken := st.woken + 1 })
  | .timeout w =>
    match get s w with
    | none => none
    | some st =>
      if st.phase != .blocked || !st.timed then none else
      some (set s w { st with phase := .gotNull })
  | .notify w k =>
    match get s w with
    | none => none
    | some st =>
      -- only registered waiters are offered a wake-up
      if !st.reg.contains k then none else
      some (set s w { st with buf := true, seen := st.seen.filter (· != k), notified := st.notified + 1 })
  | .abort w =>
    match get s w with
    | none => none
    | some st =>
      match st.phase with
      | .registering | .scan _ => some (set s w { st with phase := .aborted })
      | _ => none
  | .unreg w k =>
    match get s w with
    | none => none
    | some st =>
      match st.phase with
      | .gotElem _ | .gotNull | .aborted => some (set s w { st with reg := st.reg.filter (· != k) })
      | _ => none
  | .fin w =>
    match get s w with
    | none => none
    | some st => if st.reg.isEmpty then some (del s w) else none

/-- The step relation used to validate recorded traces. The hook reports a `notify` before the send
    and a `wake` after the receive, so two wake-ups offered in quick succession can be reported as
    notify, notify, wake, wake although the second send happened after the first receive: the
    one-place buffer cannot be reconstructed from the report order. What every real run satisfies is
    token conservation: a wake-up consumed was offered before. -/
def stepLoose (s : BState) : Ev → Option BState
  | .wake w =>
    match get s w with
    | none => none
    | some st =>
      if st.phase != .blocked || !(st.woken < st.notified) then none else
      some (set s w { st with phase := .scan 0, buf := false, woken := st.woken + 1 })
  | e => step s e

/-- run a trace; `error (i, s)` = event number i is not allowed in state s -/
def run (s : BState) : List Ev → Nat → Except (Nat × BState) BState
  | [], _ => .ok s
  | e :: es, i =>
    match step s e with
    | some s' => run s' es (i + 1)
    | none => .error (i, s)

end NodisVerif.Block
