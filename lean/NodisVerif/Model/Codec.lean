import NodisVerif.Model.Varint
import NodisVerif.Model.DsList
import NodisVerif.Model.DsHashSet
import NodisVerif.Model.DsZSet
/-
  Storage codecs: ds.Key.Encode / ds.DecodeKey, storage.Entry, and GetValue / SetValue of the
  five value types, as in the Go code (after the three `fix:` commits recorded in
  known_findings.json: Encode's buffer size, DecodeKey's length test, set.GetValue's buffer size).
  Decoders return `none` where the Go code would panic (slice out of range).
-/
namespace NodisVerif.Codec
open Varint

/-- `b[lo:hi]`, `none` = slice bounds out of range -/
def slice? (b : Bytes) (lo hi : Int) : Option Bytes :=
  if 0 ≤ lo ∧ lo ≤ hi ∧ hi ≤ b.length then some ((b.drop lo.toNat).take (hi - lo).toNat) else none

def from? (b : Bytes) (lo : Int) : Option Bytes := slice? b lo b.length

/-! ### keys -/

/-- `Key.Encode`: varint(expiration) ++ name -/
def encodeKey (name : Bytes) (exp : Int) : Bytes := putVarint exp ++ name

/-- `DecodeKey`: `none` = ErrCorruptedData -/
def decodeKey (b : Bytes) : Option (Bytes × Int) :=
  let (x, n) := varint b
  if n ≤ 0 then none else some (b.drop n.toNat, x)

/-! ### values -/

def u64le (x : UInt64) : Bytes := (List.range 8).map fun i => UInt8.ofNat ((x.toNat >>> (8 * i)) % 256)

def leU64 (b : Bytes) : UInt64 :=
  UInt64.ofNat ((b.take 8).zipIdx.foldl (fun acc (x, i) => acc + x.toNat <<< (8 * i)) 0)

def lenPrefixed (v : Bytes) : Bytes := putVarint v.length ++ v

def encodeList (l : LList) : Bytes :=
  -- GetValue uses forEach(0, -1): every element, in order
  (DsList.forEach l 0 (-1)).flatMap lenPrefixed

def encodeHash (h : AList Bytes) : Bytes :=
  h.flatMap fun (k, v) => lenPrefixed (lenPrefixed k ++ v)

def encodeSet (s : AList Unit) : Bytes := (AList.keys s).flatMap lenPrefixed

def encodeZSet (z : ZSet) : Bytes :=
  z.dict.flatMap fun (m, sc) => lenPrefixed (u64le sc ++ m)

def encodeVal : Val → Bytes
  | .str v => v
  | .strNil => []
  | .list l => encodeList l
  | .hash h => encodeHash h
  | .set s => encodeSet s
  | .zset z => encodeZSet z

/-- `Entry.encode`: type byte ++ payload -/
def encodeEntry (v : Val) : Bytes := UInt8.ofNat v.typeCode :: encodeVal v

/-- `list.SetValue` -/
def decodeList : Bytes → LList → Nat → Option LList
  | _, _, 0 => none
  | [], l, _ => some l
  | b, l, fuel + 1 =>
    let (vLen, n) := varint b
    if n = 0 then some l else
    match slice? b n (n + vLen), from? b (n + vLen) with
    | some v, some rest => decodeList rest (DsList.rpush l [v]) fuel
    | _, _ => none

/-- `hash.SetValue` -/
def decodeHash : Bytes → AList Bytes → Nat → Option (AList Bytes)
  | _, _, 0 => none
  | [], h, _ => some h
  | b, h, fuel + 1 =>
    let (dataLen, n) := varint b
    if n ≤ 0 then some h else
    let stop := n + dataLen
    match slice? b n stop, from? b stop with
    | some item, some rest =>
      let (l, n2) := varint item
      (match from? item n2 with
       | none => none
       | some kv =>
         match slice? kv 0 l, from? kv l with
         | some k, some v => decodeHash rest (DsHash.hset h k v).1 fuel
         | _, _ => none)
    | _, _ => none

/-- `set.SetValue` -/
def decodeSet : Bytes → AList Unit → Nat → Option (AList Unit)
  | _, _, 0 => none
  | [], s, _ => some s
  | b, s, fuel + 1 =>
    let (mLen, n) := varint b
    match from? b n with
    | none => none
    | some ms =>
      match slice? ms 0 mLen, from? ms mLen with
      | some m, some rest =>
        if n ≤ 0 ∧ mLen ≤ 0 then none          -- no progress: the Go loop would not terminate
        else decodeSet rest (AList.set s m ()) fuel
      | _, _ => none

/-- `zset.SetValue` -/
def decodeZSet : Bytes → ZSet → Nat → Option ZSet
  | _, _, 0 => none
  | [], z, _ => some z
  | b, z, fuel + 1 =>
    let (dataLen, n) := varint b
    if n ≤ 0 then some z else
    let stop := n + dataLen
    match slice? b n stop, from? b stop with
    | some item, some rest =>
      if item.length < 8 then none else
      decodeZSet rest (DsZSet.zAdd z (item.drop 8) (leU64 item)).1 fuel
    | _, _ => none

/-- `parseEntry` + `Entry.GetValue`; `none` = error or panic -/
def decodeEntry (b : Bytes) : Option Val :=
  match b with
  | [] => none
  | t :: payload =>
    let fuel := payload.length + 1
    match t.toNat with
    | 1 => some (.str payload)
    | 3 => (decodeList payload DsList.empty fuel).map .list
    | 5 => (decodeHash payload [] fuel).map .hash
    | 2 => (decodeSet payload [] fuel).map .set
    | 4 => (decodeZSet payload DsZSet.empty fuel).map .zset
    | _ => none

end NodisVerif.Codec
