import NodisVerif.Basic
/-
  `btree.Map[string, V]` as a key-sorted association list (bytewise order).
  The sortedness invariant is stated and proved separately (Proofs/AList.lean).
-/
namespace NodisVerif

abbrev AList (V : Type) := List (Bytes × V)

namespace AList
variable {V : Type}

def get? : AList V → Bytes → Option V
  | [], _ => none
  | (k, v) :: rest, key => if k = key then some v else get? rest key

def contains (m : AList V) (key : Bytes) : Bool := (get? m key).isSome

/-- `Set`: insert in order, or replace the value of an existing key -/
def set : AList V → Bytes → V → AList V
  | [], key, v => [(key, v)]
  | (k, w) :: rest, key, v =>
    if k = key then (k, v) :: rest
    else if Bytes.lt key k then (key, v) :: (k, w) :: rest
    else (k, w) :: set rest key v

def erase : AList V → Bytes → AList V
  | [], _ => []
  | (k, w) :: rest, key => if k = key then rest else (k, w) :: erase rest key

def keys (m : AList V) : List Bytes := m.map (·.1)
def values (m : AList V) : List V := m.map (·.2)

end AList
end NodisVerif
