import NodisVerif.Model.DsZSet
/-
  ds/zset/skiplist.go itself: a heap of nodes addressed by index, `forward` / `backward` pointers as
  `Option Nat`, per-level spans, the `update[]` / `rank[]` arrays of the Go code, the same span arithmetic.
  Index 0 of the heap is the header (16 levels). Nodes are only appended (`newNode` = push); an unlinked
  node stays in the heap as garbage (Go: garbage-collected, unobservable).
  The random level of `insert` is a parameter (`lvl`, the tie passes the height the real code chose).
  Loops over `forward` pointers take fuel (`heap.length + 1`); running out of fuel is `Err.fuel`, a nil
  dereference / index out of range the Go code would commit is `Err.panic`.
-/
namespace NodisVerif.Skiplist
open NodisVerif.DsZSet (Item nodeLt)

structure Level where
  forward : Option Nat := none
  span : Int := 0
deriving Repr, DecidableEq, Inhabited

structure Node where
  score : F64
  member : Bytes
  backward : Option Nat := none
  level : List Level
deriving Repr, DecidableEq, Inhabited

structure SL where
  heap : List Node
  tail : Option Nat
  length : Int
  level : Nat
deriving Repr, DecidableEq, Inhabited

inductive Err
  | panic   -- nil dereference / index out of range in the Go code
  | fuel    -- a pointer walk did not end within heap.length + 1 steps (cyclic structure)
deriving Repr, DecidableEq, Inhabited

abbrev M := Except Err

def maxLevel : Nat := 16

/-- `newNode(level, score, member)` -/
def newNode (level : Nat) (score : F64) (member : Bytes) : Node :=
  { score := score, member := member, backward := none, level := List.replicate level {} }

/-- `makeSkiplist()` -/
def makeSkiplist : SL := { heap := [newNode maxLevel 0 []], tail := none, length := 0, level := 1 }

def Node.item (n : Node) : Item := (n.score, n.member)

/-- `*p` -/
def getNode (h : List Node) (n : Nat) : M Node :=
  match h[n]? with
  | some x => pure x
  | none => throw .panic

/-- `p.level[i]` (index out of range panics; the slots themselves are never nil) -/
def getLevel (h : List Node) (n i : Nat) : M Level :=
  match h[n]? with
  | none => throw .panic
  | some nd =>
    match nd.level[i]? with
    | some l => pure l
    | none => throw .panic

/-- `*p.level[i] = f(*p.level[i])` -/
def modLevel (h : List Node) (n i : Nat) (f : Level → Level) : M (List Node) :=
  match h[n]? with
  | none => throw .panic
  | some nd =>
    match nd.level[i]? with
    | some l => pure (h.set n { nd with level := nd.level.set i (f l) })
    | none => throw .panic

/-- `p.backward = b` -/
def setBackward (h : List Node) (n : Nat) (b : Option Nat) : M (List Node) :=
  match h[n]? with
  | none => throw .panic
  | some nd => pure (h.set n { nd with backward := b })

/-- `a[i] = v` on a Go slice (`make([]T, maxLevel)`) -/
def setArr {α} (a : List α) (i : Nat) (v : α) : M (List α) :=
  if i < a.length then pure (a.set i v) else throw .panic

/-- `a[i]` on a Go slice -/
def getArr {α} (a : List α) (i : Nat) : M α :=
  match a[i]? with
  | some v => pure v
  | none => throw .panic

/-- `*update[i]`: the slot may still hold nil -/
def getUpd (update : List (Option Nat)) (i : Nat) : M Nat := do
  match (← getArr update i) with
  | some u => pure u
  | none => throw .panic

/-- the inner loop shared by all operations:
    `for x.level[i].forward != nil && cond(x.level[i].forward, acc + x.level[i].span) { acc += x.level[i].span; x = x.level[i].forward }` -/
def walk (h : List Node) (i : Nat) (cond : Node → Int → Bool) : Nat → Nat → Int → M (Nat × Int)
  | 0, _, _ => throw .fuel
  | fuel + 1, x, acc => do
    let lv ← getLevel h x i
    match lv.forward with
    | none => pure (x, acc)
    | some f =>
      let fn ← getNode h f
      if cond fn (acc + lv.span) then walk h i cond fuel f (acc + lv.span) else pure (x, acc)

/-- the outer loop `for i := level-1; i >= 0; i-- { rank[i] = (i == level-1 ? 0 : rank[i+1]); walk; update[i] = x }`;
    first argument = i + 1. `rank[i] = rank[i+1]` is the threaded accumulator. -/
def search (h : List Node) (cond : Node → Int → Bool) :
    Nat → Nat → Int → List (Option Nat) → List Int → M (Nat × Int × List (Option Nat) × List Int)
  | 0, x, acc, update, rank => pure (x, acc, update, rank)
  | i + 1, x, acc, update, rank => do
    let (x', acc') ← walk h i cond (h.length + 1) x acc
    let update ← setArr update i (some x')
    let rank ← setArr rank i acc'
    search h cond i x' acc' update rank

def emptyUpdate : List (Option Nat) := List.replicate maxLevel none
def emptyRank : List Int := List.replicate maxLevel 0

/-- `for i := skiplist.level; i < level; i++ { rank[i] = 0; update[i] = header; update[i].level[i].span = skiplist.length }`;
    first argument = remaining iterations -/
def extendLevels (len : Int) : Nat → Nat → List Node → List (Option Nat) → List Int →
    M (List Node × List (Option Nat) × List Int)
  | 0, _, h, update, rank => pure (h, update, rank)
  | k + 1, i, h, update, rank => do
    let rank ← setArr rank i 0
    let update ← setArr update i (some 0)
    let h ← modLevel h 0 i fun l => { l with span := len }
    extendLevels len k (i + 1) h update rank

/-- `for i := 0; i < level; i++ { node.level[i].forward = update[i].level[i].forward; update[i].level[i].forward = node;
      node.level[i].span = update[i].level[i].span - (rank[0]-rank[i]); update[i].level[i].span = (rank[0]-rank[i]) + 1 }` -/
def linkLevels (new : Nat) (update : List (Option Nat)) (rank : List Int) : Nat → Nat → List Node → M (List Node)
  | 0, _, h => pure h
  | k + 1, i, h => do
    let u ← getUpd update i
    let lu ← getLevel h u i
    let r0 ← getArr rank 0
    let ri ← getArr rank i
    let h ← modLevel h new i fun _ => { forward := lu.forward, span := lu.span - (r0 - ri) }
    let h ← modLevel h u i fun _ => { forward := some new, span := (r0 - ri) + 1 }
    linkLevels new update rank k (i + 1) h

/-- `for i := level; i < skiplist.level; i++ { update[i].level[i].span++ }` -/
def bumpLevels (update : List (Option Nat)) : Nat → Nat → List Node → M (List Node)
  | 0, _, h => pure h
  | k + 1, i, h => do
    let u ← getUpd update i
    let h ← modLevel h u i fun l => { l with span := l.span + 1 }
    bumpLevels update k (i + 1) h

def lessCond (m : Bytes) (s : F64) : Node → Int → Bool := fun fn _ => nodeLt fn.item s m

/-- `skiplist.insert(member, score)` with the random level as parameter -/
def insert (sl : SL) (m : Bytes) (s : F64) (lvl : Nat) : M SL := do
  let (_, _, update, rank) ← search sl.heap (lessCond m s) sl.level 0 0 emptyUpdate emptyRank
  let (h, update, rank, level) ←
    if lvl > sl.level then do
      let (h, u, r) ← extendLevels sl.length (lvl - sl.level) sl.level sl.heap update rank
      pure (h, u, r, lvl)
    else pure (sl.heap, update, rank, sl.level)
  let new := h.length
  let h := h ++ [newNode lvl s m]
  let h ← linkLevels new update rank lvl 0 h
  let h ← bumpLevels update (level - lvl) lvl h
  let u0 ← getUpd update 0
  let h ← setBackward h new (if u0 = 0 then none else some u0)
  let l0 ← getLevel h new 0
  match l0.forward with
  | some f =>
    let h ← setBackward h f (some new)
    pure { heap := h, tail := sl.tail, length := sl.length + 1, level := level }
  | none => pure { heap := h, tail := some new, length := sl.length + 1, level := level }

/-- `for i := 0; i < skiplist.level; i++ { if update[i].level[i].forward == node {…} else { update[i].level[i].span-- } }` -/
def unlinkLevels (node : Nat) (update : List (Option Nat)) : Nat → Nat → List Node → M (List Node)
  | 0, _, h => pure h
  | k + 1, i, h => do
    let u ← getUpd update i
    let lu ← getLevel h u i
    if lu.forward = some node then do
      let ln ← getLevel h node i
      let h ← modLevel h u i fun l => { forward := ln.forward, span := l.span + (ln.span - 1) }
      unlinkLevels node update k (i + 1) h
    else do
      let h ← modLevel h u i fun l => { l with span := l.span - 1 }
      unlinkLevels node update k (i + 1) h

/-- `for skiplist.level > 1 && skiplist.header.level[skiplist.level-1].forward == nil { skiplist.level-- }` -/
def shrinkLevel (h : List Node) : Nat → M Nat
  | l + 2 => do
    let lv ← getLevel h 0 (l + 1)
    if lv.forward.isNone then shrinkLevel h (l + 1) else pure (l + 2)
  | l => pure l

/-- `skiplist.removeNode(node, update)` -/
def removeNode (sl : SL) (node : Nat) (update : List (Option Nat)) : M SL := do
  let h ← unlinkLevels node update sl.level 0 sl.heap
  let nd ← getNode h node
  let l0 ← getLevel h node 0
  let (h, tail) ← match l0.forward with
    | some f => do let h ← setBackward h f nd.backward; pure (h, sl.tail)
    | none => pure (h, nd.backward)
  let level ← shrinkLevel h sl.level
  pure { heap := h, tail := tail, length := sl.length - 1, level := level }

/-- `skiplist.remove(member, score)` -/
def remove (sl : SL) (m : Bytes) (s : F64) : M (SL × Bool) := do
  let (x, _, update, _) ← search sl.heap (lessCond m s) sl.level 0 0 emptyUpdate emptyRank
  let l0 ← getLevel sl.heap x 0
  match l0.forward with
  | none => pure (sl, false)
  | some n =>
    let nd ← getNode sl.heap n
    if F64.eq s nd.score ∧ nd.member = m then do
      let sl' ← removeNode sl n update
      pure (sl', true)
    else pure (sl, false)

def rankCond (m : Bytes) (s : F64) : Node → Int → Bool :=
  fun fn _ => F64.lt fn.score s || (F64.eq fn.score s && Bytes.le fn.member m)

/-- `skiplist.getRank(member, score)`; first argument = i + 1 -/
def getRankLoop (h : List Node) (m : Bytes) (s : F64) : Nat → Nat → Int → M Int
  | 0, _, _ => pure 0
  | i + 1, x, rank => do
    let (x', rank') ← walk h i (rankCond m s) (h.length + 1) x rank
    let nd ← getNode h x'
    if x' ≠ 0 ∧ nd.member = m then pure rank' else getRankLoop h m s i x' rank'

def getRank (sl : SL) (m : Bytes) (s : F64) : M Int := getRankLoop sl.heap m s sl.level 0 0

def byRankCond (rank : Int) : Node → Int → Bool := fun _ a => a ≤ rank

/-- `skiplist.getByRank(rank)`; `none` = nil, `some 0` = the header -/
def getByRankLoop (h : List Node) (rank : Int) : Nat → Nat → Int → M (Option Nat)
  | 0, _, _ => pure none
  | l + 1, n, i => do
    let (n', i') ← walk h l (byRankCond rank) (h.length + 1) n i
    if i' = rank then pure (some n') else getByRankLoop h rank l n' i'

def getByRank (sl : SL) (rank : Int) : M (Option Nat) := getByRankLoop sl.heap rank sl.level 0 0

/-- `skiplist.hasInRange(min, max)` -/
def hasInRange (sl : SL) (min max : F64) : M Bool := do
  if F64.gt min max then pure false else
  match sl.tail with
  | none => pure false
  | some t =>
    let tn ← getNode sl.heap t
    if F64.gt min tn.score then pure false else
    let l0 ← getLevel sl.heap 0 0
    match l0.forward with
    | none => pure false
    | some f =>
      let fn ← getNode sl.heap f
      if F64.lt max fn.score then pure false else pure true

/-- a level loop without bookkeeping: `for level := l-1; level >= 0; level-- { walk }` -/
def descend (h : List Node) (cond : Node → Int → Bool) : Nat → Nat → M Nat
  | 0, n => pure n
  | l + 1, n => do
    let (n', _) ← walk h l cond (h.length + 1) n 0
    descend h cond l n'

/-- `skiplist.getFirstInRange(min, max)` -/
def getFirstInRange (sl : SL) (min max : F64) : M (Option Nat) := do
  if !(← hasInRange sl min max) then pure none else
  let n ← descend sl.heap (fun fn _ => F64.gt min fn.score) sl.level 0
  let l0 ← getLevel sl.heap n 0
  match l0.forward with
  | none => throw .panic                      -- `n.Item.Score` on nil
  | some f =>
    let fn ← getNode sl.heap f
    if F64.lt max fn.score then pure none else pure (some f)

/-- `skiplist.getLastInRange(min, max)` (may return the header on an unsound structure) -/
def getLastInRange (sl : SL) (min max : F64) : M (Option Nat) := do
  if !(← hasInRange sl min max) then pure none else
  let n ← descend sl.heap (fun fn _ => F64.ge max fn.score) sl.level 0
  let nd ← getNode sl.heap n
  if F64.gt min nd.score then pure none else pure (some n)

def minCond (min : F64) (mode : Nat) : Node → Int → Bool :=
  fun fn _ => !(if mode % 2 = 1 then F64.lt min fn.score else F64.le min fn.score)

def maxStop (max : F64) (mode : Nat) (nd : Node) : Bool :=
  if mode / 2 % 2 = 1 then F64.le max nd.score else F64.lt max nd.score

/-- `for node != nil { if out of range break; next := …; removed = append(…); removeNode; if limit reached break; node = next }` -/
def removeRangeLoop (max : F64) (limit : Int) (mode : Nat) (update : List (Option Nat)) :
    Nat → SL → Option Nat → List Item → M (SL × List Item)
  | 0, _, _, _ => throw .fuel
  | _ + 1, sl, none, removed => pure (sl, removed.reverse)
  | fuel + 1, sl, some n, removed => do
    let nd ← getNode sl.heap n
    if maxStop max mode nd then pure (sl, removed.reverse) else
    let l0 ← getLevel sl.heap n 0
    let removed := nd.item :: removed
    let sl' ← removeNode sl n update
    if limit > 0 ∧ (removed.length : Int) = limit then pure (sl', removed.reverse)
    else removeRangeLoop max limit mode update fuel sl' l0.forward removed

/-- `skiplist.removeRange(min, max, limit, mode)` -/
def removeRange (sl : SL) (min max : F64) (limit : Int) (mode : Nat) : M (SL × List Item) := do
  let (x, _, update, _) ← search sl.heap (minCond min mode) sl.level 0 0 emptyUpdate emptyRank
  let l0 ← getLevel sl.heap x 0
  removeRangeLoop max limit mode update (sl.heap.length + 1) sl l0.forward []

def startCond (start : Int) : Node → Int → Bool := fun _ a => a < start

/-- `for node != nil && i <= stop { next; removed; removeNode; node = next; i++ }` -/
def removeRankLoop (stop : Int) (update : List (Option Nat)) :
    Nat → SL → Option Nat → Int → List Item → M (SL × List Item)
  | 0, _, _, _, _ => throw .fuel
  | _ + 1, sl, none, _, removed => pure (sl, removed.reverse)
  | fuel + 1, sl, some n, i, removed => do
    if !(i ≤ stop) then pure (sl, removed.reverse) else
    let nd ← getNode sl.heap n
    let l0 ← getLevel sl.heap n 0
    let sl' ← removeNode sl n update
    removeRankLoop stop update fuel sl' l0.forward (i + 1) (nd.item :: removed)

/-- `skiplist.removeRangeByRank(start, stop)` -/
def removeRangeByRank (sl : SL) (start stop : Int) : M (SL × List Item) := do
  let (x, i, update, _) ← search sl.heap (startCond start) sl.level 0 0 emptyUpdate emptyRank
  let l0 ← getLevel sl.heap x 0
  removeRankLoop stop update (sl.heap.length + 1) sl l0.forward (i + 1) []

/-! ### the level-0 chain and `abs` (the canonical dump is in Driver/SlOps.lean) -/

/-- node indexes reached from `start` by level-0 forwards (fuel-bounded; stops at a dangling pointer) -/
def chainFrom (h : List Node) : Nat → Option Nat → List Nat
  | 0, _ => []
  | _ + 1, none => []
  | fuel + 1, some n =>
    match h[n]? with
    | none => []
    | some nd =>
      match nd.level[0]? with
      | none => [n]
      | some l => n :: chainFrom h fuel l.forward

/-- the level-0 chain without the header -/
def chain (sl : SL) : List Nat := (chainFrom sl.heap (sl.heap.length + 1) (some 0)).drop 1

/-- the abstraction: items along the level-0 chain -/
def abs (sl : SL) : List Item :=
  (chain sl).filterMap fun n => (sl.heap[n]?).map Node.item

end NodisVerif.Skiplist
