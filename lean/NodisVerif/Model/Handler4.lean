import NodisVerif.Model.Handler3
import NodisVerif.Model.Geohash
import NodisVerif.Model.GeoText
/-
  handler.go + geo.go, the commands that had no model: CLIENT, CONFIG, INFO, QUIT, SAVE and the GEO
  family, transcribed statement by statement (bug-compatible: see FINDINGS.md for what the
  transcription brought to light).

  Exact: arity and option parsing, every error reply, MULTI queuing (what runs before
  `execCommand` and what inside), reply framing, GEOADD's effect (= ZADD of `float64(hash)` for
  every item, one watch signal, one ZADD record per item), GEOHASH, the geohash of GEORADIUS*
  WITHHASH, every coordinate GEOPOS / WITHCOORD reports (as a bit pattern).
  Relational (the implementation's own answer is passed in as `Choice`, the list of the bulk strings
  of its reply, and checked): which members a radius query returns (each must be a member of the
  key), the `%0.4f` distance texts of GEODIST and GEORADIUS WITHDIST (opaque: sin / cos / asin / sqrt
  are outside the model; `0.0000` where the code computes the distance of a point to itself), the
  decimal text of a coordinate (must parse back — correctly rounded — to exactly the modelled bits).
  INFO: one bulk string; the model's text is the deterministic `# Keyspace` section, the variable
  part before it (process id, memory, clients) is cut off on the implementation's side.
  CLIENT LIST: the peer address is replaced by `?` on the implementation's side.
-/
namespace NodisVerif.Handler4
open Resp Api Handler Handler3 Store

/-! ## CLIENT, CONFIG, INFO, QUIT, SAVE -/

def clientListText : Bytes :=
  Bytes.ofString "id=1 addr=? fd=5 name= age=0 idle=0 flags=N db=0 sub=0 psub=0 multi=-1 qbuf=0 qbuf-free=0 obl=0 oll=0 omem=0 events=r cmd=client"

def client (args : List Bytes) : HRes :=
  match args with
  | [] => errReply
  | sub :: _ =>
    .exec fun s _ _ =>
      let u := upper sub
      if u = Bytes.ofString "LIST" then done s [.simple clientListText]
      else if u = Bytes.ofString "SETNAME" then done s [ok]
      else done s [e]

def config (args : List Bytes) : HRes :=
  match args with
  | a0 :: a1 :: _ =>
    .exec fun s _ _ =>
      if a0 = Bytes.ofString "GET" ∧ upper a1 = Bytes.ofString "DATABASES" then
        done s [.arr 2, .bulk (Bytes.ofString "databases"), .bulk (Bytes.ofString "0")]
      else done s [.nullBulk]
  | _ => errReply

/-- `Nodis.Keyspace()`: (keys, expires, avg_ttl) over every index record -/
def keyspace (s : MState) (now : Int) : Int × Int × Int :=
  let nkeys : Int := s.index.length
  let expires : Int := (s.index.filter fun p => p.2.expired now).length
  let sum : Int := s.index.foldl (fun acc p => if p.2.exp != 0 then acc + (p.2.exp - now) else acc) 0
  (nkeys, expires, if nkeys > 0 then Int.tdiv (Int.tdiv sum nkeys) 1000 else sum)

/-- the `# Keyspace` section and the closing line of INFO's bulk string -/
def infoTail (s : MState) (now : Int) : Bytes :=
  let (nkeys, expires, avg) := keyspace s now
  Bytes.ofString "# Keyspace\r\n" ++
    (if nkeys > 0 then
      Bytes.ofString "db0:keys=" ++ formatInt nkeys ++ Bytes.ofString ",expires=" ++ formatInt expires ++
        Bytes.ofString ",avg_ttl=" ++ formatInt avg ++ crlf
     else []) ++ crlf

def info : HRes := .exec fun s now _ => done s [.bulk (infoTail s now)]

/-- QUIT: `WriteOK` and then `conn.Network.Close()` — the reply is written into the connection's
    buffer; the flush that follows the handler finds the socket closed (FINDINGS.md) -/
def quit : HRes := .exec fun s _ _ => done s [ok]

/-- SAVE: `n.store.flush()` -/
def save : HRes := .exec fun s now _ => done (Store.flush s now) [ok]

/-! ## GEO: the API functions of geo.go -/

/-- `float64(member.Hash())`: the score GEOADD stores (0 when the position is rejected by Encode) -/
def geoScore (lon lat : F64) : F64 := F64.ofNat (Geohash.encodeWGS84 lon lat).toNat

/-- `DecodeToLongLatWGS84(uint64(score))` -/
def scorePos (score : F64) : F64 × F64 := Geohash.decodeWGS84 (UInt64.ofNat (F64.toUInt64 score))

/-- `GeoAdd(key, members…)` on (member, score) pairs: one `writeKey`, a `ZAdd` per member, one watch
    signal, one ZADD record per member -/
def geoAdd (s : MState) (now : Int) (key : Bytes) (items : List (Bytes × F64)) : R :=
  let (s, _) := writeKey s now key (some (.zset DsZSet.empty))
  match items with
  | [] => (signal s key, .int 0)          -- no member: the value is never asserted; watchers are still told
  | _ =>
  match asZSet s key with
  | none => (s, .panic)
  | some z =>
    let (z', v) := items.foldl (fun (acc : ZSet × Int) it =>
        let (z', r) := DsZSet.zAdd acc.1 it.1 it.2
        (z', acc.2 + r)) (z, 0)
    let s := setVal s key (.zset z')
    let s := signal s key
    (items.foldl (fun s it => emit s (opZAdd key it.1 it.2)) s, .int v)

/-- `GeoAddNX`: `if meta.isOk() { return nil }` right after a creating `writeKey` — which always
    hands back a usable record: nothing is ever added (FINDINGS.md) -/
def geoAddNX (s : MState) (now : Int) (key : Bytes) (items : List (Bytes × F64)) : R :=
  let (s, ok) := writeKey s now key (some (.zset DsZSet.empty))
  if ok then (s, .int 0) else
  match items, asZSet s key with
  | [], _ => (s, .int 0)
  | _, none => (s, .panic)
  | _, some z =>
    let (z', v, added) := items.foldl (fun (acc : ZSet × Int × List (Bytes × F64)) it =>
        let (z', r) := DsZSet.zAddNX acc.1 it.1 it.2
        (z', acc.2.1 + r, if r > 0 then acc.2.2 ++ [it] else acc.2.2)) (z, 0, [])
    let s := setVal s key (.zset z')
    if added.isEmpty then (s, .int v) else
    (added.foldl (fun s it => emit s (opZAdd key it.1 it.2)) (signal s key), .int v)

/-- `GeoAddXX`: never creates; only members that exist are stored, signalled and emitted -/
def geoAddXX (s : MState) (now : Int) (key : Bytes) (items : List (Bytes × F64)) : R :=
  let (s, ok) := writeKey s now key none
  if !ok then (s, .int 0) else
  match items, asZSet s key with
  | [], _ => (s, .int 0)
  | _, none => (s, .panic)
  | _, some z =>
    let (z', v, changed) := items.foldl (fun (acc : ZSet × Int × List (Bytes × F64)) it =>
        let ex := DsZSet.zExists acc.1 it.1
        let (z', r) := DsZSet.zAddXX acc.1 it.1 it.2
        (z', acc.2.1 + r, if ex then acc.2.2 ++ [it] else acc.2.2)) (z, 0, [])
    let s := setVal s key (.zset z')
    if changed.isEmpty then (s, .int v) else
    (changed.foldl (fun s it => emit s (opZAdd key it.1 it.2)) (signal s key), .int v)

/-- one member of `GeoHash`: the decoded position goes through `Encode` on the ranges ±180 / ±90 with
    longitude and latitude exchanged (`latitude, longitude := DecodeToLongLatWGS84(…)`), an Encode
    error leaves the zero hash -/
def geoHashOf (score : F64) : Bytes :=
  let (a, b) := scorePos score              -- a = longitude, b = latitude
  let code := (Geohash.encode ⟨Geohash.f180, Geohash.fm180⟩ ⟨Geohash.f90, Geohash.fm90⟩ b a Geohash.wgsStep).getD 0
  Geohash.encodeToBase32 code

/-- the results of `GeoHash`: the loop returns at the first member without a score -/
def geoHashList (z : ZSet) : List Bytes → List Bytes
  | [] => []
  | m :: rest =>
    match DsZSet.zScore z m with
    | none => []
    | some sc => geoHashOf sc :: geoHashList z rest

/-! ## GEO: the handlers -/

/-- `redis.FormatFloat64(a)` with decimal fractions -/
def floatG (a : Bytes) : Pre F64 :=
  match GeoText.redisFloat a with
  | none => .crash
  | some none => .err
  | some (some none) => .unsup
  | some (some (some x)) => .ok x

/-- the `for i := 0; i < len(args); i += 3` loop of geoAdd: (member, longitude, latitude) -/
def parseItems : List Bytes → Pre (List (Bytes × F64 × F64))
  | lo :: la :: m :: rest => do
    let lon ← floatG lo
    let lat ← floatG la
    let more ← parseItems rest
    pure ((m, lon, lat) :: more)
  | _ => pure []

def geoAddH (args : List Bytes) : HRes :=
  if args.length < 4 then errReply else
  match args with
  | [] => errReply
  | key :: _ =>
    let nx := opt args "NX"
    let xx := opt args "XX"
    let rest : List Bytes :=
      if nx = 2 ∨ xx = 2 then args.drop 2
      else if nx = 1 ∨ xx = 1 then (if opt args "CH" = 2 then args.drop 2 else args.drop 1)
      else args.drop 1
    if rest.length < 3 then errReply else
    if rest.length % 3 ≠ 0 then errReply else
    Pre.run do
      let items ← parseItems rest
      let scored := items.map fun it => (it.1, geoScore it.2.1 it.2.2)
      pure (.exec fun s now _ =>
        call ((if nx = 1 then geoAddNX else if xx = 1 then geoAddXX else geoAdd) s now key scored) fun s o =>
          done s [.int (intOf o)])

def geoHashH (args : List Bytes) : HRes :=
  match args with
  | key :: m0 :: ms =>
    .exec fun s now _ =>
      let (s, okk) := readKey s now key
      if !okk then done s [.arr 0] else
      match asZSet s key with
      | none => panicOut s
      | some z => done s (bulkList (geoHashList z (m0 :: ms)))
  | _ => errReply

/-- a coordinate as the handler writes it (`strconv.FormatFloat(x, 'f', -1, 64)`): the
    implementation's text if it denotes exactly `x`, the bit pattern when no text is at hand (a command
    queued in MULTI), a marker otherwise -/
def coordText (x : F64) (t : Option Bytes) : Bytes :=
  match t with
  | none => GeoText.bitsText x
  | some t => if GeoText.parseFloat t = some (some x) then t else Bytes.ofString "INVALID-CHOICE"

/-- GEOPOS, one value per member: `Latitude: lat, Longitude: lng` with
    `lat, lng := DecodeToLongLatWGS84(…)`, which returns (longitude, latitude): the reply has the
    latitude first (FINDINGS.md) -/
def geoPosVals (z : ZSet) : List Bytes → List Bytes → List (List Tok)
  | [], _ => []
  | m :: rest, texts =>
    match DsZSet.zScore z m with
    | none => [.nullBulk] :: geoPosVals z rest texts
    | some sc =>
      [.arr 2, .bulk (coordText (scorePos sc).2 texts.head?), .bulk (coordText (scorePos sc).1 (texts.drop 1).head?)]
        :: geoPosVals z rest (texts.drop 2)

def geoPosH (args : List Bytes) : HRes :=
  match args with
  | key :: m0 :: ms =>
    .exec fun s now ch =>
      let (s, okk) := readKey s now key
      if !okk then panicOut s else            -- `meta == nil` never holds: the empty record's nil value is asserted
      match asZSet s key with
      | none => panicOut s
      | some z => done s (.arr ((m0 :: ms).length) :: (geoPosVals z (m0 :: ms) (ch.getD [])).flatten)
  | _ => errReply

def zeroDist : Bytes := Bytes.ofString "0.0000"

/-- an opaque `%0.4f` text from the implementation -/
def distText (t : Option Bytes) : Bytes := t.getD (Bytes.ofString "DIST")

def geoDistH (args : List Bytes) : HRes :=
  match args with
  | key :: m1 :: m2 :: _ =>
    .exec fun s now ch =>
      let (s, okk) := readKey s now key
      if !okk then done s [.bulk zeroDist] else
      match asZSet s key with
      | none => panicOut s
      | some z =>
        match DsZSet.zScore z m1, DsZSet.zScore z m2 with
        | some s1, some s2 =>
          if F64.toUInt64 s1 = F64.toUInt64 s2 then done s [.bulk zeroDist]
          else done s [.bulk (distText (ch.bind (·.head?)))]
        | _, _ => done s [.nullBulk]
  | _ => errReply

/-- the options of a radius query that shape its reply -/
structure RadiusOpts where
  plain : Bool          -- none of WITHCOORD / WITHDIST / WITHHASH given (tested `== 0`)
  dist  : Bool          -- tested `> 3`
  hash  : Bool
  coord : Bool

def radiusOpts (args : List Bytes) : RadiusOpts :=
  { plain := opt args "WITHCOORD" = 0 ∧ opt args "WITHDIST" = 0 ∧ opt args "WITHHASH" = 0
    dist := opt args "WITHDIST" > 3, hash := opt args "WITHHASH" > 3, coord := opt args "WITHCOORD" > 3 }

/-- how many bulk strings one element of the reply holds -/
def RadiusOpts.stride (o : RadiusOpts) : Nat :=
  if o.plain then 1 else 1 + (if o.dist then 1 else 0) + (if o.coord then 2 else 0)

/-- the implementation's bulk strings cut into elements -/
def chunks (n : Nat) : Nat → List Bytes → List (List Bytes)
  | 0, _ => []
  | fuel + 1, l => if n = 0 ∨ l.length < n then [] else l.take n :: chunks n fuel (l.drop n)

def invalidChoice : Bytes := Bytes.ofString "INVALID-CHOICE"

/-- the distance text of one element; `fixedDist` = the text the model knows (GEORADIUSBYMEMBER) -/
def elemDist (fixedDist : Option Bytes) (t : Option Bytes) : Bytes :=
  match fixedDist with
  | some d => if t = some d then d else invalidChoice
  | none => distText t

/-- one element of a radius reply -/
def radiusElem (z : ZSet) (o : RadiusOpts) (fixedDist : Option Bytes) (c : List Bytes) : List Tok :=
  let m := c.headD []
  let sc? := DsZSet.zScore z m
  let mTok : Tok := .bulk (if sc?.isSome then m else invalidChoice)
  if o.plain then [mTok] else
  let pos := scorePos (sc?.getD 0)
  let l : Int := 1 + (if o.coord then 1 else 0) + (if o.dist then 1 else 0) + (if o.hash then 1 else 0)
  [.arr l, mTok] ++
    (if o.dist then [Tok.bulk (elemDist fixedDist c[1]?)] else []) ++
    (if o.hash then [Tok.int (Geohash.encodeWGS84 pos.1 pos.2).toNat] else []) ++
    (if o.coord then
      [Tok.arr 2, .bulk (coordText pos.1 c[if o.dist then 2 else 1]?), .bulk (coordText pos.2 c[(if o.dist then 2 else 1) + 1]?)] else [])

def radiusReply (z : ZSet) (o : RadiusOpts) (fixedDist : Option Bytes) (ch : Choice) : List Tok :=
  let cs := chunks o.stride ((ch.getD []).length) (ch.getD [])
  .arr cs.length :: (cs.map (radiusElem z o fixedDist)).flatten

/-- Encode's position check, the only way `GetAreasByRadiusWGS84` fails -/
def outOfRange (lon lat : F64) : Bool :=
  F64.gt lon Geohash.f180 || F64.lt lon Geohash.fm180 || F64.gt lat Geohash.latMax || F64.lt lat Geohash.latMin

def f1000 : F64 := 0x408F400000000000
def fMile : F64 := 0x4099255C28F5C28F     -- 1609.34
def fFoot : F64 := 0x3FD381D7DBF487FD     -- 0.3048

/-- `COUNT n` as both radius handlers read it (outside `execCommand`) -/
def countP (args : List Bytes) : Pre Int :=
  let c := opt args "COUNT"
  if c > 3 ∧ opt args "ANY" = 0 then do
    let a ← argP args c
    intP a
  else pure (-1)

def geoRadiusH (args : List Bytes) : HRes :=
  match args with
  | key :: lo :: la :: ra :: _ =>
    Pre.run do
      let lon ← floatG lo
      let lat ← floatG la
      let _radius ← floatG ra
      let _count ← countP args
      pure (.exec fun s now ch =>
        let (s, okk) := readKey s now key
        if !okk then done s [.arr 0] else
        -- `GetAreasByRadiusWGS84` fails before the value is asserted to be a sorted set
        if outOfRange lon lat then done s [.nullArr] else
        match asZSet s key with
        | none => panicOut s
        | some z => done s (radiusReply z (radiusOpts args) none ch))
  | _ => errReply

def geoRadiusByMemberH (args : List Bytes) : HRes :=
  match args with
  | key :: member :: ra :: _ =>
    Pre.run do
      let _radius ← floatG ra
      let _count ← countP args
      pure (.exec fun s now ch =>
        let (s, okk) := readKey s now key
        if !okk then done s [.arr 0] else
        match asZSet s key with
        | none => panicOut s
        | some z =>
          match DsZSet.zScore z member with
          | none => done s [.nullArr]
          | some sc =>
            -- `lat, lng := DecodeToLongLatWGS84(…)`; `GetAreasByRadiusWGS84(lng, lat, …)`: exchanged
            let (a, b) := scorePos sc
            if outOfRange b a then done s [.nullArr]
            else done s (radiusReply z (radiusOpts args) (some zeroDist) ch))
  | _ => errReply

def table4 (name : String) (args : List Bytes) : Option HRes :=
  match name with
  | "CLIENT" => some (client args)
  | "CONFIG" => some (config args)
  | "INFO" => some info
  | "QUIT" => some quit
  | "SAVE" => some save
  | "GEOADD" => some (geoAddH args)
  | "GEOHASH" => some (geoHashH args)
  | "GEOPOS" => some (geoPosH args)
  | "GEODIST" => some (geoDistH args)
  | "GEORADIUS" => some (geoRadiusH args)
  | "GEORADIUSBYMEMBER" => some (geoRadiusByMemberH args)
  | _ => none

end NodisVerif.Handler4
