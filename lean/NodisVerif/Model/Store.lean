import NodisVerif.Model.DsStr
import NodisVerif.Model.DsList
import NodisVerif.Model.DsHashSet
import NodisVerif.Model.DsZSet
import NodisVerif.Model.Codec
import NodisVerif.Model.F64Arith
/-
  store.go / tx.go / metadata.go: the keyspace index, hot/cold values, the storage backend, the
  lookup-or-create protocol of `writeKey` / `readKey`, eviction (`gc`), `flush`, `close`, reopen.
  Single-threaded semantics (one command at a time); interleavings are in Model/Proto.lean.

  Object identity: the in-memory backend stores *pointers* (`*ds.Key`, `ds.Value`) that stay shared
  with the index records, so later mutations show through. `kid`/`oid` are those identities and
  `syncShared` re-establishes the sharing after every step. Pebble stores copies (encoded bytes).
-/
namespace NodisVerif

/-- one index record (`metadata`) -/
structure Meta where
  exp   : Int                 -- key.Expiration, unix ms, 0 = no deadline
  value : Option Val          -- none = not in memory (cold)
  count : Int := 0            -- access counter used by gc
  vtype : Nat := 0            -- cached valueType (0 = none)
  state : Nat := 0            -- bit 1 = normal (isOk), bit 2 = modified
  kid   : Nat := 0            -- identity of the *ds.Key object
  oid   : Nat := 0            -- identity of the value object
  stored : Option Int := none -- deadline under which the value currently sits in the backend (entries are
                              -- addressed by (deadline, name)); none = nothing stored
deriving Repr, Inhabited

/-- one backend entry -/
structure DiskEntry where
  name : Bytes
  exp  : Int
  val  : Val
  kid  : Nat := 0
  oid  : Nat := 0
deriving Repr, Inhabited

/-- change-feed record (patch.Op), only the fields that are set by the emitter -/
structure FeedOp where
  typ  : Nat
  key  : Bytes
  args : List String := []      -- rendered fields, canonical text
deriving Repr, Inhabited

structure MState where
  index   : AList Meta := []
  disk    : AList DiskEntry := []     -- keyed by Key.Encode() bytes
  pebble  : Bool := false
  nextId  : Nat := 1
  closed  : Bool := false
  failSet : Nat := 0                  -- fault injection: the next `failSet` backend writes fail
  feed    : List FeedOp := []         -- emitted since the last drain (newest first)
  listeners : Bool := false
  signalled : List Bytes := []        -- keys passed to signalModifiedKey during the current call
  held    : List (Bytes × Bool) := []  -- records locked by the running call: (name, write lock?)
  hung    : Bool := false              -- the running call locked a record it already holds: it never returns
  flushed : Bool := false              -- Clear() ran during the current call: every watched key counts as changed
deriving Repr, Inhabited

namespace Meta
def isOk (m : Meta) : Bool := m.state % 2 = 1
def isModified (m : Meta) : Bool := m.value.isSome && (m.state / 2) % 2 = 1
/-- `metadata.expired(now)` -/
def expired (m : Meta) (now : Int) : Bool := m.exp != 0 && m.exp ≤ now
def setValue (m : Meta) (v : Val) : Meta :=
  { m with value := some v, state := if m.state % 2 = 1 then m.state else m.state + 1, vtype := v.typeCode }
def markModified (m : Meta) : Meta :=
  { m with state := if (m.state / 2) % 2 = 1 then m.state else m.state + 2 }
end Meta

namespace Store

def fresh (s : MState) : Nat × MState := (s.nextId, { s with nextId := s.nextId + 1 })

/-- `storage.Get(m.key)`: lookup under the *current* encoding of (exp, name) -/
def diskGet (s : MState) (name : Bytes) (exp : Int) : Option DiskEntry :=
  AList.get? s.disk (Codec.encodeKey name exp)

/-- after a step, restore value sharing of the in-memory backend (it stores the value *pointer*;
    keys are stored as copies) -/
def syncShared (s : MState) : MState :=
  if s.pebble then s else
  { s with disk := s.disk.map fun (k, e) =>
      let e := match s.index.find? (fun (_, m) => m.oid = e.oid ∧ e.oid ≠ 0 ∧ m.value.isSome) with
        | some (_, m) => { e with val := m.value.getD e.val }
        | none => e
      (k, e) }

/-- `storage.Set(m.key, m.value)`; false = the backend reported an error -/
def diskSet (s : MState) (name : Bytes) (m : Meta) : MState × Bool :=
  if s.failSet > 0 then ({ s with failSet := s.failSet - 1 }, false) else
  match m.value with
  | none => (s, true)
  | some v =>
    let ent : DiskEntry := { name := name, exp := m.exp, val := v,
                             kid := if s.pebble then 0 else m.kid, oid := if s.pebble then 0 else m.oid }
    ({ s with disk := AList.set s.disk (Codec.encodeKey name m.exp) ent }, true)

def diskDelete (s : MState) (name : Bytes) (exp : Int) : MState :=
  { s with disk := AList.erase s.disk (Codec.encodeKey name exp) }

/-- `metadata.persist`: write under the current deadline, then drop the entry written under an
    earlier deadline (in this order a crash in between leaves two entries, never none; a failed write
    leaves the previous entry in place), remember where. Returns the updated record and whether the
    write succeeded. -/
def persist (s : MState) (name : Bytes) (m : Meta) : MState × Meta × Bool :=
  let (s, ok) := diskSet s name m
  if !ok then (s, m, false) else
  let s := match m.stored with
    | some e => if e ≠ m.exp then diskDelete s name e else s
    | none => s
  (s, { m with stored := some m.exp }, true)

/-- `metadata.unpersist` -/
def unpersist (s : MState) (name : Bytes) (m : Meta) : MState :=
  match m.stored with
  | some e => diskDelete s name e
  | none => s

/-- what `storage.Get` hands back: the shared object (memory) or a decoded copy (Pebble).
    `none` = ErrKeyNotFound / undecodable -/
def loadValue (s : MState) (name : Bytes) (m : Meta) : Option (Val × Nat) :=
  match diskGet s name m.exp with
  | none => none
  | some e =>
    if s.pebble then (Codec.decodeEntry (Codec.encodeEntry e.val)).map fun v => (v, 0)
    else some (e.val, e.oid)

def getMeta (s : MState) (key : Bytes) : Option Meta := AList.get? s.index key
def putMeta (s : MState) (key : Bytes) (m : Meta) : MState := { s with index := AList.set s.index key m }
def modMeta (s : MState) (key : Bytes) (f : Meta → Meta) : MState :=
  match getMeta s key with
  | some m => putMeta s key (f m)
  | none => s
/-- `tx.delKey`: unlink the record and remove its backend entry; a lock held on it stays with the
    orphaned record -/
def delKey (s : MState) (key : Bytes) : MState :=
  let s := match AList.get? s.index key with
    | some m => unpersist s key m
    | none => s
  { s with index := AList.erase s.index key, held := s.held.filter (·.1 ≠ key) }

/-- `lockKey` on an indexed record: a record this call already write-locked is reused; asking for
    a write lock on a record the call holds for reading can never be granted (self-deadlock) -/
def lockW (s : MState) (key : Bytes) : MState :=
  if s.held.any (fun h => h.1 = key ∧ h.2) then s
  else if s.held.any (·.1 = key) then { s with hung := true }
  else { s with held := (key, true) :: s.held }
/-- `rLockKey`: a record the call already holds (either way) is reused -/
def lockR (s : MState) (key : Bytes) : MState :=
  if s.held.any (·.1 = key) then s else { s with held := (key, false) :: s.held }

/-- `newKey(m, key, newFn)` with a constructor: (re)initialise the record and publish it -/
def newKeyWith (s : MState) (key : Bytes) (old : Option Meta) (v : Val) : MState :=
  let (kid, s) := fresh s
  let (oid, s) := fresh s
  let base : Meta := match old with
    | some m => m
    | none => { exp := 0, value := none }
  -- publishing a brand-new record over a dead one: the dead record's backend entry goes with it
  let s := match old, getMeta s key with
    | none, some dead => unpersist s key dead
    | _, _ => s
  let m := ({ base with exp := 0, kid := kid, oid := oid }.setValue v).markModified
  putMeta s key m

/-- `tx.writeKey(key, newFn)`: `mk = none` is a nil constructor.
    Result: is the returned record ok (present / created)? The record itself is then `getMeta`. -/
def writeKey (s : MState) (now : Int) (key : Bytes) (mk : Option Val) : MState × Bool :=
  match getMeta s key with
  | some m0 =>
    let s := lockW s key
    let m := { m0 with count := m0.count + 1 }
    let s := putMeta s key m
    if m.isOk then
      if m.expired now then
        (match mk with
         | some v => (newKeyWith s key (some m) v, true)
         | none => (s, false))
      else if m.value.isSome then (s, true)
      else match loadValue s key m with
        | some (v, oid) => (putMeta s key ({ m with oid := oid }.setValue v), true)
        | none =>
          (match mk with
           | some v => (newKeyWith s key (some m) v, true)
           | none => (s, false))
    else
      (match mk with
       | some v => (newKeyWith s key (some m) v, true)
       | none => (s, false))
  | none =>
    match mk with
    | some v => (newKeyWith s key none v, true)
    | none => (s, false)

/-- `tx.readKey(key)` -/
def readKey (s : MState) (now : Int) (key : Bytes) : MState × Bool :=
  match getMeta s key with
  | some m0 =>
    let s := lockR s key
    let m := { m0 with count := m0.count + 1 }
    let s := putMeta s key m
    if m.isOk then
      if m.expired now then (s, false)
      else if m.value.isSome then (s, true)
      else match loadValue s key m with
        | some (v, oid) => (putMeta s key ({ m with oid := oid }.setValue v), true)
        | none => (s, false)
    else (s, false)
  | none => (s, false)

/-- value of a key known to be ok and hot -/
def valOf (s : MState) (key : Bytes) : Option Val := (getMeta s key).bind (·.value)

/-- `signalModifiedKey(key, meta)`: mark modified (watch flags are handled by Model.Conn) -/
def signal (s : MState) (key : Bytes) : MState :=
  { modMeta s key Meta.markModified with signalled := key :: s.signalled }

def emit (s : MState) (op : FeedOp) : MState :=
  if s.listeners then { s with feed := op :: s.feed } else s

/-- one pass of `store.gc()` -/
def gc (s : MState) (now : Int) : MState :=
  if s.closed then s else
  let step (s : MState) (ent : Bytes × Meta) : MState :=
    let (key, m) := ent
    if m.expired now || !m.isOk then
      -- unlinked (after the scan) together with its backend entry
      let s := unpersist s key m
      { s with index := AList.erase s.index key }
    else
      let (s, m, ok) := if m.isModified then persist s key m else (s, m, true)
      if !ok then putMeta s key m else      -- write failed: stays in memory, stays modified
      -- reset(): state = normal, count--
      let m' := { m with state := 1, count := m.count - 1 }
      let m' := if m'.count < 0 then { m' with value := none } else m'
      putMeta s key m'
  syncShared (s.index.foldl step s)

/-- `store.flush()` -/
def flush (s : MState) (now : Int) : MState :=
  let step (s : MState) (ent : Bytes × Meta) : MState :=
    let (key, m) := ent
    if m.expired now || !m.isOk then
      -- a dead key's backend entry is removed (the record stays indexed until a gc pass)
      putMeta (unpersist s key m) key { m with stored := none }
    else if !m.isModified then s
    else
      let (s, m, _) := persist s key m
      putMeta s key m
  syncShared (s.index.foldl step s)

/-- `store.close()` -/
def close (s : MState) (now : Int) : MState := { flush { s with closed := true } now with closed := true }

/-- `newStore(ss)` on the backend left behind: one cold record per stored name; of several entries
    for one name the last in byte order of the encoding wins and the others are deleted -/
def reopen (s : MState) : MState :=
  let (idx, shadowed) := s.disk.foldl (fun (acc : AList Meta × List (Bytes × Int)) (_, e) =>
      let sh := match AList.get? acc.1 e.name with
        | some old => (match old.stored with | some oe => (e.name, oe) :: acc.2 | none => acc.2)
        | none => acc.2
      (AList.set acc.1 e.name { exp := e.exp, value := none, state := 1, kid := e.kid, oid := e.oid, stored := some e.exp }, sh)) ([], [])
  let s := shadowed.foldl (fun s (n, e) => diskDelete s n e) s
  { s with index := idx, closed := false, feed := [], signalled := [] }

/-- `store.clear()` -/
def clear (s : MState) : MState := { s with index := [], disk := [], flushed := true }

end Store
end NodisVerif
