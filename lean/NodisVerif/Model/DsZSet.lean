import NodisVerif.Model.Val
import NodisVerif.Model.Glob
/-
  ds/zset/sorted_set.go + skiplist.go at level (a): the skiplist is its level-0 chain, an ordered
  list of (score, member). Every query keeps the code's own normalisation (1-based rank windows,
  offset/limit handling, nil dereferences as `none`). Random levels, spans and pointer wiring are
  not modelled here: on a structurally sound skiplist the functions below are what the Go code
  computes; soundness of the real structure is checked on the implementation by the harness.
-/
namespace NodisVerif.DsZSet

abbrev Item := F64 × Bytes        -- (score, member)

def empty : ZSet := { dict := [], sl := [] }

/-- node order used by insert/remove: score, then member bytes -/
def nodeLt (n : Item) (score : F64) (member : Bytes) : Bool :=
  F64.lt n.1 score || (F64.eq n.1 score && Bytes.lt n.2 member)

/-- `skiplist.insert`: after every node that is "less" -/
def slInsert : List Item → Bytes → F64 → List Item
  | [], m, s => [(s, m)]
  | n :: rest, m, s => if nodeLt n s m then n :: slInsert rest m s else (s, m) :: n :: rest

/-- `skiplist.remove(member, score)`: the first node that is not "less" is removed iff it is
    exactly (score, member) -/
def slRemove : List Item → Bytes → F64 → List Item
  | [], _, _ => []
  | n :: rest, m, s =>
    if nodeLt n s m then n :: slRemove rest m s
    else if F64.eq s n.1 ∧ n.2 = m then rest else n :: rest

def zAdd (z : ZSet) (member : Bytes) (score : F64) : ZSet × Int :=
  match AList.get? z.dict member with
  | some old =>
    -- an equal score (IEEE equality: also +0 against -0) changes nothing, neither in the
    -- dictionary nor in the index
    if F64.eq score old then (z, 0) else
    ({ dict := AList.set z.dict member score, sl := slInsert (slRemove z.sl member old) member score }, 0)
  | none => ({ dict := AList.set z.dict member score, sl := slInsert z.sl member score }, 1)

def zAddXX (z : ZSet) (m : Bytes) (s : F64) : ZSet × Int :=
  if AList.contains z.dict m then zAdd z m s else (z, 0)
def zAddNX (z : ZSet) (m : Bytes) (s : F64) : ZSet × Int :=
  if !AList.contains z.dict m then zAdd z m s else (z, 0)
def zAddLT (z : ZSet) (m : Bytes) (s : F64) : ZSet × Bool :=
  match AList.get? z.dict m with
  | some e => if F64.gt e s then ((zAdd z m s).1, true) else (z, false)
  | none => (z, false)
def zAddGT (z : ZSet) (m : Bytes) (s : F64) : ZSet × Bool :=
  match AList.get? z.dict m with
  | some e => if F64.lt e s then ((zAdd z m s).1, true) else (z, false)
  | none => (z, false)

def zCard (z : ZSet) : Int := z.dict.length

def zRem (z : ZSet) (ms : List Bytes) : ZSet × Int :=
  ms.foldl (fun (acc : ZSet × Int) m =>
    match AList.get? acc.1.dict m with
    | some sc => ({ dict := AList.erase acc.1.dict m, sl := slRemove acc.1.sl m sc }, acc.2 + 1)
    | none => acc) (z, 0)

/-- `skiplist.getRank`: number of nodes passed while `(score', member') ≤ (score, member)`;
    the result counts only if the walk ends on the member itself, else 0 -/
def slGetRank (sl : List Item) (member : Bytes) (score : F64) : Int :=
  let pre := sl.takeWhile fun n => F64.lt n.1 score || (F64.eq n.1 score && Bytes.le n.2 member)
  match pre.getLast? with
  | some n => if n.2 = member then pre.length else 0
  | none => 0

def getRank (z : ZSet) (member : Bytes) (desc : Bool) : Int :=
  match AList.get? z.dict member with
  | none => -1
  | some sc =>
    let r := slGetRank z.sl member sc
    if desc then (z.sl.length : Int) - r else r - 1

def zRank (z : ZSet) (m : Bytes) : Option Int :=
  if AList.contains z.dict m then some (getRank z m false) else none
def zRevRank (z : ZSet) (m : Bytes) : Option Int :=
  if AList.contains z.dict m then some (getRank z m true) else none
def zScore (z : ZSet) (m : Bytes) : Option F64 := AList.get? z.dict m

/-- the header node's item -/
def headerItem : Item := (0, [])

/-- `getByRank(rank)`: 0 ⇒ header, k ⇒ k-th node (1-based), beyond ⇒ nil.
    Returned as the chain starting at that node (so the caller can walk forward), plus the
    reversed prefix (so it can walk backward). `none` = nil. -/
structure Cursor where
  back : List Item      -- nodes before the current one, nearest first
  cur  : Item
  fwd  : List Item      -- nodes after the current one
  isHeader : Bool := false

def cursorAt (sl : List Item) (idx : Nat) : Option Cursor :=   -- 0-based node index
  match sl.drop idx with
  | [] => none
  | c :: f => some { back := (sl.take idx).reverse, cur := c, fwd := f }

def getByRank (sl : List Item) (rank : Int) : Option Cursor :=
  if rank < 0 then none
  else if rank = 0 then some { back := [], cur := headerItem, fwd := sl, isHeader := true }
  else cursorAt sl (rank.toNat - 1)

def Cursor.next (c : Cursor) : Option Cursor :=
  match c.fwd with
  | [] => none
  | n :: f => some { back := if c.isHeader then [] else c.cur :: c.back, cur := n, fwd := f }

/-- `node.backward` (nil for the first node and for the header) -/
def Cursor.prev (c : Cursor) : Option Cursor :=
  if c.isHeader then none else
  match c.back with
  | [] => none
  | p :: b => some { back := b, cur := p, fwd := c.cur :: c.fwd }

/-- walk `k+1` steps calling the consumer on each node; `none` = nil dereference -/
def walk (desc : Bool) : Option Cursor → Nat → List Item → Option (List Item)
  | _, 0, acc => some acc.reverse
  | none, _ + 1, _ => none
  | some c, k + 1, acc => walk desc (if desc then c.prev else c.next) k (c.cur :: acc)

/-- `forEachByRank(start, stop, desc, consumer)` with a consumer that always continues -/
def forEachByRank (z : ZSet) (start stop : Int) (desc : Bool) : Option (List Item) :=
  let size := zCard z
  if start > size then some [] else
  let start := if start = 0 then 1 else start
  let stop := if stop < 0 then size + stop + 1 else stop
  if stop < start then some [] else
  let start := if start < 0 then size + start else start
  let stop := if stop > size then size else stop
  let node : Option Cursor :=
    if desc then
      if start > 1 then getByRank z.sl (size - start)
      else (if z.sl.isEmpty then none else cursorAt z.sl (z.sl.length - 1))
    else
      if start > 1 then getByRank z.sl start
      else cursorAt z.sl 0
  let sliceSize := wrap64 (stop - start)  -- `int(stop - start)` wraps; loop: i = 0 … sliceSize inclusive
  if sliceSize < 0 then some [] else walk desc node (sliceSize.toNat + 1) []

def zRange (z : ZSet) (start stop : Int) := forEachByRank z start stop false
def zRevRange (z : ZSet) (start stop : Int) := forEachByRank z start stop true

def inMin (mode : Nat) (min sc : F64) : Bool := if mode % 2 = 1 then F64.gt sc min else F64.ge sc min
def inMax (mode : Nat) (max sc : F64) : Bool := if mode / 2 % 2 = 1 then F64.lt sc max else F64.le sc max

/-- `rangeCount` = `ZCount` -/
def zCount (z : ZSet) (min max : F64) (mode : Nat) : Option Int :=
  (forEachByRank z 0 (zCard z) false).map fun items =>
    ((items.filter fun it => inMin mode min it.1 && inMax mode max it.1).length : Int)

def hasInRange (sl : List Item) (min max : F64) : Bool :=
  if F64.gt min max then false else
  match sl.getLast?, sl.head? with
  | some t, some h => !(F64.gt min t.1) && !(F64.lt max h.1)
  | _, _ => false

def getFirstInRange (sl : List Item) (min max : F64) : Option Cursor :=
  if !hasInRange sl min max then none else
  let k := (sl.takeWhile fun n => F64.gt min n.1).length
  match cursorAt sl k with
  | none => none                 -- cannot happen when hasInRange (tail ≥ min); Go would panic
  | some c => if F64.lt max c.cur.1 then none else some c

def getLastInRange (sl : List Item) (min max : F64) : Option Cursor :=
  if !hasInRange sl min max then none else
  let k := (sl.takeWhile fun n => F64.ge max n.1).length
  if k = 0 then none else        -- would be the header; excluded by hasInRange on sorted data
  match cursorAt sl (k - 1) with
  | none => none
  | some c => if F64.gt min c.cur.1 then none else some c

def skipN (desc : Bool) : Option Cursor → Int → Option Cursor
  | none, _ => none
  | some c, off =>
    if off ≤ 0 then some c else
    match (if desc then c.prev else c.next) with
    | none => none
    | some c' => skipN desc (some c') (off - 1)
termination_by _ off => off.toNat
decreasing_by omega

/-- loop of `zRange`: walk the closed range from the start node; offset and limit count only
    members that satisfy the (possibly exclusive) bounds -/
def scoreLoop (desc : Bool) (min max : F64) (mode : Nat) (limit : Int) :
    Option Cursor → Int → Nat → List Item → List Item
  | none, _, _, acc => acc.reverse
  | _, _, 0, acc => acc.reverse
  | some c, offset, fuel + 1, acc =>
    let sc := c.cur.1
    if !(F64.le min sc && F64.le sc max) then acc.reverse else
    let excluded := (mode % 2 = 1 ∧ F64.eq sc min) ∨ (mode / 2 % 2 = 1 ∧ F64.eq sc max)
    let next := if desc then c.prev else c.next
    if excluded then scoreLoop desc min max mode limit next offset fuel acc
    else if offset > 0 then scoreLoop desc min max mode limit next (offset - 1) fuel acc
    else
      let acc := c.cur :: acc
      if limit > 0 ∧ (acc.length : Int) = limit then acc.reverse
      else scoreLoop desc min max mode limit next offset fuel acc

/-- `zRange(min, max, offset, limit, desc, mode)` -/
def rangeByScore (z : ZSet) (min max : F64) (offset limit : Int) (desc : Bool) (mode : Nat) : List Item :=
  if limit = 0 ∨ offset < 0 then [] else
  let start := if desc then getLastInRange z.sl min max else getFirstInRange z.sl min max
  scoreLoop desc min max mode limit start offset (z.sl.length + 1) []

/-- `skiplist.removeRange(min, max, 0, mode)` -/
def slRemoveRange (sl : List Item) (min max : F64) (mode : Nat) : List Item × List Item :=
  let pre := sl.takeWhile fun n => !(if mode % 2 = 1 then F64.lt min n.1 else F64.le min n.1)
  let rest := sl.drop pre.length
  let rem := rest.takeWhile fun n => !(if mode / 2 % 2 = 1 then F64.le max n.1 else F64.lt max n.1)
  (pre ++ rest.drop rem.length, rem)

def zRemRangeByScore (z : ZSet) (min max : F64) (mode : Nat) : ZSet × Int :=
  let (sl, rem) := slRemoveRange z.sl min max mode
  ({ dict := rem.foldl (fun d it => AList.erase d it.2) z.dict, sl := sl }, rem.length)

/-- `skiplist.removeRangeByRank(start, stop)`: 1-based inclusive ranks -/
def slRemoveRangeByRank (sl : List Item) (start stop : Int) : List Item × List Item :=
  let i0 : Nat := if start ≤ 1 then 0 else min (start - 1).toNat sl.length
  let cnt : Nat := if stop < (i0 : Int) + 1 then 0 else (stop - i0).toNat
  let rest := sl.drop i0
  (sl.take i0 ++ rest.drop cnt, rest.take cnt)

/-- `ZRemRangeByRank(start, stop)`: 0-based inclusive, negative from the end, clamped -/
def zRemRangeByRank (z : ZSet) (start stop : Int) : ZSet × Int :=
  let size := zCard z
  let start := if start < 0 then (if start + size < 0 then 0 else start + size) else start
  let stop := if stop < 0 then stop + size else stop
  let stop := if stop ≥ size then size - 1 else stop
  if start > stop ∨ start ≥ size then (z, 0) else
  let (sl, rem) := slRemoveRangeByRank z.sl (start + 1) (stop + 1)
  ({ dict := rem.foldl (fun d it => AList.erase d it.2) z.dict, sl := sl }, rem.length)

def zExists (z : ZSet) (m : Bytes) : Bool := AList.contains z.dict m

/-- `ZIncrBy` with the float sum supplied by the caller (`sum` = old + delta, or delta) -/
def zIncrByWith (z : ZSet) (m : Bytes) (newScore : F64) : ZSet := (zAdd z m newScore).1

/-- `ZScan(cursor, match, count)`: positional over the chain; an empty pattern means "*" -/
def zScan (z : ZSet) (cursor : Int) (pat : Bytes) (count : Int) : Int × List Item :=
  let pat := if pat.isEmpty then [42] else pat
  let c : Nat := if cursor < 0 then 0 else cursor.toNat
  let rest := z.sl.drop c
  let seen := if count > 0 then rest.take count.toNat else rest
  (((min c z.sl.length + seen.length : Nat) : Int), seen.filter fun it => Glob.matched pat it.2)

end NodisVerif.DsZSet
