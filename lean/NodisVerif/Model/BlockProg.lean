import NodisVerif.Model.Block
/-
  list.go (`blockingPop`, `addBlockKeys`, `notifyBlockingKey`, `removeBlockingKeys`, `BLPop` / `BRPop`, and the push
  side `LPush` / `RPush` / `RPopLPush` that calls `notifyBlockingKey` while it holds the key): the blocking-pop CODE of
  nodis as a small-step interleaving semantics.  `Model/Block.lean` is the wake-up PROTOCOL (the steps the verifTrace
  hook reports); this file is the program that takes those steps.  Props/C18.lean proves that every run of this
  program, under every schedule (any number of poppers and pushers, any interleaving, any timer firing), emits an event
  sequence that `Block.step` accepts (`blockprog_refines_block`), and transfers the protocol theorems.

  Shared state   the registry `n.blockingKeys` (key -> list of waiter channels; `none` = no entry yet), guarded by the
                 RWMutex `blockingKeysMutex` (`bmu`); per waiter channel (capacity 1) whether its buffer is full; per key
                 the number of elements of the list stored there and whether the key holds a value of another type (a
                 pop then panics); the key lock a push holds from `writeKey` to `commit`; the readers of `execMu`
                 (only the shared side `look` takes; the exclusive side of EXEC is not modelled).
  Thread state   program counter + the locals of the Go functions.  The channel of a waiter is identified with its
                 thread id: `make(chan string, 1)` = the thread's buffer is reset when the call starts.
  One transition = one mutex operation, one channel operation, or one loop body that runs inside a critical section and
                 reports one protocol step (`addBlockKeys`, `removeBlockingKeys`: Get/Set/LPush resp. RemoveNode + the hook;
                 `notifyBlockingKey`: the hook + the non-blocking send).  Tests of locals (loop exits, `if ok`) are
                 executed together with the transition before them.  `Lock` / `RLock` / a pop on a key that a push holds
                 block = the transition is disabled (`none`).  `pop(key, 1)` - a complete `exec` transaction of its own -
                 is one transition.
  Events         every verifTrace call site emits its `Block.Ev` at that pc.  Two events are labels of the CHANNEL
                 operation next to their hook: `notify` is emitted by the send (`select { case c <- key: default: }`;
                 the hook is called just before it), `wake` by the receive (`case <-c:`; the hook is called just after
                 it).  In a recorded trace the hook calls of different goroutines can therefore appear in another
                 order than the channel operations; this is why the recorded traces are validated with `stepLoose`
                 and why the replay of Driver/BlockProgOps.lean counts tokens for `wake`.
                 Events without a hook of their own: `abort` (emitted where `pop` panics, and - like the harness does -
                 where the non-waiting form, timeout < 0, returns null), `fin` (the return after the deferred
                 `removeBlockingKeys`).
  See DESIGN_NOTES.md (work package Q) for the Go line -> pc table.
-/
namespace NodisVerif.BlockProg
open NodisVerif.Block (Key Ev)

abbrev Tid := Nat

/-- function update -/
def upd {α β : Type} [DecidableEq α] (f : α → β) (a : α) (b : β) : α → β := fun x => if x = a then b else f x

/-- sync.RWMutex: the writer, and the threads that hold it shared (no thread of this program takes it twice) -/
structure Mu where
  writer  : Option Tid := none
  readers : List Tid := []
deriving DecidableEq, Repr
instance : Inhabited Mu := ⟨{}⟩

namespace Mu
def canLock (m : Mu) : Bool := m.writer.isNone && m.readers.isEmpty
def canRLock (m : Mu) : Bool := m.writer.isNone
end Mu

structure Shared where
  registry : Key → Option (List Tid) := fun _ => none   -- n.blockingKeys: key -> cList (most recent first: LPush)
  full     : Tid → Bool := fun _ => false               -- the waiter's channel holds a wake-up
  lists    : Key → Nat := fun _ => 0                    -- LLen of the list at the key
  wrong    : Key → Bool := fun _ => false               -- the key holds a value of another type
  locked   : Key → Option Tid := fun _ => none          -- the push that holds the key (writeKey ... commit)
  bmu      : Mu := {}                                   -- n.blockingKeysMutex
  gate     : List Tid := []                             -- shared holders of n.store.execMu
instance : Inhabited Shared := ⟨{}⟩

/-- the cList of a key (`[]` when there is no entry) -/
def Shared.regOf (s : Shared) (k : Key) : List Tid := (s.registry k).getD []

inductive Pc
  | idle
  -- blockingPop: addBlockKeys
  | r1 | r2 | r3
  -- look
  | l0 | l1 | l2
  -- the wait
  | w0 | w1
  -- the deferred removeBlockingKeys
  | u1 | u2 | u3
  -- a push: writeKey + LPush, notifyBlockingKey, commit
  | p1 | p2 | p3 | p4 | p5 | p6 | p7
deriving DecidableEq, Repr, Inhabited

structure Loc where
  pc        : Pc := .idle
  keys      : List Key := []     -- blockingPop: `keys`
  tmo       : Int := 0           -- `timeout` (only its sign matters)
  i         : Nat := 0           -- the loop index of the `for _, key := range keys` that is running
  found     : Bool := false      -- look returned ok
  panicking : Bool := false      -- a pop panicked: the deferred calls run, then the panic goes on
  key       : Key := ""          -- push: `key`
  n         : Nat := 0           -- push: len(values)
  todo      : List Tid := []     -- notifyBlockingKey: the rest of ForRange
deriving DecidableEq, Repr
instance : Inhabited Loc := ⟨{}⟩

/-- what an idle client does next -/
inductive Call
  | bpop (keys : List Key) (tmo : Int)      -- BLPop / BRPop (the end the element is taken from is not modelled)
  | push (k : Key) (n : Nat)                -- LPush / RPush / the destination side of RPopLPush
  | env (k : Key) (cnt : Nat) (wrong : Bool) -- any other complete command on k (LPOP, LPUSHX, LTRIM, DEL, SET ...): atomic under
                                             -- the key lock; the new length of a non-empty list and the type are arbitrary
deriving Repr, Inhabited

/-- the scheduler's choices -/
structure Choice where
  call  : Call := .env "" 0 false
  timer : Bool := false          -- at the `select`: the timer case (enabled only when timeout > 0)
deriving Repr, Inhabited

abbrev Out := Option (Shared × Loc × Option Ev)

/-- the loop `for _, key := range keys` goes on, or is left for `next` -/
def loopPc (l : Loc) (body next : Pc) : Pc := if l.i + 1 < l.keys.length then body else next

/-- one transition of thread `t` in local state `l`; `none` = disabled (blocked, or the call is not allowed) -/
def tstep (s : Shared) (t : Tid) (l : Loc) (ch : Choice) : Out :=
  match l.pc with
  | .idle =>
    match ch.call with
    | .bpop keys tmo =>
      -- the protocol model has no waiter without keys (the command needs at least one)
      if keys.isEmpty then none else
      -- var c = make(chan string, 1)
      some ({ s with full := upd s.full t false }, { pc := .r1, keys := keys, tmo := tmo }, none)
    | .push k n => if n = 0 then none else some (s, { pc := .p1, key := k, n := n }, none)
    | .env k cnt wrong =>
      if (s.locked k).isSome then none else
      -- no command other than a push makes an empty (absent) list non-empty (see DESIGN_NOTES.md: RENAME onto a key)
      some ({ s with lists := upd s.lists k (if s.lists k = 0 then 0 else cnt), wrong := upd s.wrong k wrong }, l, none)
  -- addBlockKeys: n.blockingKeysMutex.Lock()
  | .r1 =>
    if s.bmu.canLock then some ({ s with bmu := { s.bmu with writer := some t } }, { l with pc := .r2, i := 0 }, none)
    else none
  -- cList, ok := Get(key); if !ok { new; Set }; cList.LPush(c); verifTrace("bp-reg")
  | .r2 =>
    match l.keys[l.i]? with
    | none => some (s, { l with pc := .r3 }, none)
    | some k =>
      some ({ s with registry := upd s.registry k (some (t :: s.regOf k)) },
            { l with i := l.i + 1, pc := loopPc l .r2 .r3 }, some (.reg t k))
  -- n.blockingKeysMutex.Unlock(); defer removeBlockingKeys; the timer
  | .r3 => some ({ s with bmu := { s.bmu with writer := none } }, { l with pc := .l0 }, none)
  -- look: if timeout >= 0 { n.store.execMu.RLock() }
  | .l0 =>
    some ({ s with gate := if l.tmo ≥ 0 then t :: s.gate else s.gate }, { l with pc := .l1, i := 0, found := false }, none)
  -- results := pop(key, 1); verifTrace("bp-try", ..., len(results) > 0)
  | .l1 =>
    match l.keys[l.i]? with
    | none => some (s, { l with pc := .l2 }, none)
    | some k =>
      if (s.locked k).isSome then none else                     -- pop = exec(writeKey(k) ...) waits for the key
      if s.wrong k then some (s, { l with pc := .l2, panicking := true }, some (.abort t)) else
      if s.lists k > 0 then
        some ({ s with lists := upd s.lists k (s.lists k - 1) }, { l with pc := .l2, found := true }, some (.try_ t k true))
      else some (s, { l with i := l.i + 1, pc := loopPc l .l1 .l2 }, some (.try_ t k false))
  -- the deferred execMu.RUnlock() of look; then `return key, v` / `if timeout < 0 { return "", nil }` / on to the wait
  | .l2 =>
    let s' := { s with gate := if l.tmo ≥ 0 then s.gate.erase t else s.gate }
    if l.found || l.panicking then some (s', { l with pc := .u1 }, none)
    else if l.tmo < 0 then some (s', { l with pc := .u1 }, some (.abort t))
    else some (s', { l with pc := .w0 }, none)
  -- verifTrace("bp-block", ..., timeout > 0)
  | .w0 => some (s, { l with pc := .w1 }, some (.block t (decide (l.tmo > 0))))
  -- select { case <-c: ... case <-expired: ... }   (`expired` is nil unless timeout > 0)
  | .w1 =>
    if ch.timer then
      if l.tmo > 0 then some (s, { l with pc := .u1 }, some (.timeout t)) else none
    else if s.full t then some ({ s with full := upd s.full t false }, { l with pc := .l0 }, some (.wake t))
    else none
  -- (deferred timer.Stop();) removeBlockingKeys: n.blockingKeysMutex.Lock()
  | .u1 =>
    if s.bmu.canLock then some ({ s with bmu := { s.bmu with writer := some t } }, { l with pc := .u2, i := 0 }, none)
    else none
  -- cList, ok := Get(key); if !ok { continue }; ForRangeNode: the first node with Value() == rc is removed
  | .u2 =>
    match l.keys[l.i]? with
    | none => some (s, { l with pc := .u3 }, none)
    | some k =>
      let l' := { l with i := l.i + 1, pc := loopPc l .u2 .u3 }
      match s.registry k with
      | none => some (s, l', none)
      | some cl =>
        if t ∈ cl then some ({ s with registry := upd s.registry k (some (cl.erase t)) }, l', some (.unreg t k))
        else some (s, l', none)
  -- n.blockingKeysMutex.Unlock(); return (a panic goes on to the caller)
  | .u3 => some ({ s with bmu := { s.bmu with writer := none } }, { pc := .idle }, some (.fin t))
  -- exec: writeKey(key, newList) locks the key; a value of another type: the type assertion panics, nothing is
  -- appended, nobody is notified, the deferred commit releases the key
  | .p1 =>
    if (s.locked l.key).isSome then none else
    if s.wrong l.key then some (s, { pc := .idle }, none) else
    some ({ s with locked := upd s.locked l.key (some t), lists := upd s.lists l.key (s.lists l.key + l.n) },
          { l with pc := .p2 }, none)
  -- notifyBlockingKey: n.blockingKeysMutex.RLock()
  | .p2 =>
    if s.bmu.canRLock then some ({ s with bmu := { s.bmu with readers := t :: s.bmu.readers } }, { l with pc := .p3 }, none)
    else none
  -- cList, ok := Get(key); if ok { verifTrace("bp-push", true); ForRange ...
  | .p3 =>
    match s.registry l.key with
    | none => some (s, { l with pc := .p6 }, none)
    | some cl => some (s, { l with pc := if cl.isEmpty then .p5 else .p4, todo := cl }, none)
  -- verifTrace("bp-notify"); select { case c <- key: default: }
  | .p4 =>
    match l.todo with
    | [] => some (s, { l with pc := .p5 }, none)
    | c :: rest =>
      some ({ s with full := upd s.full c true }, { l with todo := rest, pc := if rest.isEmpty then .p5 else .p4 },
            some (.notify c l.key))
  -- verifTrace("bp-push", false)
  | .p5 => some (s, { l with pc := .p6 }, none)
  -- n.blockingKeysMutex.RUnlock()
  | .p6 =>
    some ({ s with bmu := { s.bmu with readers := s.bmu.readers.filter (· != t) } }, { l with pc := .p7 }, none)
  -- commit: the key is released
  | .p7 => some ({ s with locked := upd s.locked l.key none }, { pc := .idle }, none)

/-- the whole system: shared state and one local state per thread (all idle at the start) -/
structure Sys where
  sh  : Shared := {}
  thr : Tid → Loc := fun _ => {}
instance : Inhabited Sys := ⟨{}⟩

/-- thread `t` takes one step -/
def Sys.step (σ : Sys) (t : Tid) (ch : Choice) : Option (Sys × Option Ev) :=
  match tstep σ.sh t (σ.thr t) ch with
  | none => none
  | some (s', l', e) => some ({ sh := s', thr := upd σ.thr t l' }, e)

/-- run a schedule: `some (σ', es)` iff every scheduled step is enabled; `es` = the events emitted, in order -/
def exec (σ : Sys) : List (Tid × Choice) → Option (Sys × List Ev)
  | [] => some (σ, [])
  | (t, ch) :: rest =>
    match σ.step t ch with
    | none => none
    | some (σ', e) =>
      match exec σ' rest with
      | none => none
      | some (σ'', es) => some (σ'', e.toList ++ es)

/-- the states a schedule can reach from the initial state, with the events emitted on the way -/
inductive Reach : Sys → List Ev → Prop
  | init : Reach {} []
  | step {σ σ' : Sys} {es : List Ev} {t : Tid} {ch : Choice} {e : Option Ev} :
      Reach σ es → σ.step t ch = some (σ', e) → Reach σ' (es ++ e.toList)

end NodisVerif.BlockProg
