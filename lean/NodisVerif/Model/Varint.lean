import NodisVerif.Basic
/-
  encoding/binary varints exactly as the Go standard library implements them
  (PutUvarint / Uvarint / PutVarint / Varint), on unbounded Nat/Int with the int64/uint64
  guards explicit.
-/
namespace NodisVerif.Varint

/-- `binary.PutUvarint` (the bytes it writes) -/
def putUvarint (n : Nat) : Bytes :=
  if h : n < 128 then [UInt8.ofNat n]
  else UInt8.ofNat (n % 128 + 128) :: putUvarint (n / 128)
termination_by n
decreasing_by omega

/-- zig-zag of an int64: `uint64(x) << 1`, complemented when negative -/
def zigzag (x : Int) : Nat := if x < 0 then (2 * (-x) - 1).toNat else (2 * x).toNat

def unzigzag (u : Nat) : Int := if u % 2 = 0 then (u / 2 : Nat) else -((u / 2 : Nat) : Int) - 1

/-- `binary.PutVarint` -/
def putVarint (x : Int) : Bytes := putUvarint (zigzag x)

/-- `binary.Uvarint`: returns (value, n); n = 0 buffer too small, n < 0 overflow (value 0). -/
def uvarintAux : Bytes → (i s x : Nat) → Nat × Int
  | [], _, _, _ => (0, 0)
  | b :: rest, i, s, x =>
    if i = 10 then (0, -((i : Int) + 1))
    else if b < 128 then
      if i = 9 ∧ b > 1 then (0, -((i : Int) + 1))
      else (x ||| (b.toNat <<< s), (i : Int) + 1)
    else uvarintAux rest (i + 1) (s + 7) (x ||| ((b.toNat % 128) <<< s))

def uvarint (b : Bytes) : Nat × Int := uvarintAux b 0 0 0

/-- `binary.Varint` -/
def varint (b : Bytes) : Int × Int :=
  let (u, n) := uvarint b
  (unzigzag u, n)

end NodisVerif.Varint
