import NodisVerif.Model.AList
/-
  Values held by a key, and IEEE-754 binary64 order on bit patterns.
-/
namespace NodisVerif

/-- float64 as its bit pattern. Arithmetic and text conversion are NOT modelled (the harness
    supplies them as oracles); order and equality are, because the skiplist depends on them. -/
abbrev F64 := UInt64

namespace F64
def isNaN (a : F64) : Bool :=
  let e := (a >>> 52) &&& 0x7FF
  let m := a &&& 0xFFFFFFFFFFFFF
  e == 0x7FF && m != 0

/-- monotone integer key of a non-NaN double (−0 and +0 both map to 0) -/
def key (a : F64) : Int :=
  let mag : Nat := (a &&& 0x7FFFFFFFFFFFFFFF).toNat
  if a >>> 63 == 1 then -(mag : Int) else (mag : Int)

def lt (a b : F64) : Bool := !isNaN a && !isNaN b && key a < key b
def le (a b : F64) : Bool := !isNaN a && !isNaN b && key a ≤ key b
def eq (a b : F64) : Bool := !isNaN a && !isNaN b && key a == key b
def ne (a b : F64) : Bool := !(eq a b)
def gt (a b : F64) : Bool := lt b a
def ge (a b : F64) : Bool := le b a
end F64

/-- sorted-set content: dictionary (member-ordered, as `btree.Map[string,*Item]`) and the skiplist
    as the ordered list of its level-0 chain. -/
structure ZSet where
  dict : AList F64
  sl   : List (F64 × Bytes)
deriving Repr, DecidableEq, Inhabited

/-- doubly linked list with its separately maintained `length` field -/
structure LList where
  items  : List Bytes
  length : Int
deriving Repr, DecidableEq, Inhabited

inductive Val
  | str  (v : Bytes)
  | strNil                 -- a *str.String whose V is Go's nil slice (created, never filled): GET renders null
  | list (l : LList)
  | hash (m : AList Bytes)
  | set  (m : AList Unit)
  | zset (z : ZSet)
deriving Repr, DecidableEq, Inhabited

/-- `ds.ValueType` numbering: 1 string, 2 set, 3 list, 4 zset, 5 hash -/
def Val.typeCode : Val → Nat
  | .str _ => 1 | .strNil => 1 | .set _ => 2 | .list _ => 3 | .zset _ => 4 | .hash _ => 5

def typeName : Nat → String
  | 1 => "string" | 2 => "set" | 3 => "list" | 4 => "zset" | 5 => "hash" | _ => "none"

end NodisVerif
