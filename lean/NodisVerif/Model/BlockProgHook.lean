import NodisVerif.Model.BlockProg
/-
  The blocking-pop program of `Model/BlockProg.lean` with the two verifTrace call sites that are NOT atomic with the
  channel operation they report, as steps of their own:
    * `verifTrace("bp-notify")` is called BEFORE `select { case c <- key: default: }`  (list.go, notifyBlockingKey),
    * `verifTrace("bp-wake")`   is called AFTER  `case <-c:`                           (list.go, blockingPop).
  A run produces two event sequences: `es`, the events in the order of the OPERATIONS (the sequence of `BlockProg.Reach`,
  which refines the precise protocol semantics `Block.step`), and `hs`, the events in the order of the HOOK CALLS (what a
  recorded trace contains).  Ghost state: `tickets` = the pushes that have reported a notify and not yet sent (pusher,
  target channel); `unrep t` = thread t has received a wake-up and not yet reported it (it does nothing else in between).
  Proofs/BlockProgHook.lean: `hs` is a run of `Block.stepLoose` (Props/C18.lean `blockprog_hook_order_refines_loose`).
-/
namespace NodisVerif.BlockProg
open NodisVerif.Block (Key Ev)

structure HSys where
  σ       : Sys := {}
  tickets : List (Tid × Tid) := []
  unrep   : Tid → Bool := fun _ => false

/-- `HReach h hs es`: h is reachable; hs = the events in hook-call order, es = the events in operation order -/
inductive HReach : HSys → List Ev → List Ev → Prop
  | init : HReach {} [] []
  /-- the hook before the send: push p is at the head c of the rest of its ForRange and has not reported it yet -/
  | hookNotify {h : HSys} {hs es : List Ev} {p c : Tid} {rest : List Tid} :
      HReach h hs es → (h.σ.thr p).pc = .p4 → (h.σ.thr p).todo = c :: rest → (∀ c', (p, c') ∉ h.tickets) →
      HReach { h with tickets := (p, c) :: h.tickets } (hs ++ [.notify c (h.σ.thr p).key]) es
  /-- the send that was reported -/
  | send {h : HSys} {hs es : List Ev} {p c : Tid} {k : Key} {ch : Choice} {σ' : Sys} :
      HReach h hs es → (p, c) ∈ h.tickets → h.σ.step p ch = some (σ', some (.notify c k)) →
      HReach { h with σ := σ', tickets := h.tickets.erase (p, c) } hs (es ++ [.notify c k])
  /-- the receive; its report is still to come -/
  | recv {h : HSys} {hs es : List Ev} {t : Tid} {ch : Choice} {σ' : Sys} :
      HReach h hs es → h.unrep t = false → h.σ.step t ch = some (σ', some (.wake t)) →
      HReach { h with σ := σ', unrep := upd h.unrep t true } hs (es ++ [.wake t])
  /-- the hook after the receive -/
  | hookWake {h : HSys} {hs es : List Ev} {t : Tid} :
      HReach h hs es → h.unrep t = true →
      HReach { h with unrep := upd h.unrep t false } (hs ++ [.wake t]) es
  /-- every other transition: its hook (if any) is inside the critical section that makes the step atomic, or reports
      an action of the thread that nobody else's step depends on -/
  | other {h : HSys} {hs es : List Ev} {t : Tid} {ch : Choice} {σ' : Sys} {e : Option Ev} :
      HReach h hs es → h.unrep t = false → h.σ.step t ch = some (σ', e) →
      (∀ c k, e ≠ some (.notify c k)) → (∀ w, e ≠ some (.wake w)) →
      HReach { h with σ := σ' } (hs ++ e.toList) (es ++ e.toList)


/-! ## the same, executable: a hook-level schedule as a list of actions -/

inductive HAct
  | hookNotify (p : Tid)            -- verifTrace("bp-notify") of push p
  | send (p : Tid)                  -- its select { case c <- key: default: }
  | recv (t : Tid)                  -- case <-c:
  | hookWake (t : Tid)              -- verifTrace("bp-wake")
  | other (t : Tid) (ch : Choice)   -- any other transition of the program model
deriving Repr

def isNotify : Option Ev → Bool
  | some (.notify _ _) => true
  | _ => false
def isWake : Option Ev → Bool
  | some (.wake _) => true
  | _ => false

/-- one action: the new state, the event in hook order, the event in operation order -/
def hstep (h : HSys) : HAct → Option (HSys × Option Ev × Option Ev)
  | .hookNotify p =>
    match (h.σ.thr p).todo with
    | c :: _ =>
      if (h.σ.thr p).pc = .p4 ∧ h.tickets.all (fun x => x.1 != p) then
        some ({ h with tickets := (p, c) :: h.tickets }, some (.notify c (h.σ.thr p).key), none)
      else none
    | [] => none
  | .send p =>
    match h.σ.step p {} with
    | some (σ', some (.notify c k)) =>
      if (p, c) ∈ h.tickets then
        some ({ h with σ := σ', tickets := h.tickets.erase (p, c) }, none, some (.notify c k))
      else none
    | _ => none
  | .recv t =>
    match h.σ.step t {} with
    | some (σ', some (.wake w)) =>
      if w = t ∧ h.unrep t = false then
        some ({ h with σ := σ', unrep := upd h.unrep t true }, none, some (.wake t))
      else none
    | _ => none
  | .hookWake t =>
    if h.unrep t then some ({ h with unrep := upd h.unrep t false }, some (.wake t), none) else none
  | .other t ch =>
    if h.unrep t then none else
    match h.σ.step t ch with
    | some (σ', e) => if isNotify e || isWake e then none else some ({ h with σ := σ' }, e, e)
    | none => none

/-- run a hook-level schedule: the final state, the events in hook order, the events in operation order -/
def hexec (h : HSys) : List HAct → Option (HSys × List Ev × List Ev)
  | [] => some (h, [], [])
  | a :: rest =>
    match hstep h a with
    | none => none
    | some (h', e1, e2) =>
      match hexec h' rest with
      | none => none
      | some (h'', hs, es) => some (h'', e1.toList ++ hs, e2.toList ++ es)

end NodisVerif.BlockProg
