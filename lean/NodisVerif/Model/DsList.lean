import NodisVerif.Model.Val
/-
  ds/list/linked_list.go, function by function, on `LList = { items, length }`.
  `items` is the node chain from head to tail; `length` is the cached counter the code maintains
  by hand (C02's "reported length always equals the number of elements" is a theorem about it).
-/
namespace NodisVerif.DsList

def empty : LList := { items := [], length := 0 }

/-- `LPush(data...)`: each datum becomes the new head, in argument order -/
def lpush (l : LList) (data : List Bytes) : LList :=
  data.foldl (fun l d => { items := d :: l.items, length := l.length + 1 }) l

def rpush (l : LList) (data : List Bytes) : LList :=
  data.foldl (fun l d => { items := l.items ++ [d], length := l.length + 1 }) l

/-- `LPop(count)`: `none` = nil result because the list was empty -/
def lpop (l : LList) (count : Int) : LList × Option (List Bytes) :=
  if l.items.isEmpty then (l, none) else
  let k := min count.toNat l.items.length
  if k = 0 then (l, none) else          -- no iteration: `result` stays nil
  ({ items := l.items.drop k, length := l.length - k }, some (l.items.take k))

def rpop (l : LList) (count : Int) : LList × Option (List Bytes) :=
  if l.items.isEmpty then (l, none) else
  let n := l.items.length
  let k := min count.toNat n
  if k = 0 then (l, none) else
  ({ items := l.items.take (n - k), length := l.length - k }, some ((l.items.drop (n - k)).reverse))

/-- `size()`: walks the chain -/
def size (l : LList) : Int := l.items.length

/-- `forEach(start, end, fn)` — the elements visited, in order. Negative indexes count from the
    tail, a start before the head is clamped to the head, then an empty window returns nothing. -/
def forEach (l : LList) (start stop : Int) : List Bytes :=
  let n := size l
  let start := if start < 0 then (if start + n < 0 then 0 else start + n) else start
  let stop := if stop < 0 then stop + n else stop
  if start > stop then [] else
  (l.items.zipIdx.filter fun (_, i) => start ≤ (i : Int) ∧ (i : Int) ≤ stop).map (·.1)

def lrange (l : LList) (start stop : Int) : List Bytes := forEach l start stop

def llen (l : LList) : Int := l.length

/-- `LIndex`: negative indexes use the cached `length` -/
def lindex (l : LList) (index : Int) : Option Bytes :=
  let index := if index < 0 then l.length + index else index
  if index < 0 then none else l.items[index.toNat]?

def insertAt (xs : List Bytes) (pivot data : Bytes) (before : Bool) : Option (List Bytes) :=
  match xs with
  | [] => none
  | x :: rest =>
    if x = pivot then some (if before then data :: x :: rest else x :: data :: rest)
    else (insertAt rest pivot data before).map (x :: ·)

/-- `LInsert`: new cached length, or -1 when the pivot is absent -/
def linsert (l : LList) (pivot data : Bytes) (before : Bool) : LList × Int :=
  match insertAt l.items pivot data before with
  | none => (l, -1)
  | some xs => ({ items := xs, length := l.length + 1 }, l.length + 1)

/-- remove the first `count` occurrences (walking from the head) -/
def removeFirst (xs : List Bytes) (value : Bytes) : Nat → List Bytes × Nat
  | 0 => (xs, 0)
  | k + 1 =>
    match xs with
    | [] => ([], 0)
    | x :: rest =>
      if x = value then
        let (r, c) := removeFirst rest value k
        (r, c + 1)
      else
        let (r, c) := removeFirst rest value (k + 1)
        (x :: r, c)

/-- `LRem(count, value)` -/
def lrem (l : LList) (count : Int) (value : Bytes) : LList × Int :=
  if count > 0 then
    let (xs, c) := removeFirst l.items value count.toNat
    ({ items := xs, length := l.length - c }, c)
  else if count < 0 then
    let (xs, c) := removeFirst l.items.reverse value (-count).toNat
    ({ items := xs.reverse, length := l.length - c }, c)
  else
    let xs := l.items.filter (· ≠ value)
    let c := l.items.length - xs.length
    ({ items := xs, length := l.length - c }, c)

/-- `LSet(index, value)`: negative indexes count from the tail (cached length) -/
def lset (l : LList) (index : Int) (value : Bytes) : LList × Bool :=
  let index := if index < 0 then l.length + index else index
  if index < 0 ∨ index ≥ l.items.length then (l, false)
  else ({ l with items := l.items.set index.toNat value }, true)

/-- `LTrim(start, end)` -/
def ltrim (l : LList) (start stop : Int) : LList :=
  let start := if start < 0 then size l + start else start
  let stop := if stop < 0 then size l + stop else stop
  let kept := (l.items.zipIdx.filter fun (_, i) => ¬ ((i : Int) < start ∨ (i : Int) > stop)).map (·.1)
  { items := kept, length := l.length - (l.items.length - kept.length : Nat) }

end NodisVerif.DsList
