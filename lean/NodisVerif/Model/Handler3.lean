import NodisVerif.Model.Handler
import NodisVerif.Model.FloatText
/-
  handler.go, sorted-set family (ZADD … ZEXISTS, ZUNIONSTORE / ZINTERSTORE) and the per-collection
  scans (SSCAN, HSCAN, ZSCAN), transcribed statement by statement: what is evaluated before
  `execCommand` (a panic there = `HRes.crash`), what is inside the closure (a panic there =
  `panicked`), and the handlers whose failed arity check writes an error but does not return
  (`HRes.after [e] …`: two replies).
-/
namespace NodisVerif.Handler3
open Resp Api Handler

def unsupported : Tok := .simple (Bytes.ofString "UNSUPPORTED")

/-- `conn.WriteBulk(strconv.FormatFloat(v, 'f', -1, 64))` -/
def fmtScore (x : F64) : Tok :=
  match FloatText.formatFloat x with
  | some t => .bulk t
  | none => unsupported

def panicOut (s : MState) (ts : List Tok := []) : BodyOut := { store := s, toks := ts, panicked := true }

/-! ### the part of a handler that runs before `execCommand` -/

/-- outcome of the statements before `execCommand`: a value, an error reply + return, a panic
    (index out of range), or float text outside the model's fragment -/
inductive Pre (α : Type) where
  | ok (a : α)
  | err
  | crash
  | unsup

instance : Monad Pre where
  pure := .ok
  bind x f := match x with
    | .ok a => f a
    | .err => .err
    | .crash => .crash
    | .unsup => .unsup

def Pre.run : Pre HRes → HRes
  | .ok h => h
  | .err => errReply
  | .crash => .crash
  | .unsup => .exec fun s _ _ => { store := s, toks := [unsupported] }

/-- `cmd.Args[i]` -/
def argP (args : List Bytes) (i : Int) : Pre Bytes :=
  match argAt args i with
  | none => .crash
  | some a => .ok a

/-- `strconv.ParseInt(a, 10, 64)`; error ⇒ WriteError + return -/
def intP (a : Bytes) : Pre Int :=
  match parseIntGo a with
  | (_, true) => .err
  | (v, false) => .ok v

/-- `redis.FormatFloat64(a)`; error ⇒ WriteError + return; empty ⇒ panic -/
def floatP (a : Bytes) : Pre F64 :=
  match FloatText.redisFloat a with
  | none => .crash
  | some none => .err
  | some (some none) => .unsup
  | some (some (some x)) => .ok x

/-- `a[0]` -/
def firstByteP (a : Bytes) : Pre UInt8 :=
  match a with
  | [] => .crash
  | c :: _ => .ok c

def minOpen : Int := 1
def maxOpen : Int := 2
def lparen : UInt8 := 40

/-- `LIMIT offset count` as ZRANGE BYSCORE / Z(REV)RANGEBYSCORE read it: `cmd.Options.LIMIT` is the
    index of the word + 1; both operands are indexed without a bounds check -/
def limitP (args : List Bytes) : Pre (Int × Int) :=
  let l := opt args "LIMIT"
  if l > 2 then do
    let o ← intP (← argP args l)
    let c ← intP (← argP args (l + 1))
    pure (o, c)
  else pure (0, -1)

/-! ### rendering -/

/-- `WriteArray(len(results)); for … WriteBulk(v)` -/
def writeMembers (s : MState) (o : Out) : BodyOut :=
  match o with
  | .slist ms => done s (bulkList ms)
  | .unsupported => done s [unsupported]
  | _ => done s [.arr 0]

/-- `WriteArray(len(results)*2); for … WriteBulk(v.Member); WriteBulk(FormatFloat(v.Score))`;
    a nil element is dereferenced (panic after the tokens written so far) -/
def writeItems (s : MState) (o : Out) : BodyOut :=
  match o with
  | .ilist items =>
    let rec go : List (Option Item) → List Tok → BodyOut
      | [], acc => done s acc
      | none :: _, acc => panicOut s acc
      | some (sc, m) :: rest, acc => go rest (acc ++ [.bulk m, fmtScore sc])
    go items [.arr (2 * items.length)]
  | .unsupported => done s [unsupported]
  | _ => done s [.arr 0]

def writeRange (withScores : Bool) (s : MState) (o : Out) : BodyOut :=
  if withScores then writeItems s o else writeMembers s o

/-! ## ZADD … -/

/-- the scores of ALL pairs are parsed before anything is written: the first bad one is the reply -/
def parseScores : List (Bytes × Bytes) → Except Tok (List (Bytes × F64))
  | [] => .ok []
  | (sc, member) :: more =>
    match FloatText.parseFloat sc with
    | none => .error unsupported
    | some none => .error e
    | some (some score) =>
      if F64.isNaN score then .error e else          -- `err != nil || math.IsNaN(score)`
      match parseScores more with
      | .error t => .error t
      | .ok ps => .ok ((member, score) :: ps)

/-- the closure of ZADD. NX with XX, GT with LT, NX with GT/LT are errors; no pair or a dangling score is an
    error; INCR takes exactly one pair (and ignores NX/XX/GT/LT); every score is parsed before anything is
    written; all pairs go to ONE `zAddPairs` transaction -/
def zAddBody (args : List Bytes) (key : Bytes) (itemStart : Int) : Body := fun s now _ =>
  let nx := decide (opt args "NX" > 0)
  let xx := decide (opt args "XX" > 0)
  let gt := decide (opt args "GT" > 0)
  let lt := decide (opt args "LT" > 0)
  if nx && xx then done s [e] else
  if (gt && lt) || (nx && (gt || lt)) then done s [e] else
  let rest := args.drop (itemStart + 1).toNat
  if rest.length = 0 ∨ rest.length % 2 ≠ 0 then done s [e] else
  if opt args "INCR" > 0 ∧ rest.length ≠ 2 then done s [e] else
  match parseScores (pairsOf rest) with
  | .error t => done s [t]
  | .ok ps =>
    if opt args "INCR" > 0 then
      match ps with
      | [] => panicOut s                                -- `members[0]`
      | (member, score) :: _ =>
        call (Api.zincrby s now key member score) fun s o =>
          match o with
          | .f64 v => done s [fmtScore v]
          | _ => done s [unsupported]
    else
      call (Api.zaddPairs s now key nx xx gt lt (decide (opt args "CH" > 0)) ps) fun s o => done s [.int (intOf o)]

/-- ZADD key [NX|XX] [GT|LT] [CH] [INCR] score member …: the pairs start after the LAST option word
    wherever it stands -/
def zAdd (args : List Bytes) : HRes :=
  if args.length < 3 then errReply else
  let itemStart : Int := ["NX", "XX", "LT", "GT", "CH", "INCR"].foldl (fun m w => max m (opt args w)) 0
  if itemStart + 1 > args.length then errReply else
  match args with
  | [] => errReply
  | key :: _ => .exec (zAddBody args key itemStart)

def zCard (args : List Bytes) : HRes :=
  match args with
  | [] => errReply
  | key :: _ => .exec fun s now _ => call (Api.zcard s now key) fun s o => done s [.int (intOf o)]

/-- ZRANK / ZREVRANK key member [WITHSCORES]: with the option the reply is [rank, MEMBER] (the
    member, not its score); the option word is WITHSCORES, Redis' WITHSCORE is not recognised -/
def rankBody (desc : Bool) (args : List Bytes) : Body := fun s now _ =>
  match args with
  | key :: member :: _ =>
    if opt args "WITHSCORES" > 1 then
      call (Api.rankWithScore desc s now key member) fun s o =>
        match o with
        | .many [.int r, .item (some (_, m))] => done s [.arr 2, .int r, .bulk m]
        | _ => done s [.nullBulk]
    else
      call ((if desc then Api.zrevrank else Api.zrank) s now key member) fun s o =>
        match o with
        | .many [.int r, .err false] => done s [.int r]
        | _ => done s [.nullBulk]
  | _ => panicOut s                      -- cmd.Args[1] inside the closure

def zRank (args : List Bytes) : HRes :=
  if args.length < 2 then errReply else .exec (rankBody false args)

/-- ZREVRANK only rejects an empty argument list: `ZREVRANK k` panics inside the closure -/
def zRevRank (args : List Bytes) : HRes :=
  if args.length = 0 then errReply else .exec (rankBody true args)

def zScore (args : List Bytes) : HRes :=
  match args with
  | key :: member :: _ => .exec fun s now _ =>
      call (Api.zscore s now key member) fun s o =>
        match o with
        | .many [.f64 v, .err false] => done s [fmtScore v]
        | _ => done s [.nullBulk]
  | _ => errReply

def zIncrBy (args : List Bytes) : HRes :=
  match args with
  | key :: d :: member :: _ =>
    Pre.run do
      let score ← floatP d
      pure (.exec fun s now _ =>
        call (Api.zincrby s now key member score) fun s o =>
          match o with
          | .f64 v => done s [fmtScore v]
          | _ => done s [unsupported])
  | _ => errReply

/-- the four by-score range calls -/
def byScoreBody (key : Bytes) (desc withScores : Bool) (min max : F64) (offset count mode : Int) : HRes :=
  .exec fun s now _ =>
    call (Api.zrangeByScore desc withScores s now key min max offset count mode) fun s o => writeRange withScores s o

def byRankBody (key : Bytes) (desc withScores : Bool) (start stop : Int) : HRes :=
  .exec fun s now _ =>
    call (Api.zrange desc withScores s now key start stop) fun s o => writeRange withScores s o

/-- ZRANGE key start stop [BYSCORE] [REV] [LIMIT offset count] [WITHSCORES] (all option positions > 2).
    BYSCORE: the exclusive marks are read from argument 1 and argument 2; under REV argument 1 is the
    maximum (→ MaxOpen) and argument 2 the minimum (→ MinOpen). Without BYSCORE, LIMIT is ignored. -/
def zRange (args : List Bytes) : HRes :=
  match args with
  | key :: a1 :: a2 :: _ =>
    let rev := opt args "REV" > 2
    let ws := opt args "WITHSCORES" > 2
    if opt args "BYSCORE" > 2 then
      Pre.run do
        let c1 ← firstByteP a1
        let min ← floatP (if rev then a2 else a1)
        let c2 ← firstByteP a2
        let max ← floatP (if rev then a1 else a2)
        let (offset, count) ← limitP args
        let mode := (if c1 = lparen then (if rev then maxOpen else minOpen) else 0) + (if c2 = lparen then (if rev then minOpen else maxOpen) else 0)
        pure (byScoreBody key rev ws min max offset count mode)
    else
      Pre.run do
        let start ← intP a1
        let stop ← intP a2
        pure (byRankBody key rev ws start stop)
  | _ => errReply

def zRevRange (args : List Bytes) : HRes :=
  match args with
  | key :: a1 :: a2 :: _ =>
    Pre.run do
      let start ← intP a1
      let stop ← intP a2
      pure (byRankBody key true (opt args "WITHSCORES" > 2) start stop)
  | _ => errReply

/-- ZRANGEBYSCORE key min max [WITHSCORES] [LIMIT offset count] -/
def zRangeByScore (args : List Bytes) : HRes :=
  match args with
  | key :: a1 :: a2 :: _ =>
    Pre.run do
      let c1 ← firstByteP a1
      let min ← floatP a1
      let c2 ← firstByteP a2
      let max ← floatP a2
      let (offset, count) ← limitP args
      let mode := (if c1 = lparen then minOpen else 0) + (if c2 = lparen then maxOpen else 0)
      pure (byScoreBody key false (opt args "WITHSCORES" > 2) min max offset count mode)
  | _ => errReply

/-- ZREVRANGEBYSCORE key max min …: an exclusive mark on argument 2 (the minimum) sets MinOpen, one
    on argument 1 (the maximum) sets MaxOpen -/
def zRevRangeByScore (args : List Bytes) : HRes :=
  match args with
  | key :: a1 :: a2 :: _ =>
    Pre.run do
      let c2 ← firstByteP a2
      let min ← floatP a2
      let c1 ← firstByteP a1
      let max ← floatP a1
      let (offset, count) ← limitP args
      let mode := (if c2 = lparen then minOpen else 0) + (if c1 = lparen then maxOpen else 0)
      pure (byScoreBody key true (opt args "WITHSCORES" > 2) min max offset count mode)
  | _ => errReply

def zCount (args : List Bytes) : HRes :=
  match args with
  | key :: a1 :: a2 :: _ =>
    Pre.run do
      let c1 ← firstByteP a1
      let min ← floatP a1
      let c2 ← firstByteP a2
      let max ← floatP a2
      let mode := (if c1 = lparen then minOpen else 0) + (if c2 = lparen then maxOpen else 0)
      pure (.exec fun s now _ => call (Api.zcount s now key min max mode) fun s o => done s [.int (intOf o)])
  | _ => errReply

/-- ZREM: the arity check writes an error and carries on -/
def zRem (args : List Bytes) : HRes :=
  let run : HRes := .exec fun s now _ =>
    match args with
    | [] => panicOut s
    | key :: ms => call (Api.zrem s now key ms) fun s o => done s [.int (intOf o)]
  if args.length < 2 then errReply else run

/-- ZREMRANGEBYRANK: the arity check writes an error and carries on into `cmd.Args[0..2]` -/
def zRemRangeByRank (args : List Bytes) : HRes :=
  let rest : HRes := Pre.run do
    let key ← argP args 0
    let start ← intP (← argP args 1)
    let stop ← intP (← argP args 2)
    pure (.exec fun s now _ => call (Api.zremRangeByRank s now key start stop) fun s o => done s [.int (intOf o)])
  if args.length < 3 then errReply else rest

/-- ZREMRANGEBYSCORE: same arity pattern; the maximum is parsed before its first byte is looked at -/
def zRemRangeByScore (args : List Bytes) : HRes :=
  let rest : HRes := Pre.run do
    let key ← argP args 0
    let a1 ← argP args 1
    let c1 ← firstByteP a1
    let min ← floatP a1
    let a2 ← argP args 2
    let max ← floatP a2
    let c2 ← firstByteP a2
    let mode := (if c1 = lparen then minOpen else 0) + (if c2 = lparen then maxOpen else 0)
    pure (.exec fun s now _ => call (Api.zremRangeByScore s now key min max mode) fun s o => done s [.int (intOf o)])
  if args.length < 3 then errReply else rest

/-- capacity of `cmd.Args` (built by `append` one element at a time from an empty slice):
    the smallest power of two ≥ its length -/
def capOf (n : Nat) : Nat := if n ≤ 1 then n else 2 ^ (Nat.log2 (n - 1) + 1)

/-- ZUNIONSTORE / ZINTERSTORE dst numkeys key… [WEIGHTS w…] [AGGREGATE SUM|MIN|MAX]:
    `cmd.Args[2 : 2+numKeys]` is bounds-checked against the CAPACITY of the argument slice, so a
    numkeys beyond the arguments present yields empty-string keys up to the capacity and panics only
    beyond it (or when negative); option words inside the key window are taken as keys; the reply is
    ZCARD of the destination (a second transaction) -/
def zStore (union : Bool) (args : List Bytes) : HRes :=
  if args.length < 3 then errReply else
  Pre.run do
    let dst ← argP args 0
    let numKeys ← intP (← argP args 1)
    let hi := wrap64 (2 + numKeys)
    let cap := capOf args.length
    if hi < 2 ∨ hi > cap then Pre.crash else
    let keys := ((args ++ List.replicate (cap - args.length) []).drop 2).take numKeys.toNat
    let w := opt args "WEIGHTS"
    let weights : List F64 ←
      if w > 2 then
        if (args.length : Int) < w + numKeys then Pre.err
        else (List.range numKeys.toNat).mapM fun (i : Nat) => do floatP (← argP args (w + (i : Int)))
      else pure []
    let a := opt args "AGGREGATE"
    let agg ← if a > 2 then argP args a else pure []
    pure (.exec fun s now _ =>
      call (Api.zstore union s now dst keys weights (upper agg)) fun s o =>
        match o with
        | .unsupported => done s [unsupported]
        | .hang => done s []                          -- never replies
        | _ => call (Api.zcard (Api.commit s) now dst) fun s o => done s [.int (intOf o)])

/-- ZCLEAR: error for no arguments, then the closure indexes `cmd.Args[0]` anyway -/
def zClear (args : List Bytes) : HRes :=
  let run : HRes := .exec fun s now _ =>
    match args with
    | [] => panicOut s
    | key :: _ => call (Api.del s now [key]) fun s _ => done s [ok]
  if args.length = 0 then errReply else run

def zExists (args : List Bytes) : HRes :=
  let run : HRes := .exec fun s now _ =>
    match args with
    | key :: member :: _ =>
      call (Api.zexists s now key member) fun s o => done s [.int (match o with | .bool true => 1 | _ => 0)]
    | _ => panicOut s
  if args.length < 2 then errReply else run

/-! ## SSCAN / HSCAN / ZSCAN -/

/-- the MATCH / COUNT operands as the three handlers read them (`thr` = the position threshold of
    the `cmd.Options.X > thr` test; `dflt` = count when the option is absent) -/
def matchCountP (args : List Bytes) (thr : Int) (dflt : Int) : Pre (Bytes × Int) := do
  let m := opt args "MATCH"
  let pat ← if m > thr then argP args m else pure [42]
  let c := opt args "COUNT"
  let count ← if c > thr then do intP (← argP args c) else pure dflt
  pure (pat, count)

/-- the reply cursor: `next, r := n.XScan(…); if next >= n.XCard(key) { next = 0 }` — the cardinality
    is read in a second transaction -/
def nextCursor (card : MState → Int → Bytes → Api.R) (s : MState) (now : Int) (key : Bytes) (next : Int)
    (k : MState → Int → BodyOut) : BodyOut :=
  call (card (Api.commit s) now key) fun s o => k s (if next ≥ intOf o then 0 else next)

/-- SSCAN key cursor [MATCH p] [COUNT n]: only an empty argument list is rejected (`SSCAN k` indexes
    `cmd.Args[1]` outside the closure); option positions > 1; count defaults to 10 -/
def sScan (args : List Bytes) : HRes :=
  if args.length < 1 then errReply else
  Pre.run do
    let key ← argP args 0
    let cursor ← intP (← argP args 1)
    let (pat, count) ← matchCountP args 1 10
    pure (.exec fun s now _ =>
      call (Api.sscan s now key cursor pat count) fun s o =>
        match o with
        | .many [.int next, .slist ks] =>
          nextCursor Api.scard s now key next fun s next => done s ([.arr 2, .bulk (formatInt next)] ++ bulkList ks)
        | _ => done s [])

/-- HSCAN: the cursor's parse error is dropped (0, or the int64 bound on overflow) -/
def hScan (args : List Bytes) : HRes :=
  if args.length = 0 then errReply else
  Pre.run do
    let key ← argP args 0
    let cursor := (parseIntGo (← argP args 1)).1
    let (pat, count) ← matchCountP args 1 10
    pure (.exec fun s now _ =>
      call (Api.hscan s now key cursor pat count) fun s o =>
        match o with
        | .many [.int next, .bmap kvs] =>
          nextCursor Api.hlen s now key next fun s next =>
            done s ([.arr 2, .bulk (formatInt next), .arr (2 * kvs.length)] ++
                    kvs.flatMap fun (k, v) => [.bulk k, .bulk (v.getD [])])
        | _ => done s [])

/-- ZSCAN key cursor [MATCH p] [COUNT n] (option positions > 0, count defaults to 10) -/
def zScan (args : List Bytes) : HRes :=
  if args.length < 2 then errReply else
  Pre.run do
    let key ← argP args 0
    let cursor ← intP (← argP args 1)
    let (pat, count) ← matchCountP args 0 10
    pure (.exec fun s now _ =>
      call (Api.zscan s now key cursor pat count) fun s o =>
        match o with
        | .many [.int next, .ilist items] =>
          nextCursor Api.zcard s now key next fun s next =>
            let out := writeItems s (.ilist items)
            { out with toks := [.arr 2, .bulk (formatInt next)] ++ out.toks }
        | _ => done s [])

/-- dispatch table of this file -/
def table3 (name : String) (args : List Bytes) : Option HRes :=
  match name with
  | "ZADD" => some (zAdd args)
  | "ZCARD" => some (zCard args)
  | "ZRANK" => some (zRank args)
  | "ZREVRANK" => some (zRevRank args)
  | "ZSCORE" => some (zScore args)
  | "ZINCRBY" => some (zIncrBy args)
  | "ZRANGE" => some (zRange args)
  | "ZREVRANGE" => some (zRevRange args)
  | "ZRANGEBYSCORE" => some (zRangeByScore args)
  | "ZREVRANGEBYSCORE" => some (zRevRangeByScore args)
  | "ZCOUNT" => some (zCount args)
  | "ZREM" => some (zRem args)
  | "ZREMRANGEBYRANK" => some (zRemRangeByRank args)
  | "ZREMRANGEBYSCORE" => some (zRemRangeByScore args)
  | "ZUNIONSTORE" => some (zStore true args)
  | "ZINTERSTORE" => some (zStore false args)
  | "ZCLEAR" => some (zClear args)
  | "ZEXISTS" => some (zExists args)
  | "SSCAN" => some (sScan args)
  | "HSCAN" => some (hScan args)
  | "ZSCAN" => some (zScan args)
  | _ => none

/-! ## fixtures: the two commands the scan streams need to populate sets and hashes. They belong to
    the set / hash families (Handler2); this table goes LAST in `Main.tables`, so the real
    transcriptions take precedence once they are there. -/

def sAddFixture (args : List Bytes) : HRes :=
  match args with
  | key :: m :: ms => .exec fun s now _ => call (Api.sadd s now key (m :: ms)) fun s o => done s [.int (intOf o)]
  | _ => errReply

/-- HSET key field value [field value …]: the first pair through `HSet`, the others through one
    `HMSet` of a Go map (a repeated field keeps its last value) -/
def hSetFixture (args : List Bytes) : HRes :=
  match args with
  | key :: f :: v :: more =>
    .exec fun s now _ =>
      call (Api.hset s now key f v) fun s o =>
        if more.isEmpty then done s [.int (intOf o)] else
        let fields : AList Bytes := (pairsOf more).foldl (fun m (k, w) => AList.set m k w) []
        call (Api.hmset (Api.commit s) now key fields) fun s o2 => done s [.int (intOf o + intOf o2)]
  | _ => errReply

def fixtures (name : String) (args : List Bytes) : Option HRes :=
  match name with
  | "SADD" => some (sAddFixture args)
  | "HSET" => some (hSetFixture args)
  | _ => none

end NodisVerif.Handler3
