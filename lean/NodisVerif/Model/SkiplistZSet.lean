import NodisVerif.Model.Skiplist
/-
  ds/zset/sorted_set.go on top of the pointer-level skiplist of Model/Skiplist.lean: the dictionary
  (`btree.Map[string, *Item]`, here member ↦ score) plus the skiplist heap. Statement by statement the same
  functions as the list-level mirror in Model/DsZSet.lean (`zAdd`, `zRem`, `zRemRangeByScore`,
  `zRemRangeByRank`, `getRank` / `zRank`), with `skiplist.insert / remove / removeRange / removeRangeByRank /
  getRank` being the pointer-level functions. The random level of `insert` is a parameter.
-/
namespace NodisVerif.Skiplist
open NodisVerif.DsZSet (Item)

/-- `SortedSet{dict, skiplist}` -/
structure PZSet where
  dict : AList F64
  sl : SL
deriving Repr, DecidableEq, Inhabited

/-- `NewSortedSet()` -/
def PZSet.empty : PZSet := { dict := [], sl := makeSkiplist }

/-- the list-level view: the same dictionary, the skiplist as its level-0 chain -/
def PZSet.toZSet (p : PZSet) : ZSet := { dict := p.dict, sl := abs p.sl }

/-- `sortedSet.zAdd(member, score)`; `lvl` = the level `randomLevel()` returns inside `insert` -/
def pzAdd (p : PZSet) (member : Bytes) (score : F64) (lvl : Nat) : M (PZSet × Int) :=
  match AList.get? p.dict member with
  | some old =>
    -- `if ok && score == element.Score { return 0 }`
    if F64.eq score old then pure (p, 0) else do
    let dict := AList.set p.dict member score            -- `sortedSet.dict.Set(member, &Item{…})`
    let (sl, _) ← remove p.sl member old                 -- `sortedSet.skiplist.remove(member, element.Score)`
    let sl ← insert sl member score lvl                  -- `sortedSet.skiplist.insert(member, score)`
    pure ({ dict := dict, sl := sl }, 0)
  | none => do
    let dict := AList.set p.dict member score
    let sl ← insert p.sl member score lvl
    pure ({ dict := dict, sl := sl }, 1)

/-- one iteration of the loop of `ZRem`: `v, ok := dict.Get(member); if ok { skiplist.remove(member, v.Score);
    dict.Delete(member); count++ }` -/
def pzRemOne (acc : PZSet × Int) (member : Bytes) : M (PZSet × Int) :=
  match AList.get? acc.1.dict member with
  | some sc => do
    let (sl, _) ← remove acc.1.sl member sc
    pure ({ dict := AList.erase acc.1.dict member, sl := sl }, acc.2 + 1)
  | none => pure acc

def pzRemLoop : PZSet × Int → List Bytes → M (PZSet × Int)
  | acc, [] => pure acc
  | acc, m :: ms => do
    let acc ← pzRemOne acc m
    pzRemLoop acc ms

/-- `sortedSet.ZRem(members...)` -/
def pzRem (p : PZSet) (ms : List Bytes) : M (PZSet × Int) := pzRemLoop (p, 0) ms

/-- `sortedSet.removeRange(min, max, mode)` = `ZRemRangeByScore`: `skiplist.removeRange(min, max, 0, mode)`, then
    `dict.Delete` of every removed member -/
def pzRemRangeByScore (p : PZSet) (min max : F64) (mode : Nat) : M (PZSet × Int) := do
  let (sl, removed) ← removeRange p.sl min max 0 mode
  pure ({ dict := removed.foldl (fun d it => AList.erase d it.2) p.dict, sl := sl }, removed.length)

/-- `sortedSet.ZCard()` = `dict.Len()` -/
def pzCard (p : PZSet) : Int := p.dict.length

/-- `sortedSet.ZRemRangeByRank(start, stop)` -/
def pzRemRangeByRank (p : PZSet) (start stop : Int) : M (PZSet × Int) :=
  let size := pzCard p
  let start := if start < 0 then (if start + size < 0 then 0 else start + size) else start
  let stop := if stop < 0 then stop + size else stop
  let stop := if stop ≥ size then size - 1 else stop
  if start > stop ∨ start ≥ size then pure (p, 0) else do
  let (sl, removed) ← removeRangeByRank p.sl (start + 1) (stop + 1)
  pure ({ dict := removed.foldl (fun d it => AList.erase d it.2) p.dict, sl := sl }, removed.length)

/-- `sortedSet.getRank(member, desc)` -/
def pzGetRank (p : PZSet) (member : Bytes) (desc : Bool) : M Int :=
  match AList.get? p.dict member with
  | none => pure (-1)
  | some sc => do
    let r ← getRank p.sl member sc
    pure (if desc then p.sl.length - r else r - 1)

/-- `sortedSet.ZRank(member)`; `none` = "member not found" -/
def pzRank (p : PZSet) (m : Bytes) : M (Option Int) :=
  if AList.contains p.dict m then do
    let r ← pzGetRank p m false
    pure (some r)
  else pure none

/-- `sortedSet.ZRevRank(member)` -/
def pzRevRank (p : PZSet) (m : Bytes) : M (Option Int) :=
  if AList.contains p.dict m then do
    let r ← pzGetRank p m true
    pure (some r)
  else pure none

end NodisVerif.Skiplist
