import NodisVerif.Model.F64Arith
/-
  Decimal float text: `strconv.ParseFloat(s, 64)` and `strconv.FormatFloat(x, 'f', -1, 64)` (the only
  format nodis uses: redis/resp.go WriteDouble?, str.go, ds/str, ds/hash, every score reply of handler.go).

  * `roundRat neg num den` : the double nearest to the exact rational num/den, ties to even (big-Nat
    arithmetic: a quotient of at least 57 bits plus a sticky bit, handed to `F64.roundPack`).
  * `parseDec` mirrors `strconv.readFloat` for base 10 statement by statement (sign, digits with leading
    zeros ignored, at most one '.', underscores checked by `underscoreOK` over the whole text, exponent
    `e|E [+-] digits` with the accumulation capped at e ≥ 10000 as in Go) and then rounds the exact value
    mant × 10^(dp − nd). Go's own fast paths (exact float arithmetic, Eisel–Lemire) and its fallback
    (multi-precision decimal, 800 digits) are all correctly rounded, so the model rounds exactly.
    Overflow → range error (`some none`; ParseFloat returns ±Inf WITH an error, every caller in nodis
    treats it as an error). Underflow → ±0 / subnormal without error.
    Outside the model (`none`): hexadecimal floats (0x… with at least one more byte), more than 800
    significant digits.
  * `parseFloat` = `special` (inf / infinity / nan spellings) then `parseDec`.
  * `formatShortest` : the shortest digit string d1…dn (n ≤ 17) whose value × 10^k parses back to x; among
    the (at most two) n-digit candidates the one closer to x (a tie cannot occur when both round-trip);
    rendered in %f form. The search tests the round trip on the rendered text itself.
-/
namespace NodisVerif.FloatDec
open F64

/-- the double nearest to num/den (den > 0), ties to even -/
def roundRat (neg : Bool) (num den : Nat) : F64 :=
  if num = 0 then F64.zero neg else
  -- num/den > 2^(log2 num − log2 den − 1): after scaling by 2^k the quotient has at least 57 bits
  let k : Int := 57 + (Nat.log2 den : Int) - (Nat.log2 num : Int)
  let n := if k ≥ 0 then num <<< k.toNat else num
  let d := if k ≥ 0 then den else den <<< (-k).toNat
  let q := n / d
  let r := n % d
  F64.roundPack neg (2 * q + (if r = 0 then 0 else 1)) (-k - 1)

/-- the exact value mant × 10^ex, rounded -/
def roundDec (neg : Bool) (mant : Nat) (ex : Int) : F64 :=
  if ex ≥ 0 then roundRat neg (mant * 10 ^ ex.toNat) 1 else roundRat neg mant (10 ^ (-ex).toNat)

def lowerAscii (b : Bytes) : Bytes := b.map fun c => if 65 ≤ c ∧ c ≤ 90 then c + 32 else c
def lower (c : UInt8) : UInt8 := c ||| 32

/-- `math.NaN()` -/
def goNaN : F64 := 0x7FF8000000000001

/-- state of the mantissa loop of `readFloat` -/
structure Mant where
  mant : Nat := 0          -- ALL significant digits (Go keeps 19 and re-reads the text when it truncated)
  nd : Nat := 0
  dp : Int := 0
  sawdot : Bool := false
  sawdigits : Bool := false
  under : Bool := false
deriving Repr, DecidableEq

def scanMant : Bytes → Mant → Bytes × Mant
  | [], m => ([], m)
  | c :: r, m =>
    if c = 95 then scanMant r { m with under := true }
    else if c = 46 then
      if m.sawdot then (c :: r, m) else scanMant r { m with sawdot := true, dp := m.nd }
    else if isDigit c then
      if c = 48 ∧ m.nd = 0 then scanMant r { m with sawdigits := true, dp := m.dp - 1 }   -- ignore leading zeros
      else scanMant r { m with sawdigits := true, nd := m.nd + 1, mant := m.mant * 10 + (c.toNat - 48) }
    else (c :: r, m)

/-- exponent digits: `if e < 10000 { e = e*10 + digit }` -/
def scanExp : Bytes → Nat → Bool → Bytes × Nat × Bool
  | [], e, u => ([], e, u)
  | c :: r, e, u =>
    if c = 95 then scanExp r e true
    else if isDigit c then scanExp r (if e < 10000 then e * 10 + (c.toNat - 48) else e) u
    else (c :: r, e, u)

/-- `strconv.underscoreOK`: saw = 0 '^', 1 digit or base prefix, 2 '_', 3 anything else -/
def underscoreGo (hex : Bool) : Bytes → Nat → Bool
  | [], saw => saw != 2
  | c :: r, saw =>
    if isDigit c || (hex && 97 ≤ lower c && lower c ≤ 102) then underscoreGo hex r 1
    else if c = 95 then (if saw != 1 then false else underscoreGo hex r 2)
    else if saw = 2 then false
    else underscoreGo hex r 3

def underscoreOK (s : Bytes) : Bool :=
  let s := match s with | 43 :: r => r | 45 :: r => r | r => r
  match s with
  | 48 :: c :: r =>
    if lower c = 98 ∨ lower c = 111 ∨ lower c = 120 then underscoreGo (lower c = 120) r 1
    else underscoreGo false s 0
  | _ => underscoreGo false s 0

def splitSign (b : Bytes) : Bool × Bool × Bytes :=
  match b with
  | 43 :: r => (true, false, r)
  | 45 :: r => (true, true, r)
  | r => (false, false, r)

/-- `i+2 < len(s) && s[i] == '0' && lower(s[i+1]) == 'x'` -/
def hexPrefix (body : Bytes) : Bool :=
  match body with
  | 48 :: c :: _ :: _ => lower c = 120
  | _ => false

/-- the exponent part of `readFloat`: `none` = syntax error; otherwise rest, dp, underscores seen -/
def scanExpPart (rest : Bytes) (dp : Int) : Option (Bytes × Int × Bool) :=
  match rest with
  | [] => some ([], dp, false)
  | c :: r =>
    if c = 101 ∨ c = 69 then
      let (esign, r) : Int × Bytes := match r with
        | 43 :: r' => (1, r')
        | 45 :: r' => (-1, r')
        | r' => (1, r')
      match r with
      | [] => none
      | d :: _ =>
        if isDigit d then
          let (rest, e, u) := scanExp r 0 false
          some (rest, dp + (e : Int) * esign, u)
        else none
    else some (rest, dp, false)

/-- `strconv.ParseFloat(b, 64)` on decimal syntax: `some (some x)` parsed, `some none` = error (syntax or
    range), `none` = outside the model (hex float, more than 800 significant digits) -/
def parseDec (b : Bytes) : Option (Option F64) :=
  let (_, neg, body) := splitSign b
  if hexPrefix body then none else
  let (rest, m) := scanMant body {}
  if !m.sawdigits then some none else
  let dp : Int := if m.sawdot then m.dp else m.nd
  match scanExpPart rest dp with
  | none => some none
  | some (rest, dp, u) =>
    if !rest.isEmpty then some none                                   -- ParseFloat: n != len(s)
    else if (m.under || u) && !underscoreOK b then some none
    else if m.nd > 800 then none
    else
      let x := if m.mant = 0 then F64.zero neg else roundDec neg m.mant (dp - m.nd)
      if F64.isInf x then some none else some (some x)

/-- `strconv.ParseFloat(b, 64)`: `strconv.special` first (an optional sign followed by "inf" or "infinity",
    any letter case, nothing after it, is ±Inf; "nan", any letter case, NO sign, is NaN), then `readFloat` -/
def parseFloat (b : Bytes) : Option (Option F64) :=
  let (signed, neg, body) := splitSign b
  let lb := lowerAscii body
  if lb = Bytes.ofString "inf" ∨ lb = Bytes.ofString "infinity" then some (some (F64.inf neg))
  else if !signed ∧ lb = Bytes.ofString "nan" then some (some goNaN)
  else parseDec b

/-! ### FormatFloat(x, 'f', -1, 64) -/

def stripTrailingZeros (ds : Bytes) : Bytes := (ds.reverse.dropWhile (· = 48)).reverse

/-- `%f` rendering of the decimal c × 10^k (c > 0): integer part, and a fraction without trailing zeros -/
def renderF (c : Nat) (k : Int) : Bytes :=
  let ds := natDigits c
  if k ≥ 0 then ds ++ List.replicate k.toNat 48
  else
    let j := (-k).toNat
    let ip := if ds.length > j then ds.take (ds.length - j) else [48]
    let fr := if ds.length > j then ds.drop (ds.length - j) else List.replicate (j - ds.length) 48 ++ ds
    let fr := stripTrailingZeros fr
    if fr.isEmpty then ip else ip ++ 46 :: fr

def signed (neg : Bool) (t : Bytes) : Bytes := if neg then 45 :: t else t

/-- is a/b ≥ 10^p ? -/
def ge10 (a b : Nat) (p : Int) : Bool :=
  if p ≥ 0 then a ≥ b * 10 ^ p.toNat else a * 10 ^ (-p).toNat ≥ b

/-- the decimal exponent p of a/b (10^p ≤ a/b < 10^(p+1)): an estimate from the bit lengths, corrected upwards -/
def decExp (a b : Nat) : Int :=
  let l : Int := (Nat.log2 a : Int) - (Nat.log2 b : Int)
  let p0 : Int := (l * 1233) / 4096 - 2
  let bump := fun (p : Int) => if ge10 a b (p + 1) then p + 1 else p
  bump (bump (bump (bump p0)))

/-- floor((a/b) / 10^k) -/
def floorDiv10 (a b : Nat) (k : Int) : Nat :=
  if k ≥ 0 then a / (b * 10 ^ k.toNat) else a * 10 ^ (-k).toNat / b

/-- the n-digit candidates around a/b (exact: x = a/b), whether each rounds to `ax` (numerically and
    as rendered text), and the choice between them -/
def tryDigits (x ax : F64) (neg : Bool) (a b : Nat) (d17 : Nat) (k17 : Int) (n : Nat) : Option (Nat × Int) :=
  let k : Int := k17 + 17 - n
  let lo := d17 / 10 ^ (17 - n)
  let hi := lo + 1
  let ok := fun (c : Nat) =>
    c != 0 && roundDec false c k == ax && parseFloat (signed neg (renderF c k)) == some (some x)
  let okLo := ok lo
  let okHi := ok hi
  if okLo && okHi then
    -- the closer one: 2·a/b against (2·lo+1)·10^k
    let upCloser := if k ≥ 0 then 2 * a > (2 * lo + 1) * 10 ^ k.toNat * b else 2 * a * 10 ^ (-k).toNat > (2 * lo + 1) * b
    let tie := if k ≥ 0 then 2 * a = (2 * lo + 1) * 10 ^ k.toNat * b else 2 * a * 10 ^ (-k).toNat = (2 * lo + 1) * b
    if upCloser || (tie && lo % 2 = 1) then some (hi, k) else some (lo, k)
  else if okLo then some (lo, k)
  else if okHi then some (hi, k)
  else none

/-- first n in 1..17 with a round-tripping candidate; `none` if there is none (never observed) -/
def searchShortest (x : F64) : Option (Nat × Int) :=
  let neg := F64.sign x
  let ax : F64 := x &&& 0x7FFFFFFFFFFFFFFF
  let (m, e) := F64.decode ax
  let a := if e ≥ 0 then m * 2 ^ e.toNat else m
  let b := if e ≥ 0 then 1 else 2 ^ (-e).toNat
  let k17 := decExp a b - 16
  let d17 := floorDiv10 a b k17
  (List.range 17).findSome? fun i => tryDigits x ax neg a b d17 k17 (i + 1)

/-- the text when the search fails: 17 digits, truncated (unreachable on every double tried) -/
def fallback17 (x : F64) : Bytes :=
  let ax : F64 := x &&& 0x7FFFFFFFFFFFFFFF
  let (m, e) := F64.decode ax
  let a := if e ≥ 0 then m * 2 ^ e.toNat else m
  let b := if e ≥ 0 then 1 else 2 ^ (-e).toNat
  let k17 := decExp a b - 16
  signed (F64.sign x) (renderF (floorDiv10 a b k17) k17)

/-- `strconv.FormatFloat(x, 'f', -1, 64)` -/
def formatShortest (x : F64) : Bytes :=
  if F64.isNaN x then Bytes.ofString "NaN"
  else if F64.isInf x then Bytes.ofString (if F64.sign x then "-Inf" else "+Inf")
  else if F64.isZero x then (if F64.sign x then [45, 48] else [48])
  else match searchShortest x with
    | some (c, k) => signed (F64.sign x) (renderF c k)
    | none => fallback17 x

end NodisVerif.FloatDec
