import NodisVerif.Model.F64More
/-
  internal/geohash (geohash.go, helper.go), statement by statement:
  `interleave64` / `deinterleave64` (the bit tricks, on UInt64), `Encode` / `EncodeWGS84` (range
  checks, offsets, × 2^step, interleave), `decode` / `DecodeToLongLatWGS84`, `EncodeToBase32`.
  Floats are bit patterns with the exact arithmetic of F64Arith / F64More (no FMA on amd64).
  The trigonometric part (GetDistance, boundingBox, neighbours) is NOT modelled.
-/
namespace NodisVerif.Geohash

def b0 : UInt64 := 0x5555555555555555
def b1 : UInt64 := 0x3333333333333333
def b2 : UInt64 := 0x0F0F0F0F0F0F0F0F
def b3 : UInt64 := 0x00FF00FF00FF00FF
def b4 : UInt64 := 0x0000FFFF0000FFFF
def b5 : UInt64 := 0x00000000FFFFFFFF

/-- one half of `interleave64`: spread the low 32 bits to the even positions -/
def spread (x : UInt64) : UInt64 :=
  let x := (x ||| x <<< 16) &&& b4
  let x := (x ||| x <<< 8) &&& b3
  let x := (x ||| x <<< 4) &&& b2
  let x := (x ||| x <<< 2) &&& b1
  (x ||| x <<< 1) &&& b0

/-- `interleave64(xlo, ylo uint32)`: the arguments are 32-bit values held in UInt64 -/
def interleave64 (xlo ylo : UInt64) : UInt64 := spread xlo ||| (spread ylo <<< 1)

/-- one half of `deinterleave64`: squash the even positions into the low 32 bits -/
def squash (x : UInt64) : UInt64 :=
  let x := (x ||| x >>> 0) &&& b0
  let x := (x ||| x >>> 1) &&& b1
  let x := (x ||| x >>> 2) &&& b2
  let x := (x ||| x >>> 4) &&& b3
  let x := (x ||| x >>> 8) &&& b4
  (x ||| x >>> 16) &&& b5

/-- `deinterleave64`: `(uint32(x), uint32(x >> 32))` of `x | y << 32` -/
def deinterleave64 (v : UInt64) : UInt64 × UInt64 :=
  let x := squash v
  let y := squash (v >>> 1)
  let r := x ||| (y <<< 32)
  (r &&& b5, (r >>> 32) &&& b5)

/-! ### constants (bit patterns) -/
def f180 : F64 := 0x4066800000000000
def fm180 : F64 := 0xC066800000000000
def f90 : F64 := 0x4056800000000000
def fm90 : F64 := 0xC056800000000000
def latMax : F64 := 0x40554345B1A57F00     -- 85.05112878
def latMin : F64 := 0xC0554345B1A57F00
def fOne : F64 := 0x3FF0000000000000
def fTwo : F64 := 0x4000000000000000

structure Range where
  max : F64
  min : F64

def wgsLong : Range := ⟨f180, fm180⟩
def wgsLat : Range := ⟨latMax, latMin⟩
def wgsStep : Nat := 26

/-- `Encode(longRange, latRange, longitude, latitude, step)`: `none` = an error is returned (the
    zero HashBits with it) -/
def encode (lonR latR : Range) (lon lat : F64) (step : Nat) : Option UInt64 :=
  if step > 32 ∨ step = 0 then none else
  if F64.gt lon f180 ∨ F64.lt lon fm180 ∨ F64.gt lat latMax ∨ F64.lt lat latMin then none else
  if F64.gt lon lonR.max ∨ F64.lt lon lonR.min ∨ F64.gt lat latR.max ∨ F64.lt lat latR.min then none else
  let latOff := F64.div (F64.sub lat latR.min) (F64.sub latR.max latR.min)
  let lonOff := F64.div (F64.sub lon lonR.min) (F64.sub lonR.max lonR.min)
  let x := F64.ofNat (2 ^ step)
  let latOff := F64.mul latOff x
  let lonOff := F64.mul lonOff x
  some (interleave64 (UInt64.ofNat (F64.toUInt32 latOff)) (UInt64.ofNat (F64.toUInt32 lonOff)))

/-- `EncodeWGS84(lon, lat)` with the error dropped, as every caller in geo.go does (`v, _ :=`) -/
def encodeWGS84 (lon lat : F64) : UInt64 := (encode wgsLong wgsLat lon lat wgsStep).getD 0

/-- `decode(lonRange, latRange, hash)`: (lonMin, lonMax, latMin, latMax) -/
def decodeArea (lonR latR : Range) (bits : UInt64) (step : Nat) : F64 × F64 × F64 × F64 :=
  let latScale := F64.sub latR.max latR.min
  let lonScale := F64.sub lonR.max lonR.min
  let (ilato, ilono) := deinterleave64 bits
  let x := F64.ofNat (2 ^ step)
  let fl := F64.ofNat ilato.toNat
  let fo := F64.ofNat ilono.toNat
  let latLo := F64.add latR.min (F64.mul (F64.div fl x) latScale)
  let latHi := F64.add latR.min (F64.mul (F64.div (F64.add fl fOne) x) latScale)
  let lonLo := F64.add lonR.min (F64.mul (F64.div fo x) lonScale)
  let lonHi := F64.add lonR.min (F64.mul (F64.div (F64.add fo fOne) x) lonScale)
  (lonLo, lonHi, latLo, latHi)

/-- `DecodeToLongLatWGS84(bits)`: (longitude, latitude) — the centre of the cell -/
def decodeWGS84 (bits : UInt64) : F64 × F64 :=
  let (lonLo, lonHi, latLo, latHi) := decodeArea wgsLong wgsLat bits wgsStep
  (F64.div (F64.add lonHi lonLo) fTwo, F64.div (F64.add latHi latLo) fTwo)

def alphabet : List UInt8 := (Bytes.ofString "0123456789bcdefghjkmnpqrstuvwxyz")

/-- `EncodeToBase32(hash)`: 11 characters; the shift `52 - (i+1)*5` is uint8 arithmetic, so the
    eleventh character (i = 10: 52 - 55 wraps to 253) is always the zero digit -/
def encodeToBase32 (hash : UInt64) : Bytes :=
  (List.range 11).map fun i =>
    let sh := (52 + 256 - (i + 1) * 5) % 256
    let idx := if sh ≥ 64 then 0 else (hash.toNat >>> sh) % 32
    alphabet.getD idx 48

end NodisVerif.Geohash
