import NodisVerif.Model.F64Arith
/-
  The rest of the IEEE-754 binary64 arithmetic the GEO code uses, on bit patterns, exact:
  subtraction, division (rational rounding with big naturals), `float64(uint64)`, and the
  conversions `uint64(float64)` / `uint32(float64)` as the Go compiler emits them on amd64
  (CVTTSD2SQ: truncation toward zero, the "integer indefinite" value 0x8000000000000000 when the
  truncated value does not fit an int64 or the operand is NaN; the uint64 form subtracts 2^63 first
  when the operand is not below 2^63; the uint32 form converts to int64 and keeps the low 32 bits).
  For in-range operands all of this is plain truncation; the out-of-range behaviour is what the
  harness machine (amd64) does and is tied by the `f64` operation lines of the checks.
-/
namespace NodisVerif.F64

def negate (a : F64) : F64 := a ^^^ 0x8000000000000000

/-- `a - b` (IEEE: `a + (-b)`) -/
def sub (a b : F64) : F64 := if isNaN a ∨ isNaN b then qnan else add a (negate b)

/-- round `num / den` (den > 0) to the nearest double, ties to even: the quotient is taken with at
    least 64 significant bits plus a sticky bit, then rounded once by `roundPack` -/
def roundRat (neg : Bool) (num den : Nat) : F64 :=
  if num = 0 then zero neg else
  let k : Int := 66 + (Nat.log2 den : Int) - (Nat.log2 num : Int)
  let n' : Nat := if k ≥ 0 then num <<< k.toNat else num
  let d' : Nat := if k ≥ 0 then den else den <<< (-k).toNat
  let q := n' / d'
  let r := n' % d'
  roundPack neg (2 * q + (if r = 0 then 0 else 1)) (-k - 1)

def div (a b : F64) : F64 :=
  if isNaN a ∨ isNaN b then qnan
  else
    let neg := sign a != sign b
    if isInf a then (if isInf b then qnan else inf neg)
    else if isInf b then zero neg
    else if isZero b then (if isZero a then qnan else inf neg)
    else
      let (ma, ea) := decode a
      let (mb, eb) := decode b
      let d := ea - eb
      if d ≥ 0 then roundRat neg (ma * 2 ^ d.toNat) mb else roundRat neg ma (mb * 2 ^ (-d).toNat)

/-- `float64(x)` for an unsigned 64-bit `x` (correctly rounded) -/
def ofNat (n : Nat) : F64 := roundPack false n 0

/-- the value truncated toward zero, for a finite operand -/
def truncInt (a : F64) : Int :=
  let (m, e) := decode a
  let v : Nat := if e ≥ 0 then m * 2 ^ e.toNat else m / 2 ^ (-e).toNat
  if sign a then -(v : Int) else v

def two63 : Int := 9223372036854775808
def two64 : Int := 18446744073709551616
def f2_63 : F64 := 0x43E0000000000000

/-- CVTTSD2SQ: int64 result, as an unsigned 64-bit pattern -/
def cvttsd2sq (a : F64) : Nat :=
  if isNaN a ∨ isInf a then two63.toNat else
  let t := truncInt a
  if t < -two63 ∨ t ≥ two63 then two63.toNat else (t % two64).toNat

/-- Go `uint64(f)` on amd64 -/
def toUInt64 (a : F64) : Nat :=
  if lt a f2_63 then cvttsd2sq a
  else
    let z := cvttsd2sq (sub a f2_63)
    if z ≥ two63.toNat then z else z + two63.toNat       -- z | 0x8000000000000000

/-- Go `uint32(f)` on amd64: the int64 conversion, truncated to 32 bits -/
def toUInt32 (a : F64) : Nat := cvttsd2sq a % 4294967296

end NodisVerif.F64
