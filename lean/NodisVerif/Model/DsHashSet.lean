import NodisVerif.Model.Val
import NodisVerif.Model.Glob
/-
  ds/hash/hash.go and ds/set/set.go on key-sorted association lists.
  Go map results (HGetAll, HScan) are returned here in field order; the harness sorts the Go side.
-/
namespace NodisVerif

namespace DsHash
abbrev H := AList Bytes

def hset (h : H) (k v : Bytes) : H × Int :=
  (AList.set h k v, if AList.contains h k then 0 else 1)

def hget (h : H) (k : Bytes) : Option Bytes := AList.get? h k

def hdel (h : H) (ks : List Bytes) : H × Int :=
  ks.foldl (fun (acc : H × Int) k =>
    if AList.contains acc.1 k then (AList.erase acc.1 k, acc.2 + 1) else acc) (h, 0)

def hlen (h : H) : Int := h.length
def hkeys (h : H) : List Bytes := AList.keys h
def hvals (h : H) : List Bytes := AList.values h
def hexists (h : H) (k : Bytes) : Bool := AList.contains h k
def hgetall (h : H) : List (Bytes × Bytes) := h

/-- `HIncrBy`: `none` = "hash value is not an integer" (state unchanged) -/
def hincrby (h : H) (k : Bytes) (delta : Int) : Option (H × Int) :=
  match AList.get? h k with
  | none => some (AList.set h k (formatInt delta), delta)
  | some v =>
    match parseInt64 v with
    | none => none
    | some vi =>
      let i := wrap64 (vi + delta)
      some (AList.set h k (formatInt i), i)

def hmget (h : H) (ks : List Bytes) : List (Option Bytes) := ks.map (AList.get? h)

def hsetnx (h : H) (k v : Bytes) : H × Bool :=
  if AList.contains h k then (h, false) else (AList.set h k v, true)

def hstrlen (h : H) (k : Bytes) : Int := ((AList.get? h k).getD []).length

/-- positional scan shared by HSCAN / SSCAN / ZSCAN: skip `cursor` elements, visit up to `count`
    (count ≤ 0: all the remaining ones), keep those whose name matches; returns the position to
    continue from (= number of elements skipped + visited) and the kept ones -/
def posScan {α : Type} (name : α → Bytes) (xs : List α) (cursor : Int) (pat : Bytes) (count : Int) : Int × List α :=
  let c : Nat := if cursor < 0 then 0 else cursor.toNat
  let rest := xs.drop c
  let seen := if count > 0 then rest.take count.toNat else rest
  (((min c xs.length + seen.length : Nat) : Int), seen.filter fun x => Glob.matched pat (name x))

def hscan (h : H) (cursor : Int) (pat : Bytes) (count : Int) : Int × List (Bytes × Bytes) :=
  posScan (·.1) h cursor pat count
end DsHash

namespace DsSet
abbrev S := AList Unit

def members (s : S) : List Bytes := AList.keys s
def mem (s : S) (m : Bytes) : Bool := AList.contains s m

def sadd (s : S) (ms : List Bytes) : S × Int :=
  ms.foldl (fun (acc : S × Int) m =>
    if mem acc.1 m then acc else (AList.set acc.1 m (), acc.2 + 1)) (s, 0)

def scard (s : S) : Int := s.length

def srem (s : S) (ms : List Bytes) : S × Int :=
  ms.foldl (fun (acc : S × Int) m =>
    if mem acc.1 m then (AList.erase acc.1 m, acc.2 + 1) else acc) (s, 0)

def sdiff (s : S) (others : List S) : List Bytes :=
  (members s).filter fun m => !(others.any fun o => mem o m)

def sinter (s : S) (others : List S) : List Bytes :=
  (members s).filter fun m => others.all fun o => mem o m

/-- `SUnion`: own members, then the members of the other sets that are not in the receiver, each
    reported once (first occurrence) -/
def sunion (s : S) (others : List S) : List Bytes :=
  let extra := others.flatMap fun o => (members o).filter fun m => !(mem s m)
  members s ++ extra.foldl (fun acc m => if acc.contains m then acc else acc ++ [m]) []

/-- `SScan(cursor, match, count)` -/
def sscan (s : S) (cursor : Int) (pat : Bytes) (count : Int) : Int × List Bytes :=
  DsHash.posScan id (members s) cursor pat count

end DsSet
end NodisVerif
