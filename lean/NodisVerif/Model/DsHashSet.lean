import NodisVerif.Model.Val
import NodisVerif.Model.Glob
/-
  ds/hash/hash.go and ds/set/set.go on key-sorted association lists.
  Go map results (HGetAll, HScan) are returned here in field order; the harness sorts the Go side.
-/
namespace NodisVerif

namespace DsHash
abbrev H := AList Bytes

def hset (h : H) (k v : Bytes) : H × Int :=
  (AList.set h k v, if AList.contains h k then 0 else 1)

def hget (h : H) (k : Bytes) : Option Bytes := AList.get? h k

def hdel (h : H) (ks : List Bytes) : H × Int :=
  ks.foldl (fun (acc : H × Int) k =>
    if AList.contains acc.1 k then (AList.erase acc.1 k, acc.2 + 1) else acc) (h, 0)

def hlen (h : H) : Int := h.length
def hkeys (h : H) : List Bytes := AList.keys h
def hvals (h : H) : List Bytes := AList.values h
def hexists (h : H) (k : Bytes) : Bool := AList.contains h k
def hgetall (h : H) : List (Bytes × Bytes) := h

/-- `HIncrBy`: `none` = "hash value is not an integer" (state unchanged) -/
def hincrby (h : H) (k : Bytes) (delta : Int) : Option (H × Int) :=
  match AList.get? h k with
  | none => some (AList.set h k (formatInt delta), delta)
  | some v =>
    match parseInt64 v with
    | none => none
    | some vi =>
      let i := wrap64 (vi + delta)
      some (AList.set h k (formatInt i), i)

def hmget (h : H) (ks : List Bytes) : List (Option Bytes) := ks.map (AList.get? h)

def hsetnx (h : H) (k v : Bytes) : H × Bool :=
  if AList.contains h k then (h, false) else (AList.set h k v, true)

def hstrlen (h : H) (k : Bytes) : Int := ((AList.get? h k).getD []).length

/-- `HScan(cursor, match, count)`: the scan visits fields in order, stops when `i ≥ cursor+count`
    (after visiting at least one), returns the number visited and the matched fields at
    positions ≥ cursor. -/
def hscanAux (pat : Bytes) (cursor count : Int) : List (Bytes × Bytes) → Int → List (Bytes × Bytes) → Int × List (Bytes × Bytes)
  | [], i, acc => (i, acc.reverse)
  | (k, v) :: rest, i, acc =>
    let acc := if Glob.matched pat k ∧ i ≥ cursor then (k, v) :: acc else acc
    let i := i + 1
    if i < cursor + count then hscanAux pat cursor count rest i acc else (i, acc.reverse)

def hscan (h : H) (cursor : Int) (pat : Bytes) (count : Int) : Int × List (Bytes × Bytes) :=
  hscanAux pat cursor count h 0 []
end DsHash

namespace DsSet
abbrev S := AList Unit

def members (s : S) : List Bytes := AList.keys s
def mem (s : S) (m : Bytes) : Bool := AList.contains s m

def sadd (s : S) (ms : List Bytes) : S × Int :=
  ms.foldl (fun (acc : S × Int) m =>
    if mem acc.1 m then acc else (AList.set acc.1 m (), acc.2 + 1)) (s, 0)

def scard (s : S) : Int := s.length

def srem (s : S) (ms : List Bytes) : S × Int :=
  ms.foldl (fun (acc : S × Int) m =>
    if mem acc.1 m then (AList.erase acc.1 m, acc.2 + 1) else acc) (s, 0)

def sdiff (s : S) (others : List S) : List Bytes :=
  (members s).filter fun m => !(others.any fun o => mem o m)

def sinter (s : S) (others : List S) : List Bytes :=
  (members s).filter fun m => others.all fun o => mem o m

/-- `SUnion`: own members, then the members of the other sets that are not in the receiver, each
    reported once (first occurrence) -/
def sunion (s : S) (others : List S) : List Bytes :=
  let extra := others.flatMap fun o => (members o).filter fun m => !(mem s m)
  members s ++ extra.foldl (fun acc m => if acc.contains m then acc else acc ++ [m]) []

/-- `SScan`: ignores the cursor except for the termination test -/
def sscan (s : S) (cursor : Int) (pat : Bytes) (count : Int) : Int × Option (List Bytes) :=
  if cursor ≥ s.length then (0, none) else
  let rec go : List Bytes → List Bytes → List Bytes
    | [], acc => acc.reverse
    | m :: rest, acc =>
      if count > 0 ∧ (acc.length : Int) ≥ count then acc.reverse
      else go rest (if Glob.matched pat m then m :: acc else acc)
  (cursor, some (go (members s) []))

end DsSet
end NodisVerif
