import NodisVerif.Model.Val
import NodisVerif.Model.DsZSet
/-
  Well-formedness predicates of values (decidable, stated on the model's data).
-/
namespace NodisVerif

/-- keys strictly increasing in bytewise order (this is what a btree.Map scan yields) -/
def AList.Sorted {V : Type} : AList V → Prop
  | [] => True
  | [_] => True
  | (a, _) :: (b, w) :: rest => Bytes.lt a b = true ∧ AList.Sorted ((b, w) :: rest)

/-- strict (score, member) order of the skiplist chain -/
def itemLt (a b : F64 × Bytes) : Bool := DsZSet.nodeLt a b.1 b.2

def chainSorted : List (F64 × Bytes) → Prop
  | [] => True
  | [_] => True
  | a :: b :: rest => itemLt a b = true ∧ chainSorted (b :: rest)

/-- sorted-set invariant: dictionary sorted by member, no NaN score, chain sorted by
    (score, member), and chain and dictionary hold the same (member, score) pairs. -/
structure ZSet.WF (z : ZSet) : Prop where
  dictSorted : AList.Sorted z.dict
  noNaN : ∀ m s, (m, s) ∈ z.dict → F64.isNaN s = false
  chainSorted : chainSorted z.sl
  sameLen : z.sl.length = z.dict.length
  agree : ∀ m s, (s, m) ∈ z.sl → AList.get? z.dict m = some s

def LList.WF (l : LList) : Prop := l.length = l.items.length

def Val.WF : Val → Prop
  | .str _ => True
  | .strNil => True
  | .list l => l.WF
  | .hash h => AList.Sorted h
  | .set s => AList.Sorted s
  | .zset z => z.WF

end NodisVerif
