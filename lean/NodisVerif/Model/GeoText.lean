import NodisVerif.Model.FloatText
import NodisVerif.Model.F64More
/-
  `strconv.ParseFloat(s, 64)` on plain decimal text with a fraction and / or a decimal exponent
  (`[+-]ddd[.ddd][e[+-]dd]`), correctly rounded (ParseFloat is correctly rounded for every input):
  the value `mant × 10^e` is rounded once, as an integer (`roundPack`) or as a quotient of two big
  naturals (`roundRat`). This extends `FloatText.parseFloat` (integers, inf, nan) for the GEO
  handlers, whose coordinates are fractions. Hex floats and underscores stay outside the model.
-/
namespace NodisVerif.GeoText

def splitDigits (b : Bytes) : Bytes × Bytes := (b.takeWhile isDigit, b.dropWhile isDigit)

/-- `some (some x)` parsed, `some none` = range error (the result would be ±Inf), `none` = not of
    the decimal shape handled here -/
def decimal? (b : Bytes) : Option (Option F64) :=
  let (neg, body) : Bool × Bytes := match b with
    | 43 :: r => (false, r)
    | 45 :: r => (true, r)
    | r => (false, r)
  let (ip, r1) := splitDigits body
  let (fp, r2) : Bytes × Bytes := match r1 with
    | 46 :: r => splitDigits r
    | _ => ([], r1)
  if ip.isEmpty ∧ fp.isEmpty then none else
  let expPart : Option Int := match r2 with
    | [] => some 0
    | c :: r =>
      if c = 101 ∨ c = 69 then
        let (eneg, ed) : Bool × Bytes := match r with
          | 43 :: r => (false, r)
          | 45 :: r => (true, r)
          | r => (false, r)
        if ed.isEmpty ∨ !ed.all isDigit ∨ ed.length > 18 then none
        else some (if eneg then -(digitsToNat ed 0 : Int) else (digitsToNat ed 0 : Int))
      else none
  match expPart with
  | none => none
  | some e =>
    if ip.length + fp.length > 400 then none else
    let mant := digitsToNat (ip ++ fp) 0
    let e10 : Int := e - fp.length
    -- far outside the exponent range of a double: zero stays zero, everything else overflows (range
    -- error) or underflows to zero (no error)
    if mant = 0 then some (some (F64.zero neg)) else
    if e10 > 400 then some none else
    if e10 < -800 then some (some (F64.zero neg)) else
    let x := if e10 ≥ 0 then F64.roundPack neg (mant * 10 ^ e10.toNat) 0 else F64.roundRat neg mant (10 ^ (-e10).toNat)
    if F64.isInf x then some none else some (some x)

/-- `strconv.ParseFloat(b, 64)`: FloatText's fragment, then decimal fractions / exponents -/
def parseFloat (b : Bytes) : Option (Option F64) :=
  match FloatText.parseFloat b with
  | some r => some r
  | none => decimal? b

/-- `redis.FormatFloat64(a)` (see `FloatText.redisFloat`) over the extended parser -/
def redisFloat (a : Bytes) : Option (Option (Option F64)) :=
  match a with
  | [] => none
  | c :: rest =>
    let body := if c = 40 then rest else a
    some (match parseFloat body with
          | none => some none
          | some none => none
          | some (some x) => if F64.isNaN x then none else some (some x))

def hexDigit (n : Nat) : UInt8 := if n < 10 then UInt8.ofNat (48 + n) else UInt8.ofNat (87 + n)

/-- the bit pattern as text, used where the decimal text of a double is not available to the model -/
def bitsText (x : F64) : Bytes :=
  Bytes.ofString "f64:" ++ (List.range 16).map fun i => hexDigit ((x.toNat >>> (4 * (15 - i))) % 16)

end NodisVerif.GeoText
