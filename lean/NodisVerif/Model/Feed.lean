import NodisVerif.Model.Api
import NodisVerif.Wire
/-
  The change feed (nodis.go: notify / WatchKey / ApplyPatch, patch/patch.go).

  `emission`: the records a watcher with pattern * is handed for one call of the embedded API, in
  delivery order. The API functions of `Model/Api.lean` already push a record at every `n.notify`
  site (`MState.feed`, newest first); this file adds what those sites do not carry:
    * INCR/DECR/INCRBY/DECRBY/INCRBYFLOAT/APPEND/SETRANGE/SETBIT records say KeepTTL (the commands keep
      the deadline),
    * SMOVE emits SREM source before SADD destination,
    * ZADD NX on an existing member emits nothing,
    * HINCRBY / HINCRBYFLOAT that fail emit nothing,
    * Clear emits a CLEAR record,
    * Z*STORE records carry their operands.
  `applyOp` is `Nodis.applyPatch`: the API call a replica makes for one record.
-/
namespace NodisVerif.Feed
open Api

def keepTTLMethods : List String := ["Incr", "IncrBy", "Decr", "DecrBy", "IncrByFloat", "SetBit", "Append", "SetRange"]

/-- arguments of the call that the corrections need -/
structure CallInfo where
  method : String
  bs     : List Bytes := []          -- plain byte-string arguments in order
  keys   : List Bytes := []          -- Z*STORE operands
  weights : List F64 := []
  aggregate : Bytes := []

def emission (c : CallInfo) (out : Out) (raw : List FeedOp) : List FeedOp :=
  if keepTTLMethods.contains c.method then
    raw.map fun op => match op.typ, op.args with
      | 25, [v, _, e] => { op with args := [v, "true", e] }
      | _, _ => op
  else if c.method == "SMove" then
    match raw, c.bs with
    | _ :: _, [src, _, member] => { typ := 24, key := src, args := [Bytes.toHex member] } :: raw
    | _, _ => raw
  else if c.method == "ZAddNX" then
    match out with
    | .int 0 => []
    | _ => raw
  else if c.method == "HIncrBy" || c.method == "HIncrByFloat" then
    match out with
    | .many [_, .err true] => []          -- nothing changed
    | _ => raw
  else if c.method == "Clear" then raw ++ [{ typ := 1, key := [] }]
  else if c.method == "ZUnionStore" || c.method == "ZInterStore" then
    raw.map fun op =>
      if op.typ == 34 || op.typ == 35 then
        { op with args := [Bytes.toHex c.aggregate] ++ c.keys.map Bytes.toHex ++ ["|"] ++ c.weights.map toString }
      else op
  else raw

def pB (s : String) : Option Bytes := Wire.parseArg s
def pI (s : String) : Option Int := s.toInt?
def pF (s : String) : Option F64 := s.toNat?.map UInt64.ofNat
def pT (s : String) : Option Bool := if s == "true" then some true else if s == "false" then some false else none

/-- `Nodis.applyPatch`; `none` = the record cannot be applied (error / unknown operation) -/
def applyOp (s : MState) (now : Int) (op : FeedOp) : Option MState :=
  let k := op.key
  match op.typ, op.args with
  | 1, [] => some (Store.clear s)
  | 2, [] => some (del s now [k]).1
  | 3, [e] => do some (expireAt s now k (← pI e)).1
  | 25, [v, keep, e] => do
    let s := (set s now k (← pB v) (← pT keep)).1
    let e ← pI e
    if e = 0 then some s else some (expireAt s now k e).1
  | 32, [d] => do some (rename s now k (← pB d)).1
  | 33, [] => some (persist s now k).1
  | 10, [f, v] => do some (hset s now k (← pB f) (← pB v)).1
  | 6, fs => do some (hdel s now k (← fs.mapM pB)).1
  | 7, [f, d] => do some (hincrby s now k (← pB f) (← pI d)).1
  | 8, [f, d] => do some (hincrbyfloat s now k (← pB f) (← pF d)).1
  | 14, vs => do some (push true s now k (← vs.mapM pB)).1
  | 21, vs => do some (push false s now k (← vs.mapM pB)).1
  | 12, [c] => do some (pop true s now k (← pI c)).1
  | 19, [c] => do some (pop false s now k (← pI c)).1
  | 11, [p, d, b] => do some (linsert s now k (← pB p) (← pB d) (← pT b)).1
  | 15, [d] => do some (pushX true s now k (← pB d)).1
  | 22, [d] => do some (pushX false s now k (← pB d)).1
  | 16, [d, c] => do some (lrem s now k (← pB d) (← pI c)).1
  | 17, [i, d] => do some (lset s now k (← pI i) (← pB d)).1
  | 18, [a, b] => do some (ltrim s now k (← pI a) (← pI b)).1
  | 13, [d] => do some (rotate true s now k (← pB d)).1
  | 20, [d] => do some (rotate false s now k (← pB d)).1
  | 23, ms => do some (sadd s now k (← ms.mapM pB)).1
  | 24, ms => do some (srem s now k (← ms.mapM pB)).1
  | 26, [m, sc] => do some (zadd s now k (← pB m) (← pF sc)).1
  | 28, [m, d] => do some (zincrby s now k (← pB m) (← pF d)).1
  | 29, ms => do some (zrem s now k (← ms.mapM pB)).1
  | 30, [a, b] => do some (zremRangeByRank s now k (← pI a) (← pI b)).1
  | 31, [a, b, m] => do some (zremRangeByScore s now k (← pF a) (← pF b) (← pI m)).1
  | 34, agg :: rest | 35, agg :: rest => do
    let ks ← (rest.takeWhile (· ≠ "|")).mapM pB
    let ws ← ((rest.dropWhile (· ≠ "|")).drop 1).mapM pF
    some (zstore (op.typ == 34) s now k ks ws (← pB agg)).1
  | _, _ => none

/-- which rendered fields of a record travel as protobuf `string` (the others as `bytes`): the key
    always; destination keys, hash fields, set / sorted-set members, Z*STORE operands -/
def stringFields (op : FeedOp) : List String :=
  match op.typ with
  | 32 | 13 | 20 => op.args                       -- DstKey
  | 10 | 7 | 8 | 26 | 28 => op.args.take 1        -- Field / Member
  | 6 | 23 | 24 | 29 => op.args                   -- Fields / Members
  | 34 | 35 => op.args.takeWhile (· ≠ "|")        -- Aggregate, Keys
  | _ => []

/-- `Op.Encode` / `DecodeOp` carry the record iff every `string` field is valid UTF-8 (protobuf
    refuses the others: a known finding, names are otherwise binary-safe) -/
def wireOk (op : FeedOp) : Bool :=
  String.validateUTF8 ⟨op.key.toArray⟩ &&
  (stringFields op).all fun a => match pB a with
    | some b => String.validateUTF8 ⟨b.toArray⟩
    | none => false

/-- a replica applies the records in order; it stops at the first one it cannot apply -/
def applyAll (s : MState) (now : Int) : List FeedOp → Option MState
  | [] => some s
  | op :: rest => do applyAll (← applyOp s now op) now rest

def render (op : FeedOp) : String :=
  s!"{op.typ}:{Bytes.toHex op.key}:{",".intercalate op.args}"

end NodisVerif.Feed
