import NodisVerif.Model.Val
/-
  IEEE-754 binary64 addition and multiplication on bit patterns, round-to-nearest-even, exact
  (big-integer arithmetic on significands). Used where nodis adds or multiplies scores
  (ZINCRBY, ZUNIONSTORE/ZINTERSTORE weights). NaN results are canonicalised to the quiet NaN Go
  produces on amd64; the generators never feed NaNs.
  Text conversion (strconv.ParseFloat / FormatFloat) is modelled only on integers (`toInt?`,
  `ofInt?`): INCRBYFLOAT / HINCRBYFLOAT outside that fragment are "outside the model".
-/
namespace NodisVerif.F64

def pow2_53 : Int := 9007199254740992

def sign (a : F64) : Bool := a >>> 63 == 1
def expBits (a : F64) : Nat := ((a >>> 52) &&& 0x7FF).toNat
def manBits (a : F64) : Nat := (a &&& 0xFFFFFFFFFFFFF).toNat
def isInf (a : F64) : Bool := expBits a = 0x7FF && manBits a = 0
def isZero (a : F64) : Bool := expBits a = 0 && manBits a = 0
def inf (neg : Bool) : F64 := if neg then 0xFFF0000000000000 else 0x7FF0000000000000
def qnan : F64 := 0xFFF8000000000000   -- the default NaN of SSE arithmetic (what Go yields on amd64)
def zero (neg : Bool) : F64 := if neg then 0x8000000000000000 else 0

/-- finite value = M × 2^E -/
def decode (a : F64) : Nat × Int :=
  if expBits a = 0 then (manBits a, -1074) else (manBits a + 2 ^ 52, (expBits a : Int) - 1075)

/-- round `n × 2^e` (n > 0) to the nearest double, ties to even -/
def roundPack (neg : Bool) (n : Nat) (e : Int) : F64 :=
  if n = 0 then zero neg else
  let bits : Int := Nat.log2 n + 1
  let shift : Int := max (bits - 53) (-1074 - e)
  let (q, e') : Nat × Int :=
    if shift ≤ 0 then (n <<< (-shift).toNat, e + shift)
    else
      let sh := shift.toNat
      let q := n >>> sh
      let rem := n % 2 ^ sh
      let half := 2 ^ (sh - 1)
      let q := if rem > half ∨ (rem = half ∧ q % 2 = 1) then q + 1 else q
      if q = 2 ^ 53 then (2 ^ 52, e + shift + 1) else (q, e + shift)
  if q ≥ 2 ^ 52 then
    let biased := e' + 1075
    if biased ≥ 2047 then inf neg
    else
      let b : UInt64 := (UInt64.ofNat biased.toNat <<< 52) ||| UInt64.ofNat (q - 2 ^ 52)
      if neg then b ||| 0x8000000000000000 else b
  else
    let b : UInt64 := UInt64.ofNat q
    if neg then b ||| 0x8000000000000000 else b

def add (a b : F64) : F64 :=
  if isNaN a ∨ isNaN b then qnan
  else if isInf a then (if isInf b ∧ sign a ≠ sign b then qnan else a)
  else if isInf b then b
  else
    let (ma, ea) := decode a
    let (mb, eb) := decode b
    let e0 := min ea eb
    let va : Int := (ma * 2 ^ (ea - e0).toNat : Nat)
    let vb : Int := (mb * 2 ^ (eb - e0).toNat : Nat)
    let n : Int := (if sign a then -va else va) + (if sign b then -vb else vb)
    if n = 0 then zero (sign a ∧ sign b)
    else roundPack (n < 0) n.natAbs e0

def mul (a b : F64) : F64 :=
  if isNaN a ∨ isNaN b then qnan
  else
    let neg := sign a != sign b
    if isInf a ∨ isInf b then (if isZero a ∨ isZero b then qnan else inf neg)
    else
      let (ma, ea) := decode a
      let (mb, eb) := decode b
      roundPack neg (ma * mb) (ea + eb)

/-- the integer value of a double, if it is an integer with |x| ≤ 2^53 -/
def toInt? (a : F64) : Option Int :=
  let e := expBits a
  let m := manBits a
  let neg := sign a
  if e = 0 then (if m = 0 then some 0 else none)
  else if e = 0x7FF then none
  else
    let sig := m + 2 ^ 52
    if e ≥ 1075 then
      let v : Nat := sig * 2 ^ (e - 1075)
      if (v : Int) ≤ pow2_53 then some (if neg then -(v : Int) else v) else none
    else
      let sh := 1075 - e
      if sh > 52 then none
      else if sig % 2 ^ sh = 0 then
        let v : Nat := sig / 2 ^ sh
        some (if neg then -(v : Int) else v)
      else none

/-- the double with integer value `x`, |x| ≤ 2^53 (exactly representable) -/
def ofInt? (x : Int) : Option F64 :=
  if x.natAbs > 9007199254740992 then none else some (roundPack (x < 0) x.natAbs 0)

def add? (a b : F64) : Option F64 := some (add a b)
def mul? (a b : F64) : Option F64 := some (mul a b)

end NodisVerif.F64
