import NodisVerif.Model.Val
/-
  The only float arithmetic the model performs itself: on integer-valued doubles of magnitude
  ≤ 2^53 (where IEEE addition and multiplication are exact as long as the result stays in that
  range). Everything else is `none` ("outside the model"); the generators only do arithmetic on
  such values. Order and equality of *all* doubles are in Val.lean.
-/
namespace NodisVerif.F64

def pow2_53 : Int := 9007199254740992

/-- the integer value of a double, if it is an integer with |x| ≤ 2^53 -/
def toInt? (a : F64) : Option Int :=
  let e := ((a >>> 52) &&& 0x7FF).toNat
  let m := (a &&& 0xFFFFFFFFFFFFF).toNat
  let neg := a >>> 63 == 1
  if e = 0 then (if m = 0 then some 0 else none)          -- ±0 ; subnormals are not integers
  else if e = 0x7FF then none
  else
    let sig := m + 2 ^ 52                                   -- 1.m × 2^(e-1075)
    if e ≥ 1075 then
      let v : Nat := sig * 2 ^ (e - 1075)
      if (v : Int) ≤ pow2_53 then some (if neg then -(v : Int) else v) else none
    else
      let sh := 1075 - e
      if sh > 52 then none
      else if sig % 2 ^ sh = 0 then
        let v : Nat := sig / 2 ^ sh
        some (if neg then -(v : Int) else v)
      else none

/-- the double with integer value `x`, |x| ≤ 2^53 (exactly representable) -/
def ofInt? (x : Int) : Option F64 :=
  if x = 0 then some 0
  else if x.natAbs > 9007199254740992 then none
  else
    let n := x.natAbs
    let l := Nat.log2 n                       -- n = 1.xxx × 2^l
    let m : Nat := if l ≤ 52 then (n * 2 ^ (52 - l)) - 2 ^ 52 else 0   -- l = 53 only for n = 2^53
    let bits : UInt64 := (UInt64.ofNat (l + 1023) <<< 52) ||| UInt64.ofNat m
    some (if x < 0 then bits ||| ((1 : UInt64) <<< 63) else bits)

def add? (a b : F64) : Option F64 := do
  let x ← toInt? a
  let y ← toInt? b
  ofInt? (x + y)

def mul? (a b : F64) : Option F64 := do
  let x ← toInt? a
  let y ← toInt? b
  ofInt? (x * y)

end NodisVerif.F64
