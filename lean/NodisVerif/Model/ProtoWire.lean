import NodisVerif.Model.Codec
/-
  The wire encoding of change records: patch/patch.go (`Op.Encode`, `DecodeOp`) over the proto3 wire
  format as google.golang.org/protobuf v1.34.2 implements it (impl/codec_gen.go, impl/encode.go,
  impl/decode.go, encoding/protowire), restricted to what patch/op.proto uses:

    string, bytes, int64, bool, double, repeated string, repeated bytes, repeated double (packed).

  No nested messages, groups (only skipped as unknown fields), maps, oneof, extensions, required
  fields, sint / fixed32 / float kinds: op.proto has none.

  Marshal (proto3, fields in field-number order, default values omitted):
    tag = varint (number * 8 + wire type); varint = the 64-bit two's complement value, 7 bits per byte;
    double = 8 bytes little-endian (omitted only for +0: `v == 0 && !Signbit(v)`);
    string / bytes = tag, varint length, the bytes; repeated string / bytes = one such chunk per
    element (also for empty elements); packed doubles = one chunk holding 8 bytes per element;
    a `string` (also each element of a repeated string) that is not valid UTF-8 is APPENDED and then
    reported as an error: Marshal returns the buffer built so far together with the error, and
    `Op.Encode` drops the error (`data, _ := proto.Marshal(o.Data)`) — known finding A-200;
    bytes of unknown fields kept by an earlier Unmarshal are appended after the known fields.
  Unmarshal: loop { tag; field number in 1 … 2^29-1; wire type 4 = error; known field with the
    expected wire type: decode (last value wins for scalars, repeated fields accumulate, repeated
    double accepts packed and unpacked); known field with another wire type, or unknown field: skip
    the value (groups nest, depth limit 10000) and keep its bytes as unknown }; any malformed piece,
    or a `string` that is not valid UTF-8, makes the whole Unmarshal fail.
-/
namespace NodisVerif.ProtoWire
open Varint Codec

inductive Kind
  | str | bytes | int64 | bool | double | repStr | repBytes | repDouble
  deriving DecidableEq, Repr

/-- the value of one field; `bytes` serves `string` and `bytes` fields, `list` repeated string / bytes -/
inductive PVal
  | bytes (b : Bytes)
  | int (i : Int)
  | bool (b : Bool)
  | f64 (bits : UInt64)
  | list (l : List Bytes)
  | f64s (l : List UInt64)
  deriving DecidableEq, Repr

/-- the name the extractor and the harness print for a field kind -/
def Kind.name : Kind → String
  | .str => "string" | .bytes => "bytes" | .int64 => "int64" | .bool => "bool" | .double => "double"
  | .repStr => "rep-string" | .repBytes => "rep-bytes" | .repDouble => "rep-double-packed"

abbrev Schema := List (Nat × Kind)

def Kind.default : Kind → PVal
  | .str | .bytes => .bytes []
  | .int64 => .int 0
  | .bool => .bool false
  | .double => .f64 0
  | .repStr | .repBytes => .list []
  | .repDouble => .f64s []

def defaults (sch : Schema) : List PVal := sch.map (·.2.default)

/-! ### unicode/utf8.Valid -/

def inR (lo hi b : UInt8) : Bool := lo ≤ b && b ≤ hi

/-- Go's `utf8.Valid` (the acceptRanges table): shortest form only, no surrogates, ≤ U+10FFFF -/
def validUTF8 : Bytes → Bool
  | [] => true
  | a :: rest =>
    if a < 0x80 then validUTF8 rest
    else if inR 0xC2 0xDF a then
      match rest with
      | b :: rest => inR 0x80 0xBF b && validUTF8 rest
      | _ => false
    else if inR 0xE0 0xEF a then
      match rest with
      | b :: c :: rest =>
        inR (if a = 0xE0 then 0xA0 else 0x80) (if a = 0xED then 0x9F else 0xBF) b && inR 0x80 0xBF c &&
          validUTF8 rest
      | _ => false
    else if inR 0xF0 0xF4 a then
      match rest with
      | b :: c :: d :: rest =>
        inR (if a = 0xF0 then 0x90 else 0x80) (if a = 0xF4 then 0x8F else 0xBF) b && inR 0x80 0xBF c &&
          inR 0x80 0xBF d && validUTF8 rest
      | _ => false
    else false

/-! ### Marshal -/

def two64 : Int := 18446744073709551616

/-- `uint64(v)` of an int64 -/
def toU64 (i : Int) : Nat := (i % two64).toNat

/-- `int64(u)` of a uint64 -/
def ofU64 (u : Nat) : Int := if u ≥ 9223372036854775808 then (u : Int) - two64 else (u : Int)

/-- `protowire.AppendTag` -/
def tag (no wt : Nat) : Bytes := putUvarint (no * 8 + wt)

/-- `protowire.AppendBytes` / `AppendString` -/
def lenDelim (b : Bytes) : Bytes := putUvarint b.length ++ b

/-- one length-delimited field occurrence -/
def chunk (no : Nat) (s : Bytes) : Bytes := tag no 2 ++ lenDelim s

/-- `appendStringSliceValidateUTF8`: one chunk per element; the first invalid element is still
    appended, then the error is returned -/
def encStrs (no : Nat) : List Bytes → Bytes × Bool
  | [] => ([], false)
  | s :: rest =>
    if validUTF8 s then
      let r := encStrs no rest
      (chunk no s ++ r.1, r.2)
    else (chunk no s, true)

/-- the coder of one field (the `NoZero` coders of proto3): bytes appended, error flag -/
def encField (no : Nat) : Kind → PVal → Bytes × Bool
  | .str, .bytes s => if s = [] then ([], false) else (chunk no s, !validUTF8 s)
  | .bytes, .bytes s => if s = [] then ([], false) else (chunk no s, false)
  | .int64, .int i => if i = 0 then ([], false) else (tag no 0 ++ putUvarint (toU64 i), false)
  | .bool, .bool b => if b then (tag no 0 ++ [1], false) else ([], false)
  | .double, .f64 x => if x = 0 then ([], false) else (tag no 1 ++ u64le x, false)
  | .repStr, .list l => encStrs no l
  | .repBytes, .list l => (l.flatMap (chunk no), false)
  | .repDouble, .f64s l =>
    if l = [] then ([], false) else (tag no 2 ++ putUvarint (8 * l.length) ++ l.flatMap u64le, false)
  | _, _ => ([], false)

/-- `MessageInfo.marshalAppendPointer` over the known fields: stops at the first error, returning
    what was appended so far -/
def marshal : Schema → List PVal → Bytes × Bool
  | (no, k) :: sch, v :: vs =>
    let r := encField no k v
    if r.2 then (r.1, true)
    else
      let r' := marshal sch vs
      (r.1 ++ r'.1, r'.2)
  | _, _ => ([], false)

/-- `proto.Marshal` as `Op.Encode` uses it (error dropped) -/
def encodeMsg (sch : Schema) (vs : List PVal) : Bytes := (marshal sch vs).1

/-! ### protowire consumers -/

/-- `protowire.ConsumeVarint`: value and the rest; `none` = truncated or overflow (more than 10 bytes,
    or a tenth byte above 1). Over-long (non-minimal) encodings are accepted. -/
def consumeVarint (b : Bytes) : Option (Nat × Bytes) :=
  if (uvarint b).2 ≤ 0 then none else some ((uvarint b).1, b.drop (uvarint b).2.toNat)

/-- `protowire.ConsumeBytes` -/
def consumeBytes (b : Bytes) : Option (Bytes × Bytes) :=
  match consumeVarint b with
  | none => none
  | some (m, rest) => if m > rest.length then none else some (rest.take m, rest.drop m)

/-- `protowire.ConsumeFixed64` -/
def consumeFixed64 (b : Bytes) : Option (UInt64 × Bytes) :=
  if b.length < 8 then none else some (leU64 b, b.drop 8)

def unpackN : Nat → Bytes → List UInt64
  | 0, _ => []
  | n + 1, b => leU64 b :: unpackN n (b.drop 8)

/-- the loop of `consumeDoubleSlice` over a packed payload: `none` = a trailing piece shorter than 8 -/
def unpack64 (b : Bytes) : Option (List UInt64) :=
  if b.length % 8 ≠ 0 then none else some (unpackN (b.length / 8) b)

/-- `protowire.ConsumeFieldValue` for the scalar wire types (0 varint, 1 fixed64, 2 bytes, 5 fixed32) -/
def skipScalar (wt : Nat) (b : Bytes) : Option Bytes :=
  if wt = 0 then (consumeVarint b).map (·.2)
  else if wt = 1 then (if b.length < 8 then none else some (b.drop 8))
  else if wt = 2 then (consumeBytes b).map (·.2)
  else if wt = 5 then (if b.length < 4 then none else some (b.drop 4))
  else none

/-- `protowire.ConsumeTag` inside a group: number 1 … MaxInt32 -/
def consumeTag (b : Bytes) : Option (Nat × Nat × Bytes) :=
  match consumeVarint b with
  | none => none
  | some (t, rest) =>
    if t / 8 > 2147483647 ∨ t / 8 < 1 then none else some (t / 8, t % 8, rest)

/-- `consumeFieldValueD(num, StartGroupType, b, depth)` after its `depth < 0` test: the loop over the
    fields of the group `num`. A nested start-group tag recurses with `depth - 1` (refused when that is
    negative), every other wire type is skipped by `skipScalar` (reserved wire types 6, 7: error), the
    end-group tag must carry the group's own number. Field numbers inside groups: 1 … MaxInt32.
    Every iteration consumes at least the tag byte and both recursive calls work on shorter inputs, so
    fuel = length of the input + 1 suffices (`Proofs.ProtoWire.skipGroup_fuel`). -/
def skipGroup : Nat → Nat → Nat → Bytes → Option Bytes
  | 0, _, _, _ => none
  | fuel + 1, depth, num, b =>
    match consumeTag b with
    | none => none
    | some (num2, wt2, rest) =>
      if wt2 = 4 then (if num = num2 then some rest else none)
      else
        match (if wt2 = 3 then (if depth = 0 then none else skipGroup fuel (depth - 1) num2 rest)
               else skipScalar wt2 rest) with
        | none => none
        | some rest' => skipGroup fuel depth num rest'

/-- `protowire.ConsumeFieldValue(num, wt, b)` = `consumeFieldValueD(num, wt, b, DefaultRecursionLimit)`:
    the rest after the value (10000 = protowire.DefaultRecursionLimit: 10001 nested groups at most) -/
def skipValue (num wt : Nat) (b : Bytes) : Option Bytes :=
  if wt = 3 then skipGroup (b.length + 1) 10000 num b
  else if wt = 4 then none
  else skipScalar wt b

/-! ### Unmarshal -/

inductive FRes
  | ok (v : PVal) (rest : Bytes)
  | unknown        -- errUnknown: wrong wire type for this field
  | err            -- errDecode / invalid UTF-8

def PVal.asList : PVal → List Bytes
  | .list l => l
  | _ => []

def PVal.asF64s : PVal → List UInt64
  | .f64s l => l
  | _ => []

/-- the `consume…` function of one field kind, given the field's current value -/
def consumeField (k : Kind) (cur : PVal) (wt : Nat) (b : Bytes) : FRes :=
  match k with
  | .str =>
    if wt ≠ 2 then .unknown else
    match consumeBytes b with
    | none => .err
    | some (s, rest) => if validUTF8 s then .ok (.bytes s) rest else .err
  | .bytes =>
    if wt ≠ 2 then .unknown else
    match consumeBytes b with
    | none => .err
    | some (s, rest) => .ok (.bytes s) rest
  | .int64 =>
    if wt ≠ 0 then .unknown else
    match consumeVarint b with
    | none => .err
    | some (u, rest) => .ok (.int (ofU64 u)) rest
  | .bool =>
    if wt ≠ 0 then .unknown else
    match consumeVarint b with
    | none => .err
    | some (u, rest) => .ok (.bool (u != 0)) rest
  | .double =>
    if wt ≠ 1 then .unknown else
    match consumeFixed64 b with
    | none => .err
    | some (x, rest) => .ok (.f64 x) rest
  | .repStr =>
    if wt ≠ 2 then .unknown else
    match consumeBytes b with
    | none => .err
    | some (s, rest) => if validUTF8 s then .ok (.list (cur.asList ++ [s])) rest else .err
  | .repBytes =>
    if wt ≠ 2 then .unknown else
    match consumeBytes b with
    | none => .err
    | some (s, rest) => .ok (.list (cur.asList ++ [s])) rest
  | .repDouble =>
    if wt = 2 then
      match consumeBytes b with
      | none => .err
      | some (p, rest) =>
        match unpack64 p with
        | none => .err
        | some xs => .ok (.f64s (cur.asF64s ++ xs)) rest
    else if wt = 1 then
      match consumeFixed64 b with
      | none => .err
      | some (x, rest) => .ok (.f64s (cur.asF64s ++ [x])) rest
    else .unknown

inductive SRes
  | ok (vals : List PVal) (rest : Bytes)
  | unknown
  | err

/-- look the field number up (`coderFields[num]`) and run its consumer on the field's slot -/
def stepField : Schema → List PVal → Nat → Nat → Bytes → SRes
  | (no, k) :: sch, v :: vs, num, wt, b =>
    if no = num then
      match consumeField k v wt b with
      | .ok v' rest => .ok (v' :: vs) rest
      | .unknown => .unknown
      | .err => .err
    else
      match stepField sch vs num wt b with
      | .ok vs' rest => .ok (v :: vs') rest
      | .unknown => .unknown
      | .err => .err
  | _, _, _, _, _ => .unknown

/-- the message being filled: field values (parallel to the schema) and the retained unknown bytes -/
structure Msg where
  vals : List PVal
  unknown : Bytes := []
  deriving DecidableEq, Repr

/-- one iteration of `unmarshalPointer`'s loop on a non-empty input -/
def step (sch : Schema) (b : Bytes) (m : Msg) : Option (Msg × Bytes) :=
  match consumeVarint b with
  | none => none
  | some (t, rest) =>
    let num := t / 8
    let wt := t % 8
    if num < 1 ∨ num > 536870911 then none
    else if wt = 4 then none
    else
      match stepField sch m.vals num wt rest with
      | .ok vals rest' => some ({ m with vals := vals }, rest')
      | .err => none
      | .unknown =>
        match skipValue num wt rest with
        | none => none
        | some rest' =>
          some ({ m with unknown := m.unknown ++ tag num wt ++ rest.take (rest.length - rest'.length) }, rest')

/-- `unmarshalPointer`'s loop; every iteration consumes at least one byte, so fuel = length suffices
    (`Proofs.ProtoWire.decodeLoop_fuel`) -/
def decodeLoop (sch : Schema) : Nat → Bytes → Msg → Option Msg
  | _, [], m => some m
  | 0, _ :: _, _ => none
  | fuel + 1, b, m =>
    match step sch b m with
    | none => none
    | some (m', rest) => decodeLoop sch fuel rest m'

/-- `proto.Unmarshal` into a fresh message -/
def unmarshal (sch : Schema) (b : Bytes) : Option Msg :=
  decodeLoop sch b.length b { vals := defaults sch }

def decodeMsg (sch : Schema) (b : Bytes) : Option (List PVal) := (unmarshal sch b).map (·.vals)

/-- Marshal of a message that went through Unmarshal: known fields, then the unknown bytes
    (not appended when a field coder failed) -/
def marshalMsg (sch : Schema) (m : Msg) : Bytes × Bool :=
  let r := marshal sch m.vals
  if r.2 then r else (r.1 ++ m.unknown, false)

/-! ### the messages of patch/op.proto and the operation types of patch/patch.go -/

open Kind in
/-- (OpType value, message, fields): `DecodeOp`'s switch joined with the structs of op.pb.go.
    Regenerated from the source on every run and compared (`SourceFacts.patchOpsOk`). -/
def opTable : List (Nat × String × Schema) := [
  (1, "OpClear", [(1, str)]),
  (2, "OpDel", [(1, str)]),
  (3, "OpExpire", [(1, str), (2, int64)]),
  (4, "OpExpireAt", [(1, str), (2, int64)]),
  (5, "OpHClear", [(1, str)]),
  (6, "OpHDel", [(1, str), (2, repStr)]),
  (7, "OpHIncrBy", [(1, str), (2, str), (3, int64)]),
  (8, "OpHIncrByFloat", [(1, str), (2, str), (3, double)]),
  (9, "OpHMSet", [(1, str), (2, repStr), (3, repBytes)]),
  (10, "OpHSet", [(1, str), (2, str), (3, bytes)]),
  (11, "OpLInsert", [(1, str), (2, bytes), (3, bytes), (4, bool)]),
  (12, "OpLPop", [(1, str), (2, int64)]),
  (13, "OpLPopRPush", [(1, str), (2, str)]),
  (14, "OpLPush", [(1, str), (2, repBytes)]),
  (15, "OpLPushX", [(1, str), (2, bytes)]),
  (16, "OpLRem", [(1, str), (2, bytes), (3, int64)]),
  (17, "OpLSet", [(1, str), (2, int64), (3, bytes)]),
  (18, "OpLTrim", [(1, str), (2, int64), (3, int64)]),
  (19, "OpRPop", [(1, str), (2, int64)]),
  (20, "OpRPopLPush", [(1, str), (2, str)]),
  (21, "OpRPush", [(1, str), (2, repBytes)]),
  (22, "OpRPushX", [(1, str), (2, bytes)]),
  (23, "OpSAdd", [(1, str), (2, repStr)]),
  (24, "OpSRem", [(1, str), (2, repStr)]),
  (25, "OpSet", [(1, str), (2, bytes), (3, bool), (4, int64)]),
  (26, "OpZAdd", [(1, str), (2, str), (3, double)]),
  (27, "OpZClear", [(1, str)]),
  (28, "OpZIncrBy", [(1, str), (2, str), (3, double)]),
  (29, "OpZRem", [(1, str), (2, str), (3, repStr)]),
  (30, "OpZRemRangeByRank", [(1, str), (2, int64), (3, int64)]),
  (31, "OpZRemRangeByScore", [(1, str), (2, int64), (3, double), (4, double)]),
  (32, "OpRename", [(1, str), (2, str)]),
  (33, "OpPersist", [(1, str)]),
  (34, "OpZUnionStore", [(1, str), (2, repStr), (3, repDouble), (4, str)]),
  (35, "OpZInterStore", [(1, str), (2, repStr), (3, repDouble), (4, str)]),
  (36, "OpRenameNX", [(1, str), (2, str)])]

def schemaOf (typ : Nat) : Option Schema := (opTable.find? (·.1 == typ)).map (·.2.2)

/-- `patch.Op`: the type byte and the message (field values in schema order) -/
structure Op where
  typ : UInt8
  msg : Msg
  deriving DecidableEq, Repr

inductive DecErr
  | empty         -- "empty operation"
  | unknownType   -- "unknown operation type"
  | wire          -- proto.Unmarshal failed (malformed input or invalid UTF-8 in a string field)
  deriving DecidableEq, Repr

instance : DecidableEq (Except DecErr Op)
  | .ok a, .ok b => if h : a = b then isTrue (by rw [h]) else isFalse (fun e => h (Except.ok.inj e))
  | .error a, .error b => if h : a = b then isTrue (by rw [h]) else isFalse (fun e => h (Except.error.inj e))
  | .ok _, .error _ => isFalse (fun e => by cases e)
  | .error _, .ok _ => isFalse (fun e => by cases e)

/-- `Op.Encode`: the type byte, then the message (Marshal's error dropped). The message of an
    operation type outside the table has no schema here (nodis never builds one). -/
def encodeOp (op : Op) : Bytes :=
  op.typ :: (match schemaOf op.typ.toNat with
    | some sch => (marshalMsg sch op.msg).1
    | none => [])

/-- whether Marshal reports an error for the record (invalid UTF-8 in a string field) -/
def encodeFails (op : Op) : Bool :=
  match schemaOf op.typ.toNat with
  | some sch => (marshalMsg sch op.msg).2
  | none => false

/-- `DecodeOp` (after the repair 12a5893: empty input and unknown types are errors, not panics) -/
def decodeOp (data : Bytes) : Except DecErr Op :=
  match data with
  | [] => .error .empty
  | t :: body =>
    match schemaOf t.toNat with
    | none => .error .unknownType
    | some sch =>
      match unmarshal sch body with
      | none => .error .wire
      | some m => .ok { typ := t, msg := m }

/-! ### well-formed values -/

/-- a value a Go message can hold for a field of this kind: int64 in range; and what Marshal accepts:
    `string` fields valid UTF-8 -/
def PVal.ok : Kind → PVal → Bool
  | .str, .bytes s => validUTF8 s
  | .bytes, .bytes _ => true
  | .int64, .int i => inInt64 i
  | .bool, .bool _ => true
  | .double, .f64 _ => true
  | .repStr, .list l => l.all validUTF8
  | .repBytes, .list _ => true
  | .repDouble, .f64s _ => true
  | _, _ => false

/-- slice lengths in Go are below 2^63; the model's lists are unbounded, so the bound is explicit
    (a longer chunk would get a length prefix that still decodes, but no Go slice is that long) -/
def PVal.small : PVal → Bool
  | .bytes s => s.length < 2 ^ 63
  | .list l => l.all fun s => s.length < 2 ^ 63
  | .f64s l => 8 * l.length < 2 ^ 63
  | _ => true

/-- a schema a proto3 message can have: distinct field numbers within 1 … 2^29-1 (protoc enforces this;
    for the table of op.proto it is checked by evaluation: `Proofs.ProtoWire.table_schemaOk`) -/
def schemaOk (sch : Schema) : Bool :=
  decide (sch.map (·.1)).Nodup && sch.all fun e => decide (1 ≤ e.1) && decide (e.1 ≤ 536870911)

/-- the value list fits the schema -/
def wfVals : Schema → List PVal → Bool
  | [], [] => true
  | (_, k) :: sch, v :: vs => v.ok k && v.small && wfVals sch vs
  | _, _ => false

/-- a value a Go message can hold for a field of this kind (the kinds fit, int64 in range); UTF-8
    validity of strings is NOT required: Go strings hold any bytes -/
def PVal.typed : Kind → PVal → Bool
  | .str, .bytes _ => true
  | .bytes, .bytes _ => true
  | .int64, .int i => inInt64 i
  | .bool, .bool _ => true
  | .double, .f64 _ => true
  | .repStr, .list _ => true
  | .repBytes, .list _ => true
  | .repDouble, .f64s _ => true
  | _, _ => false

/-- the value list is one a Go message of this schema can hold -/
def typedVals : Schema → List PVal → Bool
  | [], [] => true
  | (_, k) :: sch, v :: vs => v.typed k && v.small && typedVals sch vs
  | _, _ => false

/-- a record a Go program can build (and has not obtained from DecodeOp with unknown fields) -/
def Op.typed (op : Op) : Bool :=
  match schemaOf op.typ.toNat with
  | some sch => typedVals sch op.msg.vals && op.msg.unknown == []
  | none => false

def Op.wf (op : Op) : Bool :=
  match schemaOf op.typ.toNat with
  | some sch => wfVals sch op.msg.vals && op.msg.unknown == []
  | none => false

end NodisVerif.ProtoWire
