import NodisVerif.Model.Val
/-
  ds/str/str.go, function by function. A string value is `Option Bytes`: `none` is Go's nil
  slice (a freshly created String that no write has filled yet), which GET renders as null.
-/
namespace NodisVerif.DsStr

abbrev S := Option Bytes

def bytes (s : S) : Bytes := s.getD []
def len (s : S) : Int := (bytes s).length

/-- `Incr(step)` / `Decr(step)` share this: parse (empty ⇒ "0"), add, format.
    `none` = ParseInt error or the result leaves int64 (value unchanged). -/
def addInt (s : S) (delta : Int) : Option (S × Int) :=
  let txt := if (bytes s).isEmpty then [48] else bytes s
  match parseInt64 txt with
  | none => none
  | some n =>
    let r := n + delta
    if inInt64 r then some (some (formatInt r), r) else none

def incr (s : S) (step : Int) := addInt s step
def decr (s : S) (step : Int) := addInt s (-step)

def zeros (n : Nat) : Bytes := List.replicate n 0

def bitMask (offset : Int) : UInt8 := (1 : UInt8) <<< UInt8.ofNat (7 - (offset % 8).toNat)

/-- `SetBit(offset, value)`; returns new value and old bit -/
def setBit (s : S) (offset : Int) (value : Bool) : S × Int :=
  if offset < 0 then (s, 0) else
  let i := (offset / 8).toNat
  let v := bytes s
  let v' := if (i : Int) > v.length - 1 then v ++ zeros (i + 1 - v.length) else v
  let s' : S := if (i : Int) > v.length - 1 then some v' else s
  let by_ := v'.getD i 0
  let bit := bitMask offset
  let old := by_ &&& bit
  let nb := if value then by_ ||| bit else by_ &&& (~~~ bit)
  (s'.map (fun _ => v'.set i nb), if old != 0 then 1 else 0)

def getBit (s : S) (offset : Int) : Int :=
  let v := bytes s
  let i := offset / 8
  if offset < 0 ∨ v.length = 0 ∨ i > (v.length : Int) - 1 then 0
  else if (v.getD i.toNat 0) &&& bitMask offset != 0 then 1 else 0

def popcount8 (b : UInt8) : Nat :=
  (List.range 8).foldl (fun acc i => if b &&& ((1 : UInt8) <<< UInt8.ofNat i) != 0 then acc + 1 else acc) 0

/-- `BitCount(start, end)` — byte ranges, with the code's own normalisation -/
def bitCount (s : S) (start stop : Int) : Int :=
  let v := bytes s
  let bl : Int := v.length
  let start := if start < 0 then 0 else start
  if start ≥ bl then 0 else
  let stop := if stop ≤ 0 then stop + bl + 1 else stop
  let stop := if stop > bl then bl else stop
  if start > stop then 0 else
  let stop := if start = stop then stop + 1 else stop
  -- s.V[start:end]; end may be bl+1 when start = end = bl is impossible here (start < bl)
  (((v.drop start.toNat).take (stop - start).toNat).foldl (fun acc b => acc + popcount8 b) 0 : Nat)

/-- `BitCountByBit(start, end)` -/
def bitCountByBit (s : S) (start stop : Int) : Int :=
  let v := bytes s
  let bl : Int := (v.length : Int) * 8
  let start := if start < 0 then 0 else start
  let stop := if stop ≤ 0 then bl else stop
  let stop := if stop > bl then bl else stop
  if start ≥ stop then 0 else
  (((List.range (stop - start).toNat).filter fun (k : Nat) => getBit s (start + (k : Int)) == 1).length : Nat)

def append (s : S) (data : Bytes) : S × Int :=
  -- append(nil, nothing...) stays nil
  let s' : S := match s with
    | none => if data.isEmpty then none else some data
    | some v => some (v ++ data)
  (s', len s')

/-- `GetRange`: `none` = nil result -/
def getRange (s : S) (start stop : Int) : Option Bytes :=
  let v := bytes s
  let bl : Int := v.length
  let start := if start < 0 then (if bl + start < 0 then 0 else bl + start) else start
  if start ≥ bl then none else
  let stop := wrap64 (stop + 1)                 -- `end += 1` wraps at int64 max
  let stop := if stop ≤ 0 then stop + bl else stop
  let stop := if stop > bl then bl else stop
  if start > stop then none else
  some ((v.drop start.toNat).take (stop - start).toNat)

/-- `SetRange(offset, data)`; `none` = panic (slice bounds after an int64 overflow of
    `offset+len`, or a growth the allocator refuses — the RESP handler rejects such offsets before
    they get here, the embedded API does not) -/
def setRange (s : S) (offset : Int) (data : Bytes) : Option (S × Int) :=
  if offset < 0 then some (s, 0) else
  let v := bytes s
  let dLen : Int := data.length
  let vLen : Int := v.length
  let sum := wrap64 (offset + dLen)
  let grown := sum > vLen
  if grown ∧ sum - vLen > 1073741824 then none else     -- beyond 1 GiB the model does not follow the allocator
  if !grown ∧ offset > vLen then none else               -- s.V[offset:] out of range
  let v1 := if grown then v ++ zeros (sum - vLen).toNat else v
  let o := offset.toNat
  let v2 := v1.take o ++ data ++ v1.drop (o + data.length)
  let s' : S := match s with
    | none => if grown then some v2 else none
    | some _ => some v2
  some (s', len s')

end NodisVerif.DsStr
