import NodisVerif.Model.Resp
import NodisVerif.Model.Api
/-
  redis/server.go + the connection-level part of handler.go: connection state (MULTI flags, queued
  closures, watch flags), the global watch registry, `execCommand` (run-or-queue with panic
  recovery), MULTI / EXEC / DISCARD / WATCH / UNWATCH, and the dispatch step of `Nodis.Serve`
  (error flag ⇒ MultiError).  One step = one complete command of one connection.
-/
namespace NodisVerif

open Resp

/-- what a relational command needs from the implementation's own run (SPOP, SRANDMEMBER, RANDOMKEY) -/
abbrev Choice := Option (List Bytes)

/-- result of a closure passed to `execCommand`: new store, tokens written, did it panic? -/
structure BodyOut where
  store : MState
  toks  : List Tok
  panicked : Bool := false

abbrev Body := MState → Int → Choice → BodyOut

/-- what a handler does with one command -/
inductive HRes
  | direct (ts : List Tok)      -- replied outside execCommand (arity / parse errors); never queued
  | exec (body : Body)          -- handed to execCommand
  | crash                       -- panics outside execCommand's recover (kills the process)

def multiPrepare : Nat := 1
def multiCommit : Nat := 2
def multiError : Nat := 4

structure ConnState where
  state : Nat := 0                       -- bit set of multiPrepare / multiCommit / multiError
  queue : List Body := []
  watch : AList Bool := []               -- conn.WatchKeys: key ↦ modified?

structure Server where
  store    : MState := {}
  conns    : List (String × ConnState) := []
  registry : AList (List String) := []   -- store.watchedKeys: key ↦ connections (most recent first)

namespace Server

def conn (sv : Server) (id : String) : ConnState := ((sv.conns.find? (·.1 == id)).map (·.2)).getD {}
def setConn (sv : Server) (id : String) (c : ConnState) : Server :=
  { sv with conns := (id, c) :: sv.conns.filter (·.1 != id) }

/-- `signalModifiedKey` side: every connection registered for a signalled key gets its flag set -/
def applySignals (sv : Server) : Server :=
  let keys := sv.store.signalled
  let sv := keys.foldl (fun (sv : Server) key =>
      match AList.get? sv.registry key with
      | none => sv
      | some ids => ids.foldl (fun sv id =>
          let c := sv.conn id
          sv.setConn id { c with watch := AList.set c.watch key true }) sv) sv
  -- `Nodis.Clear()`: every watched key of every registered connection counts as changed
  let sv := if sv.store.flushed then
      sv.registry.foldl (fun (sv : Server) (key, ids) =>
        ids.foldl (fun sv id =>
          let c := sv.conn id
          sv.setConn id { c with watch := AList.set c.watch key true }) sv) sv
    else sv
  { sv with store := { sv.store with signalled := [], flushed := false } }

/-- run one closure against the store (panic ⇒ one more error token, as `recover` writes it) -/
def runBody (sv : Server) (now : Int) (ch : Choice) (b : Body) : Server × List Tok :=
  let out := b { sv.store with signalled := [], held := [], hung := false } now ch
  let toks := if out.panicked then out.toks ++ [Tok.err 1] else out.toks
  (applySignals { sv with store := { out.store with held := [] } }, toks)

/-- `execCommand(conn, fn)` -/
def execCommand (sv : Server) (id : String) (now : Int) (ch : Choice) (b : Body) : Server × List Tok :=
  let c := sv.conn id
  if c.state = 0 ∨ c.state = multiCommit then runBody sv now ch b
  else
    let c := if c.state % 2 = 1 then { c with queue := c.queue ++ [b] } else c
    (sv.setConn id c, [Tok.simple (Bytes.ofString "QUEUED")])

def isErr : Tok → Bool | .err _ => true | _ => false

/-- MULTI -/
def multi (sv : Server) (id : String) : Server × List Tok :=
  let c := sv.conn id
  if c.state % 2 = 1 then (sv, [Tok.err 0])
  else (sv.setConn id { c with state := c.state + 1 }, [Tok.simple (Bytes.ofString "OK")])

/-- `unwatchAll(n, conn)`: the connection's flags are cleared and it leaves the registry for every
    key it was watching -/
def unwatchAll (sv : Server) (id : String) : Server :=
  let c := sv.conn id
  let sv := c.watch.foldl (fun (sv : Server) (key, _) =>
    match AList.get? sv.registry key with
    | none => sv
    | some ids => { sv with registry := AList.set sv.registry key (ids.filter (· ≠ id)) }) sv
  sv.setConn id { (sv.conn id) with watch := [] }

/-- DISCARD -/
def discard (sv : Server) (id : String) : Server × List Tok :=
  let sv := unwatchAll sv id
  let c := sv.conn id
  (sv.setConn id { c with state := 0, queue := [] }, [Tok.simple (Bytes.ofString "OK")])

/-- WATCH key… -/
def watch (sv : Server) (id : String) (keys : List Bytes) : Server × List Tok :=
  let c := sv.conn id
  if c.state % 2 = 1 then (sv, [Tok.err 0]) else
  if keys.isEmpty then (sv, [Tok.err 0]) else
  let sv := keys.foldl (fun (sv : Server) key =>
    let c := sv.conn id
    let c := if AList.contains c.watch key then c else { c with watch := AList.set c.watch key false }
    let sv := sv.setConn id c
    match AList.get? sv.registry key with
    | none => { sv with registry := AList.set sv.registry key [id] }
    | some ids => if ids.contains id then sv else { sv with registry := AList.set sv.registry key (id :: ids) }) sv
  (sv, [Tok.simple (Bytes.ofString "OK")])

/-- UNWATCH goes through execCommand; when it runs it ends every watch of the connection -/
def unwatchBody (id : String) : Server → Server := fun sv => unwatchAll sv id

/-- EXEC -/
def exec (sv : Server) (id : String) (now : Int) : Server × List Tok :=
  let c := sv.conn id
  let reset (sv : Server) : Server :=
    let sv := unwatchAll sv id
    sv.setConn id { (sv.conn id) with state := 0, queue := [] }
  if c.state % 2 ≠ 1 then (reset sv, [Tok.err 0]) else
  if (c.state / 4) % 2 = 1 then (reset sv, [Tok.err 2]) else
  if c.watch.any (·.2) then (reset sv, [Tok.nullBulk]) else
  if c.queue.isEmpty then (reset sv, [Tok.arr 0]) else
  let sv := sv.setConn id { c with state := c.state + multiCommit - (if (c.state / 2) % 2 = 1 then multiCommit else 0) }
  let (sv, toks) := c.queue.foldl (fun (acc : Server × List Tok) b =>
      let (sv, ts) := runBody acc.1 now none b
      (sv, acc.2 ++ ts)) (sv, [Tok.arr c.queue.length])
  (reset sv, toks)

/-- the closure of `Nodis.Serve`: dispatch, then `HasError ∧ State ≠ 0 ⇒ State |= MultiError` -/
def afterHandler (sv : Server) (id : String) (toks : List Tok) : Server :=
  let c := sv.conn id
  if toks.any isErr ∧ c.state ≠ 0 then
    sv.setConn id { c with state := if (c.state / 4) % 2 = 1 then c.state else c.state + multiError }
  else sv

end Server
end NodisVerif
