import NodisVerif.Model.Gate
/-
  nodis.go (the per-command closure of `Serve`), handler.go (`execCommand`, `exec`, `multi`, `discard`, `watchKey`,
  `unwatchKey`, `unwatchAll`), key.go (`signalModifiedKey`, `Watch`, `UnWatch`), list.go (`blockingPop` / `look`) and
  redis/server.go (`handleConn`): the CODE around `store.execMu` as a small-step interleaving semantics.
  `Model/Gate.lean` is the PROTOCOL of the gate (the steps the verifTrace hook reports); this file is the program
  that takes those steps.  Props/C08 and Props/C09 prove that every run of this program, under every schedule of any
  number of connections and embedded callers, emits a trace that `Gate.step` accepts (`gateprog_refines_gate`).

  Shared state   `store.execMu` (sync.RWMutex, as the list of its current holders with their side: the writer is the
                 entry with side x, the reader count is the number of entries with side s), `store.watchMu`,
                 `store.watchedKeys` (key → connections), per connection `conn.State` (three bits), `conn.Commands`
                 (abstract: command ids), `conn.WatchKeys` (key → modified), `Writer.err`; the live `Tx` objects and
                 the set of goroutines the tracer has seen serving (both only to name the reported events).
  Thread state   program counter through one command + the locals of the Go functions.
  One transition = one mutex operation, or one access to shared state, or one verifTrace call site (which emits its
                 protocol events at that pc; the loops of Watch / UnWatch / signalModifiedKey run under `watchMu` and
                 are one transition each).  `Lock` blocks = the transition is disabled (`none`).
  Abstract       the body of a keyspace command is a sequence of transactions (`n.exec`: begin … signalModifiedKey* …
                 deferred commit) chosen by the scheduler, possibly ending in a panic; replies are abstracted to
                 "an error reply was written" (`Writer.err`).  See DESIGN_NOTES.md (Go line → pc).
-/
namespace NodisVerif.GateProg
open NodisVerif.Gate (G T GMode Ev)

abbrev Tid := Nat
abbrev Key := String

/-- sync.RWMutex: its current holders with their side -/
abbrev RW := List (Tid × GMode)
namespace RW
def canLock (m : RW) : Bool := m.isEmpty
def canRLock (m : RW) : Bool := m.all (·.2 == .s)
def lock (m : RW) (t : Tid) : RW := (t, .x) :: m
def rlock (m : RW) (t : Tid) : RW := (t, .s) :: m
def unlock (m : RW) (t : Tid) : RW := m.filter (·.1 != t)
def writer (m : RW) : Option Tid := (m.find? (·.2 == .x)).map (·.1)
def readerCount (m : RW) : Nat := m.countP (·.2 == .s)
end RW

/-- a queued closure (`conn.Commands`): which handler built it -/
inductive QCmd
  | plain (id : Nat)      -- execCommand(conn, func() { ... n.Xxx(...) ... })
  | bpop (id : Nat)       -- BLPOP / BRPOP
  | unwatch               -- UNWATCH goes through execCommand as well
deriving DecidableEq, Repr, Inhabited

inductive Cmd
  | exec | multi | discard
  | watch (keys : List Key)
  | unwatch
  | bpop (id : Nat)
  | plain (id : Nat)      -- every other command (an unknown command: `plain` whose handler writes an error)
deriving DecidableEq, Repr, Inhabited

structure ConnSt where
  prep   : Bool := false            -- State & MultiPrepare
  commit : Bool := false            -- State & MultiCommit
  err    : Bool := false            -- State & MultiError
  queue  : List QCmd := []          -- conn.Commands
  watch  : List (Key × Bool) := []  -- conn.WatchKeys
  werr   : Bool := false            -- Writer.err (`HasError`)
deriving DecidableEq, Repr
instance : Inhabited ConnSt := ⟨{}⟩

namespace ConnSt
def none? (c : ConnSt) : Bool := !c.prep && !c.commit && !c.err                 -- State == MultiNone
/-- `conn.State == MultiNone || conn.State == MultiCommit` -/
def runsNow (c : ConnSt) : Bool := !c.prep && !c.err
/-- `conn.State = MultiNone; conn.Commands = nil` -/
def reset (c : ConnSt) : ConnSt := { c with prep := false, commit := false, err := false, queue := [] }
def clean (c : ConnSt) : Bool := c.none? && c.queue.isEmpty && c.watch.isEmpty
end ConnSt

def assoc {β} (l : List (Nat × β)) (a : Nat) : Option β := (l.find? (·.1 == a)).map (·.2)
def put {β} (l : List (Nat × β)) (a : Nat) (b : β) : List (Nat × β) := (a, b) :: l.filter (·.1 != a)
def kassoc {β} (l : List (Key × β)) (a : Key) : Option β := (l.find? (·.1 == a)).map (·.2)
def kput {β} (l : List (Key × β)) (a : Key) (b : β) : List (Key × β) := (a, b) :: l.filter (·.1 != a)

structure Shared where
  execMu   : RW := []
  watchMu  : Option Tid := none
  registry : List (Key × List Tid) := []     -- store.watchedKeys
  conns    : List (Tid × ConnSt) := []
  clients  : List Tid := []                  -- goroutines that have reported a step with a connection
  active   : List (T × Tid) := []            -- live Tx objects that have reported a step
deriving Repr

def Shared.conn (s : Shared) (t : Tid) : ConnSt := (assoc s.conns t).getD {}
def Shared.setConn (s : Shared) (t : Tid) (c : ConnSt) : Shared := { s with conns := put s.conns t c }
def Shared.serve (s : Shared) (t : Tid) : Shared :=
  if s.clients.contains t then s else { s with clients := t :: s.clients }

inductive Pc
  | idle                                   -- handleConn: between Flush and the next ReadCommand
  | sw | xIn | sIn | bServe | call         -- Serve closure: switch cmd.Name … c(n, conn, cmd)
  | ec                                     -- execCommand
  | b0 | b1 | b2 | g1 | g2 | g3 | b3 | bret   -- a command body: transactions, signalModifiedKey, return / recover
  | p0 | p1 | p2 | p3 | p4 | p5            -- blockingPop: look, and what follows it
  | w1 | w2 | w3                           -- Watch
  | u1 | u2 | u3                           -- unwatchAll / UnWatch
  | e1 | e3 | e4 | e5 | e6 | ec1 | ec2 | edef   -- exec
  | dOut | dUnlock | dRec | flush          -- deferred epilogue of the closure; Flush
deriving DecidableEq, Repr, Inhabited

/-- who runs the current body -/
inductive Ctx | direct | execLoop | embedded
deriving DecidableEq, Repr, Inhabited

/-- where `unwatchAll` returns to -/
inductive After | discardOk | bodyEnd | execDefer
deriving DecidableEq, Repr, Inhabited

structure Loc where
  pc    : Pc := .idle
  cmd   : Cmd := .multi
  held  : Option GMode := none      -- the side of execMu this goroutine holds (Lock returned, Unlock not yet called)
  rep   : Bool := false             -- … and gate-in has been reported, gate-out not yet
  emb   : Bool := false             -- this goroutine calls the embedded API (it never serves a connection)
  ctx   : Ctx := .direct
  inLook : Bool := false            -- the body is a pop inside blockingPop's `look`
  neg   : Bool := false             -- blockingPop: timeout < 0
  found : Bool := false             -- look's third result
  tx    : Option T := none          -- the open transaction
  todo  : List QCmd := []           -- exec: the rest of `range conn.Commands`
  cur   : QCmd := .unwatch          -- exec: `command`
  noChange : Bool := true           -- exec: watchKeysNoChanged
  after : After := .discardOk
  key   : Key := ""                 -- signalModifiedKey's key
  panicking : Bool := false
  rerr  : Bool := false             -- the body wrote an error reply
deriving DecidableEq, Repr
instance : Inhabited Loc := ⟨{}⟩

inductive Pre | ok | argErr | panic
deriving DecidableEq, Repr, Inhabited

/-- what a body does next -/
inductive Body
  | beginTx                   -- n.exec(func(tx) …): a new Tx
  | signal (k : Key)          -- n.signalModifiedKey(k, meta)
  | endTx                     -- fn returns; deferred tx.commit()
  | finish (replyErr : Bool)  -- the closure returns (having written an error reply or not)
  | panic
  | bpop (neg : Bool)         -- an embedded caller calls n.BLPop / n.BRPop(timeout, …) (neg: timeout < 0)
deriving DecidableEq, Repr, Inhabited

inductive Call
  | cmd (c : Cmd)             -- ReadCommand returned c
  | embed                     -- a goroutine that serves no connection calls the API
deriving Repr, Inhabited

/-- the scheduler's choices -/
structure Choice where
  call  : Call := .embed
  pre   : Pre := .ok          -- the handler's argument checks before execCommand
  body  : Body := .finish false
  fresh : T := 0              -- the identity of the new Tx
  found : Bool := false       -- look: a pop returned an element
  wake  : Bool := false       -- the select in blockingPop: woken (true) or timed out
  flushOk : Bool := true      -- Writer.Flush: the write to the socket succeeded
deriving Repr, Inhabited

/-- start of the deferred calls of the closure: gate-out / Unlock if registered, then the recover function -/
def epilogue (l : Loc) : Loc := { l with pc := if l.held.isSome then .dOut else .dRec }

def qcmdOf : Cmd → QCmd
  | .bpop i => .bpop i
  | .plain i => .plain i
  | _ => .unwatch

/-- `fn()` / `command()` -/
def startBody (l : Loc) (q : QCmd) (commit : Bool) : Loc :=
  match q with
  | .plain _ => { l with pc := .b0, inLook := false }
  | .unwatch => { l with pc := .u1, after := .bodyEnd, inLook := false }
  | .bpop _ => { l with pc := .p0, neg := commit, inLook := true, found := false }   -- wait = -1 inside EXEC

/-- after the deferred `tx.commit()` -/
def afterTx (l : Loc) : Loc :=
  if l.inLook then { l with pc := if l.panicking then (if l.neg then .p5 else .p3) else .p2 }
  else { l with pc := if l.panicking then .bret else .b0 }

/-- `clients.ForRange(c.WatchKeys.Set(key, true))` -/
def markAll (conns : List (Tid × ConnSt)) (k : Key) : List Tid → List (Tid × ConnSt)
  | [] => conns
  | c :: cs =>
    let st := (assoc conns c).getD {}
    markAll (put conns c { st with watch := kput st.watch k true }) k cs

/-- one iteration of `Watch`'s loop: the connection's own flag map … -/
def watchIterW (w : List (Key × Bool)) (k : Key) : List (Key × Bool) :=
  if (kassoc w k).isSome then w else kput w k false
/-- … and the key's watcher list -/
def watchIterReg (t : Tid) (reg : List (Key × List Tid)) (k : Key) : List (Key × List Tid) :=
  match kassoc reg k with
  | none => kput reg k [t]
  | some cl => if cl.contains t then reg else kput reg k (t :: cl)

/-- the loop of `Watch` -/
def watchLoop (t : Tid) (reg : List (Key × List Tid)) (w : List (Key × Bool)) :
    List Key → List (Key × List Tid) × List (Key × Bool)
  | [] => (reg, w)
  | k :: ks => watchLoop t (watchIterReg t reg k) (watchIterW w k) ks

/-- one iteration of `UnWatch`'s loop -/
def unwatchIter (t : Tid) (reg : List (Key × List Tid)) (k : Key) : List (Key × List Tid) :=
  match kassoc reg k with
  | none => reg
  | some cl => kput reg k (cl.erase t)

/-- the loop of `UnWatch` -/
def unwatchLoop (t : Tid) (reg : List (Key × List Tid)) : List Key → List (Key × List Tid)
  | [] => reg
  | k :: ks => unwatchLoop t (unwatchIter t reg k) ks

abbrev Out := Option (Shared × Loc × List Ev)

/-- one transition of thread `t` in local state `l`; `none` = disabled -/
def tstep (s : Shared) (t : Tid) (l : Loc) (ch : Choice) : Out :=
  let cs := s.conn t
  match l.pc with
  | .idle =>
    match ch.call with
    | .cmd c => if l.emb then none else
        some (s, { l with pc := .sw, cmd := c, ctx := .direct, inLook := false, panicking := false }, [])
    | .embed => if s.clients.contains t then none else
        some (s, { l with pc := .b0, cmd := .multi, emb := true, ctx := .embedded, inLook := false, panicking := false }, [])
  ------------------------------------------------------------------ nodis.go, the closure of Serve
  | .sw =>  -- c := GetCommand(cmd.Name); switch cmd.Name
    match l.cmd with
    | .exec =>      -- n.store.execMu.Lock()
      if s.execMu.canLock then some ({ s with execMu := s.execMu.lock t }, { l with pc := .xIn, held := some .x }, []) else none
    | .bpop _ => some (s, { l with pc := .bServe }, [])
    | _ =>          -- n.store.execMu.RLock()
      if s.execMu.canRLock then some ({ s with execMu := s.execMu.rlock t }, { l with pc := .sIn, held := some .s }, []) else none
  | .xIn => -- verifTrace("gate-in", conn, "x"); defer Unlock; defer verifTrace("gate-out")
    some (s.serve t, { l with pc := .call, rep := true }, [.serve t, .gin t .x])
  | .sIn => -- verifTrace("gate-in", conn, "s"); defer RUnlock; defer verifTrace("gate-out")
    some (s.serve t, { l with pc := .call, rep := true }, [.serve t, .gin t .s])
  | .bServe => -- verifTrace("gate-serve", conn)
    some (s.serve t, { l with pc := .call }, [.serve t])
  | .call => -- c(n, conn, cmd)
    match l.cmd with
    | .exec => some (s, { l with pc := .e1 }, [])
    | .multi =>
      if cs.prep then some (s.setConn t { cs with werr := true }, epilogue l, [])      -- "MULTI calls can not be nested"
      else some (s.setConn t { cs with prep := true }, epilogue l, [])                 -- State |= MultiPrepare; WriteOK
    | .discard =>   -- State = MultiNone; Commands = nil; unwatchAll; WriteOK
      some (s.setConn t cs.reset, { l with pc := .u1, after := .discardOk }, [])
    | .watch ks =>
      if cs.prep then some (s.setConn t { cs with werr := true }, epilogue l, [])      -- "WATCH inside MULTI is not allowed"
      else if ks.isEmpty then some (s.setConn t { cs with werr := true }, epilogue l, [])
      else some (s, { l with pc := .w1 }, [])
    | .unwatch => some (s, { l with pc := .ec }, [])
    | _ =>          -- argument checks, then execCommand(conn, fn)
      match ch.pre with
      | .argErr => some (s.setConn t { cs with werr := true }, epilogue l, [])
      | .panic => some (s, epilogue { l with panicking := true }, [])                  -- recovered by the closure's deferred function
      | .ok => some (s, { l with pc := .ec }, [])
  ------------------------------------------------------------------ handler.go execCommand
  | .ec =>
    if cs.runsNow then some (s, startBody { l with ctx := .direct } (qcmdOf l.cmd) cs.commit, [])
    else
      let cs := if cs.prep then { cs with queue := cs.queue ++ [qcmdOf l.cmd] } else cs
      some (s.setConn t cs, epilogue l, [])                                            -- WriteString("QUEUED")
  ------------------------------------------------------------------ a body
  | .b0 =>
    match ch.body with
    | .beginTx => some (s, { l with pc := .b1 }, [])                                   -- tx := &Tx{…}; defer tx.commit()
    | .finish e => some (s, { l with pc := .bret, panicking := false, rerr := e }, [])
    | .panic => some (s, { l with pc := .bret, panicking := true }, [])
    | .bpop ng =>     -- the embedded API: blockingPop takes the shared side for its looks like a served BLPOP does
      if l.ctx == .embedded then some (s, { l with pc := .p0, inLook := true, neg := ng, found := false }, []) else none
    | _ => none
  | .b1 =>  -- the transaction's first verifTrace (look / commit …): the tracer reports txb
    if s.active.any (·.1 == ch.fresh) then none else
    some ({ s with active := (ch.fresh, t) :: s.active }, { l with pc := .b2, tx := some ch.fresh }, [.txb t ch.fresh])
  | .b2 =>
    match ch.body with
    | .signal k => some (s, { l with pc := .g1, key := k }, [])
    | .endTx => some (s, { l with pc := .b3 }, [])
    | .panic => some (s, { l with pc := .b3, panicking := true }, [])
    | _ => none
  | .g1 =>  -- n.store.watchMu.Lock()
    if s.watchMu.isNone then some ({ s with watchMu := some t }, { l with pc := .g2 }, []) else none
  | .g2 =>  -- verifTrace("signal"); clients.ForRange(c.WatchKeys.Set(key, true))
    some ({ s with conns := markAll s.conns l.key ((kassoc s.registry l.key).getD []) }, { l with pc := .g3 }, [.sig t])
  | .g3 =>  -- n.store.watchMu.Unlock()
    some ({ s with watchMu := none }, { l with pc := .b2 }, [])
  | .b3 =>  -- deferred tx.commit(): … verifTrace("end")
    match l.tx with
    | some x => some ({ s with active := s.active.filter (·.1 != x) }, afterTx { l with tx := none }, [.txe t x])
    | none => none
  | .bret => -- the closure returned, or its panic is recovered (execCommand / the loop of exec): WriteError
    let werr := cs.werr || l.panicking || l.rerr
    match l.ctx with
    | .embedded => some (s, { l with pc := .idle, panicking := false, rerr := false }, [])
    | .direct => some (s.setConn t { cs with werr := werr }, epilogue { l with panicking := false, inLook := false, rerr := false }, [])
    | .execLoop => some (s.setConn t { cs with werr := werr }, { l with pc := .e5, panicking := false, inLook := false, rerr := false }, [])
  ------------------------------------------------------------------ list.go blockingPop
  | .p0 =>  -- look: if timeout >= 0 { n.store.execMu.RLock()
    if l.neg then some (s, { l with pc := .p2 }, [])
    else if s.execMu.canRLock then some ({ s with execMu := s.execMu.rlock t }, { l with pc := .p1, held := some .s }, []) else none
  | .p1 =>  -- verifTrace("gate-in", c, "s"); defer RUnlock; defer verifTrace("gate-out") }
    some (s, { l with pc := .p2, rep := true }, [.gin t .s])
  | .p2 =>  -- for _, key := range keys { results := pop(key, 1) …
    match ch.body with
    | .beginTx => some (s, { l with pc := .b1 }, [])
    | .finish _ => some (s, { l with pc := if l.neg then .p5 else .p3, found := ch.found }, [])
    | .panic => some (s, { l with pc := if l.neg then .p5 else .p3, panicking := true }, [])
    | _ => none
  | .p3 =>  -- deferred verifTrace("gate-out", c, "s")
    some (s, { l with pc := .p4, rep := false }, [.gout t])
  | .p4 =>  -- deferred n.store.execMu.RUnlock()
    some ({ s with execMu := s.execMu.unlock t }, { l with pc := .p5, held := none }, [])
  | .p5 =>  -- if ok { return }; if timeout < 0 { return }; select { case <-c: … case <-expired: return }
    if l.panicking || l.found || l.neg then some (s, { l with pc := .bret }, [])
    else if ch.wake then some (s, { l with pc := .p0 }, [])
    else some (s, { l with pc := .bret }, [])
  ------------------------------------------------------------------ key.go Watch
  | .w1 =>  -- n.store.watchMu.Lock()
    if s.watchMu.isNone then some ({ s with watchMu := some t }, { l with pc := .w2 }, []) else none
  | .w2 =>  -- for _, key := range keys { … }
    match l.cmd with
    | .watch ks =>
      let (reg, w) := watchLoop t s.registry cs.watch ks
      some (({ s with registry := reg }).setConn t { cs with watch := w }, { l with pc := .w3 }, [])
    | _ => none
  | .w3 =>  -- n.store.watchMu.Unlock(); conn.WriteOK()
    some ({ s with watchMu := none }, epilogue l, [])
  ------------------------------------------------------------------ handler.go unwatchAll, key.go UnWatch
  | .u1 =>  -- n.store.watchMu.Lock()
    if s.watchMu.isNone then some ({ s with watchMu := some t }, { l with pc := .u2 }, []) else none
  | .u2 =>  -- for _, key := range keys { … RemoveNode … }; rn.WatchKeys.Clear()
    let reg := unwatchLoop t s.registry (cs.watch.map (·.1))
    some (({ s with registry := reg }).setConn t { cs with watch := [] }, { l with pc := .u3 }, [])
  | .u3 =>  -- n.store.watchMu.Unlock()
    let s := { s with watchMu := none }
    match l.after with
    | .discardOk => some (s, epilogue l, [])                  -- conn.WriteOK()
    | .bodyEnd => some (s, { l with pc := .bret }, [])         -- conn.WriteOK()
    | .execDefer => some (s, epilogue l, [])
  ------------------------------------------------------------------ handler.go exec
  | .e1 =>
    if !cs.prep then some (s.setConn t { cs with werr := true }, { l with pc := .edef }, [])        -- "EXEC without MULTI"
    else if cs.err then some (s.setConn t { cs with werr := true }, { l with pc := .edef }, [])    -- EXECABORT
    else some (s, { l with pc := .e3 }, [])                                                         -- tx := newTx; defer tx.commit()
  | .e3 =>  -- conn.WatchKeys.Scan(…)
    some (s, { l with pc := .e4, noChange := cs.watch.all (!·.2) }, [])
  | .e4 =>  -- verifTrace("exec-check")
    if !l.noChange then some (s, { l with pc := .ec1 }, [.chk t])                                   -- WriteBulkNull
    else if cs.queue.isEmpty then some (s, { l with pc := .ec1 }, [.chk t])                         -- WriteArray(0)
    else some (s.setConn t { cs with commit := true }, { l with pc := .e5, todo := cs.queue }, [.chk t])
  | .e5 =>  -- for _, command := range conn.Commands
    match l.todo with
    | [] => some (s, { l with pc := .ec1 }, [])
    | q :: rest => some (s, { l with pc := .e6, cur := q, todo := rest }, [])
  | .e6 =>  -- verifTrace("exec-run"); command()
    some (s, startBody { l with ctx := .execLoop } l.cur cs.commit, [.run t])
  | .ec1 => -- deferred tx.commit(): verifTrace("commit") is this transaction's first report
    if s.active.any (·.1 == ch.fresh) then none else
    some ({ s with active := (ch.fresh, t) :: s.active }, { l with pc := .ec2, tx := some ch.fresh }, [.txb t ch.fresh])
  | .ec2 => -- … verifTrace("end")
    match l.tx with
    | some x => some ({ s with active := s.active.filter (·.1 != x) }, { l with pc := .edef, tx := none }, [.txe t x])
    | none => none
  | .edef => -- deferred: conn.State = MultiNone; conn.Commands = nil; unwatchAll(n, conn)
    some (s.setConn t cs.reset, { l with pc := .u1, after := .execDefer }, [])
  ------------------------------------------------------------------ the deferred calls of the closure; Flush
  | .dOut => -- verifTrace("gate-out")
    some (s, { l with pc := .dUnlock, rep := false }, [.gout t])
  | .dUnlock => -- execMu.Unlock() / RUnlock()
    some ({ s with execMu := s.execMu.unlock t }, { l with pc := .dRec, held := none }, [])
  | .dRec => -- if r := recover(); r != nil { WriteError }; if conn.HasError() && conn.State != 0 { State |= MultiError }
    let werr := cs.werr || l.panicking
    let cs := { cs with werr := werr, err := cs.err || (werr && !cs.none?) }
    some (s.setConn t cs, { l with pc := .flush, panicking := false }, [])
  | .flush => -- c.Flush(): `if err != nil { return err }; w.w = 0; w.err = false` - a failed write (the peer has gone;
              -- handleConn ignores the result and goes on with the commands it has already read) leaves `w.err` as it
              -- is: a stale error flag marks the next transaction of this connection errored (dRec)
    if ch.flushOk then some (s.setConn t { cs with werr := false }, { l with pc := .idle }, [])
    else some (s, { l with pc := .idle }, [])

/-- the whole program: shared state + the local state of every goroutine (all others are at `idle`) -/
structure Cfg where
  sh  : Shared := {}
  thr : List (Tid × Loc) := []
deriving Repr

def Cfg.loc (c : Cfg) (t : Tid) : Loc := (assoc c.thr t).getD {}

/-- one step of the interleaving semantics: thread `t` moves -/
def step (c : Cfg) (t : Tid) (ch : Choice) : Option (Cfg × List Ev) :=
  match tstep c.sh t (c.loc t) ch with
  | none => none
  | some (s, l, e) => some ({ sh := s, thr := put c.thr t l }, e)

/-- a schedule: who moves, with which choices.  A disabled move is skipped. -/
def run (c : Cfg) : List (Tid × Choice) → Cfg × List Ev
  | [] => (c, [])
  | (t, ch) :: sch =>
    match step c t ch with
    | none => run c sch
    | some (c', e) => let r := run c' sch; (r.1, e ++ r.2)

end NodisVerif.GateProg
