import NodisVerif.Basic
/-
  path/filepath.Match on byte strings, for patterns and names that are ASCII (one byte = one
  character; the harness only generates such patterns). `*` and `?` do not match '/'.
  Result: `none` = ErrBadPattern, `some b` = matched?.  Callers in nodis ignore the error and
  use `matched` (false on error).
-/
namespace NodisVerif.Glob

inductive Tok
  | star
  | any
  | lit (c : UInt8)
  | cls (neg : Bool) (ranges : List (UInt8 × UInt8))
deriving Repr, DecidableEq

/-- parse one class body after '['; returns (ranges, rest after ']') -/
def parseClass : Bytes → List (UInt8 × UInt8) → Nat → Option (List (UInt8 × UInt8) × Bytes)
  | _, _, 0 => none
  | [], _, _ => none
  | 93 :: rest, acc, _ => if acc.isEmpty then none else some (acc.reverse, rest)   -- ']' ; empty class is bad
  | c :: rest, acc, fuel + 1 =>
    -- getEsc: lo
    let lo? : Option (UInt8 × Bytes) :=
      if c = 45 ∨ c = 93 then none            -- '-' or ']' where a char is expected: bad pattern
      else if c = 92 then (match rest with | [] => none | e :: r => some (e, r))
      else some (c, rest)
    match lo? with
    | none => none
    | some (lo, r) =>
      match r with
      | [] => none
      | 45 :: r2 =>                          -- range lo-hi
        (match r2 with
         | [] => none
         | h :: r3 =>
           let hi? : Option (UInt8 × Bytes) :=
             if h = 45 ∨ h = 93 then none
             else if h = 92 then (match r3 with | [] => none | e :: r4 => some (e, r4))
             else some (h, r3)
           match hi? with
           | none => none
           | some (hi, r5) => if r5.isEmpty then none else parseClass r5 ((lo, hi) :: acc) fuel)
      | _ => parseClass r ((lo, lo) :: acc) fuel

def tokenize : Bytes → Nat → Option (List Tok)
  | _, 0 => none
  | [], _ => some []
  | 42 :: rest, f + 1 => (tokenize rest f).map (Tok.star :: ·)
  | 63 :: rest, f + 1 => (tokenize rest f).map (Tok.any :: ·)
  | 92 :: rest, f + 1 =>
    (match rest with
     | [] => none
     | c :: r => (tokenize r f).map (Tok.lit c :: ·))
  | 91 :: rest, f + 1 =>
    let (neg, body) := match rest with
      | 94 :: r => (true, r)
      | r => (false, r)
    (match parseClass body [] (body.length + 1) with
     | none => none
     | some (rs, r) => (tokenize r f).map (Tok.cls neg rs :: ·))
  | c :: rest, f + 1 => (tokenize rest f).map (Tok.lit c :: ·)

def matchTok (t : Tok) (c : UInt8) : Bool :=
  match t with
  | .star => false
  | .any => c != 47
  | .lit d => c == d
  | .cls neg rs => (rs.any fun (lo, hi) => lo ≤ c ∧ c ≤ hi) != neg

def matchToks : List Tok → Bytes → Nat → Bool
  | _, _, 0 => false
  | [], s, _ => s.isEmpty
  | Tok.star :: ts, s, f + 1 =>
    matchToks ts s f ||
      (match s with
       | [] => false
       | c :: r => c != 47 && matchToks (Tok.star :: ts) r f)
  | t :: ts, s, f + 1 =>
    match s with
    | [] => false
    | c :: r => matchTok t c && matchToks ts r f

/-- `matched, err := filepath.Match(pattern, name)`; nodis uses `matched` and drops `err`.
    NB Go reports a malformed pattern only if matching reaches the malformed part; the harness
    never generates malformed patterns, so this model answers `false` for them. -/
def matched (pattern name : Bytes) : Bool :=
  match tokenize pattern (pattern.length + 1) with
  | none => false
  | some ts => matchToks ts name (ts.length + name.length + 1)

end NodisVerif.Glob
