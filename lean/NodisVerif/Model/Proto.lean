/-
  tx.go + store.go: the locking protocol of nodis, as a labelled transition system over the steps
  the implementation reports through its `verifTrace` hook (build tag verif).

  Every command runs as a transaction that acquires record locks (`Tx.acquire`), possibly claims
  missing keys through placeholders, publishes / unlinks records in the index, and releases
  everything at its commit. Eviction, flush and SCAN lock one record at a time (mini transactions).
  The store lock `store.mu` is only ever held for the duration of one step, so a step is atomic.

  `step s e = none` means: the implementation reported a step that the protocol does not allow in
  the state reached by the steps before it (the correspondence check fails there).
-/
namespace NodisVerif.Proto

abbrev Tx := Nat
abbrev Rec := Nat
abbrev Key := String

inductive Mode | r | w
deriving DecidableEq, Repr

/-- one record lock held by a transaction -/
structure Hold where
  rid   : Rec
  key   : Key            -- the name the record was created under (records never change name)
  mode  : Mode
  valid : Bool           -- re-validated after the lock was taken (or claimed as a placeholder)
deriving DecidableEq, Repr

structure TxSt where
  holds      : List Hold := []
  waiting    : Option (Key × Rec × Mode) := none     -- blocked in `m.Lock()` / `m.RLock()`
  committing : Bool := false                         -- `Tx.commit` has begun: releases only
deriving Repr

inductive Ev
  | begin (t : Tx)
  | look (t : Tx) (k : Key) (r : Option Rec)          -- first lookup of `acquire`
  | claim (t : Tx) (k : Key) (r : Rec) (m : Mode)     -- a fresh placeholder, locked, into `pending`
  | wait (t : Tx) (k : Key) (r : Rec) (m : Mode)      -- about to block on the record lock
  | lock (t : Tx) (k : Key) (r : Rec) (m : Mode)      -- the record lock has been acquired
  | valid (t : Tx) (k : Key) (r : Rec) (ok : Bool)    -- re-validation; `false` = the attempt is abandoned
  | publish (t : Tx) (k : Key) (r : Rec)              -- placeholder moves from `pending` to the index
  | unlink (t : Tx) (k : Key) (r : Rec)               -- the record leaves the index (DEL, eviction of a dead key)
  | commit (t : Tx)                                   -- `Tx.commit` begins
  | trylock (t : Tx) (k : Key) (r : Rec)              -- commit: TryLock on a read-held placeholder succeeded
  | drop (t : Tx) (k : Key) (r : Rec)                 -- commit: an unused placeholder leaves `pending`
  | unlock (t : Tx) (r : Rec)
  | fin (t : Tx)
  | clear                                             -- FLUSHDB / FLUSHALL: the index is emptied
deriving Repr

structure PState where
  index   : List (Key × Rec) := []
  pending : List (Key × Rec) := []
  names   : List (Rec × Key) := []        -- every record ever created, with its name
  txs     : List (Tx × TxSt) := []        -- active transactions
deriving Repr

def assoc {α β} [BEq α] (l : List (α × β)) (a : α) : Option β := (l.find? (·.1 == a)).map (·.2)
def erase {α β} [BEq α] (l : List (α × β)) (a : α) : List (α × β) := l.filter (fun p => !(p.1 == a))
def put {α β} [BEq α] (l : List (α × β)) (a : α) (b : β) : List (α × β) := (a, b) :: erase l a

namespace PState

/-- `store.lookup` -/
def lookup (s : PState) (k : Key) : Option Rec :=
  match assoc s.index k with
  | some r => some r
  | none => assoc s.pending k

def tx (s : PState) (t : Tx) : Option TxSt := assoc s.txs t
def setTx (s : PState) (t : Tx) (st : TxSt) : PState := { s with txs := put s.txs t st }

/-- all holds of all transactions -/
def allHolds (s : PState) : List (Tx × Hold) := s.txs.flatMap fun (t, st) => st.holds.map fun h => (t, h)

def heldBy (s : PState) (r : Rec) : List (Tx × Hold) := s.allHolds.filter (·.2.rid == r)

/-- can `r` be locked in mode `m` now? -/
def free (s : PState) (r : Rec) (m : Mode) : Bool :=
  match m with
  | .w => (s.heldBy r).isEmpty
  | .r => (s.heldBy r).all (·.2.mode == .r)

end PState

def TxSt.holdOf (st : TxSt) (r : Rec) : Option Hold := st.holds.find? (·.rid == r)
def TxSt.setHold (st : TxSt) (h : Hold) : TxSt := { st with holds := h :: st.holds.filter (·.rid != h.rid) }
def TxSt.delHold (st : TxSt) (r : Rec) : TxSt := { st with holds := st.holds.filter (·.rid != r) }

/-- the ordering rule of `lockKeys`: a transaction only ever *waits* for a key that is greater than
    every key it holds -/
def TxSt.mayWait (st : TxSt) (k : Key) : Bool := st.holds.all fun h => decide (h.key < k)

def guard (b : Bool) (s : PState) : Option PState := if b then some s else none

def step (s : PState) : Ev → Option PState
  | .begin t =>
    match s.tx t with
    | some _ => none
    | none => some (s.setTx t {})
  | .look t k r =>
    match s.tx t with
    | none => none
    | some st => guard (!st.committing && st.waiting.isNone && s.lookup k == r) s
  | .claim t k r m =>
    match s.tx t with
    | none => none
    | some st =>
      if st.committing || st.waiting.isSome then none else
      if (s.lookup k).isSome then none else
      if (assoc s.names r).isSome then none else          -- a fresh record
      let s := { s with pending := put s.pending k r, names := (r, k) :: s.names }
      some (s.setTx t (st.setHold { rid := r, key := k, mode := m, valid := true }))
  | .wait t k r m =>
    match s.tx t with
    | none => none
    | some st =>
      if st.committing || st.waiting.isSome then none else
      if assoc s.names r != some k then none else
      if (st.holdOf r).isSome then none else
      if !st.mayWait k then none else
      some (s.setTx t { st with waiting := some (k, r, m) })
  | .lock t k r m =>
    match s.tx t with
    | none => none
    | some st =>
      if st.waiting != some (k, r, m) then none else
      if !s.free r m then none else
      some (s.setTx t ({ st with waiting := none }.setHold { rid := r, key := k, mode := m, valid := false }))
  | .valid t k r ok =>
    match s.tx t with
    | none => none
    | some st =>
      match st.holdOf r with
      | none => none
      | some h =>
        if h.valid || h.key != k then none else
        if !ok then some s else
        if s.lookup k != some r then none else
        some (s.setTx t (st.setHold { h with valid := true }))
  | .publish t k r =>
    match s.tx t with
    | none => none
    | some st =>
      match st.holdOf r with
      | none => none
      | some h =>
        if !(h.valid && h.mode == .w && h.key == k) || st.committing then none else
        if assoc s.pending k != some r then none else
        if (assoc s.index k).isSome then none else
        some { s with pending := erase s.pending k, index := put s.index k r }
  | .unlink t k r =>
    match s.tx t with
    | none => none
    | some st =>
      match st.holdOf r with
      | none => none
      | some h =>
        if !(h.valid && h.mode == .w && h.key == k) || st.committing then none else
        if assoc s.index k != some r then none else
        some { s with index := erase s.index k }
  | .commit t =>
    match s.tx t with
    | none => none
    | some st =>
      if st.committing || st.waiting.isSome then none else
      -- strict two-phase locking: whatever is held at the commit has been validated
      if !st.holds.all (·.valid) then none else
      some (s.setTx t { st with committing := true })
  | .trylock t k r =>
    match s.tx t with
    | none => none
    | some st =>
      if !st.committing then none else
      if assoc s.names r != some k then none else
      if !s.free r .w then none else
      -- the placeholder may have been dropped or published by somebody else in the meantime: the
      -- hold is valid only if it is still registered
      some (s.setTx t (st.setHold { rid := r, key := k, mode := .w, valid := s.lookup k == some r }))
  | .drop t k r =>
    match s.tx t with
    | none => none
    | some st =>
      match st.holdOf r with
      | none => none
      | some h =>
        if !(st.committing && h.mode == .w && h.key == k) then none else
        if assoc s.pending k != some r then none else
        some { s with pending := erase s.pending k }
  | .unlock t r =>
    match s.tx t with
    | none => none
    | some st =>
      match st.holdOf r with
      | none => none
      | some h =>
        -- before the commit only an attempt that failed its validation is given up
        if !st.committing && h.valid then none else
        some (s.setTx t (st.delHold r))
  | .fin t =>
    match s.tx t with
    | none => none
    | some st =>
      if !st.holds.isEmpty || st.waiting.isSome then none else
      some { s with txs := erase s.txs t }
  | .clear => some { s with index := [] }

/-- run a trace; `inr (i, s)` = event number i is not allowed in state s -/
def run (s : PState) : List Ev → Nat → Except (Nat × PState) PState
  | [], _ => .ok s
  | e :: es, i =>
    match step s e with
    | some s' => run s' es (i + 1)
    | none => .error (i, s)

/-- the waits-for relation of a state: t waits for a record that u holds in a conflicting mode -/
def waitsFor (s : PState) (t u : Tx) : Bool :=
  match s.tx t with
  | some st =>
    match st.waiting with
    | some (_, r, m) => (s.heldBy r).any fun (v, h) => v == u && v != t && (m == .w || h.mode == .w)
    | none => false
  | none => false

end NodisVerif.Proto
