import NodisVerif.Model.Proto
/-
  tx.go (`Tx.acquire`, `lockKeys`, `newKey`, `delKey`, `commit`) and the one-record mini transactions of store.go /
  key.go (`gcRecord`, `flushRecord`, the visit of Keys / Scan): the locking CODE of nodis as a small-step
  interleaving semantics.  `Model/Proto.lean` is the locking PROTOCOL (the steps the verifTrace hook reports);
  this file is the program that takes those steps.  Props/C05-C07 prove that every run of this program, under
  every schedule, emits a trace that `Proto.step` accepts (`C05.prog_refines_proto`), that every event is emitted
  inside its critical section, and that some active thread can always move (`C06.prog_progress`).
  Not here: `store.clear` (protocol level only).  The recorded traces of the scenario runs are replayed against
  this model on every run of C05 / C06 / C07 (`driver txprog`, Driver/TxProgOps.lean).

  Shared state   index / pending (the two maps of `store`, guarded by `store.mu`), the name of every record
                 ever allocated (`m.key.Name`, never changes), per record the state bit KeyStateNormal
                 (`isOk`), `value != nil`, and the record's sync.RWMutex; `store.mu` itself.
  Thread state   program counter + the locals of the Go functions + `tx.lockedMetas`.
  One transition = one mutex operation, or one access to shared state (an `s.mu`-guarded block of map
                 operations counts as one access when it reports one protocol step), or one hook call that
                 stands alone (`wait`, `lock`, `unlock`, `commit`, `end`).  Tests of locals and the append to
                 `tx.lockedMetas` are executed together with the transition before them.
                 `Lock` blocks = the transition is disabled (`none`) until the mutex is free; TryLock never
                 blocks (and may fail even when the mutex is free: Go's TryLock fails when a writer is queued).
  Every verifTrace call site is an emitted `Proto.Ev` at that pc.

  What is abstracted: values (only `value != nil`), time (whether a command finds its key expired is its
  choice to call `newKey`), access counts, storage; `m.writeable` is kept per holder (`Hold.mode` in
  `lockedMetas`): the field is written only by the exclusive owner of the record's mutex and read only by
  owners.  See DESIGN_NOTES_T.md for the statement-to-pc table (Go line → pc) and the list of fused statements.
-/
namespace NodisVerif.TxProg
open NodisVerif.Proto (Key Rec Mode Ev Hold assoc erase put)

abbrev Tid := Nat

/-- sync.RWMutex: the writer, and one entry per RLock that has not been RUnlock'ed (reader count = length) -/
structure Mu where
  writer  : Option Tid := none
  readers : List Tid := []
deriving DecidableEq, Repr
instance : Inhabited Mu := ⟨{}⟩

namespace Mu
def canLock (m : Mu) : Bool := m.writer.isNone && m.readers.isEmpty
def canRLock (m : Mu) : Bool := m.writer.isNone
def lock (m : Mu) (t : Tid) : Mu := { m with writer := some t }
def unlock (m : Mu) : Mu := { m with writer := none }
def rlock (m : Mu) (t : Tid) : Mu := { m with readers := t :: m.readers }
def runlock (m : Mu) (t : Tid) : Mu := { m with readers := m.readers.erase t }
end Mu

/-- the two facts about a record's data the locking code looks at -/
structure Flags where
  ok       : Bool := false      -- state & KeyStateNormal  (`isOk`): false = placeholder
  hasValue : Bool := false      -- value != nil
deriving DecidableEq, Repr
instance : Inhabited Flags := ⟨{}⟩

/-- maps with a default, kept small: an entry equal to the default is removed -/
def getD {β} [Inhabited β] (l : List (Nat × β)) (a : Nat) : β := (assoc l a).getD default
def setD {β} [Inhabited β] [DecidableEq β] (l : List (Nat × β)) (a : Nat) (b : β) : List (Nat × β) :=
  if b = default then erase l a else put l a b

structure Shared where
  index   : List (Key × Rec) := []
  pending : List (Key × Rec) := []
  names   : List (Rec × Key) := []          -- every record ever allocated: `m.key.Name`
  flags   : List (Rec × Flags) := []
  mus     : List (Rec × Mu) := []           -- the record mutexes
  smu     : Mu := {}                        -- store.mu
deriving Repr

namespace Shared
/-- `store.lookup` -/
def lookup (s : Shared) (k : Key) : Option Rec :=
  match assoc s.index k with
  | some r => some r
  | none => assoc s.pending k
def mu (s : Shared) (r : Rec) : Mu := getD s.mus r
def setMu (s : Shared) (r : Rec) (m : Mu) : Shared := { s with mus := setD s.mus r m }
def flag (s : Shared) (r : Rec) : Flags := getD s.flags r
end Shared

inductive Pc
  | init | idle
  -- Tx.acquire
  | a1 | a2 | a3 | a4 | a5 | a6r | a6c | a7 | a8 | a9 | a10 | a11 | a12 | a13 | a14
  -- Tx.newKey after its acquire
  | n1 | n2 | n3 | n4
  -- Tx.delKey
  | d1 | d2 | d3 | d4
  -- Tx.commit
  | c0 | c2 | c3 | c4 | c5 | c6 | c7 | c8 | c9 | c10 | c11 | c12 | cend
  -- store.gcRecord / flushRecord / the visit of Keys and Scan: one record, no lookup
  | g1 | g2 | g3 | g4 | g5 | g6 | g7 | g8 | g9 | g10 | g11 | g12 | g13
deriving DecidableEq, Repr, Inhabited

/-- where `acquire` returns to -/
inductive Ret | plan | body | newKey
deriving DecidableEq, Repr, Inhabited

/-- one key of the locking phase: name, write, placeholder -/
abbrev PlanItem := Key × Bool × Bool

structure Loc where
  pc    : Pc := .init
  key   : Key := ""
  write : Bool := false
  ph    : Bool := false            -- `placeholder`
  ret   : Ret := .plan
  m     : Rec := 0                 -- `m`
  okcur : Bool := false            -- `ok && cur == m`
  hv    : Bool := false            -- `m.value != nil`
  held  : List Hold := []          -- tx.lockedMetas, most recent first (key / mode: `m.key.Name`, `m.writeable`)
  todo  : List PlanItem := []      -- lockKeys: the keys not yet locked
  rest  : List Hold := []          -- commit: lockedMetas[0..i), most recent first
  cur   : Hold := ⟨0, "", .r, false⟩   -- commit: lockedMetas[i]
  panicked : Bool := false
deriving DecidableEq, Repr
instance : Inhabited Loc := ⟨{}⟩

def modeOf (w : Bool) : Mode := if w then .w else .r

/-- what a command may do next (the code outside tx.go) -/
inductive Call
  | begin (plan : List PlanItem)          -- `exec`: new Tx; lockKeys / lockKey / rLockKey in key order
  | mini (r : Rec)                        -- gcRecord(m) / flushRecord(m) / a visit of Keys, Scan: m from an older `records()`
  | reacq (k : Key) (w ph : Bool)         -- writeKey / readKey on a key that is already locked
  | newKey (k : Key)
  | delKey (k : Key)
  | commit
deriving Repr, Inhabited

/-- the scheduler's choices: the next call, the record `newMetadata()` returns, whether TryLock succeeds -/
structure Choice where
  call  : Call := .commit
  fresh : Rec := 0
  tryOk : Bool := true
  dead  : Bool := false     -- gcRecord: `m.expired(now)` (time is not modelled)
  hvNew : Bool := true      -- gc / flush / scan: whether the value is in memory afterwards (evicted / loaded)
deriving Repr, Inhabited

/-- strictly increasing key names: what `sort.Strings` over the keys of the `mode` map produces -/
def sortedKeys : List Key → Bool
  | [] => true
  | [_] => true
  | a :: b :: l => decide (a < b) && sortedKeys (b :: l)
def sortedPlan (plan : List PlanItem) : Bool := sortedKeys (plan.map (·.1))

/-- `lockKeys`: `mode[key] = w` into the map, then the keys of the map sorted — as an insertion into a list that is
    kept sorted and free of duplicates (a later assignment to the same key overrides the mode) -/
def insertItem (k : Key) (w : Bool) : List PlanItem → List PlanItem
  | [] => [(k, w, true)]
  | (k', w', p') :: l =>
    if k < k' then (k, w, true) :: (k', w', p') :: l
    else if k = k' then (k', w, p') :: l
    else (k', w', p') :: insertItem k w l

/-- the plan of `tx.lockKeys(write, read...)`: read keys first (`mode[key] = false`), then write keys (`= true`);
    always with a placeholder -/
def lockPlan (write read : List Key) : List PlanItem :=
  write.foldl (fun acc k => insertItem k true acc) (read.foldl (fun acc k => insertItem k false acc) [])

def holdsName (l : Loc) (k : Key) : Bool := l.held.any fun h => h.key == k
/-- the thread holds a record named `k`, and every record of that name it holds is write-locked -/
def holdsNameW (l : Loc) (k : Key) : Bool :=
  (l.held.any fun h => h.key == k) && (l.held.all fun h => !(h.key == k) || h.mode == .w)
def holdOf (l : Loc) (r : Rec) : Option Hold := l.held.find? (·.rid == r)

/-- the loop of `lockKeys`: the next key, or the command body -/
def nextPlan (l : Loc) : Loc :=
  match l.todo with
  | [] => { l with pc := .idle }
  | (k, w, ph) :: todo => { l with pc := .a1, key := k, write := w, ph := ph, ret := .plan, todo := todo }

/-- `return` of acquire -/
def retTo (l : Loc) : Loc :=
  match l.ret with
  | .plan => nextPlan l
  | .body => { l with pc := .idle }
  | .newKey => { l with pc := .n1 }

/-- the head of commit's loop: `cur := lockedMetas[i]`, `meta.isOk()`, `meta.writeable` -/
def commitNext (s : Shared) (l : Loc) : Loc :=
  match l.rest with
  | [] => { l with pc := .cend }
  | h :: rest =>
    let l := { l with cur := h, rest := rest }
    if (s.flag h.rid).ok then { l with pc := .c2 }
    else if h.mode == .r then { l with pc := .c4 }
    else { l with pc := .c8 }

abbrev Out := Option (Shared × Loc × Option Ev)

/-- one transition of thread `t` in local state `l`; `none` = disabled (blocked, or the call is not allowed) -/
def tstep (s : Shared) (t : Tid) (l : Loc) (ch : Choice) : Out :=
  match l.pc with
  | .init =>
    match ch.call with
    | .begin plan =>
      if sortedPlan plan then some (s, nextPlan { l with todo := plan, held := [], panicked := false }, some (.begin t))
      else none
    | .mini r =>
      -- the record comes out of a snapshot `s.records()` taken earlier: any record that was ever allocated
      match assoc s.names r with
      | some k => some (s, { l with pc := .g1, m := r, key := k, held := [], okcur := false }, some (.begin t))
      | none => none
    | _ => none
  | .idle =>
    match ch.call with
    | .begin _ => none
    | .mini _ => none
    | .reacq k w ph =>
      if holdsName l k then some (s, { l with pc := .a1, key := k, write := w, ph := ph, ret := .body }, none) else none
    | .newKey k =>
      -- `m = tx.acquire(key, true, true, false)`
      if holdsName l k then some (s, { l with pc := .a1, key := k, write := true, ph := true, ret := .newKey }, none) else none
    | .delKey k =>
      -- callers delete only keys they have write-locked (writeKey / lockKeys come first)
      if holdsNameW l k then some (s, { l with pc := .d1, key := k }, none) else none
    | .commit => some (s, { l with pc := .c0 }, none)
  ------------------------------------------------------------------ acquire
  | .a1 =>  -- s.mu.RLock()
    if s.smu.canRLock then some ({ s with smu := s.smu.rlock t }, { l with pc := .a2 }, none) else none
  | .a2 =>  -- m, ok := s.lookup(key); verifTrace("look")
    let r := s.lookup l.key
    some (s, { l with pc := .a3, m := r.getD 0, okcur := r.isSome }, some (.look t l.key r))
  | .a3 =>  -- s.mu.RUnlock(); if !ok {...}; if tx.holds(m) {...}
    let s := { s with smu := s.smu.runlock t }
    if !l.okcur then
      if !l.ph then some (s, retTo l, none)          -- return m.empty()
      else some (s, { l with pc := .a4 }, none)
    else
      match holdOf l l.m with
      | some h =>
        if l.write && h.mode == .r then some (s, { l with pc := .c0, panicked := true }, none)   -- panic; deferred commit
        else some (s, retTo l, none)
      | none => some (s, { l with pc := .a7 }, none)
  | .a4 =>  -- s.mu.Lock()
    if s.smu.canLock then some ({ s with smu := s.smu.lock t }, { l with pc := .a5 }, none) else none
  | .a5 =>  -- if _, ok = s.lookup(key); ok {...}; m = newMetadata(); m.Lock(); s.pending[key] = m; verifTrace("claim")
    match s.lookup l.key with
    | some _ => some (s, { l with pc := .a6r }, none)
    | none =>
      let r := ch.fresh
      if (assoc s.names r).isSome then none else       -- `newMetadata()` returns a new object
      let s := { s with names := (r, l.key) :: s.names, pending := put s.pending l.key r }
      let s := s.setMu r (if l.write then ({} : Mu).lock t else ({} : Mu).rlock t)   -- a new RWMutex
      let h : Hold := { rid := r, key := l.key, mode := modeOf l.write, valid := true }
      some (s, { l with pc := .a6c, m := r, held := h :: l.held }, some (.claim t l.key r (modeOf l.write)))
  | .a6r => -- s.mu.Unlock(); continue
    some ({ s with smu := s.smu.unlock }, { l with pc := .a1 }, none)
  | .a6c => -- s.mu.Unlock(); tx.lockedMetas = append(...); return m
    some ({ s with smu := s.smu.unlock }, retTo l, none)
  | .a7 =>  -- verifTrace("wait")
    some (s, { l with pc := .a8 }, some (.wait t l.key l.m (modeOf l.write)))
  | .a8 =>  -- m.Lock() / m.RLock()
    if l.write then
      if (s.mu l.m).canLock then some (s.setMu l.m ((s.mu l.m).lock t), { l with pc := .a9 }, none) else none
    else
      if (s.mu l.m).canRLock then some (s.setMu l.m ((s.mu l.m).rlock t), { l with pc := .a9 }, none) else none
  | .a9 =>  -- m.writeable = true; verifTrace("lock")
    some (s, { l with pc := .a10 }, some (.lock t l.key l.m (modeOf l.write)))
  | .a10 => -- s.mu.RLock()
    if s.smu.canRLock then some ({ s with smu := s.smu.rlock t }, { l with pc := .a11 }, none) else none
  | .a11 => -- cur, ok := s.lookup(key); verifTrace("valid", ok && cur == m && (write || m.value != nil))
    let okcur := s.lookup l.key == some l.m
    let hv := (s.flag l.m).hasValue
    some (s, { l with pc := .a12, okcur := okcur, hv := hv }, some (.valid t l.key l.m (okcur && (l.write || hv))))
  | .a12 => -- s.mu.RUnlock(); if !ok || cur != m {...}; if !write && m.value == nil {...}; append; return m
    let s := { s with smu := s.smu.runlock t }
    if !l.okcur || (!l.write && !l.hv) then some (s, { l with pc := .a13 }, none)
    else
      let h : Hold := { rid := l.m, key := l.key, mode := modeOf l.write, valid := true }
      some (s, retTo { l with held := h :: l.held }, none)
  | .a13 => -- verifTrace("unlock")
    some (s, { l with pc := .a14 }, some (.unlock t l.m))
  | .a14 => -- m.commit(); [write = true;] continue
    let mu := s.mu l.m
    let s := s.setMu l.m (if l.write then mu.unlock else mu.runlock t)
    some (s, { l with pc := .a1, write := l.write || l.okcur }, none)
  ------------------------------------------------------------------ newKey
  | .n1 =>  -- m.key = ds.NewKey(key, 0); m.setValue(newFn()); m.state |= KeyStateModified
    some ({ s with flags := setD s.flags l.m { ok := true, hasValue := true } }, { l with pc := .n2 }, none)
  | .n2 =>  -- s.mu.Lock()
    if s.smu.canLock then some ({ s with smu := s.smu.lock t }, { l with pc := .n3 }, none) else none
  | .n3 =>  -- if s.pending[key] == m { delete(s.pending, key); s.metadata.Set(key, m); verifTrace("publish") }
    if assoc s.pending l.key == some l.m then
      some ({ s with pending := erase s.pending l.key, index := put s.index l.key l.m }, { l with pc := .n4 },
            some (.publish t l.key l.m))
    else some (s, { l with pc := .n4 }, none)
  | .n4 =>  -- s.mu.Unlock(); return m
    some ({ s with smu := s.smu.unlock }, { l with pc := .idle }, none)
  ------------------------------------------------------------------ delKey
  | .d1 =>  -- s.mu.Lock()
    if s.smu.canLock then some ({ s with smu := s.smu.lock t }, { l with pc := .d2 }, none) else none
  | .d2 =>  -- if m, deleted := s.metadata.Delete(key); deleted { m.unpersist; if tx.holds(m) {... verifTrace("unlink")
    match assoc s.index l.key with
    | none => some (s, { l with pc := .d4 }, none)
    | some r =>
      match holdOf l r with
      | some _ => some ({ s with index := erase s.index l.key }, { l with pc := .d3, m := r }, some (.unlink t l.key r))
      | none => none     -- `unlink-unheld`: not a step of the protocol; unreachable (Proofs/TxProgSim.lean)
  | .d3 =>  -- p := newMetadata(); p.Lock(); s.pending[key] = p; lockedMetas = append(..., p); verifTrace("claim")
    let r := ch.fresh
    if (assoc s.names r).isSome then none else
    let s := { s with names := (r, l.key) :: s.names, pending := put s.pending l.key r }
    let s := s.setMu r (({} : Mu).lock t)
    let h : Hold := { rid := r, key := l.key, mode := .w, valid := true }
    some (s, { l with pc := .d4, held := h :: l.held }, some (.claim t l.key r .w))
  | .d4 =>  -- s.mu.Unlock()
    some ({ s with smu := s.smu.unlock }, { l with pc := .idle }, none)
  ------------------------------------------------------------------ commit
  | .c0 =>  -- verifTrace("commit"); i = len-1
    some (s, commitNext s { l with rest := l.held }, some (.commit t))
  | .c2 =>  -- meta.isOk(): verifTrace("unlock")
    some (s, { l with pc := .c3 }, some (.unlock t l.cur.rid))
  | .c3 =>  -- meta.commit(); continue
    let mu := s.mu l.cur.rid
    let s := s.setMu l.cur.rid (if l.cur.mode == .w then mu.unlock else mu.runlock t)
    some (s, commitNext s l, none)
  | .c4 =>  -- !meta.writeable: verifTrace("unlock")
    some (s, { l with pc := .c5 }, some (.unlock t l.cur.rid))
  | .c5 =>  -- meta.RUnlock()
    some (s.setMu l.cur.rid ((s.mu l.cur.rid).runlock t), { l with pc := .c6 }, none)
  | .c6 =>  -- if !meta.TryLock() { continue }
    if ch.tryOk && (s.mu l.cur.rid).canLock then
      some (s.setMu l.cur.rid ((s.mu l.cur.rid).lock t), { l with pc := .c7 }, none)
    else some (s, commitNext s l, none)
  | .c7 =>  -- meta.writeable = true; verifTrace("trylock")
    let k := (assoc s.names l.cur.rid).getD ""
    let h : Hold := { rid := l.cur.rid, key := k, mode := .w, valid := s.lookup k == some l.cur.rid }
    some (s, { l with pc := .c8, cur := h }, some (.trylock t k l.cur.rid))
  | .c8 =>  -- tx.store.mu.Lock()
    if s.smu.canLock then some ({ s with smu := s.smu.lock t }, { l with pc := .c9 }, none) else none
  | .c9 =>  -- if pending[meta.key.Name] == meta { delete(...); verifTrace("drop") }
    let k := (assoc s.names l.cur.rid).getD ""
    if assoc s.pending k == some l.cur.rid then
      some ({ s with pending := erase s.pending k }, { l with pc := .c10 }, some (.drop t k l.cur.rid))
    else some (s, { l with pc := .c10 }, none)
  | .c10 => -- tx.store.mu.Unlock()
    some ({ s with smu := s.smu.unlock }, { l with pc := .c11 }, none)
  | .c11 => -- verifTrace("unlock")
    some (s, { l with pc := .c12 }, some (.unlock t l.cur.rid))
  | .c12 => -- meta.commit()
    let s := s.setMu l.cur.rid (s.mu l.cur.rid).unlock
    some (s, commitNext s l, none)
  | .cend => -- tx.lockedMetas = tx.lockedMetas[:0]; verifTrace("end")
    some (s, {}, some (.fin t))
  ------------------------------------------------------------------ gcRecord / flushRecord / scan visit (store.go, key.go)
  | .g1 =>  -- verifTrace("wait")
    some (s, { l with pc := .g2 }, some (.wait t l.key l.m .w))
  | .g2 =>  -- m.Lock()
    if (s.mu l.m).canLock then some (s.setMu l.m ((s.mu l.m).lock t), { l with pc := .g3 }, none) else none
  | .g3 =>  -- verifTrace("lock")
    some (s, { l with pc := .g4 }, some (.lock t l.key l.m .w))
  | .g4 =>  -- current: s.mu.RLock()
    if s.smu.canRLock then some ({ s with smu := s.smu.rlock t }, { l with pc := .g5 }, none) else none
  | .g5 =>  -- cur, ok := s.metadata.Get(m.key.Name); verifTrace("current", ok && cur == m)   (the tracer writes `valid`)
    let ok := assoc s.index l.key == some l.m
    some (s, { l with pc := .g6, okcur := ok }, some (.valid t l.key l.m ok))
  | .g6 =>  -- s.mu.RUnlock(); if !current { return }; if m.expired(now) || !m.isOk() {...}
    let s := { s with smu := s.smu.runlock t }
    if !l.okcur then some (s, { l with pc := .g11 }, none)
    else if ch.dead || !(s.flag l.m).ok then some (s, { l with pc := .g7 }, none)     -- gcRecord: unlink the dead key
    else some (s, { l with pc := .g10 }, none)
  | .g7 =>  -- m.unpersist(s.ss); s.mu.Lock()
    if s.smu.canLock then some ({ s with smu := s.smu.lock t }, { l with pc := .g8 }, none) else none
  | .g8 =>  -- s.metadata.Delete(m.key.Name); verifTrace("unlink")
    some ({ s with index := erase s.index l.key }, { l with pc := .g9 }, some (.unlink t l.key l.m))
  | .g9 =>  -- s.mu.Unlock(); return
    some ({ s with smu := s.smu.unlock }, { l with pc := .g10 }, none)
  | .g10 => -- persist / reset / removeFromMemory / (scan) load the value; the tracer writes `commit` for a validated mini transaction
    let f := s.flag l.m
    some ({ s with flags := setD s.flags l.m { f with hasValue := ch.hvNew } }, { l with pc := .g11 }, some (.commit t))
  | .g11 => -- deferred verifTrace("unlock")
    some (s, { l with pc := .g12 }, some (.unlock t l.m))
  | .g12 => -- deferred m.Unlock()
    some (s.setMu l.m (s.mu l.m).unlock, { l with pc := .g13 }, none)
  | .g13 => -- (the tracer writes `fin`)
    some (s, {}, some (.fin t))

/-- the whole program: shared state + the threads that are inside a command (all others are at `init`) -/
structure Cfg where
  sh  : Shared := {}
  thr : List (Tid × Loc) := []
deriving Repr

def Cfg.loc (c : Cfg) (t : Tid) : Loc := getD c.thr t

/-- one step of the interleaving semantics: thread `t` moves -/
def step (c : Cfg) (t : Tid) (ch : Choice) : Option (Cfg × Option Ev) :=
  match tstep c.sh t (c.loc t) ch with
  | none => none
  | some (s, l, e) => some ({ sh := s, thr := setD c.thr t l }, e)

/-- a schedule: who moves, with which choices.  A disabled move is skipped (the scheduler picked a blocked thread). -/
def run (c : Cfg) : List (Tid × Choice) → Cfg × List Ev
  | [] => (c, [])
  | (t, ch) :: sch =>
    match step c t ch with
    | none => run c sch
    | some (c', e) => let (c'', es) := run c' sch; (c'', e.toList ++ es)

end NodisVerif.TxProg
