import NodisVerif.Model.Api
import NodisVerif.Model.F64Arith
/-
  Text <-> float64 for the sorted-set handlers: `strconv.ParseFloat(s, 64)` and
  `strconv.FormatFloat(v, 'f', -1, 64)` on the integer-valued fragment of `Api.parseFloatText` /
  `Api.formatFloat`, extended exactly by decimal integers of any size (parsing only) and by the
  special values:

  * `strconv.special`: an optional sign followed by "inf" or "infinity" (any letter case, nothing
    after it) is ±Inf; "nan" (any letter case, NO sign, nothing after it) is NaN. Anything else that
    starts (after the sign) with i/I/n/N has no digits and is a syntax error.
  * FormatFloat of +Inf / -Inf / NaN is "+Inf" / "-Inf" / "NaN" whatever the format.
-/
namespace NodisVerif.FloatText

def lowerAscii (b : Bytes) : Bytes := b.map fun c => if 65 ≤ c ∧ c ≤ 90 then c + 32 else c

/-- `math.NaN()` -/
def goNaN : F64 := 0x7FF8000000000001

/-- `strconv.ParseFloat(b, 64)`: `some (some x)` parsed, `some none` = syntax error,
    `none` = outside the model (fractions, exponents, hex floats, underscores, huge integers) -/
def parseFloat (b : Bytes) : Option (Option F64) :=
  let (signed, neg, body) : Bool × Bool × Bytes := match b with
    | 43 :: r => (true, false, r)
    | 45 :: r => (true, true, r)
    | r => (false, false, r)
  let lb := lowerAscii body
  if lb = Bytes.ofString "inf" ∨ lb = Bytes.ofString "infinity" then some (some (F64.inf neg))
  else if !signed ∧ lb = Bytes.ofString "nan" then some (some goNaN)
  else match lb with
    | c :: _ =>
      if c = 105 ∨ c = 110 then some none else
      if body.all isDigit ∧ body.length ≤ 400 then
        -- a decimal integer of any size: correctly rounded (ties to even); beyond the float64 range
        -- ParseFloat returns ±Inf WITH a range error
        let x := F64.roundPack neg (digitsToNat body 0) 0
        if F64.isInf x then some none else some (some x)
      else Api.parseFloatText b
    | [] => some none

/-- `strconv.FormatFloat(x, 'f', -1, 64)`; `none` = outside the model (not integer-valued) -/
def formatFloat (x : F64) : Option Bytes :=
  if F64.isNaN x then some (Bytes.ofString "NaN")
  else if F64.isInf x then some (Bytes.ofString (if F64.sign x then "-Inf" else "+Inf"))
  else Api.formatFloat x

/-- `redis.FormatFloat64(a)`: `none` = `a[0]` on an empty string (index-out-of-range panic);
    `some none` = ParseFloat error, or NaN (rejected since the fix "NaN was accepted as a sorted-set
    score …"); `some (some none)` = outside the model -/
def redisFloat (a : Bytes) : Option (Option (Option F64)) :=
  match a with
  | [] => none
  | c :: rest =>
    let body := if c = 40 then rest else a
    some (match parseFloat body with
          | none => some none
          | some none => none
          | some (some x) => if F64.isNaN x then none else some (some x))

end NodisVerif.FloatText
