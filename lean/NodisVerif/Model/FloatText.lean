import NodisVerif.Model.Api
import NodisVerif.Model.F64Arith
/-
  Text <-> float64 for the sorted-set handlers: `strconv.ParseFloat(s, 64)` and
  `strconv.FormatFloat(v, 'f', -1, 64)`. Since work package C both are the full decimal functions of
  Model/FloatDec.lean (fractions, exponents, underscores, range errors, shortest round-trip text); this file
  keeps the names the handlers and proofs use.

  * `strconv.special`: an optional sign followed by "inf" or "infinity" (any letter case, nothing
    after it) is ±Inf; "nan" (any letter case, NO sign, nothing after it) is NaN. Anything else that
    starts (after the sign) with i/I/n/N has no digits and is a syntax error.
  * FormatFloat of +Inf / -Inf / NaN is "+Inf" / "-Inf" / "NaN" whatever the format.
-/
namespace NodisVerif.FloatText

abbrev lowerAscii := FloatDec.lowerAscii

/-- `math.NaN()` -/
abbrev goNaN : F64 := FloatDec.goNaN

/-- `strconv.ParseFloat(b, 64)`: `some (some x)` parsed, `some none` = syntax or range error,
    `none` = outside the model (hex floats, more than 800 significant digits) -/
def parseFloat (b : Bytes) : Option (Option F64) := FloatDec.parseFloat b

/-- `strconv.FormatFloat(x, 'f', -1, 64)` (total; the `Option` is kept for the callers' shape) -/
def formatFloat (x : F64) : Option Bytes := some (FloatDec.formatShortest x)

/-- `redis.FormatFloat64(a)`: `none` = `a[0]` on an empty string (index-out-of-range panic);
    `some none` = ParseFloat error, or NaN (rejected since the fix "NaN was accepted as a sorted-set
    score …"); `some (some none)` = outside the model -/
def redisFloat (a : Bytes) : Option (Option (Option F64)) :=
  match a with
  | [] => none
  | c :: rest =>
    let body := if c = 40 then rest else a
    some (match parseFloat body with
          | none => some none
          | some none => none
          | some (some x) => if F64.isNaN x then none else some (some x))

end NodisVerif.FloatText
