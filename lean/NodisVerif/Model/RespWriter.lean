import NodisVerif.Model.FloatText
/-
  redis/resp.go, `type Writer` — the RESP reply writer's buffer, statement by statement.

      type Writer struct { writer io.Writer; buf []byte; w int; err bool }

  State of the model: the WHOLE backing array `buf` (stale bytes beyond `w` included: `grow` copies them,
  `Flush` leaves them), the write position `w`, the flag `err`, and `sink` = every byte the underlying
  `io.Writer` has accepted so far, in order.  `make([]byte, n)` has len = cap = n, so `buf[:w]` and
  `buf[w] = b` panic exactly when the index is beyond `len(buf)`; both panics are VALUES here
  (`Res.panic`), not omitted branches.  They are unreachable under `Inv` (Props/C16.lean).

  `WriteDouble` uses `strconv.FormatFloat(v,'f',-1,64)`, which is outside the model except on
  integer-valued doubles and ±Inf / NaN (Model/FloatText.lean): `Res.outside`.

  Arrays (`Array UInt8`) are used instead of `Bytes` only so that the compiled driver writes in place;
  every theorem is stated on `toList`.
-/
namespace NodisVerif.RespWriter

/-- `const defaultSize = 4096` -/
def defaultSize : Nat := 4096

inductive Res (α : Type)
  | ok (a : α)
  | panic            -- index / slice bound out of range
  | outside          -- float text outside the modelled fragment of strconv
deriving Repr, Inhabited

def Res.bind {α β : Type} (r : Res α) (f : α → Res β) : Res β :=
  match r with
  | .ok a => f a
  | .panic => .panic
  | .outside => .outside

structure Writer where
  buf : Array UInt8
  w : Nat
  err : Bool
  sink : Array UInt8

/-- `NewWriter(w)`: `buf: make([]byte, defaultSize)`, everything else zero -/
def new : Writer := { buf := Array.replicate defaultSize 0, w := 0, err := false, sink := #[] }

instance : Inhabited Writer := ⟨new⟩

/-- `grow(n)`: `newBuf := make([]byte, len(w.buf)+n); copy(newBuf, w.buf); w.buf = newBuf`
    — the old array followed by n zero bytes (copy copies min(len dst, len src) = the whole old array) -/
def grow (s : Writer) (n : Nat) : Writer :=
  match s with
  | ⟨buf, w, err, sink⟩ => ⟨buf ++ Array.replicate n 0, w, err, sink⟩

/-- `writeByte(b)`: `if w.w >= len(w.buf) { w.grow(defaultSize) }; w.buf[w.w] = b; w.w++` -/
def writeByte (s : Writer) (b : UInt8) : Res Writer :=
  match (if s.w ≥ s.buf.size then grow s defaultSize else s) with
  | ⟨buf, w, err, sink⟩ =>
    if h : w < buf.size then .ok ⟨buf.set w b h, w + 1, err, sink⟩
    else .panic                                  -- index out of range [w] with length len(buf)

/-- `for _, v := range bs { w.writeByte(v) }` -/
def writeLoop : Writer → Bytes → Res Writer
  | s, [] => .ok s
  | s, b :: bs =>
    match writeByte s b with
    | .ok s' => writeLoop s' bs
    | .panic => .panic
    | .outside => .outside

/-- `writeBytes(bs...)`: `n := len(bs); if w.w+n >= len(w.buf) { w.grow(n) }; for … writeByte` (note the `>=`) -/
def writeBytes (s : Writer) (bs : Bytes) : Res Writer :=
  let n := bs.length
  writeLoop (if s.w + n ≥ s.buf.size then grow s n else s) bs

/-- `Bytes()`: `w.buf[:w.w]` -/
def bytes (s : Writer) : Res Bytes :=
  if s.w ≤ s.buf.size then .ok (s.buf.extract 0 s.w).toList else .panic   -- slice bounds out of range

/-- `Flush()`: `_, err := w.writer.Write(w.buf[:w.w]); if err != nil { return err }; w.w = 0; w.err = false`.
    The underlying writer is a parameter: `fail = none` — it takes everything and returns nil;
    `fail = some k` — it takes the first min k w bytes and returns an error (io.Writer's contract:
    n < len(p) comes with a non-nil error; n = len(p) with an error is allowed too).
    Result: the new state and whether Flush returned an error. -/
def flush (s : Writer) (fail : Option Nat) : Res (Writer × Bool) :=
  match s with
  | ⟨buf, w, err, sink⟩ =>
    if w ≤ buf.size then
      match fail with
      | none => .ok (⟨buf, 0, false, sink ++ buf.extract 0 w⟩, false)
      | some k => .ok (⟨buf, w, err, sink ++ buf.extract 0 (min k w)⟩, true)
    else .panic

/-- `HasError()` -/
def hasError (s : Writer) : Bool := s.err

def crlf : Bytes := [13, 10]

/-- type bytes of redis/type.go -/
def StringType : UInt8 := 43   -- '+'
def ErrType : UInt8 := 45      -- '-'
def IntegerType : UInt8 := 58  -- ':'
def BulkType : UInt8 := 36     -- '$'
def ArrayType : UInt8 := 42    -- '*'
def DoubleType : UInt8 := 44   -- ','
def MapType : UInt8 := 37      -- '%'

/-- the common shape `writeByte(t); writeBytes(body...); writeBytes('\r','\n')` -/
def writeLine (s : Writer) (t : UInt8) (body : Bytes) : Res Writer :=
  (writeByte s t).bind fun s => (writeBytes s body).bind fun s => writeBytes s crlf

def writeString (s : Writer) (str : Bytes) : Res Writer := writeLine s StringType str

/-- `WriteBulk`: `$`, `strconv.Itoa(len(bulk))`, CRLF, the payload, CRLF -/
def writeBulk (s : Writer) (bulk : Bytes) : Res Writer :=
  (writeLine s BulkType (formatInt bulk.length)).bind fun s =>
  (writeBytes s bulk).bind fun s => writeBytes s crlf

def writeArray (s : Writer) (l : Int) : Res Writer := writeLine s ArrayType (formatInt l)

/-- `WriteError`: sets `w.err = true` FIRST -/
def writeError (s : Writer) (e : Bytes) : Res Writer :=
  match s with
  | ⟨buf, w, _, sink⟩ => writeLine ⟨buf, w, true, sink⟩ ErrType e

def writeBulkNull (s : Writer) : Res Writer := writeBytes s (Bytes.ofString "$-1\r\n")
def writeArrayNull (s : Writer) : Res Writer := writeBytes s (Bytes.ofString "*-1\r\n")
def writeInt64 (s : Writer) (v : Int) : Res Writer := writeLine s IntegerType (formatInt v)
/-- `strconv.FormatUint(v, 10)` -/
def writeUInt64 (s : Writer) (v : Nat) : Res Writer := writeLine s IntegerType (natDigits v)
def writeDouble (s : Writer) (x : F64) : Res Writer :=
  match FloatText.formatFloat x with
  | none => .outside
  | some txt => writeLine s DoubleType txt
def writeMap (s : Writer) (n : Int) : Res Writer := writeLine s MapType (formatInt n)
def writeNullMap (s : Writer) : Res Writer := writeBytes s (Bytes.ofString "%-1\r\n")
def writeOK (s : Writer) : Res Writer := writeBytes s (Bytes.ofString "+OK\r\n")

/-- one call of an exported method -/
inductive Call
  | string (s : Bytes)
  | bulk (b : Bytes)
  | bulkNull
  | array (n : Int)
  | arrayNull
  | error (e : Bytes)
  | int64 (v : Int)
  | uint64 (v : Nat)
  | double (x : F64)
  | map (n : Int)
  | nullMap
  | ok
  | flush (fail : Option Nat)
  | bytes
  | hasError
deriving Repr, DecidableEq, Inhabited

/-- what the caller sees -/
inductive Reply
  | unit
  | flushed (chunk : Bytes) (failed : Bool)   -- what reached the sink in this call; did Flush return an error
  | bytes (b : Bytes)
  | flag (b : Bool)
deriving Repr, DecidableEq, Inhabited

def unit (r : Res Writer) : Res (Writer × Reply) := r.bind fun s => .ok (s, .unit)

def step (s : Writer) (c : Call) : Res (Writer × Reply) :=
  match c with
  | .string x => unit (writeString s x)
  | .bulk b => unit (writeBulk s b)
  | .bulkNull => unit (writeBulkNull s)
  | .array n => unit (writeArray s n)
  | .arrayNull => unit (writeArrayNull s)
  | .error e => unit (writeError s e)
  | .int64 v => unit (writeInt64 s v)
  | .uint64 v => unit (writeUInt64 s v)
  | .double x => unit (writeDouble s x)
  | .map n => unit (writeMap s n)
  | .nullMap => unit (writeNullMap s)
  | .ok => unit (writeOK s)
  | .flush fail =>
    let before := s.sink.size
    (flush s fail).bind fun (s', failed) => .ok (s', .flushed (s'.sink.extract before s'.sink.size).toList failed)
  | .bytes => (bytes s).bind fun b => .ok (s, .bytes b)
  | .hasError => .ok (s, .flag (hasError s))

/-- a sequence of calls on one writer; the replies are dropped -/
def run : Writer → List Call → Res Writer
  | s, [] => .ok s
  | s, c :: cs =>
    match step s c with
    | .ok (s', _) => run s' cs
    | .panic => .panic
    | .outside => .outside

end NodisVerif.RespWriter
