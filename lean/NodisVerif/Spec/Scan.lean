/-
  Reference notions for the cursor commands SCAN / SSCAN / HSCAN / ZSCAN (property C19), written
  from the Redis command reference ("SCAN is a cursor based iterator: the server returns an updated
  cursor that the client passes to the next call; an iteration starts with cursor 0 and terminates
  when the server returns cursor 0"; "a full iteration always retrieves all the elements that were
  present in the collection from the start to the end of a full iteration"; "a full iteration never
  returns any element that was NOT present ...") and not from the Go code.

  Nothing here inspects elements, patterns or the way a server computes its cursors: a server is
  just a *step* function `cursor ↦ (next cursor, batch)` (possibly threading a state), the client
  is the loop `iterate`.
-/
namespace NodisVerif.Spec.Scan

variable {α σ : Type}

/-- what the RESP handlers of SSCAN / HSCAN / ZSCAN reply as the cursor: the position to continue
    from, or 0 once it has reached the cardinality ("the whole collection has been visited") -/
def scanReply (next card : Int) : Int := if next ≥ card then 0 else next

/-- the client loop against a *stateful* server, started with cursor `c` in server state `s`:
    call, keep the batch, stop when 0 comes back, otherwise call again with the returned cursor.
    `fuel` = the number of calls the client is willing to make.
    Result: the batches in call order, and whether 0 came back within `fuel` calls. -/
def iterateFrom (step : σ → Int → σ × Int × List α) : Nat → σ → Int → List (List α) × Bool
  | 0, _, _ => ([], false)
  | fuel + 1, s, c =>
    let r := step s c
    if r.2.1 = 0 then ([r.2.2], true)
    else
      let rest := iterateFrom step fuel r.1 r.2.1
      (r.2.2 :: rest.1, rest.2)

/-- a full iteration against a stateful server: start with cursor 0 -/
def iterateS (step : σ → Int → σ × Int × List α) (fuel : Nat) (s : σ) : List (List α) × Bool :=
  iterateFrom step fuel s 0

/-- a full iteration against a stateless server (a fixed collection) -/
def iterate (step : Int → Int × List α) (fuel : Nat) : List (List α) × Bool :=
  iterateS (fun (_ : Unit) c => ((), step c)) fuel ()

/-- the elements the client has seen: all batches, in call order -/
def visited (r : List (List α) × Bool) : List α := r.1.flatten

/-- the number of calls the client made -/
def calls (r : List (List α) × Bool) : Nat := r.1.length

/-- the iteration came to its end (cursor 0 was returned) -/
def terminated (r : List (List α) × Bool) : Prop := r.2 = true

/-- "a full iteration terminates after exactly `n` calls, whatever patience ≥ n the client has,
    and has seen exactly `vs` (in this order, with these multiplicities)" -/
def FullIteration (run : Nat → List (List α) × Bool) (n : Nat) (vs : List α) : Prop :=
  ∀ fuel, n ≤ fuel → terminated (run fuel) ∧ calls (run fuel) = n ∧ visited (run fuel) = vs

/-- guarantee 1 of the command reference: everything that was there is seen at least once -/
def Complete (present : List α) (r : List (List α) × Bool) : Prop :=
  terminated r ∧ ∀ x, x ∈ present → x ∈ visited r

/-- guarantee 2: nothing is seen that is not allowed to be seen -/
def Sound (allowed : α → Prop) (r : List (List α) × Bool) : Prop :=
  ∀ x, x ∈ visited r → allowed x

end NodisVerif.Spec.Scan
