import NodisVerif.Basic
/-
  Reference RESP *request* encoding (the Redis protocol specification, "Sending commands to a
  Redis server"): a command is an array of bulk strings,

      *<number of elements>CRLF  $<len(name)>CRLF name CRLF  $<len(arg1)>CRLF arg1 CRLF ...

  Lengths are decimal (`formatInt` = Go's strconv.FormatInt / any client's itoa). The payload of a
  bulk string is length-prefixed and therefore binary safe: it may contain CR, LF, NUL, '*', '$',
  quotes, or be empty.
-/
namespace NodisVerif.Spec.RespEnc

def crlf : Bytes := [13, 10]

/-- `$<len>\r\n<bytes>\r\n` -/
def encodeBulk (b : Bytes) : Bytes :=
  36 :: formatInt (b.length : Int) ++ crlf ++ b ++ crlf

/-- `*<1+#args>\r\n` followed by the name and every argument as bulk strings -/
def encodeCommand (name : Bytes) (args : List Bytes) : Bytes :=
  42 :: formatInt ((1 + args.length : Nat) : Int) ++ crlf ++ encodeBulk name ++ args.flatMap encodeBulk

/-- k commands back to back (a pipeline) -/
def encodePipeline (cmds : List (Bytes × List Bytes)) : Bytes :=
  cmds.flatMap fun c => encodeCommand c.1 c.2

/-- ASCII upper-casing of one byte: 'a'..'z' ↦ 'A'..'Z', everything else unchanged -/
def asciiUpperByte (b : UInt8) : UInt8 := if 97 ≤ b ∧ b ≤ 122 then b - 32 else b

/-- the usual ASCII upper-casing of a byte string -/
def asciiUpper (v : Bytes) : Bytes := v.map asciiUpperByte

end NodisVerif.Spec.RespEnc
