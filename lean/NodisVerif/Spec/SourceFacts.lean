import NodisVerif.Model.Handler3
import NodisVerif.Model.Handler4
import NodisVerif.Model.Handler2
import NodisVerif.Model.RespReader
import NodisVerif.Model.Conn
import NodisVerif.Model.Val
import NodisVerif.Model.ProtoWire
/-
  The regenerated tie. `/verif/extract` (go/ast) turns table-shaped facts of the source text into Lean
  definitions (`NodisVerif.Generated.*`, a file written anew by every check run); the predicates below
  say what the model and the proofs assume about those tables, and every run proves `… = true` for the
  freshly generated tables by `decide` (bin/vlib.py `facts_stage`). A change of the source that breaks
  an assumption breaks that proof obligation.

  These are facts about the TEXT of the code (which handler a name is routed to, which side of the gate a
  command takes, which options Pebble writes carry, that every writer mentions the watch signal and the
  change feed), chosen so that a behaviour-preserving rewrite leaves them alone. What the code DOES is
  tied by execution (the correspondence runs).
-/
namespace NodisVerif.SourceFacts

def lookup {β} (l : List (String × β)) (n : String) : Option β := (l.find? (·.1 == n)).map (·.2)

/-! ## constants -/

/-- the limits and tags the model is written with are the source's -/
def constsOk (cs : List (String × Int)) : Bool :=
  lookup cs "nodis.maxStringSize" == some Handler.maxStringSize &&
  lookup cs "redis.maxBulkSize" == some RespReader.maxBulk &&
  lookup cs "nodis.maxRandomCount" == some 1048576 &&
  lookup cs "redis.MultiNone" == some 0 &&
  lookup cs "redis.MultiPrepare" == some (Int.ofNat multiPrepare) &&
  lookup cs "redis.MultiCommit" == some (Int.ofNat multiCommit) &&
  lookup cs "redis.MultiError" == some (Int.ofNat multiError) &&
  lookup cs "ds.None" == some 0 &&
  lookup cs "ds.String" == some (Int.ofNat (Val.str []).typeCode) &&
  lookup cs "ds.Set" == some (Int.ofNat (Val.set []).typeCode) &&
  lookup cs "ds.List" == some (Int.ofNat (Val.list ⟨[], 0⟩).typeCode) &&
  lookup cs "ds.ZSet" == some (Int.ofNat (Val.zset ⟨[], []⟩).typeCode) &&
  lookup cs "ds.Hash" == some (Int.ofNat (Val.hash []).typeCode)

/-! ## the dispatch table -/

/-- commands handled outside the four handler tables of the model: the connection state machine
    (Model/Conn.lean) and the blocking pops (Model/Block.lean + the list handlers) -/
def connCommands : List String := ["MULTI", "EXEC", "DISCARD", "WATCH", "UNWATCH", "BLPOP", "BRPOP"]

/-- commands of the source that have no model of their replies: none any more (CLIENT, CONFIG, QUIT,
    SAVE, INFO and the GEO family are `Handler4.table4`; what of their replies is relational - the
    members and distances of radius queries, decimal coordinate text, INFO's variable sections - is said
    in Model/Handler4.lean) -/
def unmodelled : List String := []

def modelKnows (name : String) : Bool :=
  (Handler.table1 name []).isSome || (Handler2.table2 name []).isSome || (Handler3.table3 name []).isSome ||
  (Handler4.table4 name []).isSome

/-- the command names of the model's four handler tables (checked against the tables once, below) -/
def modelledNames : List String :=
  ["DBSIZE", "PING", "ECHO", "FLUSHDB", "FLUSHALL", "DEL", "UNLINK", "EXISTS", "EXPIRE", "EXPIREAT",
   "KEYS", "RANDOMKEY", "TTL", "PTTL", "PERSIST", "RENAME", "RENAMENX", "TYPE", "SCAN", "SET", "MSET",
   "APPEND", "SETEX", "SETNX", "GET", "GETSET", "MGET", "SETRANGE", "GETRANGE", "STRLEN", "INCR",
   "INCRBY", "DECR", "DECRBY", "INCRBYFLOAT", "SETBIT", "GETBIT", "BITCOUNT", "SADD", "SMOVE", "SSCAN",
   "SCARD", "SPOP", "SDIFF", "SDIFFSTORE", "SINTER", "SINTERSTORE", "SUNION", "SUNIONSTORE",
   "SISMEMBER", "SMEMBERS", "SRANDMEMBER", "SREM", "HSET", "HGET", "HDEL", "HLEN", "HKEYS", "HEXISTS",
   "HGETALL", "HINCRBY", "HINCRBYFLOAT", "HSETNX", "HMGET", "HMSET", "HCLEAR", "HSTRLEN", "HSCAN",
   "HVALS", "LPUSH", "RPUSH", "LPOP", "RPOP", "LLEN", "LINDEX", "LINSERT", "LPUSHX", "RPUSHX", "LREM",
   "LTRIM", "LSET", "LRANGE", "LPOPRPUSH", "RPOPLPUSH", "ZADD", "ZCARD", "ZRANK", "ZREVRANK", "ZSCORE",
   "ZINCRBY", "ZRANGE", "ZREVRANGE", "ZRANGEBYSCORE", "ZREVRANGEBYSCORE", "ZREM", "ZCOUNT",
   "ZREMRANGEBYRANK", "ZREMRANGEBYSCORE", "ZCLEAR", "ZUNIONSTORE", "ZINTERSTORE", "ZEXISTS", "ZSCAN",
   "CLIENT", "CONFIG", "QUIT", "SAVE", "INFO", "GEOADD", "GEODIST", "GEOHASH", "GEOPOS", "GEORADIUS", "GEORADIUSBYMEMBER"]

/-- every listed name is a command of the model's tables (evaluated by the kernel when the library is built) -/
theorem modelledNames_known : modelledNames.all modelKnows = true := by decide +kernel

/-- every name the source dispatches on is modelled, or handled by the connection model, or listed as
    unmodelled; names are upper case (the reader upper-cases) and unique; unknown names go to the
    not-found handler -/
def dispatchOk (d : List (String × String)) (dflt : String) : Bool :=
  d.all (fun p => modelledNames.contains p.1 || connCommands.contains p.1 || unmodelled.contains p.1) &&
  modelledNames.all (fun n => (lookup d n).isSome) &&
  d.all (fun p => p.1 == p.1.toUpper) &&
  (d.map (·.1)).eraseDups.length == d.length &&
  connCommands.all (fun n => (lookup d n).isSome) &&
  dflt == "cmdNotFound"

/-- handler.go GetCommand as it is expected to read (sorted by name): the table against which the
    properties of the dispatch are proved once, when the library is built; every run proves that the
    table regenerated from the source equals it -/
def expectedDispatch : List (String × String) := [
  ("APPEND", "appendString"),
  ("BITCOUNT", "bitCount"),
  ("BLPOP", "bLPop"),
  ("BRPOP", "bRPop"),
  ("CLIENT", "client"),
  ("CONFIG", "config"),
  ("DBSIZE", "dbSize"),
  ("DECR", "decr"),
  ("DECRBY", "decrBy"),
  ("DEL", "del"),
  ("DISCARD", "discard"),
  ("ECHO", "echo"),
  ("EXEC", "exec"),
  ("EXISTS", "exists"),
  ("EXPIRE", "expire"),
  ("EXPIREAT", "expireAt"),
  ("FLUSHALL", "flushDB"),
  ("FLUSHDB", "flushDB"),
  ("GEOADD", "geoAdd"),
  ("GEODIST", "geoDist"),
  ("GEOHASH", "geoHash"),
  ("GEOPOS", "geoPos"),
  ("GEORADIUS", "geoRadius"),
  ("GEORADIUSBYMEMBER", "geoRadiusByMember"),
  ("GET", "getString"),
  ("GETBIT", "getBit"),
  ("GETRANGE", "getRange"),
  ("GETSET", "getSet"),
  ("HCLEAR", "hClear"),
  ("HDEL", "hDel"),
  ("HEXISTS", "hExists"),
  ("HGET", "hGet"),
  ("HGETALL", "hGetAll"),
  ("HINCRBY", "hIncrBy"),
  ("HINCRBYFLOAT", "hIncrByFloat"),
  ("HKEYS", "hKeys"),
  ("HLEN", "hLen"),
  ("HMGET", "hMGet"),
  ("HMSET", "hMSet"),
  ("HSCAN", "hScan"),
  ("HSET", "hSet"),
  ("HSETNX", "hSetNX"),
  ("HSTRLEN", "hStrLen"),
  ("HVALS", "hVals"),
  ("INCR", "incr"),
  ("INCRBY", "incrBy"),
  ("INCRBYFLOAT", "incrByFloat"),
  ("INFO", "info"),
  ("KEYS", "keys"),
  ("LINDEX", "lIndex"),
  ("LINSERT", "lInsert"),
  ("LLEN", "llen"),
  ("LPOP", "lPop"),
  ("LPOPRPUSH", "lPopRPush"),
  ("LPUSH", "lPush"),
  ("LPUSHX", "lPushx"),
  ("LRANGE", "lRange"),
  ("LREM", "lRem"),
  ("LSET", "lSet"),
  ("LTRIM", "lTrim"),
  ("MGET", "mGet"),
  ("MSET", "mSet"),
  ("MULTI", "multi"),
  ("PERSIST", "Persist"),
  ("PING", "ping"),
  ("PTTL", "pTtl"),
  ("QUIT", "quit"),
  ("RANDOMKEY", "randomKey"),
  ("RENAME", "rename"),
  ("RENAMENX", "renameNx"),
  ("RPOP", "rPop"),
  ("RPOPLPUSH", "rPopLPush"),
  ("RPUSH", "rPush"),
  ("RPUSHX", "rPushx"),
  ("SADD", "sAdd"),
  ("SAVE", "save"),
  ("SCAN", "scan"),
  ("SCARD", "scard"),
  ("SDIFF", "sDiff"),
  ("SDIFFSTORE", "sDiffStore"),
  ("SET", "setString"),
  ("SETBIT", "setBit"),
  ("SETEX", "setex"),
  ("SETNX", "setnx"),
  ("SETRANGE", "setRange"),
  ("SINTER", "sInter"),
  ("SINTERSTORE", "sInterStore"),
  ("SISMEMBER", "sIsMember"),
  ("SMEMBERS", "sMembers"),
  ("SMOVE", "sMove"),
  ("SPOP", "sPop"),
  ("SRANDMEMBER", "sRandMember"),
  ("SREM", "sRem"),
  ("SSCAN", "sScan"),
  ("STRLEN", "strLen"),
  ("SUNION", "sUnion"),
  ("SUNIONSTORE", "sUnionStore"),
  ("TTL", "ttl"),
  ("TYPE", "typ"),
  ("UNLINK", "unlink"),
  ("UNWATCH", "unwatchKey"),
  ("WATCH", "watchKey"),
  ("ZADD", "zAdd"),
  ("ZCARD", "zCard"),
  ("ZCLEAR", "zClear"),
  ("ZCOUNT", "zCount"),
  ("ZEXISTS", "zExists"),
  ("ZINCRBY", "zIncrBy"),
  ("ZINTERSTORE", "zInterStore"),
  ("ZRANGE", "zRange"),
  ("ZRANGEBYSCORE", "zRangeByScore"),
  ("ZRANK", "zRank"),
  ("ZREM", "zRem"),
  ("ZREMRANGEBYRANK", "zRemRangeByRank"),
  ("ZREMRANGEBYSCORE", "zRemRangeByScore"),
  ("ZREVRANGE", "zRevRange"),
  ("ZREVRANGEBYSCORE", "zRevRangeByScore"),
  ("ZREVRANK", "zRevRank"),
  ("ZSCAN", "zScan"),
  ("ZSCORE", "zScore"),
  ("ZUNIONSTORE", "zUnionStore")]

theorem expectedDispatch_ok : dispatchOk expectedDispatch "cmdNotFound" = true := by decide +kernel

/-- names that share a handler in the source share it in the model (aliases), and distinct families do
    not collapse: the pairs the model treats as one command -/
def aliasesOk (d : List (String × String)) : Bool :=
  lookup d "FLUSHALL" == lookup d "FLUSHDB" &&
  -- everything else is routed to a handler of its own
  ((d.filter fun p => p.1 != "FLUSHALL").map (·.2)).eraseDups.length + 1 == d.length

theorem expectedDispatch_aliases : aliasesOk expectedDispatch = true := by decide +kernel

/-! ## the gate of EXEC (Model/Gate.lean) -/

/-- (not an obligation: a refactoring that moves the gate into a helper keeps every behaviour and would
    break this text-level fact; the gate is tied by the `gev` trace of the concurrent scenarios instead.
    Kept as the description of the present text.)
    Serve: EXEC takes the gate exclusively and releases it by a deferred call, the blocking pops take
    nothing there, every other command takes the shared side and releases it by a deferred call; outside
    Serve only `blockingPop` touches the gate: shared, released by a deferred call -/
def gateOk (g : List (String × List String)) (elsewhere : List (String × String)) : Bool :=
  g == [("EXEC", ["Lock", "defer Unlock"]), ("BLPOP", []), ("BRPOP", []), ("default", ["RLock", "defer RUnlock"])] &&
  elsewhere == [("blockingPop", "RLock"), ("blockingPop", "defer RUnlock")]

/-! ## the frame every command body runs in -/

/-- `(*Nodis).exec`: a fresh transaction, its commit deferred, then the body - so a body's effects lie
    between the acquisitions it makes and the commit (assumption `Placed` of C05, two-phase shape of C07) -/
def execOk (b : List String) : Bool :=
  b == ["assign: tx", "defer: tx.commit()", "return: fn(tx)"]

/-! ## Pebble (assumption of C13: a write is atomic and durable when the call returns) -/

def pebbleMutators : List String := ["Set", "Delete", "DeleteRange", "SingleDelete", "Merge", "Apply", "NewBatch", "NewIndexedBatch", "Ingest", "LogData"]

/-- the only mutating calls on the database are Set and Delete, each with `pebble.Sync`; nothing in the
    sources mentions an unsynchronised write option -/
def pebbleOk (calls : List (String × String × String)) (noSync : List String) : Bool :=
  (calls.filter fun c => pebbleMutators.contains c.2.1).all (fun c => (c.2.1 == "Set" || c.2.1 == "Delete") && c.2.2 == "pebble.Sync") &&
  (calls.any fun c => c.2.1 == "Set") && (calls.any fun c => c.2.1 == "Delete") &&
  noSync.isEmpty

/-! ## writers (C09: every change is signalled; C20: every change is emitted) -/

/-- every method of *Nodis that changes the keyspace through its transaction mentions the watch signal
    (directly or through a helper) -/
def writersSignal (w : List (String × Bool × Bool)) : Bool := w.all (·.2.1) && w.length ≥ 60

/-- ... and the change feed -/
def writersNotify (w : List (String × Bool × Bool)) : Bool := w.all (·.2.2) && w.length ≥ 60

/-! ## the change records on the wire (C20: Model/ProtoWire.lean) -/

/-- the table the model (`ProtoWire.opTable`) and the proofs (`Props/C20.lean`: `decode_encode`,
    `decodeOp_encodeOp`, `encode_injective`) are written with, in the extractor's vocabulary -/
def expectedPatchOps : List (Nat × String × List (Nat × String)) :=
  ProtoWire.opTable.map fun (t, name, sch) => (t, name, sch.map fun (no, k) => (no, k.name))

/-- `DecodeOp`'s switch joined with the message structs of op.pb.go is the model's table; the OpType
    constants are 0 (none) … 36 without gaps, so every constant but OpTypeNone has a case; an empty input
    is refused by a guard in front of the switch and the default case returns (the repair 12a5893) -/
def patchOk (ops : List (Nat × String × List (Nat × String))) (types : List (String × Nat)) (shape : List String) : Bool :=
  ops == expectedPatchOps &&
  types.map (·.2) == List.range 37 && types.head? == some ("OpTypeNone", 0) &&
  (shape.any (·.startsWith "guard:")) && shape.contains "default:return"

end NodisVerif.SourceFacts
