import NodisVerif.Model.RespWriter
import NodisVerif.Model.Resp
import NodisVerif.Model.Conn
import NodisVerif.Spec.RespEnc
/-
  Reference semantics of a buffered RESP reply writer, written from the protocol specification and from
  what "buffered writer" means — not from redis/resp.go:

  * every Write* call appends the RESP encoding of its token to the PENDING bytes;
  * Flush hands the pending bytes to the connection, in order, and empties them (a failing connection
    takes a prefix and the pending bytes stay where they are);
  * the error flag is raised by WriteError and lowered by a successful Flush.

  There is no buffer, no capacity and no write position here: those are the implementation's business
  (Model/RespWriter.lean); `abs` maps an implementation state to the state of this machine.
-/
namespace NodisVerif.Spec.RespWriterSpec
open NodisVerif.RespWriter

def crlf : Bytes := [13, 10]

/-- `<type byte> <text> CRLF` -/
def line (t : UInt8) (text : Bytes) : Bytes := t :: text ++ crlf

/-- the RESP encoding of what one call writes (RESP2 + the RESP3 double and map headers the type offers);
    `some []` for calls that write nothing; `none` = float text outside the model -/
def encode : Call → Option Bytes
  | .string s => some (line 43 s)                                   -- +<s>\r\n
  | .bulk b => some (Spec.RespEnc.encodeBulk b)                     -- $<len>\r\n<b>\r\n
  | .bulkNull => some (Bytes.ofString "$-1\r\n")
  | .array n => some (line 42 (formatInt n))                        -- *<n>\r\n
  | .arrayNull => some (Bytes.ofString "*-1\r\n")
  | .error e => some (line 45 e)                                    -- -<e>\r\n
  | .int64 v => some (line 58 (formatInt v))                        -- :<v>\r\n
  | .uint64 v => some (line 58 (natDigits v))
  | .double x => (FloatText.formatFloat x).map (line 44)            -- ,<x>\r\n
  | .map n => some (line 37 (formatInt n))                          -- %<n>\r\n
  | .nullMap => some (Bytes.ofString "%-1\r\n")
  | .ok => some (Bytes.ofString "+OK\r\n")
  | .flush _ => some []
  | .bytes => some []
  | .hasError => some []

/-- the bytes a call contributes to the reply stream (nothing when outside the model) -/
def written (c : Call) : Bytes := (encode c).getD []

def isError : Call → Bool
  | .error _ => true
  | _ => false

/-- the abstract buffered writer -/
structure AW where
  delivered : Bytes := []     -- what the connection has accepted, in order
  pending : Bytes := []       -- written, not yet handed over
  err : Bool := false
deriving Repr, DecidableEq

def AW.step (a : AW) (c : Call) : Option (AW × Reply) :=
  match c with
  | .flush none => some ({ delivered := a.delivered ++ a.pending, pending := [], err := false }, .flushed a.pending false)
  | .flush (some k) => some ({ a with delivered := a.delivered ++ a.pending.take k }, .flushed (a.pending.take k) true)
  | .bytes => some (a, .bytes a.pending)
  | .hasError => some (a, .flag a.err)
  | c => (encode c).map fun e => ({ a with pending := a.pending ++ e, err := a.err || isError c }, .unit)

def AW.run : AW → List Call → Option AW
  | a, [] => some a
  | a, c :: cs =>
    match a.step c with
    | none => none
    | some (a', _) => AW.run a' cs

/-- implementation state ↦ abstract state: the sink, the bytes of the backing array below `w`, the flag -/
def abs (s : Writer) : AW := { delivered := s.sink.toList, pending := s.buf.toList.take s.w, err := s.err }

/-- the representation invariant of the implementation: the write position is inside the backing array -/
def WriterInv (s : Writer) : Prop := s.w ≤ s.buf.size

/-- no call in the sequence is a Flush on a failing connection -/
def NoFailure (cs : List Call) : Prop := ∀ c ∈ cs, ∀ k, c ≠ .flush (some k)

/-- the writer call that writes one reply token of the token-level model (Model/Resp.lean) -/
def callOfTok : Resp.Tok → Call
  | .simple s => .string s
  | .err k => .error (Resp.errText k)
  | .int n => .int64 n
  | .bulk b => .bulk b
  | .nullBulk => .bulkNull
  | .arr n => .array n
  | .nullArr => .arrayNull

/-- a call that writes (every exported method except Flush, Bytes, HasError) -/
def isWrite : Call → Bool
  | .flush _ => false
  | .bytes => false
  | .hasError => false
  | _ => true

/-- what `handleConn` (redis/server.go) does with the writer for a sequence of commands whose replies are `rs`:
    `handler(c, c.cmd)` writes the tokens of the reply, then `_ = c.Flush()` — one Flush after every command -/
def serveCalls (rs : List (List Resp.Tok)) : List Call :=
  rs.flatMap fun r => r.map callOfTok ++ [.flush none]

end NodisVerif.Spec.RespWriterSpec
