import NodisVerif.Model.Val
/-
  Reference semantics of the Redis sorted-set queries, on the *sorted list of members*.

  A sorted set is abstractly a finite map member ↦ score.  Every ordered query of Redis (ZRANK,
  ZREVRANK, ZRANGE, ZREVRANGE, ZRANGEBYSCORE, ZREVRANGEBYSCORE, ZCOUNT, ZREMRANGEBYRANK,
  ZREMRANGEBYSCORE) is defined by the command reference on the list of all (score, member) pairs
  ordered by score, ties broken by the bytewise order of the member.  That list is `sorted z`: it is
  computed from the dictionary alone (insertion sort of the dictionary entries) and never looks at
  the index (`z.sl`) that the implementation maintains.

  Conventions (Redis): ranks are 0-based positions in the sorted list; rank ranges are inclusive,
  negative indexes count from the end (−1 = last), out-of-range bounds are clamped; score ranges
  are intervals with independently open/closed ends; `LIMIT offset count` drops `offset` matching
  elements and keeps `count` (negative `count` = all, negative `offset` = nothing).
  Scores are IEEE-754 doubles compared with the IEEE order (`F64.lt/le/eq`: −0 = +0).
-/
namespace NodisVerif.Spec.ZSet

abbrev Item := F64 × Bytes        -- (score, member)

/-- strict order of the sorted set: by score, then by member bytes -/
def lt (a b : Item) : Bool :=
  F64.lt a.1 b.1 || (F64.eq a.1 b.1 && Bytes.lt a.2 b.2)

/-- ordered insertion -/
def insert (x : Item) : List Item → List Item
  | [] => [x]
  | y :: ys => if lt x y then x :: y :: ys else y :: insert x ys

/-- insertion sort by (score, member) -/
def sort : List Item → List Item
  | [] => []
  | x :: xs => insert x (sort xs)

/-- the full list of members with their scores, sorted by score then member — computed from the
    member→score dictionary only -/
def sorted (z : ZSet) : List Item := sort (z.dict.map fun p => (p.2, p.1))

/-- members in rank order -/
def members (z : ZSet) : List Bytes := (sorted z).map (·.2)

/-- ZSCORE: the score associated with the member in the dictionary -/
def score (z : ZSet) (m : Bytes) : Option F64 := (z.dict.find? fun p => p.1 = m).map (·.2)

/-- ZCARD -/
def card (z : ZSet) : Nat := (sorted z).length

/-! ### ranks (on the sorted list) -/

/-- position of the member in the list, `none` for a non-member -/
def rankOf (l : List Item) (m : Bytes) : Option Nat := l.findIdx? fun it => it.2 = m

/-- ZRANK: 0-based position in the sorted list -/
def rank (z : ZSet) (m : Bytes) : Option Int := (rankOf (sorted z) m).map fun (r : Nat) => (r : Int)

/-- ZREVRANK: 0-based position counted from the highest score: `card − 1 − rank` -/
def revRank (z : ZSet) (m : Bytes) : Option Int :=
  (rankOf (sorted z) m).map fun (r : Nat) => (card z : Int) - 1 - (r : Int)

/-! ### ranges by rank -/

/-- inclusive slice `[start, stop]` of a list, Redis index conventions -/
def slice (l : List Item) (start stop : Int) : List Item :=
  let n : Int := l.length
  let s := if start < 0 then n + start else start
  let e := if stop < 0 then n + stop else stop
  let s := if s < 0 then 0 else s
  let e := if e ≥ n then n - 1 else e
  if s > e ∨ s ≥ n then [] else (l.drop s.toNat).take (e - s + 1).toNat

/-- the list without the inclusive slice `[start, stop]` -/
def unslice (l : List Item) (start stop : Int) : List Item :=
  let n : Int := l.length
  let s := if start < 0 then n + start else start
  let e := if stop < 0 then n + stop else stop
  let s := if s < 0 then 0 else s
  let e := if e ≥ n then n - 1 else e
  if s > e ∨ s ≥ n then l else l.take s.toNat ++ l.drop (e + 1).toNat

/-- ZRANGE start stop -/
def rangeByRank (z : ZSet) (start stop : Int) : List Item := slice (sorted z) start stop

/-- ZREVRANGE start stop: the same indexes on the list in descending order -/
def revRangeByRank (z : ZSet) (start stop : Int) : List Item := slice (sorted z).reverse start stop

/-! ### ranges by score -/

/-- `min ≤ s` or `min < s` -/
def aboveMin (min : F64) (minOpen : Bool) (s : F64) : Bool :=
  if minOpen then F64.lt min s else F64.le min s

/-- `s ≤ max` or `s < max` -/
def belowMax (max : F64) (maxOpen : Bool) (s : F64) : Bool :=
  if maxOpen then F64.lt s max else F64.le s max

def inRange (min max : F64) (minOpen maxOpen : Bool) (it : Item) : Bool :=
  aboveMin min minOpen it.1 && belowMax max maxOpen it.1

/-- `LIMIT offset count` -/
def limitBy (l : List Item) (offset count : Int) : List Item :=
  if offset < 0 then [] else
  let l := l.drop offset.toNat
  if count < 0 then l else l.take count.toNat

/-- ZRANGEBYSCORE min max (no LIMIT): all members whose score lies in the interval, in order -/
def rangeByScore (z : ZSet) (min max : F64) (minOpen maxOpen : Bool) : List Item :=
  (sorted z).filter (inRange min max minOpen maxOpen)

/-- ZRANGEBYSCORE min max LIMIT offset count -/
def rangeByScoreLimit (z : ZSet) (min max : F64) (minOpen maxOpen : Bool) (offset count : Int) :
    List Item :=
  limitBy (rangeByScore z min max minOpen maxOpen) offset count

/-- ZREVRANGEBYSCORE max min (no LIMIT): the same members from the highest score down -/
def revRangeByScore (z : ZSet) (min max : F64) (minOpen maxOpen : Bool) : List Item :=
  (rangeByScore z min max minOpen maxOpen).reverse

/-- ZREVRANGEBYSCORE max min LIMIT offset count: offset/count apply to the descending list -/
def revRangeByScoreLimit (z : ZSet) (min max : F64) (minOpen maxOpen : Bool) (offset count : Int) :
    List Item :=
  limitBy (revRangeByScore z min max minOpen maxOpen) offset count

/-- ZCOUNT min max -/
def count (z : ZSet) (min max : F64) (minOpen maxOpen : Bool) : Nat :=
  (rangeByScore z min max minOpen maxOpen).length

/-! ### removals (effect on the sorted list, and number of removed members) -/

/-- ZREMRANGEBYRANK start stop -/
def remRangeByRank (z : ZSet) (start stop : Int) : List Item × Nat :=
  (unslice (sorted z) start stop, (slice (sorted z) start stop).length)

/-- ZREMRANGEBYSCORE min max -/
def remRangeByScore (z : ZSet) (min max : F64) (minOpen maxOpen : Bool) : List Item × Nat :=
  ((sorted z).filter (fun it => !inRange min max minOpen maxOpen it),
   ((sorted z).filter (inRange min max minOpen maxOpen)).length)

/-- ZREM m: the list without the member -/
def rem (z : ZSet) (m : Bytes) : List Item := (sorted z).filter fun it => it.2 ≠ m

/-- ZADD m s (plain): the member is (re)placed at the position its new score demands -/
def add (z : ZSet) (m : Bytes) (s : F64) : List Item := insert (s, m) (rem z m)

end NodisVerif.Spec.ZSet
