import NodisVerif.Model.Store
/-
  Reference notion for C11 / C12: the *logical keyspace* of a store state.

  What a client can observe of a store at time `now` is, for every name, whether a live key of
  that name exists and, if so, its value and its deadline.  Where the value physically sits
  (in the index record = "hot", or only in the storage backend = "cold") is not observable:
  a cold value is what the backend hands back on first use.  A record whose value cannot be
  obtained from the backend is absent (that is how `readKey` treats it).

  Written from the property text only: nothing here knows about dirty bits, access counters,
  `stored` bookkeeping or object identities.  This is what the harness's `ldump` prints.
-/
namespace NodisVerif.Spec.Persist

/-- what a reader of record `m` (indexed under `k`) gets at time `now`: value and deadline,
    `none` = no such key (never created / dead / expired / unreadable) -/
def view (s : MState) (now : Int) (k : Bytes) (m : Meta) : Option (Val × Int) :=
  if m.isOk && !m.expired now then
    match m.value with
    | some v => some (v, m.exp)
    | none => (Store.loadValue s k m).map fun p => (p.1, m.exp)
  else none

/-- the logical keyspace: (name, value, deadline) of every live key, in index (name) order -/
def logical (s : MState) (now : Int) : List (Bytes × Val × Int) :=
  s.index.filterMap fun (k, m) => (view s now k m).map fun p => (k, p)

/-- the logical content of one name -/
def lookup (s : MState) (now : Int) (k : Bytes) : Option (Val × Int) :=
  (Store.getMeta s k).bind (view s now k)

/-- the empty store on either backend -/
def empty (pebble : Bool) : MState := { pebble := pebble }

/-- `n` close/open cycles at time `now` -/
def cycles (now : Int) : Nat → MState → MState
  | 0, s => s
  | n + 1, s => cycles now n (Store.reopen (Store.close s now))

end NodisVerif.Spec.Persist
