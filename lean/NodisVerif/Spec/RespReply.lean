import NodisVerif.Basic
/-
  Reference *reader* for RESP2 replies, i.e. what a Redis client does with the bytes a server sends.
  Written from the RESP2 protocol specification, not from the server's writer:

    +<line>\r\n                simple string   (line contains no CR and no LF)
    -<line>\r\n                error           (line contains no CR and no LF)
    :<dec>\r\n                 integer
    $<len>\r\n<len bytes>\r\n  bulk string     (payload is arbitrary bytes, exactly <len> of them)
    $-1\r\n                    null bulk string
    *<n>\r\n<n replies>        array of n replies (recursively)
    *-1\r\n                    null array

  <dec>, <len>, <n> are decimal integers: an optional `-` followed by one or more ASCII digits
  (unbounded).  The parser is strict: everything else is rejected (`none`).  It returns the value
  read and the unread rest of the input, so that a client reading a pipeline simply iterates it.

  All functions are structurally recursive (explicit fuel for the nesting depth), hence total,
  executable and reducible by `decide`/`rfl`.
-/
namespace NodisVerif.Spec.RespReply

/-- a RESP2 reply value -/
inductive Value
  | simple (s : Bytes)
  | error (s : Bytes)
  | int (n : Int)
  | bulk (b : Bytes)
  | nullBulk
  | array (xs : List Value)
  | nullArray
deriving Repr, Inhabited

/-! ### lines and decimal numbers -/

/-- split the input at the first CRLF: (the line before it, the input after it) -/
def splitLine : Bytes → Option (Bytes × Bytes)
  | [] => none
  | a :: tl =>
    if a = 13 ∧ tl.head? = some 10 then some ([], tl.tail)
    else match splitLine tl with
      | none => none
      | some (l, r) => some (a :: l, r)

/-- ASCII `0`..`9` -/
def isDigit (b : UInt8) : Bool := 48 ≤ b && b ≤ 57

/-- value of a digit string, most significant digit first -/
def digitsVal (ds : Bytes) : Nat := ds.foldl (fun acc d => acc * 10 + (d.toNat - 48)) 0

/-- one or more decimal digits -/
def parseNat (ds : Bytes) : Option Nat :=
  if ds.isEmpty then none else if ds.all isDigit then some (digitsVal ds) else none

/-- optional `-`, then one or more decimal digits; unbounded -/
def parseDec : Bytes → Option Int
  | 45 :: ds => (parseNat ds).map fun (n : Nat) => -(n : Int)
  | ds => (parseNat ds).map fun (n : Nat) => (n : Int)

/-- a simple-string / error line must not contain CR or LF -/
def cleanLine (l : Bytes) : Bool := l.all fun b => b != 13 && b != 10

/-! ### values -/

/-- run the reader `p` exactly `k` times in sequence, threading the unread input -/
def seqN {α σ : Type} (p : σ → Option (α × σ)) : Nat → σ → Option (List α × σ)
  | 0, s => some ([], s)
  | k + 1, s =>
    match p s with
    | none => none
    | some (v, s') =>
      match seqN p k s' with
      | none => none
      | some (vs, s'') => some (v :: vs, s'')

/-- `$<len>` payload: exactly `k` bytes followed by CRLF -/
def takeBulk (k : Nat) (bs : Bytes) : Option (Bytes × Bytes) :=
  if bs.length < k then none
  else match bs.drop k with
    | a :: b :: rest => if a = 13 ∧ b = 10 then some (bs.take k, rest) else none
    | _ => none

/-- one reply; `fuel` bounds the nesting depth of arrays -/
def parseFuel : Nat → Bytes → Option (Value × Bytes)
  | 0, _ => none
  | _, [] => none
  | fuel + 1, t :: bs =>
    match splitLine bs with
    | none => none
    | some (line, rest) =>
      if t = 43 then                                   -- '+'
        if cleanLine line then some (.simple line, rest) else none
      else if t = 45 then                              -- '-'
        if cleanLine line then some (.error line, rest) else none
      else if t = 58 then                              -- ':'
        match parseDec line with
        | none => none
        | some n => some (.int n, rest)
      else if t = 36 then                              -- '$'
        match parseDec line with
        | none => none
        | some n =>
          if n = -1 then some (.nullBulk, rest)
          else if n < 0 then none
          else match takeBulk n.toNat rest with
            | none => none
            | some (b, rest') => some (.bulk b, rest')
      else if t = 42 then                              -- '*'
        match parseDec line with
        | none => none
        | some n =>
          if n = -1 then some (.nullArray, rest)
          else if n < 0 then none
          else match seqN (parseFuel fuel) n.toNat rest with
            | none => none
            | some (xs, rest') => some (.array xs, rest')
      else none

/-- read one reply from the head of the input: the value and the unread rest.
    Every nesting level consumes at least its type byte, so the input length bounds the depth. -/
def parseReply (bs : Bytes) : Option (Value × Bytes) := parseFuel (bs.length + 1) bs

/-- read exactly `k` replies in sequence (what a client does after pipelining `k` commands) -/
def parseMany (k : Nat) (bs : Bytes) : Option (List Value × Bytes) := seqN parseReply k bs

end NodisVerif.Spec.RespReply
