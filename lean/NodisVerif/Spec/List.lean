import NodisVerif.Basic
/-
  Reference semantics of the Redis list commands on a plain finite sequence `List Bytes`
  (head = index 0).  Written from the Redis command reference (LRANGE, LINDEX, LSET, LTRIM, LREM,
  LINSERT, LPOP, RPOP, LPUSH, RPUSH), in take/drop/filter/index-arithmetic style; nothing here
  looks at the implementation.

  Index conventions: 0-based; a negative index `i` denotes position `n + i` (−1 = last element);
  ranges are inclusive on both ends; out-of-range range bounds are clamped, out-of-range single
  indexes are errors / nil.
-/
namespace NodisVerif.Spec.List

/-- absolute position denoted by a Redis index on a sequence of `n` elements -/
def absIndex (n : Nat) (i : Int) : Int := if i < 0 then (n : Int) + i else i

/-- `LRANGE start stop`: negative indexes count from the tail, `start` is clamped to 0, `stop` to
    `n-1`; empty when `start > stop` or `start ≥ n`; otherwise elements `start..stop` inclusive. -/
def lrange (xs : List Bytes) (start stop : Int) : List Bytes :=
  let n : Int := xs.length
  let s := absIndex xs.length start
  let e := absIndex xs.length stop
  let s := if s < 0 then 0 else s
  let e := if e ≥ n then n - 1 else e
  if s > e ∨ s ≥ n then []
  else (xs.drop s.toNat).take (e - s + 1).toNat

/-- `LINDEX i`: the element at position `i`, `none` (nil) when out of range -/
def lindex (xs : List Bytes) (i : Int) : Option Bytes :=
  let j := absIndex xs.length i
  if j < 0 then none else xs[j.toNat]?

/-- `LSET i v`: `none` = "index out of range" error, otherwise position `i` is overwritten -/
def lset (xs : List Bytes) (i : Int) (v : Bytes) : Option (List Bytes) :=
  let j := absIndex xs.length i
  if j < 0 ∨ j ≥ (xs.length : Int) then none
  else some (xs.take j.toNat ++ v :: xs.drop (j.toNat + 1))

/-- `LTRIM start stop`: keep exactly what `LRANGE start stop` would return -/
def ltrim (xs : List Bytes) (start stop : Int) : List Bytes := lrange xs start stop

/-- positions (ascending) at which `v` occurs -/
def occurrences (xs : List Bytes) (v : Bytes) : List Nat :=
  (xs.zipIdx.filter fun p => p.1 = v).map (·.2)

/-- the sequence without the elements at the given positions -/
def removeAt (xs : List Bytes) (victims : List Nat) : List Bytes :=
  (xs.zipIdx.filter fun p => !victims.contains p.2).map (·.1)

/-- `LREM count v`: `count > 0` removes the first `count` occurrences of `v` (from the head),
    `count < 0` the last `|count|` occurrences (from the tail), `count = 0` all of them.
    Result: the new sequence and the number of removed elements. -/
def lrem (xs : List Bytes) (count : Int) (v : Bytes) : List Bytes × Nat :=
  let occ := occurrences xs v
  let victims :=
    if count > 0 then occ.take count.toNat
    else if count < 0 then occ.drop (occ.length - (-count).toNat)
    else occ
  (removeAt xs victims, victims.length)

/-- `LINSERT BEFORE|AFTER pivot v`: relative to the *first* occurrence of `pivot`;
    `none` = pivot not found (reply -1) -/
def linsert (xs : List Bytes) (pivot v : Bytes) (before : Bool) : Option (List Bytes) :=
  match xs.findIdx? (fun x => x = pivot) with
  | none => none
  | some i =>
    let at_ := if before then i else i + 1
    some (xs.take at_ ++ v :: xs.drop at_)

/-- `LPOP count`: (popped elements head-first, remaining sequence); `count` clamped to the length -/
def lpop (xs : List Bytes) (k : Nat) : List Bytes × List Bytes :=
  let k := min k xs.length
  (xs.take k, xs.drop k)

/-- `RPOP count`: (popped elements tail-first, remaining sequence); `count` clamped to the length -/
def rpop (xs : List Bytes) (k : Nat) : List Bytes × List Bytes :=
  let k := min k xs.length
  ((xs.drop (xs.length - k)).reverse, xs.take (xs.length - k))

/-- `LPUSH v1 v2 ...`: each value in turn becomes the new head, so the last argument ends up first -/
def lpush (xs : List Bytes) (data : List Bytes) : List Bytes := data.reverse ++ xs

/-- `RPUSH v1 v2 ...`: values are appended in argument order -/
def rpush (xs : List Bytes) (data : List Bytes) : List Bytes := xs ++ data

/-! ### command sequences on one list -/

/-- the single-list commands of property C02 (LPUSHX/RPUSHX are LPUSH/RPUSH of one value on an
    existing list; the two-list rotations are treated separately) -/
inductive Cmd
  | lpush (data : List Bytes)
  | rpush (data : List Bytes)
  | lpop (count : Int)
  | rpop (count : Int)
  | llen
  | lindex (i : Int)
  | lrange (start stop : Int)
  | linsert (pivot v : Bytes) (before : Bool)
  | lset (i : Int) (v : Bytes)
  | lrem (count : Int) (v : Bytes)
  | ltrim (start stop : Int)
deriving Repr, DecidableEq

inductive Reply
  | int (n : Int)
  | bulk (b : Option Bytes)
  | arr (xs : List Bytes)
  | ok (b : Bool)
  | unit
deriving Repr, DecidableEq

/-- one command on the abstract sequence: new sequence and reply. A pop count ≤ 0 pops nothing. -/
def step (xs : List Bytes) : Cmd → List Bytes × Reply
  | .lpush data => (lpush xs data, .int (xs.length + data.length : Nat))
  | .rpush data => (rpush xs data, .int (xs.length + data.length : Nat))
  | .lpop count => ((lpop xs count.toNat).2, .arr (lpop xs count.toNat).1)
  | .rpop count => ((rpop xs count.toNat).2, .arr (rpop xs count.toNat).1)
  | .llen => (xs, .int xs.length)
  | .lindex i => (xs, .bulk (lindex xs i))
  | .lrange start stop => (xs, .arr (lrange xs start stop))
  | .linsert pivot v before =>
    match linsert xs pivot v before with
    | none => (xs, .int (-1))
    | some ys => (ys, .int ys.length)
  | .lset i v =>
    match lset xs i v with
    | none => (xs, .ok false)
    | some ys => (ys, .ok true)
  | .lrem count v => ((lrem xs count v).1, .int (lrem xs count v).2)
  | .ltrim start stop => (ltrim xs start stop, .unit)

/-- run a command sequence, collecting the replies in order -/
def run {σ : Type} (stepFn : σ → Cmd → σ × Reply) : σ → List Cmd → σ × List Reply
  | s, [] => (s, [])
  | s, c :: cs =>
    let (s1, r) := stepFn s c
    let (s2, rs) := run stepFn s1 cs
    (s2, r :: rs)

end NodisVerif.Spec.List
