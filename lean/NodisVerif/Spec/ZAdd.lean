import NodisVerif.Model.Val
/-
  Reference semantics of Redis' ZADD key [NX | XX] [GT | LT] [CH] score member [score member …]
  (command reference, "ZADD options"), written on a PLAIN association list member ↦ score (no order, no
  index, the first binding of a member is the one that counts):

    XX  only update elements that already exist, never add new elements;
    NX  only add new elements, never update existing ones;
    LT  only update existing elements if the new score is less than the current score - this flag does
        not prevent adding new elements;
    GT  the same with greater than;
    CH  the reply is the number of elements changed (added or updated) instead of the number added;
    an element whose score is given again with the same value is not an update.

  The pairs are processed from left to right on the map left by the previous pair (the same member twice
  in one command: the second pair sees the first one's score).
-/
namespace NodisVerif.Spec.ZAdd

abbrev Map := List (Bytes × F64)

/-- the score bound to a member -/
def find (m : Map) (k : Bytes) : Option F64 := (m.find? fun p => p.1 = k).map (·.2)

/-- bind a member to a score -/
def put (m : Map) (k : Bytes) (v : F64) : Map := (k, v) :: m

structure Res where
  map : Map
  added : Int
  changed : Int

def step (nx xx gt lt : Bool) (r : Res) (p : Bytes × F64) : Res :=
  match find r.map p.1 with
  | none =>
    if xx then r else { map := put r.map p.1 p.2, added := r.added + 1, changed := r.changed }
  | some old =>
    if nx then r
    else if gt && !(F64.gt p.2 old) then r
    else if lt && !(F64.lt p.2 old) then r
    else if F64.eq p.2 old then r
    else { map := put r.map p.1 p.2, added := r.added, changed := r.changed + 1 }

def zadd (nx xx gt lt : Bool) (m : Map) (pairs : List (Bytes × F64)) : Res :=
  pairs.foldl (step nx xx gt lt) { map := m, added := 0, changed := 0 }

def reply (ch : Bool) (r : Res) : Int := if ch then r.added + r.changed else r.added

end NodisVerif.Spec.ZAdd
