import NodisVerif.Basic
/-
  Reference semantics for Redis hashes and sets (property C03), written from the Redis command
  reference and *not* from the Go code.

  * a hash is an abstract finite map `field ↦ value`, represented by its total lookup function
    `Bytes → Option Bytes` (`none` = field absent). No order, no representation.
  * a set is an abstract set of byte strings, represented by its characteristic function
    `Bytes → Bool`.
  * enumerations (HKEYS, HGETALL, SMEMBERS, SINTER ...) are lists; a list *enumerates* a set when it
    has no repetition and has the same members. Redis leaves the order unspecified, so every
    statement about an enumeration is "for every byte string x: x ∈ result ↔ …" plus "no
    duplicates"; cardinalities are the length of any enumeration.

  Every byte string is a legal field / value / member, including the empty one: nothing in this
  file inspects the bytes.
-/
namespace NodisVerif.Spec

/-! ## abstract maps -/

/-- abstract map: total lookup function -/
abbrev Map (V : Type) := Bytes → Option V

namespace Map
variable {V : Type}

def empty : Map V := fun _ => none

/-- `m[k] := v` -/
def put (m : Map V) (k : Bytes) (v : V) : Map V := fun x => if x = k then some v else m x

/-- remove one field -/
def del (m : Map V) (k : Bytes) : Map V := fun x => if x = k then none else m x

/-- remove every listed field (HDEL f1 f2 ...) -/
def delAll (m : Map V) (ks : List Bytes) : Map V := fun x => if x ∈ ks then none else m x

def has (m : Map V) (k : Bytes) : Bool := (m k).isSome

end Map

/-! ## abstract sets -/

/-- abstract set of byte strings: characteristic function -/
abbrev BSet := Bytes → Bool

namespace BSet

def empty : BSet := fun _ => false
def insert (s : BSet) (m : Bytes) : BSet := fun x => s x || decide (x = m)
def remove (s : BSet) (m : Bytes) : BSet := fun x => s x && !decide (x = m)
/-- SADD key m1 m2 ... -/
def insertAll (s : BSet) (ms : List Bytes) : BSet := fun x => s x || decide (x ∈ ms)
/-- SREM key m1 m2 ... -/
def removeAll (s : BSet) (ms : List Bytes) : BSet := fun x => s x && !decide (x ∈ ms)
/-- SINTER k0 k1 ... : in the first set and in every other one -/
def interAll (s : BSet) (others : List BSet) : BSet := fun x => s x && others.all (fun o => o x)
/-- SUNION k0 k1 ... : in the first set or in some other one -/
def unionAll (s : BSet) (others : List BSet) : BSet := fun x => s x || others.any (fun o => o x)
/-- SDIFF k0 k1 ... : in the first set and in none of the others -/
def diffAll (s : BSet) (others : List BSet) : BSet := fun x => s x && !others.any (fun o => o x)

end BSet

/-- the domain of a map, as a set -/
def Map.dom {V : Type} (m : Map V) : BSet := fun x => (m x).isSome

/-! ## enumerations and cardinality -/

/-- `l` lists the elements of `s`, each exactly once -/
def Enumerates (l : List Bytes) (s : BSet) : Prop := l.Nodup ∧ ∀ x, x ∈ l ↔ s x = true

/-- `l` lists the bindings of the map `m`, each field exactly once -/
def EnumeratesMap {V : Type} (l : List (Bytes × V)) (m : Map V) : Prop :=
  (l.map (·.1)).Nodup ∧ ∀ k v, (k, v) ∈ l ↔ m k = some v

/-- `s` has exactly `n` elements: some (equivalently, by `Proofs.C03.enumerates_length_unique`,
    every) repetition-free enumeration of `s` has length `n` -/
def HasCard (s : BSet) (n : Nat) : Prop := ∃ l, Enumerates l s ∧ l.length = n

/-- the *distinct* elements of `l` that satisfy `p`, as a set: used to say "the number of distinct
    listed members that were new / present" without fixing how duplicates in the argument list are
    processed -/
def listed (l : List Bytes) (p : Bytes → Bool) : BSet := fun x => decide (x ∈ l) && p x

/-! ## HINCRBY (Redis reference)

  "Increments the number stored at field in the hash stored at key by increment. If the field does
  not exist the value is set to 0 before the operation is performed. An error is returned if the
  field contains a value of the wrong type or a string that can not be represented as integer, or
  if the increment would overflow a 64 bit signed integer." -/

/-- new integer value of the field, `none` = error reply and no state change -/
def hincr (old : Option Bytes) (delta : Int) : Option Int :=
  match old with
  | none => if inInt64 delta then some delta else none
  | some txt =>
    match parseInt64 txt with
    | none => none
    | some i => if inInt64 (i + delta) then some (i + delta) else none

/-! ## random selectors (SPOP / SRANDMEMBER with a non-negative count)

  `choice` is an admissible answer for "COUNT distinct random members of `s`" where `s` has `card`
  elements: only current members, pairwise distinct, exactly `min count card` of them. -/
def AdmissibleDistinct (s : BSet) (card : Nat) (count : Nat) (choice : List Bytes) : Prop :=
  (∀ x ∈ choice, s x = true) ∧ choice.Nodup ∧ choice.length = min count card

/-- SRANDMEMBER with a negative count: `|count|` current members, repetitions allowed -/
def AdmissibleRepeated (s : BSet) (n : Nat) (choice : List Bytes) : Prop :=
  (∀ x ∈ choice, s x = true) ∧ choice.length = n


/-! ## command-level reference semantics

  One hash key / one set key, commands issued one after the other. The semantics is relational:
  replies that enumerate (HKEYS, SMEMBERS, ...) may come in any order, random selectors may pick any
  admissible members. `m` / `s` is the abstract value before the command (a missing key is the empty
  map / set), `m'` / `s'` the value after it. -/

inductive Reply
  | int (n : Int)
  | bool (b : Bool)
  | bulk (b : Option Bytes)                 -- one bulk string or nil
  | bulks (l : List (Option Bytes))         -- array of bulk strings / nils
  | strs (l : List Bytes)                   -- array of members / fields
  | pairs (l : List (Bytes × Bytes))        -- field/value pairs
  | err

inductive HashCmd
  | hset (f v : Bytes)
  | hsetnx (f v : Bytes)
  | hmset (pairs : List (Bytes × Bytes))
  | hget (f : Bytes)
  | hmget (fs : List Bytes)
  | hgetall
  | hkeys
  | hvals
  | hdel (fs : List Bytes)
  | hlen
  | hexists (f : Bytes)
  | hstrlen (f : Bytes)
  | hincrby (f : Bytes) (delta : Int)

/-- NB HMSET: Redis answers a constant OK; the embedded nodis API reports the number of fields that
    were new, which is what is specified here. -/
def hashStep (m : Map Bytes) : HashCmd → Reply → Map Bytes → Prop
  | .hset f v, r, m' => r = .int (if m.has f then 0 else 1) ∧ m' = m.put f v
  | .hsetnx f v, r, m' => if m.has f then r = .int 0 ∧ m' = m else r = .int 1 ∧ m' = m.put f v
  | .hmset pairs, r, m' =>
      m' = pairs.foldl (fun m p => m.put p.1 p.2) m ∧
      ∃ d, Enumerates d (listed (pairs.map (·.1)) (fun x => !m.has x)) ∧ r = .int d.length
  | .hget f, r, m' => r = .bulk (m f) ∧ m' = m
  | .hmget fs, r, m' => r = .bulks (fs.map m) ∧ m' = m
  | .hgetall, r, m' => m' = m ∧ ∃ l, EnumeratesMap l m ∧ r = .pairs l
  | .hkeys, r, m' => m' = m ∧ ∃ l, Enumerates l m.dom ∧ r = .strs l
  | .hvals, r, m' => m' = m ∧ ∃ l, EnumeratesMap l m ∧ r = .bulks (l.map fun p => some p.2)
  | .hdel fs, r, m' => m' = m.delAll fs ∧ ∃ d, Enumerates d (listed fs m.has) ∧ r = .int d.length
  | .hlen, r, m' => m' = m ∧ ∃ n, HasCard m.dom n ∧ r = .int n
  | .hexists f, r, m' => r = .bool (m.has f) ∧ m' = m
  | .hstrlen f, r, m' => r = .int (match m f with | some v => v.length | none => 0) ∧ m' = m
  | .hincrby f d, r, m' =>
      match hincr (m f) d with
      | some v => r = .int v ∧ m' = m.put f (formatInt v)
      | none => r = .err ∧ m' = m

inductive HashRun : Map Bytes → List HashCmd → List Reply → Map Bytes → Prop
  | nil (m : Map Bytes) : HashRun m [] [] m
  | cons {m m1 m2 : Map Bytes} {c : HashCmd} {r : Reply} {cs : List HashCmd} {rs : List Reply} :
      hashStep m c r m1 → HashRun m1 cs rs m2 → HashRun m (c :: cs) (r :: rs) m2

/-- SPOP / SRANDMEMBER carry the count argument of the embedded API: for SPOP `0` encodes "no count
    given" (one member). A negative SPOP count is an error in Redis ("value is out of range, must be
    positive"). SADD / SREM need at least one member (arity). -/
inductive SetCmd
  | sadd (ms : List Bytes)
  | srem (ms : List Bytes)
  | sismember (m : Bytes)
  | scard
  | smembers
  | spop (count : Int)
  | srandmember (count : Int)

def setStep (s : BSet) : SetCmd → Reply → BSet → Prop
  | .sadd ms, r, s' =>
      s' = s.insertAll ms ∧ ∃ d, Enumerates d (listed ms (fun x => !s x)) ∧ r = .int d.length
  | .srem ms, r, s' =>
      s' = s.removeAll ms ∧ ∃ d, Enumerates d (listed ms s) ∧ r = .int d.length
  | .sismember m, r, s' => r = .bool (s m) ∧ s' = s
  | .scard, r, s' => s' = s ∧ ∃ n, HasCard s n ∧ r = .int n
  | .smembers, r, s' => s' = s ∧ ∃ l, Enumerates l s ∧ r = .strs l
  | .spop count, r, s' =>
      if count < 0 then r = .err ∧ s' = s else
      ∃ choice n, HasCard s n ∧ AdmissibleDistinct s n (if count = 0 then 1 else count.toNat) choice ∧
        r = .strs choice ∧ s' = s.removeAll choice
  | .srandmember count, r, s' =>
      s' = s ∧ ∃ choice n, HasCard s n ∧ r = .strs choice ∧
        (if 0 ≤ count then AdmissibleDistinct s n count.toNat choice
         else if n = 0 then choice = []
         else AdmissibleRepeated s (-count).toNat choice)

inductive SetRun : BSet → List SetCmd → List Reply → BSet → Prop
  | nil (s : BSet) : SetRun s [] [] s
  | cons {s s1 s2 : BSet} {c : SetCmd} {r : Reply} {cs : List SetCmd} {rs : List Reply} :
      setStep s c r s1 → SetRun s1 cs rs s2 → SetRun s (c :: cs) (r :: rs) s2

end NodisVerif.Spec
