import NodisVerif.Model.Api
/-
  C10 — expiry. Reference notions the property talks about (core-only).

  * `Store.live s now k`      the record a command issued at `now` may see under the name `k`
  * `Store.purge now s`       `s` with every expired record removed from the index, nothing else changed
  * `Store.vis now s k`       the *observable* part of the unexpired record of `k` (a `View.Rec`)
  * `Sim now s s'`            observational equivalence at instant `now`
  * `Spec.deadlineSec/Ms`     deadline arithmetic (int64, as Go computes it)
  * `Spec.pttl`, `Spec.ttlNs` what PTTL / TTL must report

  ## The choice of `Sim` (what is compared, what is not)

  `Sim now s s'` holds when
    (recs)  for every name `k`, `vis now s k = vis now s' k`: both states index a record for `k` that is
            not expired at `now` (ok or not: KEYS/SCAN/RANDOMKEY do not look at the ok bit) or neither
            does; and the two records agree on
              - `exp`     the deadline,
              - `value`   the in-memory value (`none` = cold),
              - `load`    for a cold record: what `storage.Get` would hand back for it (`loadValue`),
                          i.e. the value it has "on disk" together with the identity of that object,
              - `vtype`   the cached value type,
              - `ok`, `modified`  the two meaningful bits of `state`,
              - `kid`, `oid`      the identities of the key / value objects;
    (frame) the two states agree on `pebble`, `nextId`, `closed`, `failSet`, `feed`, `listeners`,
            `signalled`, `flushed`.
  NOT compared (bookkeeping or invisible):
    - records that are expired at `now` (present in one state, absent from the other, or different),
    - `count` (gc access counter), `stored` (under which deadline the value currently sits in the
      backend) and the bits of `state` above bit 2,
    - `held`, `hung` (locks of the running call: an expired record that is still indexed gets locked,
      an absent one does not),
    - the backend `disk` except through `load` of unexpired cold records (entries of dead records and
      stale entries are not compared).
  `stored` cannot be compared: a write that revives an expired record keeps the record's `stored`
  field (`newKeyWith … (some m)`), a write to an absent key starts with `stored = none`.
-/
namespace NodisVerif

namespace View
/-- observable part of one index record -/
structure Rec where
  exp      : Int
  value    : Option Val
  load     : Option (Val × Nat)
  vtype    : Nat
  ok       : Bool
  modified : Bool
  kid      : Nat
  oid      : Nat
deriving Repr, DecidableEq

/-- the non-index fields compared by `Sim` -/
structure Frame where
  pebble    : Bool
  nextId    : Nat
  closed    : Bool
  failSet   : Nat
  feed      : List FeedOp
  listeners : Bool
  signalled : List Bytes
  flushed   : Bool
end View

namespace Store

/-- the record of `k` that a command running at `now` can see: indexed, ok, not expired -/
def live (s : MState) (now : Int) (k : Bytes) : Option Meta :=
  (getMeta s k).filter fun m => m.isOk && !m.expired now

/-- `k` is live at `now` with record `m` and holds the value `v`: in memory, or cold and loadable from
    the backend ("visible with its full value") -/
def LiveWith (s : MState) (now : Int) (k : Bytes) (m : Meta) (v : Val) : Prop :=
  live s now k = some m ∧
  (m.value = some v ∨ (m.value = none ∧ ∃ oid, loadValue s k m = some (v, oid)))

/-- every expired record removed from the index; nothing else changes -/
def purge (now : Int) (s : MState) : MState :=
  { s with index := s.index.filter fun p => !p.2.expired now }

def recOf (s : MState) (k : Bytes) (m : Meta) : View.Rec :=
  { exp := m.exp, value := m.value,
    load := if m.value.isSome then none else loadValue s k m,
    vtype := m.vtype, ok := m.isOk, modified := (m.state / 2) % 2 = 1,
    kid := m.kid, oid := m.oid }

/-- observable view of the unexpired record of `k` -/
def vis (now : Int) (s : MState) (k : Bytes) : Option View.Rec :=
  ((getMeta s k).filter fun m => !m.expired now).map (recOf s k)

def frame (s : MState) : View.Frame :=
  { pebble := s.pebble, nextId := s.nextId, closed := s.closed, failSet := s.failSet, feed := s.feed,
    listeners := s.listeners, signalled := s.signalled, flushed := s.flushed }

end Store

/-- observational equivalence of two states for commands issued at `now` (see the file header) -/
structure Sim (now : Int) (s s' : MState) : Prop where
  recs  : ∀ k, Store.vis now s k = Store.vis now s' k
  frame : Store.frame s = Store.frame s'

namespace Spec

/-- deadline of EXPIRE / SETEX / SET EX issued at `now` (unix ms): int64 arithmetic as Go performs it -/
def deadlineSec (now seconds : Int) : Int := wrap64 (now + wrap64 (seconds * 1000))
/-- deadline of PEXPIRE / PSETEX / SET PX -/
def deadlineMs (now ms : Int) : Int := wrap64 (now + ms)

/-- the NX / XX / GT / LT options of EXPIRE, PEXPIRE, EXPIREAT, PEXPIREAT -/
inductive ExpFlag
  | always | nx | xx | gt | lt
deriving Repr, DecidableEq

/-- Redis: does `EXPIRE key … flag` change the deadline? `cur = none`: the key has no deadline, which
    GT and LT treat as an infinite one ("a non-volatile key is treated as an infinite TTL for the
    purpose of GT and LT"). -/
def expireApplies (flag : ExpFlag) (cur : Option Int) (new : Int) : Bool :=
  match flag, cur with
  | .always, _ => true
  | .nx, none => true
  | .nx, some _ => false
  | .xx, none => false
  | .xx, some _ => true
  | .gt, none => false
  | .gt, some c => c < new
  | .lt, none => true
  | .lt, some c => new < c

/-- the deadline of a record as Redis sees it -/
def deadlineOf (exp : Int) : Option Int := if exp = 0 then none else some exp

/-- PTTL for a key whose visible record has deadline `exp` (`none` = no visible record) -/
def pttl (now : Int) (exp : Option Int) : Int :=
  match exp with
  | none => -2
  | some e => if e = 0 then -1 else e - now

/-- TTL as the model reports it: the remaining time as a Go `time.Duration` (ns, saturating at
    int64 max) rounded to whole seconds, halves away from zero, saturating -/
def ttlNs (now : Int) (exp : Option Int) : Int :=
  match exp with
  | none => -2
  | some e =>
    if e = 0 then -1 else
    let d := if (e - now) * 1000000 > int64Max then int64Max else (e - now) * 1000000
    let q := (d + 500000000) / 1000000000 * 1000000000
    if q > int64Max then int64Max else q

end Spec
end NodisVerif
