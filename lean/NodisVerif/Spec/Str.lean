import NodisVerif.Basic
/-
  Reference semantics of the Redis string / counter / bitmap commands on a plain byte string
  (`Bytes = List UInt8`) and of the keyspace commands on a plain association list
  `Keyspace = List (Bytes × Bytes)`.  Written from the Redis command reference (GETRANGE, SETRANGE,
  APPEND, STRLEN, GETBIT, SETBIT, BITCOUNT, INCRBY/DECRBY, GET/SET/DEL/EXISTS/RENAME); nothing here
  looks at the implementation.

  Conventions: offsets are 0-based; a negative range bound `i` denotes position `n + i`
  (−1 = last byte); ranges are inclusive on both ends and are clamped to the string; bit offset 0
  is the most significant bit of byte 0; a missing key behaves as the empty string; strings that
  grow are padded with zero bytes.  An argument Redis rejects (negative offset, non-numeric value,
  int64 overflow) is `none`: the command reports an error and nothing changes.
-/
namespace NodisVerif.Spec.Str

/-! ### ranges (GETRANGE, BITCOUNT) -/

/-- The inclusive range `start..stop` on a string of `n` bytes as (first position, number of bytes).
    Negative bounds count from the end; after that `start` and `stop` are clamped to `0`, `stop` to
    `n-1`; the range is empty when the string is empty, when `start > stop`, and (Redis' explicit
    rule) when both bounds are negative and `start > stop` already before clamping. -/
def normRange (n : Nat) (start stop : Int) : Nat × Nat :=
  if start < 0 ∧ stop < 0 ∧ start > stop then (0, 0) else
  let st : Int := if start < 0 then (if (n : Int) + start < 0 then 0 else (n : Int) + start) else start
  let en : Int := if stop < 0 then (if (n : Int) + stop < 0 then 0 else (n : Int) + stop) else stop
  let en : Int := if en ≥ (n : Int) then (n : Int) - 1 else en
  if n = 0 ∨ st > en then (0, 0) else (st.toNat, (en - st + 1).toNat)

/-- `GETRANGE v start stop` (never an error; out-of-range gives the empty string) -/
def getrange (v : Bytes) (start stop : Int) : Bytes :=
  ((v.drop (normRange v.length start stop).1).take (normRange v.length start stop).2)

/-! ### SETRANGE / APPEND / STRLEN -/

/-- `SETRANGE v off data` for `off ≥ 0`: `data` overwrites positions `off ..`; a string that is too
    short is zero-padded first; writing nothing changes nothing. Reply = length of the result. -/
def setrange (v : Bytes) (off : Nat) (data : Bytes) : Bytes :=
  if data = [] then v else
  let padded := v ++ List.replicate (off + data.length - v.length) 0
  padded.take off ++ data ++ padded.drop (off + data.length)

/-- `SETRANGE` with an integer offset: a negative offset is an error -/
def setrange? (v : Bytes) (off : Int) (data : Bytes) : Option Bytes :=
  if off < 0 then none else some (setrange v off.toNat data)

def append (v data : Bytes) : Bytes := v ++ data
def strlen (v : Bytes) : Nat := v.length

/-! ### bits (GETBIT, SETBIT, BITCOUNT) -/

/-- bit `j` (0 = most significant) of one byte -/
def bitOf (b : UInt8) (j : Nat) : Bool := b.toNat.testBit (7 - j)

/-- the byte `b` with bit `j` (0 = most significant) forced to `x` -/
def withBit (b : UInt8) (j : Nat) (x : Bool) : UInt8 :=
  if x then UInt8.ofNat (b.toNat ||| 2 ^ (7 - j))
  else if b.toNat.testBit (7 - j) then UInt8.ofNat (b.toNat - 2 ^ (7 - j)) else b

/-- `GETBIT v off`: bit `off % 8` of byte `off / 8`; positions beyond the string read 0 -/
def getbit (v : Bytes) (off : Nat) : Bool := bitOf (v.getD (off / 8) 0) (off % 8)

/-- `SETBIT v off x`: the string grows (zero bytes) to `off / 8 + 1` bytes if it is shorter, then
    that one bit is written. Reply = the old bit (`getbit v off`). -/
def setbit (v : Bytes) (off : Nat) (x : Bool) : Bytes :=
  let padded := v ++ List.replicate (off / 8 + 1 - v.length) 0
  padded.set (off / 8) (withBit (padded.getD (off / 8) 0) (off % 8) x)

def setbit? (v : Bytes) (off : Int) (x : Bool) : Option (Bytes × Bool) :=
  if off < 0 then none else some (setbit v off.toNat x, getbit v off.toNat)

/-- number of 1 bits of one byte -/
def popcount (b : UInt8) : Nat := ((List.range 8).filter fun j => bitOf b j).length

/-- number of 1 bits of a byte string -/
def popcountBytes (v : Bytes) : Nat := (v.map popcount).sum

/-- `BITCOUNT v start stop` (byte range, inclusive, negative from the end, clamped) -/
def bitcount (v : Bytes) (start stop : Int) : Nat :=
  popcountBytes ((v.drop (normRange v.length start stop).1).take (normRange v.length start stop).2)

/-- `BITCOUNT v` without a range -/
def bitcountAll (v : Bytes) : Nat := popcountBytes v

/-! ### counters (INCR, DECR, INCRBY, DECRBY) -/

/-- `INCRBY v delta`: the value must be the decimal text of an int64 (a missing / empty value
    counts as 0) and the sum must stay inside int64; the new value is the canonical decimal text
    of the sum, which is also the reply.  `none` = error, nothing changes. -/
def incrby (v : Bytes) (delta : Int) : Option (Bytes × Int) :=
  match parseInt64 (if v = [] then [48] else v) with
  | none => none
  | some n => if inInt64 (n + delta) then some (formatInt (n + delta), n + delta) else none

def decrby (v : Bytes) (delta : Int) : Option (Bytes × Int) := incrby v (-delta)

/-! ### keyspace -/

/-- the visible keyspace: key ↦ byte string; the first pair of a key is the one that counts -/
abbrev Keyspace := List (Bytes × Bytes)

namespace Keyspace

def get (ks : Keyspace) (k : Bytes) : Option Bytes := (ks.find? fun p => p.1 = k).map (·.2)
def exists_ (ks : Keyspace) (k : Bytes) : Bool := (get ks k).isSome
def del (ks : Keyspace) (k : Bytes) : Keyspace := ks.filter fun p => p.1 ≠ k
def set (ks : Keyspace) (k v : Bytes) : Keyspace := (k, v) :: del ks k

/-- `DEL k₁ … kₙ`: reply = how many of the named keys existed (a key named twice counts once,
    the second time it is already gone) -/
def delMany : Keyspace → List Bytes → Keyspace × Nat
  | ks, [] => (ks, 0)
  | ks, k :: rest =>
    let r := delMany (del ks k) rest
    (r.1, (if exists_ ks k then 1 else 0) + r.2)

/-- `EXISTS k₁ … kₙ`: a key named twice counts twice -/
def existsMany (ks : Keyspace) (keys : List Bytes) : Nat := (keys.filter fun k => exists_ ks k).length

/-- `RENAME src dst`: `none` = "no such key"; otherwise `dst` holds what `src` held (an old value
    of `dst` is overwritten) and `src` is gone. `RENAME k k` on an existing key changes nothing. -/
def rename (ks : Keyspace) (src dst : Bytes) : Option Keyspace :=
  match get ks src with
  | none => none
  | some v => if src = dst then some ks else some (set (del ks src) dst v)

/-- `RENAMENX src dst`: as `RENAME`, but nothing happens (reply 0 = `false`) when `dst` exists -/
def renamenx (ks : Keyspace) (src dst : Bytes) : Option (Keyspace × Bool) :=
  match get ks src with
  | none => none
  | some v => if exists_ ks dst then some (ks, false) else some (set (del ks src) dst v, true)

def keys (ks : Keyspace) : List Bytes := (ks.map (·.1)).eraseDups
def dbsize (ks : Keyspace) : Nat := (keys ks).length

/-- `MSET k₁ v₁ … kₙ vₙ`: the assignments in order (a later pair for the same key wins) -/
def setMany : Keyspace → List (Bytes × Bytes) → Keyspace
  | ks, [] => ks
  | ks, (k, v) :: rest => setMany (set ks k v) rest

end Keyspace

/-! ### one client's command stream -/

/-- the string / keyspace commands of the sequential reference machine -/
inductive Cmd
  | set (k v : Bytes)
  | get (k : Bytes)
  | getset (k v : Bytes)
  | setnx (k v : Bytes)
  | mset (kvs : List (Bytes × Bytes))
  | append (k d : Bytes)
  | strlen (k : Bytes)
  | setrange (k : Bytes) (off : Int) (d : Bytes)
  | getbit (k : Bytes) (off : Int)
  | setbit (k : Bytes) (off : Int) (x : Bool)
  | incrby (k : Bytes) (d : Int)
  | decrby (k : Bytes) (d : Int)
  | del (ks : List Bytes)
  | exists_ (ks : List Bytes)

inductive Reply
  | ok
  | nil
  | bulk (b : Bytes)
  | int (n : Int)
  | err
deriving DecidableEq, Repr

/-- one step of the reference machine: Redis semantics over the abstract map -/
def step (ks : Keyspace) : Cmd → Keyspace × Reply
  | .set k v => (ks.set k v, .ok)
  | .get k => (ks, match ks.get k with | some b => .bulk b | none => .nil)
  | .getset k v => (ks.set k v, match ks.get k with | some b => .bulk b | none => .nil)
  | .setnx k v => if ks.exists_ k then (ks, .int 0) else (ks.set k v, .int 1)
  | .mset kvs => (ks.setMany kvs, .ok)
  | .append k d => (ks.set k (append ((ks.get k).getD []) d), .int (append ((ks.get k).getD []) d).length)
  | .strlen k => (ks, .int (strlen ((ks.get k).getD [])))
  | .setrange k off d =>
    match setrange? ((ks.get k).getD []) off d with
    | none => (ks, .err)
    | some v => if d = [] then (ks, .int v.length) else (ks.set k v, .int v.length)
  | .getbit k off => if off < 0 then (ks, .err) else (ks, .int (if getbit ((ks.get k).getD []) off.toNat then 1 else 0))
  | .setbit k off x =>
    match setbit? ((ks.get k).getD []) off x with
    | none => (ks, .err)
    | some (v, old) => (ks.set k v, .int (if old then 1 else 0))
  | .incrby k d =>
    match incrby ((ks.get k).getD []) d with
    | none => (ks, .err)
    | some (t, n) => (ks.set k t, .int n)
  | .decrby k d =>
    match decrby ((ks.get k).getD []) d with
    | none => (ks, .err)
    | some (t, n) => (ks.set k t, .int n)
  | .del keys => ((ks.delMany keys).1, .int (ks.delMany keys).2)
  | .exists_ keys => (ks, .int (ks.existsMany keys))

/-- a whole command stream: final keyspace and the replies in order -/
def run : Keyspace → List Cmd → Keyspace × List Reply
  | ks, [] => (ks, [])
  | ks, c :: rest => ((run (step ks c).1 rest).1, (step ks c).2 :: (run (step ks c).1 rest).2)

end NodisVerif.Spec.Str
