import NodisVerif.Translated.Snapshot
import NodisVerif.Model.Resp
import NodisVerif.Proofs.GoLibLemmas
/-
  internal/strings.ToUpper as translated (snapshot): on ASCII input it is the bytewise map of a–z to A–Z.
  (On other input it is NOT a case mapping at all: it writes the low byte of each rune at the rune's offset and
  leaves zeros behind it; see the examples in translated/strings.lean.)
-/
namespace NodisVerif.SnapStrings
open NodisVerif NodisVerif.GoLib

def upByte (c : UInt8) : UInt8 := if 97 ≤ c ∧ c ≤ 122 then c - 32 else c

def isAscii (v : Bytes) : Prop := ∀ c ∈ v, c < 128

theorem decodeRune_ascii (c : UInt8) (rest : Bytes) (h : c < 128) : decodeRune (c :: rest) = (c.toNat, 1) := by
  have : c.toNat < 128 := h
  simp [decodeRune, this]

/-- over ASCII bytes Go's `range` yields every byte with its index -/
theorem runesAux_ascii : ∀ (suf : Bytes) (off fuel : Nat), isAscii suf → suf.length ≤ fuel →
    runesAux suf off fuel = (suf.zipIdx off).map (fun (c, i) => ((i : Int), (c.toNat : Int)))
  | [], off, fuel, _, _ => by cases fuel <;> simp [runesAux]
  | c :: rest, off, 0, _, h => by simp at h
  | c :: rest, off, fuel + 1, ha, h => by
    have hc : c < 128 := ha c (by simp)
    have hr : isAscii rest := fun x hx => ha x (by simp [hx])
    simp only [runesAux, decodeRune_ascii c rest hc, List.drop_succ_cons, List.drop_zero, List.zipIdx_cons, List.map_cons]
    rw [runesAux_ascii rest (off + 1) fuel hr (by simp at h; omega)]

/-- the body of ToUpper's loop, as the translator emits it -/
def step (x : Int × Int) (s : Bytes) : M (ForInStep Bytes) :=
  if (decide (97 ≤ x.snd) && decide (x.snd ≤ 122)) = true then do
    let r ← setIdx s x.fst (wrap IT.u8 (wrap IT.i32 (x.snd - 32)))
    pure (ForInStep.yield r)
  else do
    let r ← setIdx s x.fst (wrap IT.u8 x.snd)
    pure (ForInStep.yield r)

theorem up_fact : ∀ n : Fin 256, upByte (UInt8.ofNat n.val) =
    byteOf (if (decide ((97 : Int) ≤ (n.val : Int)) && decide ((n.val : Int) ≤ 122)) = true
      then wrap IT.u8 (wrap IT.i32 ((n.val : Int) - 32)) else wrap IT.u8 (n.val : Int)) := by
  decide +kernel

theorem step_ascii (done rest : Bytes) (c z : UInt8) :
    step ((done.length : Int), (c.toNat : Int)) (done ++ z :: rest) = .ok (ForInStep.yield (done ++ upByte c :: rest)) := by
  have hb : (0 : Int) ≤ (done.length : Int) ∧ (done.length : Int) < ((done ++ z :: rest).length : Int) := by
    simp only [List.length_append, List.length_cons]; omega
  have hset : ∀ x : Int, setIdx (done ++ z :: rest) (done.length : Int) x = .ok (done ++ byteOf x :: rest) := by
    intro x; simp only [setIdx, hb, and_self, if_true, pure, Except.pure]; simp
  have hu := up_fact ⟨c.toNat, c.toNat_lt⟩
  simp only [UInt8.ofNat_toNat] at hu
  unfold step
  rw [hu]
  split <;> simp only [hset, bind, Except.bind, pure, Except.pure]

/-- the loop of ToUpper over the (index, byte) pairs of an ASCII suffix fills the zeroed rest of the buffer -/
theorem loop_ascii : ∀ (suf done : Bytes),
    forIn (m := M) ((suf.zipIdx done.length).map (fun (c, i) => ((i : Int), (c.toNat : Int))))
      (done ++ List.replicate suf.length 0) step = .ok (done ++ suf.map upByte)
  | [], done => by simp [pure, Except.pure]
  | c :: rest, done => by
    simp only [List.zipIdx_cons, List.map_cons, List.forIn_cons, List.length_cons, List.replicate_succ]
    rw [step_ascii]
    have := loop_ascii rest (done ++ [upByte c])
    simp only [List.length_append, List.length_singleton, List.append_assoc, List.singleton_append] at this
    simp only [bind, Except.bind]
    exact this

/-- `ToUpper` on ASCII input: bytewise a–z ↦ A–Z, never panics -/
theorem ToUpper_ascii (v : Bytes) (h : isAscii v) : Snap.strings.ToUpper v = .ok (v.map upByte) := by
  have hr : runes v = (v.zipIdx 0).map (fun (c, i) => ((i : Int), (c.toNat : Int))) :=
    runesAux_ascii v 0 v.length h (Nat.le_refl _)
  have hm : makeBytes (len v) = .ok (List.replicate v.length 0) := by
    have : ¬ ((v.length : Int) < 0) := by omega
    simp [makeBytes, len_eq, pure, Except.pure, this]
  have hl := loop_ascii v []
  simp only [List.length_nil, List.nil_append] at hl
  have key : Snap.strings.ToUpper v =
      (makeBytes (len v) >>= fun b => (forIn (runes v) b step >>= fun s => pure s)) := rfl
  rw [key, hm, hr]
  simp only [bind, Except.bind, hl]
  rfl

theorem upByte_ascii (c : UInt8) (h : c < 128) : upByte c < 128 := by
  have : ∀ n : Fin 256, n.val < 128 → (upByte (UInt8.ofNat n.val)).toNat < 128 := by decide +kernel
  have := this ⟨c.toNat, c.toNat_lt⟩ h
  simp only [UInt8.ofNat_toNat] at this
  exact this

theorem upByte_idem (c : UInt8) : upByte (upByte c) = upByte c := by
  have : ∀ n : Fin 256, upByte (upByte (UInt8.ofNat n.val)) = upByte (UInt8.ofNat n.val) := by decide +kernel
  have := this ⟨c.toNat, c.toNat_lt⟩
  simpa using this

theorem upByte_only_lower (c : UInt8) (h : ¬ (97 ≤ c ∧ c ≤ 122)) : upByte c = c := by simp [upByte, h]

/-! ### the general statement: ToUpper = the model's `Resp.upper` -/

theorem decodeRune_eq_model : GoLib.decodeRune = Resp.decodeRune := by
  funext b
  unfold GoLib.decodeRune Resp.decodeRune
  rfl

theorem decodeRune_width (b0 : UInt8) (rest : Bytes) :
    1 ≤ (decodeRune (b0 :: rest)).2 ∧ (decodeRune (b0 :: rest)).2 ≤ (b0 :: rest).length := by
  unfold decodeRune
  simp only []
  repeat' split
  all_goals (simp only [List.length_cons]; omega)


/-- the byte ToUpper writes for rune r (as in the model: `(if 97 ≤ r ≤ 122 then r - 32 else r) % 256`) -/
def upRune (r : Nat) : UInt8 := UInt8.ofNat ((if 97 ≤ r ∧ r ≤ 122 then r - 32 else r) % 256)

theorem step_general (done rest : Bytes) (z : UInt8) (r : Nat) :
    step ((done.length : Int), (r : Int)) (done ++ z :: rest) = .ok (ForInStep.yield (done ++ upRune r :: rest)) := by
  have hb : (0 : Int) ≤ (done.length : Int) ∧ (done.length : Int) < ((done ++ z :: rest).length : Int) := by
    simp only [List.length_append, List.length_cons]; omega
  have hset : ∀ x : Int, setIdx (done ++ z :: rest) (done.length : Int) x = .ok (done ++ byteOf x :: rest) := by
    intro x; simp only [setIdx, hb, and_self, if_true, pure, Except.pure]; simp
  unfold step
  by_cases hr : 97 ≤ r ∧ r ≤ 122
  · have h1 : (decide ((97 : Int) ≤ (r : Int)) && decide ((r : Int) ≤ 122)) = true := by simp; omega
    have hu : byteOf (wrap IT.u8 (wrap IT.i32 ((r : Int) - 32))) = upRune r := by
      simp only [byteOf, upRune, hr, and_self, if_true, wrap_u8, wrap_i32]
      congr 1
      split <;> omega
    simp only [h1, if_true, hset, bind, Except.bind, pure, Except.pure, hu]
  · have h1 : ¬ ((decide ((97 : Int) ≤ (r : Int)) && decide ((r : Int) ≤ 122)) = true) := by simp; omega
    have hu : byteOf (wrap IT.u8 (r : Int)) = upRune r := by
      simp only [byteOf, upRune, hr, if_false, wrap_u8]
      congr 1
      omega
    simp only [h1, hset, bind, Except.bind, pure, Except.pure, hu]
    simp

theorem loop_general : ∀ (fuel : Nat) (b done : Bytes), b.length ≤ fuel →
    forIn (m := M) (runesAux b done.length fuel) (done ++ List.replicate b.length 0) step
      = .ok (done ++ Resp.upperAux b fuel)
  | 0, b, done, h => by
    have : b = [] := List.length_eq_zero_iff.mp (by omega)
    subst this
    cases done <;> simp [runesAux, Resp.upperAux, pure, Except.pure]
  | fuel + 1, [], done, _ => by simp [runesAux, Resp.upperAux, pure, Except.pure]
  | fuel + 1, b0 :: rest, done, h => by
    have hw := decodeRune_width b0 rest
    rcases hd : decodeRune (b0 :: rest) with ⟨r, w⟩
    rw [hd] at hw
    simp only [List.length_cons] at hw h
    have hm : Resp.decodeRune (b0 :: rest) = (r, w) := by rw [← decodeRune_eq_model]; exact hd
    have hrest : rest.length = (w - 1) + ((b0 :: rest).drop w).length := by
      simp only [List.length_drop, List.length_cons]; omega
    simp only [runesAux, hd, Resp.upperAux, hm, List.forIn_cons, List.length_cons, List.replicate_succ]
    rw [step_general]
    simp only [bind, Except.bind]
    have ih := loop_general fuel ((b0 :: rest).drop w) (done ++ upRune r :: List.replicate (w - 1) 0)
      (by simp only [List.length_drop, List.length_cons]; omega)
    have hlen : (done ++ upRune r :: List.replicate (w - 1) 0).length = done.length + w := by
      simp only [List.length_append, List.length_cons, List.length_replicate]; omega
    rw [hlen] at ih
    have hbuf : done ++ upRune r :: List.replicate rest.length 0 =
        (done ++ upRune r :: List.replicate (w - 1) 0) ++ List.replicate ((b0 :: rest).drop w).length 0 := by
      rw [hrest, List.replicate_append_replicate.symm]; simp
    rw [hbuf, ih]
    simp [upRune]

/-- with enough fuel the model's `upperAux` yields exactly one byte per input byte, and more fuel changes nothing -/
theorem upperAux_fuel : ∀ (fuel : Nat) (b : Bytes), b.length ≤ fuel →
    Resp.upperAux b (fuel + 1) = Resp.upperAux b fuel ∧ (Resp.upperAux b fuel).length = b.length
  | 0, b, h => by
    have : b = [] := List.length_eq_zero_iff.mp (by omega)
    subst this; simp [Resp.upperAux]
  | fuel + 1, [], _ => by simp [Resp.upperAux]
  | fuel + 1, b0 :: rest, h => by
    have hw := decodeRune_width b0 rest
    rcases hd : decodeRune (b0 :: rest) with ⟨r, w⟩
    rw [hd] at hw
    simp only [List.length_cons] at hw h
    have hm : Resp.decodeRune (b0 :: rest) = (r, w) := by rw [← decodeRune_eq_model]; exact hd
    have ih := upperAux_fuel fuel ((b0 :: rest).drop w) (by simp only [List.length_drop, List.length_cons]; omega)
    constructor
    · simp only [Resp.upperAux, hm]
      rw [ih.1]
    · simp only [Resp.upperAux, hm, List.length_cons, List.length_append, List.length_replicate, ih.2, List.length_drop]
      omega

/-- **`ToUpper` (as translated) is the model's `Resp.upper`, for every input, and never panics** -/
theorem ToUpper_eq_model (v : Bytes) : Snap.strings.ToUpper v = .ok (Resp.upper v) := by
  have hm : makeBytes (len v) = .ok (List.replicate v.length 0) := by
    have : ¬ ((v.length : Int) < 0) := by omega
    simp [makeBytes, len_eq, pure, Except.pure, this]
  have hl := loop_general v.length v [] (Nat.le_refl _)
  simp only [List.length_nil, List.nil_append] at hl
  have hf := upperAux_fuel v.length v (Nat.le_refl _)
  have key : Snap.strings.ToUpper v =
      (makeBytes (len v) >>= fun b => (forIn (runes v) b step >>= fun s => pure s)) := rfl
  rw [key, hm]
  simp only [runes, bind, Except.bind, hl]
  simp only [Resp.upper, hf.1, pure, Except.pure]
  rw [List.take_of_length_le (by omega)]

end NodisVerif.SnapStrings
