import NodisVerif.Model.Codec
import NodisVerif.Model.WF
import NodisVerif.Proofs.VarintLemmas
import NodisVerif.Proofs.AListLemmas
/-
  Slicing and one-step decoding lemmas shared by the four collection codecs.
-/
namespace NodisVerif.Proofs.CodecLemmas
open Varint Codec AListLemmas

theorem slice?_mid (a b c : Bytes) :
    slice? (a ++ b ++ c) (a.length : Int) ((a.length : Int) + (b.length : Int)) = some b := by
  unfold slice?
  have hc : (0 : Int) ≤ (a.length : Int) ∧ (a.length : Int) ≤ (a.length : Int) + (b.length : Int) ∧
      (a.length : Int) + (b.length : Int) ≤ ((a ++ b ++ c).length : Int) := by
    simp only [List.length_append]
    omega
  rw [if_pos hc]
  have h1 : ((a.length : Int)).toNat = a.length := Int.toNat_natCast _
  have h2 : ((a.length : Int) + (b.length : Int) - (a.length : Int)).toNat = b.length := by omega
  rw [h1, h2, List.append_assoc, List.drop_left, List.take_left]

theorem slice?_zero (b c : Bytes) :
    slice? (b ++ c) 0 (b.length : Int) = some b := by
  have := slice?_mid [] b c
  simpa using this

theorem from?_append (a b : Bytes) : from? (a ++ b) (a.length : Int) = some b := by
  unfold from?
  have := slice?_mid a b []
  simpa using this

theorem inInt64_len (n : Nat) (h : n < 2 ^ 63) : inInt64 (n : Int) = true := by
  unfold inInt64 int64Min int64Max
  apply decide_eq_true
  omega

/-- the generic "length-prefixed chunk" facts -/
theorem varint_lenPrefixed (v rest : Bytes) (h : v.length < 2 ^ 63) :
    varint (lenPrefixed v ++ rest)
      = ((v.length : Int), ((putVarint (v.length : Int)).length : Int)) := by
  unfold lenPrefixed
  rw [List.append_assoc]
  exact VarintLemmas.varint_putVarint _ (inInt64_len _ h) _

theorem lenPrefixed_length (v : Bytes) :
    (lenPrefixed v).length = (putVarint (v.length : Int)).length + v.length := by
  simp [lenPrefixed]

theorem lenPrefixed_ne_nil (v rest : Bytes) : lenPrefixed v ++ rest ≠ [] := by
  have := VarintLemmas.putVarint_length_pos (v.length : Int)
  intro h
  have h2 := congrArg List.length h
  simp only [lenPrefixed, List.length_append, List.length_nil] at h2
  omega

theorem from?_lenPrefixed (v rest : Bytes) :
    from? (lenPrefixed v ++ rest)
      (((putVarint (v.length : Int)).length : Int) + (v.length : Int)) = some rest := by
  have := from?_append (lenPrefixed v) rest
  rw [lenPrefixed_length] at this
  simpa using this

theorem slice?_lenPrefixed (v rest : Bytes) :
    slice? (lenPrefixed v ++ rest) ((putVarint (v.length : Int)).length : Int)
      (((putVarint (v.length : Int)).length : Int) + (v.length : Int)) = some v := by
  unfold lenPrefixed
  exact slice?_mid _ _ _

/-! ### lists -/

theorem rpush_eq (data : List Bytes) : ∀ (l : LList),
    DsList.rpush l data = { items := l.items ++ data, length := l.length + data.length } := by
  induction data with
  | nil => intro l; simp [DsList.rpush]
  | cons d ds ih =>
    intro l
    have : DsList.rpush l (d :: ds)
        = DsList.rpush { items := l.items ++ [d], length := l.length + 1 } ds := rfl
    rw [this, ih]
    simp only [List.append_assoc, List.cons_append, List.nil_append, List.length_cons,
      LList.mk.injEq, true_and]
    push_cast
    omega

theorem forEach_all (l : LList) : DsList.forEach l 0 (-1) = l.items := by
  unfold DsList.forEach DsList.size
  have hc : ¬ ((if (0 : Int) < 0 then (if (0 : Int) + (l.items.length : Int) < 0 then 0 else 0 + (l.items.length : Int)) else 0)
      > (if (-1 : Int) < 0 then (-1 : Int) + (l.items.length : Int) else -1)) ∨ l.items = [] := by
    cases hl : l.items with
    | nil => right; rfl
    | cons a t => left; simp only [List.length_cons]; omega
  rcases hc with hc | hc
  · simp only [hc, if_false]
    have hf : (l.items.zipIdx.filter fun (p : Bytes × Nat) =>
        decide ((if (0 : Int) < 0 then (if (0 : Int) + (l.items.length : Int) < 0 then 0 else 0 + (l.items.length : Int)) else 0) ≤ (p.2 : Int) ∧
          (p.2 : Int) ≤ (if (-1 : Int) < 0 then (-1 : Int) + (l.items.length : Int) else -1)))
        = l.items.zipIdx := by
      rw [List.filter_eq_self]
      rintro ⟨x, i⟩ hm
      have := List.mem_zipIdx hm
      simp only [decide_eq_true_eq]
      omega
    rw [hf, List.zipIdx_map_fst]
  · simp [hc]

theorem decodeList_step (v rest : Bytes) (l : LList) (fuel : Nat) (h : v.length < 2 ^ 63) :
    decodeList (lenPrefixed v ++ rest) l (fuel + 1)
      = decodeList rest (DsList.rpush l [v]) fuel := by
  rw [decodeList.eq_3 _ _ _ (lenPrefixed_ne_nil v rest), varint_lenPrefixed v rest h]
  have hp := VarintLemmas.putVarint_length_pos (v.length : Int)
  have hne : ¬ (((putVarint (v.length : Int)).length : Int) = 0) := by omega
  simp only [hne, if_false, slice?_lenPrefixed, from?_lenPrefixed]

theorem decodeList_flatMap (items : List Bytes) :
    ∀ (l : LList) (fuel : Nat), (∀ v ∈ items, v.length < 2 ^ 63) →
      (items.flatMap lenPrefixed).length < fuel →
      decodeList (items.flatMap lenPrefixed) l fuel = some (DsList.rpush l items) := by
  induction items with
  | nil =>
    intro l fuel _ hf
    simp only [List.flatMap_nil, List.length_nil] at hf ⊢
    rw [decodeList.eq_2 _ _ (by omega)]
    rfl
  | cons v vs ih =>
    intro l fuel hlen hf
    obtain ⟨fuel, rfl⟩ : ∃ f, fuel = f + 1 := ⟨fuel - 1, by omega⟩
    simp only [List.flatMap_cons, List.length_append] at hf ⊢
    have hv : v.length < 2 ^ 63 := hlen v (by simp)
    rw [decodeList_step v _ l fuel hv]
    have hp := VarintLemmas.putVarint_length_pos (v.length : Int)
    rw [lenPrefixed_length] at hf
    rw [ih _ fuel (fun w hw => hlen w (by simp [hw])) (by omega)]
    rfl

/-! ### sets -/

theorem from?_lenPrefixed_head (v rest : Bytes) :
    from? (lenPrefixed v ++ rest) ((putVarint (v.length : Int)).length : Int) = some (v ++ rest) := by
  unfold lenPrefixed
  rw [List.append_assoc]
  exact from?_append _ _

theorem decodeSet_step (m rest : Bytes) (s : AList Unit) (fuel : Nat) (h : m.length < 2 ^ 63) :
    decodeSet (lenPrefixed m ++ rest) s (fuel + 1)
      = decodeSet rest (AList.set s m ()) fuel := by
  rw [decodeSet.eq_3 _ _ _ (lenPrefixed_ne_nil m rest), varint_lenPrefixed m rest h]
  have hp := VarintLemmas.putVarint_length_pos (m.length : Int)
  have hne : ¬ ((((putVarint (m.length : Int)).length : Int) ≤ 0) ∧ ((m.length : Int) ≤ 0)) := by
    omega
  simp only [from?_lenPrefixed_head, slice?_zero, from?_append, hne, if_false]

theorem encodeSet_cons (k : Bytes) (u : Unit) (ms : AList Unit) :
    encodeSet ((k, u) :: ms) = lenPrefixed k ++ encodeSet ms := rfl

theorem decodeSet_all (ms : AList Unit) :
    ∀ (acc : AList Unit) (fuel : Nat), (∀ p ∈ ms, p.1.length < 2 ^ 63) →
      (acc ++ ms).Pairwise KeyLt → (encodeSet ms).length < fuel →
      decodeSet (encodeSet ms) acc fuel = some (acc ++ ms) := by
  induction ms with
  | nil =>
    intro acc fuel _ _ hf
    have : encodeSet [] = [] := rfl
    rw [this] at hf ⊢
    rw [decodeSet.eq_2 _ _ (by simp at hf; omega)]
    simp
  | cons p ms ih =>
    intro acc fuel hlen hpw hf
    obtain ⟨k, u⟩ := p
    obtain ⟨fuel, rfl⟩ : ∃ f, fuel = f + 1 := ⟨fuel - 1, by omega⟩
    rw [encodeSet_cons] at hf ⊢
    have hk : k.length < 2 ^ 63 := hlen (k, u) (by simp)
    rw [decodeSet_step k _ acc fuel hk]
    have hacc : ∀ q ∈ acc, Bytes.lt q.1 k = true := by
      intro q hq
      exact (List.pairwise_append.mp hpw).2.2 q hq (k, u) (by simp)
    rw [set_append k () acc hacc]
    have hp := VarintLemmas.putVarint_length_pos (k.length : Int)
    rw [List.length_append, lenPrefixed_length] at hf
    rw [ih (acc ++ [(k, ())]) fuel (fun w hw => hlen w (by simp [hw]))
      (by simpa [List.append_assoc] using hpw) (by omega)]
    simp [List.append_assoc]

/-! ### hashes -/

theorem decodeHash_step (k v rest : Bytes) (h : AList Bytes) (fuel : Nat)
    (hk : k.length < 2 ^ 63) (hkv : (lenPrefixed k ++ v).length < 2 ^ 63) :
    decodeHash (lenPrefixed (lenPrefixed k ++ v) ++ rest) h (fuel + 1)
      = decodeHash rest (AList.set h k v) fuel := by
  rw [decodeHash.eq_3 _ _ _ (lenPrefixed_ne_nil _ rest), varint_lenPrefixed _ rest hkv]
  have hp := VarintLemmas.putVarint_length_pos ((lenPrefixed k ++ v).length : Int)
  have hne : ¬ (((putVarint ((lenPrefixed k ++ v).length : Int)).length : Int) ≤ 0) := by omega
  simp only [hne, if_false, slice?_lenPrefixed, from?_lenPrefixed, varint_lenPrefixed k v hk,
    from?_lenPrefixed_head, slice?_zero, from?_append, DsHash.hset]

theorem encodeHash_cons (k v : Bytes) (ms : AList Bytes) :
    encodeHash ((k, v) :: ms) = lenPrefixed (lenPrefixed k ++ v) ++ encodeHash ms := rfl

theorem decodeHash_all (ms : AList Bytes) :
    ∀ (acc : AList Bytes) (fuel : Nat),
      (∀ p ∈ ms, p.1.length < 2 ^ 63 ∧ (lenPrefixed p.1 ++ p.2).length < 2 ^ 63) →
      (acc ++ ms).Pairwise KeyLt → (encodeHash ms).length < fuel →
      decodeHash (encodeHash ms) acc fuel = some (acc ++ ms) := by
  induction ms with
  | nil =>
    intro acc fuel _ _ hf
    have : encodeHash [] = [] := rfl
    rw [this] at hf ⊢
    rw [decodeHash.eq_2 _ _ (by simp at hf; omega)]
    simp
  | cons p ms ih =>
    intro acc fuel hlen hpw hf
    obtain ⟨k, v⟩ := p
    obtain ⟨fuel, rfl⟩ : ∃ f, fuel = f + 1 := ⟨fuel - 1, by omega⟩
    rw [encodeHash_cons] at hf ⊢
    obtain ⟨hk, hkv⟩ := hlen (k, v) (by simp)
    rw [decodeHash_step k v _ acc fuel hk hkv]
    have hacc : ∀ q ∈ acc, Bytes.lt q.1 k = true := by
      intro q hq
      exact (List.pairwise_append.mp hpw).2.2 q hq (k, v) (by simp)
    rw [set_append k v acc hacc]
    have hp := VarintLemmas.putVarint_length_pos ((lenPrefixed k ++ v).length : Int)
    rw [List.length_append, lenPrefixed_length] at hf
    rw [ih (acc ++ [(k, v)]) fuel (fun w hw => hlen w (by simp [hw]))
      (by simpa [List.append_assoc] using hpw) (by omega)]
    simp [List.append_assoc]

/-! ### sorted sets (codec part) -/

theorem range8 : List.range 8 = [0, 1, 2, 3, 4, 5, 6, 7] := by decide

theorem u64le_length (x : UInt64) : (u64le x).length = 8 := by
  simp [u64le]

theorem leU64_u64le (x : UInt64) (m : Bytes) : leU64 (u64le x ++ m) = x := by
  unfold leU64
  have ht : (u64le x ++ m).take 8 = u64le x := by
    have := u64le_length x
    rw [← this, List.take_left]
  rw [ht]
  have hx : x.toNat < 18446744073709551616 := x.toNat_lt
  unfold u64le
  rw [range8]
  simp only [List.map_cons, List.map_nil, List.zipIdx_cons, List.zipIdx_nil, List.foldl_cons,
    List.foldl_nil, UInt8.toNat_ofNat', Nat.shiftRight_eq_div_pow]
  simp only [Nat.reduceMul, Nat.reduceAdd, Nat.reducePow]
  simp only [Nat.shiftLeft_eq]
  simp only [Nat.reducePow]
  have e : UInt64.ofNat x.toNat = x := UInt64.ofNat_toNat
  generalize x.toNat = n at hx e
  rw [← e]
  congr 1
  omega

theorem decodeZSet_step (m rest : Bytes) (sc : F64) (z : ZSet) (fuel : Nat)
    (hm : (u64le sc ++ m).length < 2 ^ 63) :
    decodeZSet (lenPrefixed (u64le sc ++ m) ++ rest) z (fuel + 1)
      = decodeZSet rest (DsZSet.zAdd z m sc).1 fuel := by
  rw [decodeZSet.eq_3 _ _ _ (lenPrefixed_ne_nil _ rest), varint_lenPrefixed _ rest hm]
  have hp := VarintLemmas.putVarint_length_pos ((u64le sc ++ m).length : Int)
  have hne : ¬ (((putVarint ((u64le sc ++ m).length : Int)).length : Int) ≤ 0) := by omega
  have h8 : ¬ ((u64le sc ++ m).length < 8) := by
    rw [List.length_append, u64le_length]; omega
  have hd : (u64le sc ++ m).drop 8 = m := by
    have := u64le_length sc
    rw [← this, List.drop_left]
  simp only [hne, if_false, slice?_lenPrefixed, from?_lenPrefixed, h8, hd, leU64_u64le]

theorem encodeZSet_cons (m : Bytes) (sc : F64) (ms : AList F64) :
    encodeZSet ⟨(m, sc) :: ms, sl⟩ = lenPrefixed (u64le sc ++ m) ++ encodeZSet ⟨ms, sl'⟩ := rfl

/-- the chain the decoder builds: insert every dictionary entry, in member order -/
def insAll (sl : List DsZSet.Item) (ms : AList F64) : List DsZSet.Item :=
  ms.foldl (fun sl p => DsZSet.slInsert sl p.1 p.2) sl

theorem decodeZSet_all (ms : AList F64) :
    ∀ (acc : AList F64) (sl : List DsZSet.Item) (fuel : Nat),
      (∀ p ∈ ms, (u64le p.2 ++ p.1).length < 2 ^ 63) →
      (acc ++ ms).Pairwise KeyLt → (encodeZSet ⟨ms, []⟩).length < fuel →
      decodeZSet (encodeZSet ⟨ms, []⟩) ⟨acc, sl⟩ fuel = some ⟨acc ++ ms, insAll sl ms⟩ := by
  induction ms with
  | nil =>
    intro acc sl fuel _ _ hf
    have : encodeZSet ⟨[], []⟩ = [] := rfl
    rw [this] at hf ⊢
    rw [decodeZSet.eq_2 _ _ (by simp at hf; omega)]
    simp [insAll]
  | cons p ms ih =>
    intro acc sl fuel hlen hpw hf
    obtain ⟨k, sc⟩ := p
    obtain ⟨fuel, rfl⟩ : ∃ f, fuel = f + 1 := ⟨fuel - 1, by omega⟩
    rw [encodeZSet_cons (sl' := [])] at hf ⊢
    have hk := hlen (k, sc) (by simp)
    rw [decodeZSet_step k _ sc _ fuel hk]
    have hacc : ∀ q ∈ acc, Bytes.lt q.1 k = true := by
      intro q hq
      exact (List.pairwise_append.mp hpw).2.2 q hq (k, sc) (by simp)
    have hz : (DsZSet.zAdd ⟨acc, sl⟩ k sc).1 = ⟨acc ++ [(k, sc)], DsZSet.slInsert sl k sc⟩ := by
      simp only [DsZSet.zAdd, get?_none k acc hacc, set_append k sc acc hacc]
    rw [hz]
    have hp := VarintLemmas.putVarint_length_pos ((u64le sc ++ k).length : Int)
    rw [List.length_append, lenPrefixed_length] at hf
    rw [ih (acc ++ [(k, sc)]) _ fuel (fun w hw => hlen w (by simp [hw]))
      (by simpa [List.append_assoc] using hpw) (by omega)]
    simp [List.append_assoc, insAll]

end NodisVerif.Proofs.CodecLemmas
