import NodisVerif.Proofs.RespWriterStep
/-
  Sequences of calls: the implementation's `run` refines the abstract writer's `AW.run`; facts about the
  abstract writer (content = everything written, Flush empties, pending never exceeds what was written);
  the growth bound along a run; the token calls.
-/
namespace NodisVerif.Proofs.RespWriter
open NodisVerif.RespWriter NodisVerif.Spec.RespWriterSpec

/-! ### run refines AW.run -/

theorem run_refines (cs : List Call) : ∀ (s : Writer), WriterInv s →
    match AW.run (abs s) cs with
    | none => run s cs = .outside
    | some a' => ∃ s', run s cs = .ok s' ∧ abs s' = a' ∧ WriterInv s' ∧ s.buf.size ≤ s'.buf.size := by
  induction cs with
  | nil => intro s h; exact ⟨s, rfl, rfl, h, Nat.le_refl _⟩
  | cons c cs ih =>
    intro s h
    have hs := step_refines s c h
    simp only [AW.run]
    cases ha : AW.step (abs s) c with
    | none =>
      rw [ha] at hs
      simp only [run, hs]
    | some p =>
      obtain ⟨a1, r⟩ := p
      rw [ha] at hs
      obtain ⟨s1, e1, habs, hinv, hmono, _⟩ := hs
      have := ih s1 hinv
      rw [habs] at this
      simp only [run, e1]
      cases hr : AW.run a1 cs with
      | none => rw [hr] at this; exact this
      | some a' =>
        rw [hr] at this
        obtain ⟨s', e, h1, h2, h3⟩ := this
        exact ⟨s', e, h1, h2, Nat.le_trans hmono h3⟩

theorem new_inv : WriterInv RespWriter.new := by
  simp only [WriterInv, RespWriter.new, Array.size_replicate]; exact Nat.zero_le _

theorem abs_new : abs RespWriter.new = {} := by
  simp [abs, RespWriter.new]

theorem run_never_panics (s : Writer) (h : WriterInv s) (cs : List Call) : run s cs ≠ .panic := by
  have := run_refines cs s h
  cases hr : AW.run (abs s) cs with
  | none => rw [hr] at this; rw [this]; exact fun h => nomatch h
  | some a' =>
    rw [hr] at this
    obtain ⟨s', e, _⟩ := this
    rw [e]; exact fun h => nomatch h

theorem run_ok_abs {s s' : Writer} (h : WriterInv s) {cs : List Call} (e : run s cs = .ok s') :
    AW.run (abs s) cs = some (abs s') ∧ WriterInv s' ∧ s.buf.size ≤ s'.buf.size := by
  have := run_refines cs s h
  cases hr : AW.run (abs s) cs with
  | none => rw [hr] at this; rw [this] at e; cases e
  | some a' =>
    rw [hr] at this
    obtain ⟨s1, e1, h1, h2, h3⟩ := this
    rw [e1] at e
    cases e
    exact ⟨by rw [h1], h2, h3⟩

/-- under the invariant the write position IS the number of pending bytes -/
theorem pending_length (s : Writer) (h : WriterInv s) : (abs s).pending.length = s.w := by
  simp only [abs, List.length_take, Array.length_toList]
  exact Nat.min_eq_left h

/-! ### runs split -/

theorem AW.run_append (cs ds : List Call) : ∀ a : AW, AW.run a (cs ++ ds) = (AW.run a cs).bind fun a' => AW.run a' ds := by
  induction cs with
  | nil => intro a; rfl
  | cons c cs ih =>
    intro a
    simp only [List.cons_append, AW.run]
    cases AW.step a c with
    | none => rfl
    | some p => exact ih p.1

theorem run_append (cs ds : List Call) : ∀ s : Writer, run s (cs ++ ds) = (run s cs).bind fun s' => run s' ds := by
  induction cs with
  | nil => intro s; rfl
  | cons c cs ih =>
    intro s
    simp only [List.cons_append, run]
    cases step s c with
    | ok p => exact ih p.1
    | panic => rfl
    | outside => rfl

/-! ### the abstract writer -/

theorem written_of_encode {c : Call} {e : Bytes} (h : encode c = some e) : written c = e := by
  simp [written, h]

/-- one abstract step without a failing connection: delivered ++ pending grows by exactly what the call writes -/
theorem AW.step_content (a a' : AW) (c : Call) (r : Reply) (h : a.step c = some (a', r)) (hk : ∀ k, c ≠ .flush (some k)) :
    a'.delivered ++ a'.pending = a.delivered ++ a.pending ++ written c := by
  cases c with
  | flush fail =>
    cases fail with
    | none => simp only [AW.step, Option.some.injEq, Prod.mk.injEq] at h; obtain ⟨rfl, _⟩ := h; simp [written, encode]
    | some k => exact absurd rfl (hk k)
  | bytes => simp only [AW.step, Option.some.injEq, Prod.mk.injEq] at h; obtain ⟨rfl, _⟩ := h; simp [written, encode]
  | hasError => simp only [AW.step, Option.some.injEq, Prod.mk.injEq] at h; obtain ⟨rfl, _⟩ := h; simp [written, encode]
  | _ =>
    simp only [AW.step, Option.map_eq_some_iff, Prod.mk.injEq] at h
    obtain ⟨e, he, rfl, _⟩ := h
    simp [written_of_encode he, List.append_assoc]

theorem AW.run_content (cs : List Call) : ∀ (a a' : AW), AW.run a cs = some a' → NoFailure cs →
    a'.delivered ++ a'.pending = a.delivered ++ a.pending ++ cs.flatMap written := by
  induction cs with
  | nil => intro a a' h _; simp only [AW.run, Option.some.injEq] at h; subst h; simp
  | cons c cs ih =>
    intro a a' h hn
    simp only [AW.run] at h
    cases hs : a.step c with
    | none => rw [hs] at h; cases h
    | some p =>
      obtain ⟨a1, r⟩ := p
      rw [hs] at h
      have h1 := AW.step_content a a1 c r hs (fun k => hn c (by simp) k)
      have h2 := ih a1 a' h (fun c' hc' => hn c' (List.mem_cons_of_mem _ hc'))
      rw [h2, h1, List.flatMap_cons, List.append_assoc]

/-- a successful Flush leaves nothing pending and has delivered everything that was pending -/
theorem AW.step_flush (a : AW) :
    a.step (.flush none) = some ({ delivered := a.delivered ++ a.pending, pending := [], err := false }, .flushed a.pending false) := rfl

/-- pending bytes never exceed what was pending plus what has been written since (failing connections included) -/
theorem AW.step_pending_le (a a' : AW) (c : Call) (r : Reply) (h : a.step c = some (a', r)) :
    a'.pending.length ≤ a.pending.length + (written c).length := by
  cases c with
  | flush fail =>
    cases fail with
    | none => simp only [AW.step, Option.some.injEq, Prod.mk.injEq] at h; obtain ⟨rfl, _⟩ := h; simp
    | some k => simp only [AW.step, Option.some.injEq, Prod.mk.injEq] at h; obtain ⟨rfl, _⟩ := h; simp
  | bytes => simp only [AW.step, Option.some.injEq, Prod.mk.injEq] at h; obtain ⟨rfl, _⟩ := h; simp
  | hasError => simp only [AW.step, Option.some.injEq, Prod.mk.injEq] at h; obtain ⟨rfl, _⟩ := h; simp
  | _ =>
    simp only [AW.step, Option.map_eq_some_iff, Prod.mk.injEq] at h
    obtain ⟨e, he, rfl, _⟩ := h
    simp [written_of_encode he]

theorem AW.run_pending_le (cs : List Call) : ∀ (a a' : AW), AW.run a cs = some a' →
    a'.pending.length ≤ a.pending.length + (cs.flatMap written).length := by
  induction cs with
  | nil => intro a a' h; simp only [AW.run, Option.some.injEq] at h; subst h; simp
  | cons c cs ih =>
    intro a a' h
    simp only [AW.run] at h
    cases hs : a.step c with
    | none => rw [hs] at h; cases h
    | some p =>
      obtain ⟨a1, r⟩ := p
      rw [hs] at h
      have h1 := AW.step_pending_le a a1 c r hs
      have h2 := ih a1 a' h
      simp only [List.flatMap_cons, List.length_append]
      omega

/-- the abstract writer is defined on a sequence whenever every call has an encoding -/
theorem AW.run_some (cs : List Call) (h : ∀ c ∈ cs, (encode c).isSome) : ∀ a : AW, ∃ a', AW.run a cs = some a' := by
  induction cs with
  | nil => intro a; exact ⟨a, rfl⟩
  | cons c cs ih =>
    intro a
    have hc := h c (by simp)
    have : ∃ p, a.step c = some p := by
      obtain ⟨e, he⟩ := Option.isSome_iff_exists.mp hc
      cases c with
      | flush fail => cases fail <;> exact ⟨_, rfl⟩
      | bytes => exact ⟨_, rfl⟩
      | hasError => exact ⟨_, rfl⟩
      | _ => simp only [AW.step, he, Option.map_some]; exact ⟨_, rfl⟩
    obtain ⟨p, hp⟩ := this
    obtain ⟨a', ha'⟩ := ih (fun c' hc' => h c' (List.mem_cons_of_mem _ hc')) p.1
    exact ⟨a', by simp only [AW.run, hp, ha']⟩

/-- between successful Flushes (failing ones allowed): pending grows by exactly what is written, the flag is the
    disjunction of the error calls -/
theorem AW.step_no_flush (a a' : AW) (c : Call) (r : Reply) (h : a.step c = some (a', r)) (hc : c ≠ .flush none) :
    a'.pending = a.pending ++ written c ∧ a'.err = (a.err || isError c) := by
  cases c with
  | flush fail =>
    cases fail with
    | none => exact absurd rfl hc
    | some k => simp only [AW.step, Option.some.injEq, Prod.mk.injEq] at h; obtain ⟨rfl, _⟩ := h; simp [written, encode, isError]
  | bytes => simp only [AW.step, Option.some.injEq, Prod.mk.injEq] at h; obtain ⟨rfl, _⟩ := h; simp [written, encode, isError]
  | hasError => simp only [AW.step, Option.some.injEq, Prod.mk.injEq] at h; obtain ⟨rfl, _⟩ := h; simp [written, encode, isError]
  | _ =>
    simp only [AW.step, Option.map_eq_some_iff, Prod.mk.injEq] at h
    obtain ⟨e, he, rfl, _⟩ := h
    simp [written_of_encode he]

theorem AW.run_no_flush (cs : List Call) : ∀ (a a' : AW), AW.run a cs = some a' → (∀ c ∈ cs, c ≠ .flush none) →
    a'.pending = a.pending ++ cs.flatMap written ∧ a'.err = (a.err || cs.any isError) := by
  induction cs with
  | nil => intro a a' h _; simp only [AW.run, Option.some.injEq] at h; subst h; simp
  | cons c cs ih =>
    intro a a' h hn
    simp only [AW.run] at h
    cases hs : a.step c with
    | none => rw [hs] at h; cases h
    | some p =>
      obtain ⟨a1, r⟩ := p
      rw [hs] at h
      obtain ⟨h1, h1e⟩ := AW.step_no_flush a a1 c r hs (hn c (by simp))
      obtain ⟨h2, h2e⟩ := ih a1 a' h (fun c' hc' => hn c' (List.mem_cons_of_mem _ hc'))
      rw [h2, h1, h2e, h1e]
      simp [List.append_assoc, Bool.or_assoc]

/-! ### growth along a run -/

/-- if the pending bytes never exceed M at the end of any call of the run, the array never exceeds
    defaultSize + 2·M -/
theorem run_size_le (M : Nat) (cs : List Call) : ∀ (s s' : Writer), WriterInv s → s.buf.size ≤ defaultSize + 2 * M →
    (∀ pre s1, pre <+: cs → run s pre = .ok s1 → s1.w ≤ M) → run s cs = .ok s' → s'.buf.size ≤ defaultSize + 2 * M := by
  induction cs with
  | nil => intro s s' _ hb _ e; simp only [run] at e; cases e; exact hb
  | cons c cs ih =>
    intro s s' h hb hM e
    have hs := step_refines s c h
    cases hstep : step s c with
    | panic => simp only [run, hstep] at e; cases e
    | outside => simp only [run, hstep] at e; cases e
    | ok p =>
      obtain ⟨s1, r⟩ := p
      simp only [run, hstep] at e
      cases ha : AW.step (abs s) c with
      | none => rw [ha] at hs; rw [hs] at hstep; cases hstep
      | some q =>
        rw [ha] at hs
        obtain ⟨s1', e1, _, hinv, _, hbound⟩ := hs
        rw [hstep] at e1
        cases e1
        have hw1 : s1.w ≤ M := hM [c] s1 (by simp) (by simp only [run, hstep])
        refine ih s1 s' hinv (by omega) ?_ e
        intro pre s2 hpre hrun
        exact hM (c :: pre) s2 (by simpa using hpre) (by simp only [run, hstep, hrun])

/-! ### the token calls -/

theorem encode_callOfTok (t : Resp.Tok) : encode (callOfTok t) = some (Resp.render t) := by
  cases t <;> simp [callOfTok, encode, Resp.render, line, Spec.RespWriterSpec.crlf, Resp.crlf, Spec.RespEnc.encodeBulk, Spec.RespEnc.crlf]

theorem written_callOfTok (t : Resp.Tok) : written (callOfTok t) = Resp.render t :=
  written_of_encode (encode_callOfTok t)

theorem written_tokens (ts : List Resp.Tok) : (ts.map callOfTok).flatMap written = Resp.renderAll ts := by
  simp [Resp.renderAll, List.flatMap_map, written_callOfTok]

theorem written_nonwrite (c : Call) (h : isWrite c = false) : written c = [] := by
  cases c <;> simp_all [isWrite, written, encode]

/-- only the writing calls contribute: Flush / Bytes / HasError in between change nothing -/
theorem written_filter (cs : List Call) : cs.flatMap written = (cs.filter isWrite).flatMap written := by
  induction cs with
  | nil => rfl
  | cons c cs ih =>
    cases h : isWrite c with
    | true => simp [h, ih]
    | false => simp [h, ih, written_nonwrite c h]

theorem encode_isSome_of_schedule (cs : List Call) (ts : List Resp.Tok) (h : cs.filter isWrite = ts.map callOfTok) :
    ∀ c ∈ cs, (encode c).isSome := by
  intro c hc
  cases hw : isWrite c with
  | false => cases c <;> simp_all [isWrite, encode]
  | true =>
    have : c ∈ cs.filter isWrite := List.mem_filter.mpr ⟨hc, hw⟩
    rw [h] at this
    obtain ⟨t, _, rfl⟩ := List.mem_map.mp this
    rw [encode_callOfTok]; rfl

end NodisVerif.Proofs.RespWriter
