import NodisVerif.Model.F64More
/-
  A non-negative correctly rounded value is never NaN: `roundPack false n e` is zero, +Inf, or a packed
  (biased exponent < 2047, 52-bit fraction) pattern, all at most 0x7FF0000000000000.  In particular
  `float64(x)` of an unsigned integer - the score GEOADD stores - is not NaN.
-/
namespace NodisVerif.Proofs.F64NotNaN
open NodisVerif NodisVerif.F64

theorem and_mask_toNat (a : UInt64) (k : Nat) (hk : k ≤ 64) : (a &&& UInt64.ofNat (2 ^ k - 1)).toNat = a.toNat % 2 ^ k := by
  rw [UInt64.toNat_and]
  have : (UInt64.ofNat (2 ^ k - 1)).toNat = 2 ^ k - 1 := by
    apply UInt64.toNat_ofNat_of_lt'
    have : 2 ^ k ≤ 2 ^ 64 := Nat.pow_le_pow_right (by omega) hk
    show 2 ^ k - 1 < 2 ^ 64
    have : 0 < 2 ^ k := Nat.two_pow_pos k
    omega
  rw [this, Nat.and_two_pow_sub_one_eq_mod]

theorem isNaN_of_le (a : F64) (h : a.toNat ≤ 0x7FF0000000000000) : isNaN a = false := by
  unfold isNaN
  have e1 : ((a >>> 52) &&& 0x7FF).toNat = a.toNat / 2 ^ 52 % 2 ^ 11 := by
    have := and_mask_toNat (a >>> 52) 11 (by omega)
    rw [show UInt64.ofNat (2 ^ 11 - 1) = (0x7FF : UInt64) from rfl] at this
    rw [this, UInt64.toNat_shiftRight, Nat.shiftRight_eq_div_pow]
    rfl
  have e2 : (a &&& 0xFFFFFFFFFFFFF).toNat = a.toNat % 2 ^ 52 := by
    have := and_mask_toNat a 52 (by omega)
    rw [show UInt64.ofNat (2 ^ 52 - 1) = (0xFFFFFFFFFFFFF : UInt64) from rfl] at this
    exact this
  by_cases hm : (a &&& 0xFFFFFFFFFFFFF) = 0
  · simp [hm]
  · by_cases he : ((a >>> 52) &&& 0x7FF) = 0x7FF
    · exfalso
      have h1 : ((a >>> 52) &&& 0x7FF).toNat = 0x7FF := by rw [he]; rfl
      have h2 : (a &&& 0xFFFFFFFFFFFFF).toNat ≠ 0 := fun h0 => hm (UInt64.toNat_inj.mp (by rw [h0]; rfl))
      rw [e1] at h1
      rw [e2] at h2
      omega
    · simp [he]

theorem pack_arith (A B P : Nat) (hA : A < 2047) (hB : B < P) : A * P + B ≤ 2047 * P := by
  have h1 : (A + 1) * P ≤ 2047 * P := Nat.mul_le_mul_right P (by omega)
  rw [Nat.succ_mul] at h1
  omega

theorem pack_le (A B : Nat) (hA : A < 2047) (hB : B < 2 ^ 52) :
    ((UInt64.ofNat A <<< 52) ||| UInt64.ofNat B).toNat ≤ 0x7FF0000000000000 := by
  have key := pack_arith A B (2 ^ 52) hA hB
  have e2047 : 2047 * 2 ^ 52 = 0x7FF0000000000000 := by decide +kernel
  have e64 : 2047 * 2 ^ 52 < 2 ^ 64 := by decide +kernel
  have hA' : (UInt64.ofNat A).toNat = A := UInt64.toNat_ofNat_of_lt' (by show A < 2 ^ 64; omega)
  have hB' : (UInt64.ofNat B).toNat = B := UInt64.toNat_ofNat_of_lt' (Nat.lt_trans hB (by decide +kernel))
  rw [UInt64.toNat_or, UInt64.toNat_shiftLeft, hA', hB']
  have h52 : UInt64.toNat 52 % 64 = 52 := rfl
  rw [h52]
  have hlt : A <<< 52 < 2 ^ 64 := by
    rw [Nat.shiftLeft_eq]
    exact Nat.lt_of_le_of_lt (Nat.le_trans (Nat.le_add_right _ B) key) e64
  rw [Nat.mod_eq_of_lt hlt, ← Nat.shiftLeft_add_eq_or_of_lt hB, Nat.shiftLeft_eq]
  exact e2047 ▸ key

theorem roundPack_q_lt (n : Nat) (e : Int) (_hn : n ≠ 0) (q : Nat) (e' : Int)
    (h : (let bits : Int := Nat.log2 n + 1
          let shift : Int := max (bits - 53) (-1074 - e)
          if shift ≤ 0 then (n <<< (-shift).toNat, e + shift)
          else
            let sh := shift.toNat
            let q := n >>> sh
            let rem := n % 2 ^ sh
            let half := 2 ^ (sh - 1)
            let q := if rem > half ∨ (rem = half ∧ q % 2 = 1) then q + 1 else q
            if q = 2 ^ 53 then (2 ^ 52, e + shift + 1) else (q, e + shift)) = (q, e')) : q < 2 ^ 53 := by
  have hlog : n < 2 ^ (Nat.log2 n + 1) := Nat.lt_log2_self
  dsimp only at h
  generalize hb : Nat.log2 n = L at h hlog
  split at h
  · next hs =>
    injection h with h1 _
    rw [← h1, Nat.shiftLeft_eq]
    have hk : (-(max ((L : Int) + 1 - 53) (-1074 - e))).toNat + (L + 1) ≤ 53 := by omega
    generalize (-(max ((L : Int) + 1 - 53) (-1074 - e))).toNat = k at hk ⊢
    calc n * 2 ^ k < 2 ^ (L + 1) * 2 ^ k := Nat.mul_lt_mul_of_pos_right hlog (Nat.two_pow_pos k)
      _ = 2 ^ (L + 1 + k) := (Nat.pow_add 2 (L + 1) k).symm
      _ ≤ 2 ^ 53 := Nat.pow_le_pow_right (by omega) (by omega)
  · next hs =>
    have hsh : L + 1 ≤ (max ((L : Int) + 1 - 53) (-1074 - e)).toNat + 53 := by omega
    generalize (max ((L : Int) + 1 - 53) (-1074 - e)).toNat = sh at h hsh
    have hq0 : n >>> sh < 2 ^ 53 := by
      rw [Nat.shiftRight_eq_div_pow]
      apply Nat.div_lt_of_lt_mul
      calc n < 2 ^ (L + 1) := hlog
        _ ≤ 2 ^ (sh + 53) := Nat.pow_le_pow_right (by omega) hsh
        _ = 2 ^ sh * 2 ^ 53 := Nat.pow_add 2 sh 53
    split at h
    · next hup =>
      split at h
      · injection h with h1 _; rw [← h1]; exact Nat.pow_lt_pow_right (by omega) (by omega)
      · next hne =>
        injection h with h1 _
        rw [← h1]
        have : n >>> sh + 1 ≤ 2 ^ 53 := hq0
        rcases Nat.lt_or_eq_of_le this with hlt | heq
        · exact hlt
        · exact absurd heq hne
    · split at h
      · injection h with h1 _; rw [← h1]; exact Nat.pow_lt_pow_right (by omega) (by omega)
      · injection h with h1 _; rw [← h1]; exact hq0

def qePair (n : Nat) (e : Int) : Nat × Int :=
  let bits : Int := Nat.log2 n + 1
  let shift : Int := max (bits - 53) (-1074 - e)
  if shift ≤ 0 then (n <<< (-shift).toNat, e + shift)
  else
    let sh := shift.toNat
    let q := n >>> sh
    let rem := n % 2 ^ sh
    let half := 2 ^ (sh - 1)
    let q := if rem > half ∨ (rem = half ∧ q % 2 = 1) then q + 1 else q
    if q = 2 ^ 53 then (2 ^ 52, e + shift + 1) else (q, e + shift)

def finishF (q : Nat) (e' : Int) : F64 :=
  if q ≥ 2 ^ 52 then
    (if e' + 1075 ≥ 2047 then inf false
     else (UInt64.ofNat (e' + 1075).toNat <<< 52) ||| UInt64.ofNat (q - 2 ^ 52))
  else UInt64.ofNat q

theorem roundPack_false_eq (n : Nat) (e : Int) (hn : n ≠ 0) :
    roundPack false n e = finishF (qePair n e).1 (qePair n e).2 := by
  unfold roundPack
  rw [if_neg hn]
  rfl

theorem finishF_le (q : Nat) (e' : Int) (hq : q < 2 ^ 53) : (finishF q e').toNat ≤ 0x7FF0000000000000 := by
  unfold finishF
  split
  · next h52 =>
    split
    · decide
    · next hb =>
      apply pack_le
      · omega
      · have : (2:Nat) ^ 53 = 2 ^ 52 + 2 ^ 52 := by decide +kernel
        omega
  · next h52 =>
    have hlt : q < 2 ^ 52 := by omega
    rw [UInt64.toNat_ofNat_of_lt' (Nat.lt_trans hlt (by decide +kernel))]
    exact Nat.le_of_lt (Nat.lt_trans hlt (by decide +kernel))

/-- a non-negative rounded value is never NaN: its bit pattern is at most +Inf's -/
theorem roundPack_false_not_nan (n : Nat) (e : Int) : isNaN (roundPack false n e) = false := by
  apply isNaN_of_le
  by_cases hn : n = 0
  · subst hn; unfold roundPack; rw [if_pos rfl]; decide
  · rw [roundPack_false_eq n e hn]
    exact finishF_le _ _ (roundPack_q_lt n e hn _ _ rfl)

theorem ofNat_not_nan (n : Nat) : isNaN (F64.ofNat n) = false := roundPack_false_not_nan n 0

end NodisVerif.Proofs.F64NotNaN
