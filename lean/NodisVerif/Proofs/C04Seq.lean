import NodisVerif.Proofs.C04Inv
import NodisVerif.Proofs.C04Bits
/-
  Arbitrary sequences of mutating sorted-set operations.
-/
namespace NodisVerif.Proofs.C04
open AListLemmas ZSetLemmas DsZSet

/-- the mutating operations of `ds/zset` (ZADD and its NX/XX/LT/GT variants, ZINCRBY with the float
    sum supplied, ZREM, ZREMRANGEBYSCORE, ZREMRANGEBYRANK; ZUNIONSTORE/ZINTERSTORE build their
    result with a sequence of `add`s) -/
inductive Op where
  | add (m : Bytes) (s : F64)
  | addXX (m : Bytes) (s : F64)
  | addNX (m : Bytes) (s : F64)
  | addLT (m : Bytes) (s : F64)
  | addGT (m : Bytes) (s : F64)
  | incrBy (m : Bytes) (newScore : F64)
  | rem (ms : List Bytes)
  | remRangeByScore (min max : F64) (mode : Nat)
  | remRangeByRank (start stop : Int)

def Op.apply (z : ZSet) : Op → ZSet
  | .add m s => (zAdd z m s).1
  | .addXX m s => (zAddXX z m s).1
  | .addNX m s => (zAddNX z m s).1
  | .addLT m s => (zAddLT z m s).1
  | .addGT m s => (zAddGT z m s).1
  | .incrBy m s => zIncrByWith z m s
  | .rem ms => (zRem z ms).1
  | .remRangeByScore min max mode => (zRemRangeByScore z min max mode).1
  | .remRangeByRank start stop => (zRemRangeByRank z start stop).1

/-- the score an operation may write -/
def Op.score? : Op → Option (Bytes × F64)
  | .add m s | .addXX m s | .addNX m s | .addLT m s | .addGT m s | .incrBy m s => some (m, s)
  | _ => none

/-- admissibility of an operation: the score it may write is not NaN -/
def Op.NoNaN (op : Op) : Prop :=
  match op.score? with
  | some (_, s) => F64.isNaN s = false
  | none => True

def run (z : ZSet) (ops : List Op) : ZSet := ops.foldl Op.apply z

theorem inv_apply {z : ZSet} (h : Inv z) (op : Op) (hok : op.NoNaN) : Inv (op.apply z) := by
  cases op with
  | add m s => exact inv_zAdd h m s hok
  | addXX m s => exact inv_zAddXX h m s hok
  | addNX m s => exact inv_zAddNX h m s hok
  | addLT m s => exact inv_zAddLT h m s hok
  | addGT m s => exact inv_zAddGT h m s hok
  | incrBy m s => exact inv_zAdd h m s hok
  | rem ms => exact inv_zRem h ms
  | remRangeByScore min max mode => exact inv_zRemRangeByScore h min max mode
  | remRangeByRank start stop => exact inv_zRemRangeByRank h start stop

theorem inv_run : ∀ (ops : List Op) (z : ZSet), Inv z → (∀ op ∈ ops, op.NoNaN) → Inv (run z ops) := by
  intro ops
  induction ops with
  | nil => intro z h _; exact h
  | cons op ops ih =>
    intro z h hok
    exact ih (op.apply z) (inv_apply h op (hok op (by simp))) (fun o ho => hok o (by simp [ho]))

/-! ### the set built by ZUNIONSTORE / ZINTERSTORE -/

/-- `zstore` builds its result by adding the aggregated (score, member) items to an empty set -/
def buildFrom (z : ZSet) (items : List Item) : ZSet :=
  items.foldl (fun z it => (zAdd z it.2 it.1).1) z

theorem buildFrom_eq_run (z : ZSet) (items : List Item) :
    buildFrom z items = run z (items.map fun it => Op.add it.2 it.1) := by
  unfold buildFrom run
  rw [List.foldl_map]
  rfl

theorem inv_buildFrom (items : List Item) (z : ZSet) (h : Inv z)
    (hn : ∀ it ∈ items, F64.isNaN it.1 = false) : Inv (buildFrom z items) := by
  rw [buildFrom_eq_run]
  apply inv_run _ z h
  intro op hop
  obtain ⟨it, hit, rfl⟩ := List.mem_map.mp hop
  exact hn it hit

/-! ### the score stored by ZADD -/

theorem eq_symm (a b : F64) (h : F64.eq a b = true) : F64.eq b a = true := by
  simp only [F64.eq, Bool.and_eq_true, Bool.not_eq_true', beq_iff_eq] at h ⊢
  exact ⟨⟨h.1.2, h.1.1⟩, h.2.symm⟩

/-- after `zAdd z m s` the member's score is `s`, except that a stored IEEE-equal score is kept
    (so the only possible bit difference is the sign of a zero); other members are untouched -/
theorem zAdd_score (z : ZSet) (m : Bytes) (s : F64) (hs : F64.isNaN s = false) :
    (∃ s', zScore (zAdd z m s).1 m = some s' ∧ F64.eq s' s = true ∧
      (s' = s ∨ (zScore z m = some s' ∧ ((s' = 0 ∧ s = F64.negZero) ∨ (s' = F64.negZero ∧ s = 0))))) ∧
    ∀ m', m' ≠ m → zScore (zAdd z m s).1 m' = zScore z m' := by
  have hss : F64.eq s s = true := by simp [F64.eq, hs]
  unfold zScore zAdd
  cases hget : AList.get? z.dict m with
  | none =>
    exact ⟨⟨s, get?_set_self m s z.dict, hss, Or.inl rfl⟩,
      fun m' hne => get?_set_other m m' s hne z.dict⟩
  | some old =>
    simp only
    by_cases heq : F64.eq s old = true
    · rw [if_pos heq]
      refine ⟨⟨old, hget, eq_symm s old heq, ?_⟩, fun _ _ => rfl⟩
      rcases F64.eq_bits s old heq with h | ⟨h1, h2⟩ | ⟨h1, h2⟩
      · exact Or.inl h.symm
      · exact Or.inr ⟨rfl, Or.inr ⟨h2, h1⟩⟩
      · exact Or.inr ⟨rfl, Or.inl ⟨h2, h1⟩⟩
    · rw [if_neg heq]
      exact ⟨⟨s, get?_set_self m s z.dict, hss, Or.inl rfl⟩,
        fun m' hne => get?_set_other m m' s hne z.dict⟩

end NodisVerif.Proofs.C04
