import NodisVerif.Proofs.C04Inv
import NodisVerif.Proofs.C04Bits
/-
  Arbitrary sequences of mutating sorted-set operations.
-/
namespace NodisVerif.Proofs.C04
open AListLemmas ZSetLemmas DsZSet

/-- the mutating operations of `ds/zset` (ZADD and its NX/XX/LT/GT variants, ZINCRBY with the float
    sum supplied, ZREM, ZREMRANGEBYSCORE, ZREMRANGEBYRANK; ZUNIONSTORE/ZINTERSTORE build their
    result with a sequence of `add`s) -/
inductive Op where
  | add (m : Bytes) (s : F64)
  | addXX (m : Bytes) (s : F64)
  | addNX (m : Bytes) (s : F64)
  | addLT (m : Bytes) (s : F64)
  | addGT (m : Bytes) (s : F64)
  | incrBy (m : Bytes) (newScore : F64)
  | rem (ms : List Bytes)
  | remRangeByScore (min max : F64) (mode : Nat)
  | remRangeByRank (start stop : Int)

def Op.apply (z : ZSet) : Op → ZSet
  | .add m s => (zAdd z m s).1
  | .addXX m s => (zAddXX z m s).1
  | .addNX m s => (zAddNX z m s).1
  | .addLT m s => (zAddLT z m s).1
  | .addGT m s => (zAddGT z m s).1
  | .incrBy m s => zIncrByWith z m s
  | .rem ms => (zRem z ms).1
  | .remRangeByScore min max mode => (zRemRangeByScore z min max mode).1
  | .remRangeByRank start stop => (zRemRangeByRank z start stop).1

/-- the score an operation may write -/
def Op.score? : Op → Option (Bytes × F64)
  | .add m s | .addXX m s | .addNX m s | .addLT m s | .addGT m s | .incrBy m s => some (m, s)
  | _ => none

/-- admissibility of one operation in state `z`: the written score is not NaN, and for the
    operations that can overwrite an IEEE-equal score (ZADD, ZADD XX, ZINCRBY) it is not the other
    zero -/
def Op.Ok (z : ZSet) : Op → Prop
  | .add m s | .addXX m s | .incrBy m s => F64.isNaN s = false ∧ ZeroSafe z m s
  | .addNX _ s | .addLT _ s | .addGT _ s => F64.isNaN s = false
  | _ => True

def run (z : ZSet) (ops : List Op) : ZSet := ops.foldl Op.apply z

/-- every operation of the sequence is admissible in the state in which it is executed -/
def RunOk : ZSet → List Op → Prop
  | _, [] => True
  | z, op :: ops => op.Ok z ∧ RunOk (op.apply z) ops

theorem inv_apply {z : ZSet} (h : Inv z) (op : Op) (hok : op.Ok z) : Inv (op.apply z) := by
  cases op with
  | add m s => exact inv_zAdd h m s hok.1 hok.2
  | addXX m s => exact inv_zAddXX h m s hok.1 hok.2
  | addNX m s => exact inv_zAddNX h m s hok
  | addLT m s => exact inv_zAddLT h m s hok
  | addGT m s => exact inv_zAddGT h m s hok
  | incrBy m s => exact inv_zAdd h m s hok.1 hok.2
  | rem ms => exact inv_zRem h ms
  | remRangeByScore min max mode => exact inv_zRemRangeByScore h min max mode
  | remRangeByRank start stop => exact inv_zRemRangeByRank h start stop

theorem inv_run : ∀ (ops : List Op) (z : ZSet), Inv z → RunOk z ops → Inv (run z ops) := by
  intro ops
  induction ops with
  | nil => intro z h _; exact h
  | cons op ops ih =>
    intro z h hok
    exact ih (op.apply z) (inv_apply h op hok.1) hok.2

/-! ### state-independent admissibility: no NaN, no negative zero -/

def NoNegZero (z : ZSet) : Prop := ∀ p ∈ z.dict, p.2 ≠ F64.negZero

def Op.Plain (op : Op) : Prop :=
  match op.score? with
  | some (_, s) => F64.isNaN s = false ∧ s ≠ F64.negZero
  | none => True

theorem zeroSafe_of_noNegZero {z : ZSet} (hd : z.dict.Pairwise KeyLt) (hn : NoNegZero z) (m : Bytes)
    (s : F64) (hs : s ≠ F64.negZero) : ZeroSafe z m s := by
  intro old hget heq
  have hold : old ≠ F64.negZero := hn (m, old) ((get?_iff_mem m old z.dict hd).mp hget)
  rcases F64.eq_bits s old heq with h | ⟨_, h⟩ | ⟨h, _⟩
  · exact h
  · exact absurd h hold
  · exact absurd h hs

theorem dict_zAdd_subset {z : ZSet} (hd : z.dict.Pairwise KeyLt) (m : Bytes) (s : F64) :
    ∀ p ∈ (zAdd z m s).1.dict, p ∈ z.dict ∨ p = (m, s) := by
  intro p hp
  have key : ∀ p ∈ AList.set z.dict m s, p ∈ z.dict ∨ p = (m, s) := by
    intro p hp
    rcases (mem_set m s p z.dict hd).mp hp with h | ⟨h, _⟩
    · exact Or.inr h
    · exact Or.inl h
  unfold zAdd at hp
  cases hget : AList.get? z.dict m with
  | none => rw [hget] at hp; exact key p hp
  | some old =>
    rw [hget] at hp
    simp only at hp
    split at hp <;> exact key p hp

theorem dict_remStep_subset (acc : ZSet × Int) (m : Bytes) :
    ∀ p ∈ (remStep acc m).1.dict, p ∈ acc.1.dict := by
  intro p hp
  unfold remStep at hp
  cases hget : AList.get? acc.1.dict m with
  | none => rw [hget] at hp; exact hp
  | some sc => rw [hget] at hp; exact (erase_sublist m acc.1.dict).subset hp

theorem dict_foldl_remStep_subset : ∀ (ms : List Bytes) (acc : ZSet × Int),
    ∀ p ∈ (ms.foldl remStep acc).1.dict, p ∈ acc.1.dict := by
  intro ms
  induction ms with
  | nil => intro acc p hp; exact hp
  | cons m ms ih =>
    intro acc p hp
    exact dict_remStep_subset acc m p (ih _ p hp)

theorem dict_apply_subset {z : ZSet} (hd : z.dict.Pairwise KeyLt) (op : Op) :
    ∀ p ∈ (op.apply z).dict, p ∈ z.dict ∨ some p = op.score? := by
  intro p hp
  cases op with
  | add m s =>
    rcases dict_zAdd_subset hd m s p hp with h | h
    · exact Or.inl h
    · exact Or.inr (by rw [h]; rfl)
  | incrBy m s =>
    rcases dict_zAdd_subset hd m s p hp with h | h
    · exact Or.inl h
    · exact Or.inr (by rw [h]; rfl)
  | addXX m s =>
    simp only [Op.apply, zAddXX] at hp
    split at hp
    · rcases dict_zAdd_subset hd m s p hp with h | h
      · exact Or.inl h
      · exact Or.inr (by rw [h]; rfl)
    · exact Or.inl hp
  | addNX m s =>
    simp only [Op.apply, zAddNX] at hp
    split at hp
    · rcases dict_zAdd_subset hd m s p hp with h | h
      · exact Or.inl h
      · exact Or.inr (by rw [h]; rfl)
    · exact Or.inl hp
  | addLT m s =>
    simp only [Op.apply, zAddLT] at hp
    split at hp
    · split at hp
      · rcases dict_zAdd_subset hd m s p hp with h | h
        · exact Or.inl h
        · exact Or.inr (by rw [h]; rfl)
      · exact Or.inl hp
    · exact Or.inl hp
  | addGT m s =>
    simp only [Op.apply, zAddGT] at hp
    split at hp
    · split at hp
      · rcases dict_zAdd_subset hd m s p hp with h | h
        · exact Or.inl h
        · exact Or.inr (by rw [h]; rfl)
      · exact Or.inl hp
    · exact Or.inl hp
  | rem ms =>
    exact Or.inl (dict_foldl_remStep_subset ms (z, 0) p hp)
  | remRangeByScore min max mode =>
    exact Or.inl ((foldl_erase_sublist _ z.dict).subset hp)
  | remRangeByRank start stop =>
    simp only [Op.apply, zRemRangeByRank_core, remByRankCore] at hp
    split at hp
    · exact Or.inl hp
    · exact Or.inl ((foldl_erase_sublist _ z.dict).subset hp)

theorem plain_ok {z : ZSet} (h : Inv z) (hn : NoNegZero z) (op : Op) (hp : op.Plain) : op.Ok z := by
  cases op with
  | add m s => exact ⟨hp.1, zeroSafe_of_noNegZero h.dictPW hn m s hp.2⟩
  | addXX m s => exact ⟨hp.1, zeroSafe_of_noNegZero h.dictPW hn m s hp.2⟩
  | incrBy m s => exact ⟨hp.1, zeroSafe_of_noNegZero h.dictPW hn m s hp.2⟩
  | addNX m s => exact hp.1
  | addLT m s => exact hp.1
  | addGT m s => exact hp.1
  | rem ms => trivial
  | remRangeByScore min max mode => trivial
  | remRangeByRank start stop => trivial

theorem noNegZero_apply {z : ZSet} (h : Inv z) (hn : NoNegZero z) (op : Op) (hp : op.Plain) :
    NoNegZero (op.apply z) := by
  intro p hpm
  rcases dict_apply_subset h.dictPW op p hpm with h1 | h1
  · exact hn p h1
  · unfold Op.Plain at hp
    rw [← h1] at hp
    exact hp.2

theorem inv_run_plain : ∀ (ops : List Op) (z : ZSet), Inv z → NoNegZero z → (∀ op ∈ ops, op.Plain) →
    Inv (run z ops) ∧ NoNegZero (run z ops) := by
  intro ops
  induction ops with
  | nil => intro z h hn _; exact ⟨h, hn⟩
  | cons op ops ih =>
    intro z h hn hp
    have hop := hp op (by simp)
    exact ih (op.apply z) (inv_apply h op (plain_ok h hn op hop)) (noNegZero_apply h hn op hop)
      (fun o ho => hp o (by simp [ho]))

/-! ### the set built by ZUNIONSTORE / ZINTERSTORE -/

/-- `zstore` builds its result by adding the aggregated (score, member) items to an empty set -/
def buildFrom (z : ZSet) (items : List Item) : ZSet :=
  items.foldl (fun z it => (zAdd z it.2 it.1).1) z

theorem buildFrom_eq_run (z : ZSet) (items : List Item) :
    buildFrom z items = run z (items.map fun it => Op.add it.2 it.1) := by
  unfold buildFrom run
  rw [List.foldl_map]
  rfl

theorem zAdd_dict (z : ZSet) (m : Bytes) (s : F64) : (zAdd z m s).1.dict = AList.set z.dict m s := by
  unfold zAdd
  cases AList.get? z.dict m with
  | none => rfl
  | some old => simp only; split <;> rfl

/-- distinct members (the items come out of a map) and non-NaN scores: fully well formed, signed
    zeros included, because nothing is ever overwritten -/
theorem inv_buildFrom : ∀ (items : List Item) (z : ZSet), Inv z →
    (∀ it ∈ items, F64.isNaN it.1 = false) → (∀ it ∈ items, AList.get? z.dict it.2 = none) →
    (items.map (·.2)).Nodup → Inv (buildFrom z items) := by
  intro items
  induction items with
  | nil => intro z h _ _ _; exact h
  | cons it items ih =>
    intro z h hn hfresh hnd
    obtain ⟨hnot, hnd'⟩ := List.nodup_cons.mp hnd
    have hstep : Inv (zAdd z it.2 it.1).1 :=
      inv_zAdd h it.2 it.1 (hn it (by simp))
        (by intro o ho; rw [hfresh it (by simp)] at ho; cases ho)
    apply ih _ hstep (fun x hx => hn x (by simp [hx])) _ hnd'
    intro x hx
    rw [zAdd_dict]
    have hne : x.2 ≠ it.2 := by
      intro e
      exact hnot (List.mem_map.mpr ⟨x, hx, e⟩)
    rw [get?_set_other it.2 x.2 it.1 hne]
    exact hfresh x (by simp [hx])

end NodisVerif.Proofs.C04
