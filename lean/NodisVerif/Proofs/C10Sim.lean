import NodisVerif.Proofs.C10Store
/-
  C10 helper lemmas, part 3: every store primitive respects the observational equivalence `Sim`
  (bundled with sortedness of both indexes as `Good`), and the generic read / write command shapes.
-/
namespace NodisVerif.Proofs.C10
open NodisVerif Store
open NodisVerif.Proofs.AListLemmas NodisVerif.Proofs.AListLemmas2

/-- `Sim` together with the btree invariant of both indexes -/
def Good (now : Int) (s s' : MState) : Prop :=
  AList.Sorted s.index ∧ AList.Sorted s'.index ∧ Sim now s s'

/-- two results: same reply, related states -/
def RSim {α : Type} (now : Int) (r r' : MState × α) : Prop := r.2 = r'.2 ∧ Good now r.1 r'.1

theorem sim_refl (now : Int) (s : MState) : Sim now s s := ⟨fun _ => rfl, rfl⟩
theorem sim_symm {now : Int} {s s' : MState} (h : Sim now s s') : Sim now s' s :=
  ⟨fun k => (h.recs k).symm, h.frame.symm⟩
theorem sim_trans {now : Int} {a b c : MState} (h : Sim now a b) (g : Sim now b c) : Sim now a c :=
  ⟨fun k => (h.recs k).trans (g.recs k), h.frame.trans g.frame⟩

theorem Good.refl {now : Int} {s : MState} (hs : AList.Sorted s.index) : Good now s s :=
  ⟨hs, hs, sim_refl now s⟩
theorem Good.symm {now : Int} {s s' : MState} (h : Good now s s') : Good now s' s :=
  ⟨h.2.1, h.1, sim_symm h.2.2⟩
theorem Good.trans {now : Int} {a b c : MState} (h : Good now a b) (g : Good now b c) : Good now a c :=
  ⟨h.1, g.2.1, sim_trans h.2.2 g.2.2⟩

theorem Good.nextId {now : Int} {s s' : MState} (h : Good now s s') : s.nextId = s'.nextId :=
  congrArg View.Frame.nextId h.2.2.frame
theorem Good.pebble {now : Int} {s s' : MState} (h : Good now s s') : s.pebble = s'.pebble :=
  congrArg View.Frame.pebble h.2.2.frame
theorem Good.listeners {now : Int} {s s' : MState} (h : Good now s s') : s.listeners = s'.listeners :=
  congrArg View.Frame.listeners h.2.2.frame
theorem Good.feed {now : Int} {s s' : MState} (h : Good now s s') : s.feed = s'.feed :=
  congrArg View.Frame.feed h.2.2.frame
theorem Good.signalled {now : Int} {s s' : MState} (h : Good now s s') : s.signalled = s'.signalled :=
  congrArg View.Frame.signalled h.2.2.frame
theorem Good.vis {now : Int} {s s' : MState} (h : Good now s s') (k : Bytes) : vis now s k = vis now s' k :=
  h.2.2.recs k

/-! ### purge -/

theorem sorted_purge (now : Int) (s : MState) (hs : AList.Sorted s.index) :
    AList.Sorted (purge now s).index := sorted_filter _ _ hs

theorem getMeta_purge (now : Int) (s : MState) (hs : AList.Sorted s.index) (k : Bytes) :
    getMeta (purge now s) k = (getMeta s k).filter fun m => !m.expired now := by
  unfold getMeta purge
  exact get?_filter _ s.index hs k

theorem vis_purge (now : Int) (s : MState) (hs : AList.Sorted s.index) (k : Bytes) :
    vis now (purge now s) k = vis now s k := by
  unfold vis
  rw [getMeta_purge now s hs k, recOf_congr (s := purge now s) (s' := s) rfl rfl]
  cases getMeta s k with
  | none => rfl
  | some m =>
    simp only [Option.filter]
    by_cases h : m.expired now = true <;> simp [h]

theorem good_purge (now : Int) (s : MState) (hs : AList.Sorted s.index) : Good now s (purge now s) :=
  ⟨hs, sorted_purge now s hs, ⟨fun k => (vis_purge now s hs k).symm, rfl⟩⟩

/-! ### reading the view -/

theorem vis_some_getMeta {now : Int} {s : MState} {k : Bytes} {r : View.Rec} (h : vis now s k = some r) :
    ∃ m, getMeta s k = some m ∧ m.expired now = false ∧ r = recOf s k m := by
  cases hm : getMeta s k with
  | none => rw [vis_none_of_getMeta hm] at h; cases h
  | some m =>
    rw [vis_eq_of_getMeta hm] at h
    split at h
    · cases h
    · rename_i he
      simp only [Option.some.injEq] at h
      exact ⟨m, rfl, by simpa using he, h.symm⟩

theorem valOf_of_vis {now : Int} {s : MState} {k : Bytes} {r : View.Rec} (h : vis now s k = some r) :
    valOf s k = r.value := by
  obtain ⟨m, hm, _, hr⟩ := vis_some_getMeta h
  simp [valOf, hm, hr, recOf]

theorem expOf_of_vis {now : Int} {s : MState} {k : Bytes} {r : View.Rec} (h : vis now s k = some r) :
    Api.expOf s k = r.exp := by
  obtain ⟨m, hm, _, hr⟩ := vis_some_getMeta h
  simp [Api.expOf, hm, hr, recOf]

/-- visible and in memory -/
def Hot (now : Int) (s : MState) (k : Bytes) : Prop := ∃ r, vis now s k = some r ∧ r.value.isSome = true

theorem Hot.transfer {now : Int} {s s' : MState} {k : Bytes} (g : Good now s s') (h : Hot now s k) :
    Hot now s' k := by
  obtain ⟨r, hr, hh⟩ := h
  exact ⟨r, by rw [← g.vis k]; exact hr, hh⟩

theorem touch_hot (r : View.Rec) (h : rkOk (some r) = true) : (touch r).value.isSome = true := by
  simp only [rkOk, Bool.and_eq_true, Bool.or_eq_true] at h
  unfold touch
  cases hv : r.value with
  | some v => simp [hv]
  | none =>
    cases hl : r.load with
    | none => simp [hv, hl] at h
    | some p => simp

/-! ### lookups -/

theorem readKey_good {now : Int} {s s' : MState} (g : Good now s s') (k : Bytes) :
    RSim now (readKey s now k) (readKey s' now k) ∧
    ((readKey s now k).2 = true → Hot now (readKey s now k).1 k) := by
  obtain ⟨a1, a2, a3, a4⟩ := readKey_spec s now k g.1
  obtain ⟨b1, b2, b3, b4⟩ := readKey_spec s' now k g.2.1
  refine ⟨⟨by rw [a1, b1, g.vis k], a4, b4, ⟨fun k' => ?_, by rw [a3, b3]; exact g.2.2.frame⟩⟩, ?_⟩
  · rw [a2, b2, g.vis k, g.vis k']
  · intro hok
    rw [a1] at hok
    cases hv : vis now s k with
    | none => rw [hv] at hok; simp [rkOk] at hok
    | some r =>
      rw [hv] at hok
      refine ⟨touch r, ?_, touch_hot r hok⟩
      rw [a2, if_pos rfl, hv, if_pos hok]; rfl

theorem writeKey_good {now : Int} {s s' : MState} (g : Good now s s') (k : Bytes) (mk : Option Val) :
    RSim now (writeKey s now k mk) (writeKey s' now k mk) ∧
    ((writeKey s now k mk).2 = true → Hot now (writeKey s now k mk).1 k) := by
  obtain ⟨a1, a2, a3, a4⟩ := writeKey_spec s now k mk g.1
  obtain ⟨b1, b2, b3, b4⟩ := writeKey_spec s' now k mk g.2.1
  refine ⟨⟨by rw [a1, b1, g.vis k], a4, b4, ⟨fun k' => ?_, ?_⟩⟩, ?_⟩
  · rw [a2, b2, g.vis k, g.vis k', g.nextId]
  · rw [a3, b3, g.vis k, g.nextId, g.2.2.frame]
  · intro hok
    rw [a1] at hok
    by_cases hr : rkOk (vis now s k) = true
    · cases hv : vis now s k with
      | none => rw [hv] at hr; simp [rkOk] at hr
      | some r =>
        rw [hv] at hr
        refine ⟨touch r, ?_, touch_hot r hr⟩
        rw [a2, if_pos rfl, hv, if_pos hr]; rfl
    · simp only [hr, Bool.false_or] at hok
      obtain ⟨v, hv⟩ := Option.isSome_iff_exists.mp hok
      subst hv
      refine ⟨freshRec s.nextId v, ?_, rfl⟩
      rw [a2, if_pos rfl, if_neg hr]

theorem writeKey_some_ok (s : MState) (now : Int) (k : Bytes) (v : Val) :
    (writeKey s now k (some v)).2 = true := by
  unfold writeKey
  split
  · simp only
    split
    · split
      · rfl
      · split
        · rfl
        · split <;> rfl
    · rfl
  · rfl

/-! ### mutations -/

theorem setVal_good {now : Int} {s s' : MState} (g : Good now s s') (k : Bytes) (v : Val)
    (hv : (vis now s k).isSome = true) :
    Good now (Api.setVal s k v) (Api.setVal s' k v) := by
  obtain ⟨r, hr⟩ := Option.isSome_iff_exists.mp hv
  have hr' : vis now s' k = some r := by rw [← g.vis k]; exact hr
  obtain ⟨m, hm, _, e⟩ := vis_some_getMeta hr
  obtain ⟨m', hm', _, e'⟩ := vis_some_getMeta hr'
  have ho : m.oid = m'.oid := by
    have : (recOf s k m).oid = (recOf s' k m').oid := by rw [← e, ← e']
    exact this
  refine ⟨sorted_setVal s k v g.1, sorted_setVal s' k v g.2.1, ⟨fun k' => ?_, ?_⟩⟩
  · rw [vis_setVal now s k k' v m hm, vis_setVal now s' k k' v m' hm', g.vis k', g.pebble, ho]
  · rw [setVal_frame, setVal_frame]; exact g.2.2.frame

theorem setVal_hot {now : Int} {s : MState} (k : Bytes) (v : Val) (hv : (vis now s k).isSome = true) :
    Hot now (Api.setVal s k v) k := by
  obtain ⟨r, hr⟩ := Option.isSome_iff_exists.mp hv
  obtain ⟨m, hm, _, e⟩ := vis_some_getMeta hr
  refine ⟨setValRec s.pebble m.oid v (k = k) r, by rw [vis_setVal now s k k v m hm, hr]; rfl, ?_⟩
  simp only [setValRec, decide_true, if_true]
  split
  · rfl
  · simp only [sharedRec]; split <;> rfl

theorem setExp_good {now : Int} {s s' : MState} (g : Good now s s') (k : Bytes) (e : Int)
    (h : Hot now s k) : Good now (Api.setExp s k e) (Api.setExp s' k e) := by
  obtain ⟨r, hr, hot⟩ := h
  have hr' : vis now s' k = some r := by rw [← g.vis k]; exact hr
  refine ⟨sorted_setExp s k e g.1, sorted_setExp s' k e g.2.1, ⟨fun k' => ?_, ?_⟩⟩
  · rw [vis_setExp now s k k' e r hr hot, vis_setExp now s' k k' e r hr' hot, g.vis k']
  · rw [setExp_frame, setExp_frame]; exact g.2.2.frame

theorem delKey_good {now : Int} {s s' : MState} (g : Good now s s') (k : Bytes) :
    Good now (delKey s k) (delKey s' k) := by
  refine ⟨sorted_delKey s k g.1, sorted_delKey s' k g.2.1, ⟨fun k' => ?_, ?_⟩⟩
  · rw [vis_delKey now s k k' g.1, vis_delKey now s' k k' g.2.1, g.vis k']
  · rw [delKey_frame, delKey_frame]; exact g.2.2.frame

theorem signal_good {now : Int} {s s' : MState} (g : Good now s s') (k : Bytes) :
    Good now (signal s k) (signal s' k) := by
  refine ⟨sorted_signal s k g.1, sorted_signal s' k g.2.1, ⟨fun k' => ?_, ?_⟩⟩
  · rw [vis_signal, vis_signal, g.vis k', g.vis k]
  · rw [signal_frame, signal_frame, g.2.2.frame, g.signalled]

theorem emit_good {now : Int} {s s' : MState} (g : Good now s s') (op : FeedOp) :
    Good now (emit s op) (emit s' op) := by
  refine ⟨by rw [emit_index]; exact g.1, by rw [emit_index]; exact g.2.1, ⟨fun k' => ?_, ?_⟩⟩
  · rw [vis_emit, vis_emit, g.vis k']
  · rw [emit_frame, emit_frame, g.2.2.frame, g.listeners, g.feed]

theorem commit_good {now : Int} {s s' : MState} (g : Good now s s') :
    Good now (Api.commit s) (Api.commit s') :=
  ⟨g.1, g.2.1, ⟨fun k' => by rw [vis_commit, vis_commit, g.vis k'], g.2.2.frame⟩⟩

theorem newKeyWith_good {now : Int} {s s' : MState} (g : Good now s s') (k : Bytes) (old old' : Option Meta)
    (v : Val) : Good now (newKeyWith s k old v) (newKeyWith s' k old' v) := by
  refine ⟨sorted_newKeyWith s k old v g.1, sorted_newKeyWith s' k old' v g.2.1, ⟨fun k' => ?_, ?_⟩⟩
  · rw [vis_newKeyWith, vis_newKeyWith, g.vis k', g.nextId]
  · rw [newKeyWith_frame, newKeyWith_frame, g.2.2.frame, g.nextId]

theorem signalled_good {now : Int} {s s' : MState} (g : Good now s s') (ks : List Bytes) :
    Good now { s with signalled := ks ++ s.signalled } { s' with signalled := ks ++ s'.signalled } := by
  refine ⟨g.1, g.2.1, ⟨fun k' => ?_, ?_⟩⟩
  · rw [vis_congr now (s := { s with signalled := ks ++ s.signalled }) (s' := s) rfl rfl rfl,
      vis_congr now (s := { s' with signalled := ks ++ s'.signalled }) (s' := s') rfl rfl rfl, g.vis k']
  · have := g.2.2.frame
    simp only [frame, View.Frame.mk.injEq] at this ⊢
    obtain ⟨a, b, c, d, e, f, h, i⟩ := this
    exact ⟨a, b, c, d, e, f, by rw [h], i⟩

end NodisVerif.Proofs.C10
