import NodisVerif.Proofs.C09Table4
import NodisVerif.Proofs.C20Core
/-
  The read commands of the GEO family (GEOHASH, GEOPOS, GEODIST, GEORADIUS, GEORADIUSBYMEMBER) never
  write: the store their closure ends in is the one `readKey` returned (access counter, lock
  bookkeeping, a cold value loaded), so no watcher is signalled, no change record is emitted, and no
  key's logical content changes.
-/
namespace NodisVerif.Proofs.GeoReads
open NodisVerif NodisVerif.Store NodisVerif.Api NodisVerif.Resp
open NodisVerif.Proofs.C09Writers NodisVerif.Proofs.C20
open NodisVerif.Handler3 (Pre)
open NodisVerif.Proofs.C08Step NodisVerif.Proofs.C08Step.T3

/-- what a read leaves alone: the watch signals, the change feed (and whether a watcher is attached), and -
    up to `unchanged`: access counter, a cold value loaded - every record that is not signalled -/
def Kept (st s' : MState) : Prop := s'.signalled = st.signalled ∧ fl s' = fl st ∧ Frame [] st s'

def ReadOnly (b : Body) : Prop := ∀ st now ch, Kept st (b st now ch).store

def ReadOnlyRes : HRes → Prop
  | .exec b => ReadOnly b
  | _ => True

theorem signalled_readKey (s : MState) (now : Int) (k : Bytes) : (readKey s now k).1.signalled = s.signalled := by
  unfold readKey
  split
  · simp only
    split
    · split
      · simp only [putMeta, lockR]; split <;> rfl
      · split
        · simp only [putMeta, lockR]; split <;> rfl
        · split
          · simp only [putMeta, lockR]; split <;> rfl
          · simp only [putMeta, lockR]; split <;> rfl
    · simp only [putMeta, lockR]; split <;> rfl
  · rfl

theorem kept_readKey (st : MState) (now : Int) (key : Bytes) : Kept st (readKey st now key).1 :=
  ⟨signalled_readKey st now key, fl_readKey st now key, frame_readKey st now key⟩

set_option hygiene false in
macro "ro_body" : tactic => `(tactic|
  (intro st now ch
   show Kept st _
   dsimp only
   generalize hr : Store.readKey st now _ = r
   have h : Kept st r.1 := by rw [← hr]; exact kept_readKey _ _ _
   clear hr
   obtain ⟨s1, okk⟩ := r
   dsimp only at h ⊢
   (repeat' split) <;> exact h))

theorem ro_run {p : Pre HRes} (h : PreAll ReadOnlyRes p) : ReadOnlyRes p.run := by
  cases p with
  | ok r => exact h
  | err => trivial
  | crash => trivial
  | unsup => exact fun st _ _ => ⟨rfl, rfl, Frame.refl _ _⟩

theorem ro_geoHashH (args : List Bytes) : ReadOnlyRes (Handler4.geoHashH args) := by
  unfold Handler4.geoHashH
  split
  · show ReadOnly _
    ro_body
  · trivial

theorem ro_geoPosH (args : List Bytes) : ReadOnlyRes (Handler4.geoPosH args) := by
  unfold Handler4.geoPosH
  split
  · show ReadOnly _
    ro_body
  · trivial

theorem ro_geoDistH (args : List Bytes) : ReadOnlyRes (Handler4.geoDistH args) := by
  unfold Handler4.geoDistH
  split
  · show ReadOnly _
    ro_body
  · trivial

theorem ro_geoRadiusH (args : List Bytes) : ReadOnlyRes (Handler4.geoRadiusH args) := by
  unfold Handler4.geoRadiusH
  split
  · refine ro_run ?_
    pre_steps
    refine preAll_pure ?_
    show ReadOnly _
    ro_body
  · trivial

theorem ro_geoRadiusByMemberH (args : List Bytes) : ReadOnlyRes (Handler4.geoRadiusByMemberH args) := by
  unfold Handler4.geoRadiusByMemberH
  split
  · refine ro_run ?_
    pre_steps
    refine preAll_pure ?_
    show ReadOnly _
    ro_body
  · trivial

/-- the read commands of the GEO family -/
def geoReads : List String := ["GEOHASH", "GEOPOS", "GEODIST", "GEORADIUS", "GEORADIUSBYMEMBER"]

theorem geoReads_readOnly (name : String) (args : List Bytes) (b : Body) (hn : name ∈ geoReads)
    (h : Handler4.table4 name args = some (.exec b)) : ReadOnly b := by
  simp only [geoReads, List.mem_cons, List.not_mem_nil, or_false] at hn
  rcases hn with rfl | rfl | rfl | rfl | rfl
  · have := ro_geoHashH args
    simp only [Handler4.table4] at h; cases h' : Handler4.geoHashH args <;> rw [h'] at h this <;> cases h; exact this
  · have := ro_geoPosH args
    simp only [Handler4.table4] at h; cases h' : Handler4.geoPosH args <;> rw [h'] at h this <;> cases h; exact this
  · have := ro_geoDistH args
    simp only [Handler4.table4] at h; cases h' : Handler4.geoDistH args <;> rw [h'] at h this <;> cases h; exact this
  · have := ro_geoRadiusH args
    simp only [Handler4.table4] at h; cases h' : Handler4.geoRadiusH args <;> rw [h'] at h this <;> cases h; exact this
  · have := ro_geoRadiusByMemberH args
    simp only [Handler4.table4] at h; cases h' : Handler4.geoRadiusByMemberH args <;> rw [h'] at h this <;> cases h; exact this

/-- started as `runBody` starts every closure (no signal recorded yet), a read-only closure signals nothing, emits
    nothing and leaves every record logically as it was -/
theorem readOnly_effect {b : Body} (hb : ReadOnly b) (st : MState) (now : Int) (ch : Choice) (h0 : st.signalled = []) :
    (b st now ch).store.signalled = [] ∧ (b st now ch).store.feed = st.feed ∧
    ∀ k, unchanged (getMeta st k) (getMeta (b st now ch).store k) := by
  obtain ⟨h1, h2, h3⟩ := hb st now ch
  refine ⟨h1.trans h0, congrArg Prod.fst h2, fun k => h3.keep k (fun hd => nomatch hd) ?_⟩
  rw [h1, h0]; exact fun hd => nomatch hd

end NodisVerif.Proofs.GeoReads
