import NodisVerif.Proofs.SkiplistSpecs
/-
  `getByRank` and `getRank` of ds/zset/skiplist.go (Model/Skiplist.lean) against the chain / the list model.
-/
namespace NodisVerif.Skiplist
open NodisVerif.DsZSet (Item nodeLt)
open NodisVerif.Proofs.C04 (ILt)
open NodisVerif.Proofs.ZSetLemmas (Good itemLt_iff)

/-! ### getByRank -/

theorem condUpTo_byRank (sl : SL) (c : List Nat) (r : Int) : CondUpTo sl c (byRankCond r) r.toNat := by
  intro q n nd _ _ hq
  simp only [byRankCond]
  congr 1
  apply propext
  omega

/-- a split of a prefix of the chain is a split of the chain -/
theorem split_of_take {L : List Nat} {k : Nat} {A' : List Nat} {u' : Nat} {B' : List Nat}
    (h : L.take (k + 1) = A' ++ u' :: B') : L = A' ++ u' :: (B' ++ L.drop (k + 1)) := by
  conv => lhs; rw [← List.take_append_drop (k + 1) L, h]
  simp

theorem above_zero_of_mem {sl : SL} {c : List Nat} (hc : IsChain sl c) {y : Nat} (hy : y ∈ 0 :: c) :
    above sl.heap 0 y = true := by
  simp only [above, decide_eq_true_eq]
  rcases List.mem_cons.1 hy with rfl | hy
  · rw [hc.header]; decide
  · exact hc.hpos y hy

/-- one iteration of a level loop around `walk` -/
theorem walk_step {sl : SL} {c : List Nat} (hc : IsChain sl c) (cond : Node → Int → Bool) (k : Nat)
    (hcond : CondUpTo sl c cond k) (l : Nat) (A : List Nat) (u : Nat) (B : List Nat)
    (hsplit : 0 :: c = A ++ u :: B) (hu : above sl.heap l u = true) (hA : A.length ≤ k) :
    ∃ A' u' B' B'', (0 :: c).take (k + 1) = A' ++ u' :: B' ∧ 0 :: c = A' ++ u' :: B'' ∧ above sl.heap l u' = true ∧
      (∀ y ∈ B', above sl.heap l y = false) ∧ A.length ≤ A'.length ∧ A'.length ≤ k ∧
      (l = 0 → A'.length = min k c.length) ∧
      walk sl.heap l cond (sl.heap.length + 1) u (A.length : Int) = .ok (u', (A'.length : Int)) := by
  have hlen : A.length + 1 + B.length = c.length + 1 := by
    have := congrArg List.length hsplit; simp at this; omega
  obtain ⟨A', u', B', hP, hu', hB', hAA', hw⟩ :=
    walk_spec hc cond k hcond l A u B hsplit hu hA (sl.heap.length + 1) (by have := hc.size; omega)
  have hPl := congrArg List.length hP
  simp at hPl
  refine ⟨A', u', B', _, hP, split_of_take hP, hu', hB', hAA', by omega, ?_, hw⟩
  intro hl
  subst hl
  have : B' = [] := by
    cases B' with
    | nil => rfl
    | cons y ys =>
      have hy : y ∈ 0 :: c := by
        rw [split_of_take hP]; simp
      have := hB' y (by simp)
      rw [above_zero_of_mem hc hy] at this
      cases this
  subst this
  simp at hPl
  omega

theorem getByRankLoop_spec {sl : SL} {c : List Nat} (hc : IsChain sl c) (r : Int) :
    ∀ (l : Nat) (A : List Nat) (u : Nat) (B : List Nat), 0 :: c = A ++ u :: B → above sl.heap l u = true →
      A.length ≤ r.toNat →
      getByRankLoop sl.heap r (l + 1) u (A.length : Int) = .ok (if r < 0 then none else (0 :: c)[r.toNat]?) := by
  intro l
  induction l with
  | zero =>
    intro A u B hsplit hu hA
    obtain ⟨A', u', B', B'', hP, hsplit', hu', hB', hAA', hA', h0, hw⟩ :=
      walk_step hc (byRankCond r) r.toNat (condUpTo_byRank sl c r) 0 A u B hsplit hu hA
    have hget : (0 :: c)[A'.length]? = some u' := by rw [hsplit']; simp
    have h0 := h0 rfl
    rw [getByRankLoop, hw]
    simp only [bind, Except.bind, pure, Except.pure]
    by_cases hr : (A'.length : Int) = r
    · rw [if_pos hr]
      have : r.toNat = A'.length := by omega
      rw [this, hget, if_neg (by omega)]
    · rw [if_neg hr, getByRankLoop]
      simp only [pure, Except.pure]
      by_cases hneg : r < 0
      · rw [if_pos hneg]
      · rw [if_neg hneg]
        have : c.length < r.toNat := by omega
        simp
        omega
  | succ l ih =>
    intro A u B hsplit hu hA
    obtain ⟨A', u', B', B'', hP, hsplit', hu', hB', hAA', hA', -, hw⟩ :=
      walk_step hc (byRankCond r) r.toNat (condUpTo_byRank sl c r) (l + 1) A u B hsplit hu hA
    have hget : (0 :: c)[A'.length]? = some u' := by rw [hsplit']; simp
    rw [getByRankLoop, hw]
    simp only [bind, Except.bind, pure, Except.pure]
    by_cases hr : (A'.length : Int) = r
    · rw [if_pos hr]
      have : r.toNat = A'.length := by omega
      rw [this, hget, if_neg (by omega)]
    · rw [if_neg hr]
      apply ih A' u' B'' hsplit' _ hA'
      simp only [above, decide_eq_true_eq] at hu' ⊢
      omega

theorem getByRank_spec' {sl : SL} {c : List Nat} (hc : IsChain sl c) (r : Int) :
    getByRank sl r = .ok (if r < 0 then none else (0 :: c)[r.toNat]?) := by
  unfold getByRank
  obtain ⟨l, hl⟩ : ∃ l, sl.level = l + 1 := ⟨sl.level - 1, by have := hc.levelLo; omega⟩
  rw [hl]
  have := getByRankLoop_spec hc r l [] 0 c rfl (by
    simp only [above, decide_eq_true_eq]; rw [hc.header]; have := hc.levelHi; omega) (by simp)
  simpa using this

/-- `getByRank(r)`: `r = 0` → the header (index 0), `1 ≤ r ≤ length` → node `r` of the chain, otherwise nil -/
theorem getByRank_spec {sl : SL} {c : List Nat} (hc : IsChain sl c) (r : Int) :
    getByRank sl r = .ok (if r < 0 then none else if r = 0 then some 0 else c[r.toNat - 1]?) := by
  rw [getByRank_spec' hc r]
  by_cases hneg : r < 0
  · simp [hneg]
  · by_cases h0 : r = 0
    · simp [h0]
    · obtain ⟨n, hn⟩ : ∃ n, r.toNat = n + 1 := ⟨r.toNat - 1, by omega⟩
      simp [hneg, h0, hn]

/-! ### getRank -/

/-- the loop condition of `getRank` on items -/
def rankP (m : Bytes) (s : F64) (n : Item) : Bool := F64.lt n.1 s || (F64.eq n.1 s && Bytes.le n.2 m)

theorem rankP_nan (m : Bytes) (s : F64) (n : Item) (hs : F64.isNaN s = true) : rankP m s n = false := by
  simp [rankP, F64.lt, F64.eq, hs]

theorem rankP_iff (m : Bytes) (s : F64) (n : Item) (hs : F64.isNaN s = false) (hn : Good n) :
    rankP m s n = true ↔ F64.key n.1 < F64.key s ∨ (F64.key n.1 = F64.key s ∧ Bytes.lt m n.2 = false) := by
  unfold Good at hn
  simp [rankP, F64.lt, F64.eq, Bytes.le, hs, hn]

/-- the condition is downward closed along the sorted chain -/
theorem rankP_down (m : Bytes) (s : F64) (a b : Item) (ha : Good a) (hb : Good b) (hab : ILt a b)
    (hpb : rankP m s b = true) : rankP m s a = true := by
  cases hs : F64.isNaN s with
  | true => rw [rankP_nan m s b hs] at hpb; cases hpb
  | false =>
    rw [rankP_iff m s _ hs hb] at hpb
    rw [rankP_iff m s _ hs ha]
    have hab' := (itemLt_iff a b ha hb).1 hab
    rcases hab' with h1 | ⟨h1, h1'⟩ <;> rcases hpb with h2 | ⟨h2, h2'⟩
    · left; omega
    · left; omega
    · left; omega
    · right
      refine ⟨by omega, ?_⟩
      cases h : Bytes.lt m a.2 with
      | false => rfl
      | true =>
        have := NodisVerif.Proofs.AListLemmas.lt_trans _ _ _ h h1'
        rw [this] at h2'; cases h2'

theorem takeWhile_index {α : Type} (R : α → α → Prop) (p : α → Bool) (hdown : ∀ a b, R a b → p b = true → p a = true) :
    ∀ (L : List α), L.Pairwise R → ∀ (j : Nat) (x : α), L[j]? = some x →
      p x = decide (j < (L.takeWhile p).length) := by
  intro L
  induction L with
  | nil => intro _ j x h; simp at h
  | cons a L ih =>
    intro hpw j x hx
    rw [List.pairwise_cons] at hpw
    cases hpa : p a with
    | true =>
      rw [List.takeWhile_cons, if_pos hpa]
      cases j with
      | zero => simp at hx; subst hx; simp [hpa]
      | succ j =>
        simp at hx
        rw [ih hpw.2 j x hx]
        simp
    | false =>
      rw [List.takeWhile_cons, if_neg (by simp [hpa])]
      simp
      cases j with
      | zero => simp at hx; subst hx; exact hpa
      | succ j =>
        simp at hx
        cases hpx : p x with
        | false => rfl
        | true =>
          have := hdown a x (hpw.1 x (List.mem_of_getElem? hx)) hpx
          rw [this] at hpa; cases hpa


theorem heap_of_mem {sl : SL} {c : List Nat} (hc : IsChain sl c) {y : Nat} (hy : y ∈ 0 :: c) :
    ∃ nd, sl.heap[y]? = some nd := by
  have : y < sl.heap.length := by
    rcases List.mem_cons.1 hy with rfl | hy
    · have := hc.size; omega
    · exact hc.bound y hy
  exact ⟨sl.heap[y], by simp [this]⟩

theorem pos_zero_iff {sl : SL} {c : List Nat} (hc : IsChain sl c) {q u : Nat} (h : (0 :: c)[q]? = some u) :
    u = 0 ↔ q = 0 := by
  have hnd := hc.nodup
  rw [List.nodup_cons] at hnd
  cases q with
  | zero => simp at h; simp [h]
  | succ q =>
    simp at h
    have : u ∈ c := List.mem_of_getElem? h
    constructor
    · intro h0; subst h0; exact absurd this hnd.1
    · intro h0; cases h0

/-- the level loop of `getRank`, abstractly: the walk condition holds exactly on positions `1..k`, `E` is the
    expected result -/
theorem getRankLoop_spec {sl : SL} {c : List Nat} (hc : IsChain sl c) (m : Bytes) (s : F64) (k : Nat) (E : Int)
    (hcond : CondUpTo sl c (rankCond m s) k) (hk : k ≤ c.length)
    (hE1 : ∀ q n nd, 1 ≤ q → q ≤ k → (0 :: c)[q]? = some n → sl.heap[n]? = some nd → nd.member = m →
      q = k ∧ E = (k : Int))
    (hE0 : k = 0 → E = 0)
    (hE0' : ∀ n nd, 1 ≤ k → (0 :: c)[k]? = some n → sl.heap[n]? = some nd → nd.member ≠ m → E = 0) :
    ∀ (l : Nat) (A : List Nat) (u : Nat) (B : List Nat), 0 :: c = A ++ u :: B → above sl.heap l u = true →
      A.length ≤ k → getRankLoop sl.heap m s (l + 1) u (A.length : Int) = .ok E := by
  intro l
  induction l with
  | zero =>
    intro A u B hsplit hu hA
    obtain ⟨A', u', B', B'', hP, hsplit', hu', hB', hAA', hA', h0, hw⟩ :=
      walk_step hc (rankCond m s) k hcond 0 A u B hsplit hu hA
    have hget : (0 :: c)[A'.length]? = some u' := by rw [hsplit']; simp
    obtain ⟨nd, hnd⟩ := heap_of_mem hc (List.mem_of_getElem? hget)
    have hz := pos_zero_iff hc hget
    have h0 := h0 rfl
    rw [getRankLoop, hw]
    simp only [bind, Except.bind, pure, Except.pure, (getNode_ok_iff _ _ _).2 hnd]
    by_cases ht : u' ≠ 0 ∧ nd.member = m
    · rw [if_pos ht]
      have := hE1 A'.length u' nd (by omega) hA' hget hnd ht.2
      rw [this.2, this.1]
    · rw [if_neg ht, getRankLoop]
      simp only [pure, Except.pure]
      congr 1
      apply Eq.symm
      by_cases hk0 : k = 0
      · exact hE0 hk0
      · have hAk : A'.length = k := by omega
        rw [hAk] at hget
        apply hE0' u' nd (by omega) hget hnd
        intro hm
        apply ht
        refine ⟨?_, hm⟩
        intro hu0
        have := hz.1 hu0
        omega
  | succ l ih =>
    intro A u B hsplit hu hA
    obtain ⟨A', u', B', B'', hP, hsplit', hu', hB', hAA', hA', -, hw⟩ :=
      walk_step hc (rankCond m s) k hcond (l + 1) A u B hsplit hu hA
    have hget : (0 :: c)[A'.length]? = some u' := by rw [hsplit']; simp
    obtain ⟨nd, hnd⟩ := heap_of_mem hc (List.mem_of_getElem? hget)
    have hz := pos_zero_iff hc hget
    rw [getRankLoop, hw]
    simp only [bind, Except.bind, pure, Except.pure, (getNode_ok_iff _ _ _).2 hnd]
    by_cases ht : u' ≠ 0 ∧ nd.member = m
    · rw [if_pos ht]
      have := hE1 A'.length u' nd (by omega) hA' hget hnd ht.2
      rw [this.2, this.1]
    · rw [if_neg ht]
      apply ih A' u' B'' hsplit' _ hA'
      simp only [above, decide_eq_true_eq] at hu' ⊢
      omega


theorem itemAt_eq {h : List Node} {n : Nat} {nd : Node} (hn : h[n]? = some nd) : itemAt h n = nd.item := by
  simp [itemAt, hn]

/-- chain positions and the abstract list -/
theorem items_getElem? {sl : SL} {c : List Nat} {q n : Nat} {nd : Node} (hq : (0 :: c)[q + 1]? = some n)
    (hn : sl.heap[n]? = some nd) : (c.map (itemAt sl.heap))[q]? = some nd.item := by
  simp at hq
  simp [hq, itemAt_eq hn]

theorem slGetRank_eq (L : List Item) (m : Bytes) (s : F64) :
    DsZSet.slGetRank L m s =
      match (L.takeWhile (rankP m s)).getLast? with
      | some n => if n.2 = m then ((L.takeWhile (rankP m s)).length : Int) else 0
      | none => 0 := rfl

theorem takeWhile_getLast? {α : Type} (p : α → Bool) (L : List α) :
    (L.takeWhile p).getLast? = if (L.takeWhile p).length = 0 then none else L[(L.takeWhile p).length - 1]? := by
  have hpre : L.takeWhile p = L.take (L.takeWhile p).length := List.prefix_iff_eq_take.1 (List.takeWhile_prefix p)
  rw [List.getLast?_eq_getElem?]
  by_cases h0 : (L.takeWhile p).length = 0
  · rw [if_pos h0]; simp [List.length_eq_zero_iff.1 h0]
  · rw [if_neg h0]
    conv => lhs; rw [hpre]
    rw [List.getElem?_take]
    rw [← hpre, if_pos (by omega)]

theorem condUpTo_rank {sl : SL} {c : List Nat} (hc : IsChain sl c) (m : Bytes) (s : F64) :
    CondUpTo sl c (rankCond m s) ((c.map (itemAt sl.heap)).takeWhile (rankP m s)).length := by
  intro q n nd hq hn h1
  obtain ⟨q, rfl⟩ : ∃ q', q = q' + 1 := ⟨q - 1, by omega⟩
  have hL := items_getElem? hq hn
  have hpw : (c.map (itemAt sl.heap)).Pairwise (fun a b => Good a ∧ Good b ∧ ILt a b) := by
    apply List.Pairwise.imp_of_mem _ hc.sorted
    intro a b ha hb hab
    rw [List.mem_map] at ha hb
    obtain ⟨x, hx, rfl⟩ := ha
    obtain ⟨y, hy, rfl⟩ := hb
    exact ⟨hc.good x hx, hc.good y hy, hab⟩
  have := takeWhile_index _ (rankP m s) (fun a b hab => rankP_down m s a b hab.1 hab.2.1 hab.2.2) _ hpw q _ hL
  show rankP m s nd.item = _
  rw [this]
  congr 1

theorem mem_dropLast_takeWhile {α : Type} (p : α → Bool) (L : List α) (j : Nat) (x : α) (hx : L[j]? = some x)
    (hj : j + 1 < (L.takeWhile p).length) : x ∈ (L.takeWhile p).dropLast := by
  have hpre : L.takeWhile p = L.take (L.takeWhile p).length := List.prefix_iff_eq_take.1 (List.takeWhile_prefix p)
  apply List.mem_of_getElem? (i := j)
  rw [List.dropLast_eq_take, List.getElem?_take, if_pos (by omega), hpre, List.getElem?_take, if_pos (by omega), hx]

/-- `getRank` against the list model. Hypothesis: no node of the walked prefix (the nodes with
    `(score, member) ≤ (s, m)`, `k` of them) other than its last one has member `m`. This is the weakest condition
    on the abstract list: a node violating it returns its own position as soon as it is tall enough to be the
    stopping node of a level (see `getRank_needs_score` / `getRank_needs_uniq` in SkiplistRankEx.lean). -/
theorem getRank_spec_idx {sl : SL} (h : Inv sl) (m : Bytes) (s : F64)
    (hpre : ∀ j x, j + 1 < ((abs sl).takeWhile (rankP m s)).length → (abs sl)[j]? = some x → x.2 ≠ m) :
    getRank sl m s = .ok (DsZSet.slGetRank (abs sl) m s) := by
  obtain ⟨c, hc⟩ := h
  rw [abs_eq hc] at hpre ⊢
  have hgl := takeWhile_getLast? (rankP m s) (c.map (itemAt sl.heap))
  have hE := slGetRank_eq (c.map (itemAt sl.heap)) m s
  have hcond := condUpTo_rank hc m s
  have hk : ((c.map (itemAt sl.heap)).takeWhile (rankP m s)).length ≤ c.length := by
    have := (List.takeWhile_prefix (rankP m s) (l := c.map (itemAt sl.heap))).length_le; simpa using this
  generalize (c.map (itemAt sl.heap)).takeWhile (rankP m s) = pre at *
  generalize DsZSet.slGetRank (c.map (itemAt sl.heap)) m s = E at *
  unfold getRank
  obtain ⟨l, hl⟩ : ∃ l, sl.level = l + 1 := ⟨sl.level - 1, by have := hc.levelLo; omega⟩
  rw [hl]
  have := getRankLoop_spec hc m s pre.length E hcond hk ?_ ?_ ?_ l [] 0 c rfl (by
    simp only [above, decide_eq_true_eq]; rw [hc.header]; have := hc.levelHi; omega) (by simp)
  · simpa using this
  · intro q n nd h1 hq hqn hn hm
    obtain ⟨q, rfl⟩ : ∃ q', q = q' + 1 := ⟨q - 1, by omega⟩
    have hL := items_getElem? hqn hn
    have hqk : q + 1 = pre.length := by
      by_cases hlt : q + 1 < pre.length
      · exact absurd hm (hpre q _ hlt hL)
      · omega
    refine ⟨hqk, ?_⟩
    rw [hE, hgl, if_neg (by omega), ← hqk]
    simp [hL, Node.item, hm]
  · intro h0
    rw [hE, hgl, if_pos h0]
  · intro n nd h1 hqn hn hm
    obtain ⟨q, hq⟩ : ∃ q', pre.length = q' + 1 := ⟨pre.length - 1, by omega⟩
    rw [hq] at hqn
    have hL := items_getElem? hqn hn
    rw [hE, hgl, if_neg (by omega), hq]
    simp [hL, Node.item, hm]

/-- the same with the hypothesis on the prefix as a list -/
theorem getRank_spec_of_prefix {sl : SL} (h : Inv sl) (m : Bytes) (s : F64)
    (hpre : ∀ x ∈ ((abs sl).takeWhile (rankP m s)).dropLast, x.2 ≠ m) :
    getRank sl m s = .ok (DsZSet.slGetRank (abs sl) m s) :=
  getRank_spec_idx h m s fun j x hj hx => hpre x (mem_dropLast_takeWhile _ _ j x hx hj)

theorem pairwise_getElem? {α : Type} {R : α → α → Prop} {l : List α} (h : l.Pairwise R) {i j : Nat} {a b : α}
    (ha : l[i]? = some a) (hb : l[j]? = some b) (hij : i < j) : R a b := by
  obtain ⟨hi, rfl⟩ := List.getElem?_eq_some_iff.1 ha
  obtain ⟨hj, rfl⟩ := List.getElem?_eq_some_iff.1 hb
  exact List.pairwise_iff_getElem.1 h i j hi hj hij

/-- a node with member `m` and the score `s` ends the walked prefix -/
theorem rankP_after (m : Bytes) (s : F64) (x y : Item) (hx : Good x) (hy : Good y) (hxy : ILt x y)
    (hm : x.2 = m) (hs : F64.eq x.1 s = true) : rankP m s y = false := by
  have hsn : F64.isNaN s = false := by
    simp [F64.eq] at hs; exact hs.1.2
  have hkey : F64.key x.1 = F64.key s := by
    simp [F64.eq] at hs; exact hs.2
  cases hp : rankP m s y with
  | false => rfl
  | true =>
    rw [rankP_iff m s y hsn hy] at hp
    have := (itemLt_iff x y hx hy).1 hxy
    rw [hm] at this
    rcases this with h1 | ⟨h1, h1'⟩ <;> rcases hp with h2 | ⟨h2, h2'⟩
    · omega
    · omega
    · omega
    · rw [h1'] at h2'; cases h2'

theorem rankP_self (m : Bytes) (s : F64) (hs : F64.isNaN s = false) : rankP m s (s, m) = true := by
  simp [rankP, F64.eq, hs, Bytes.le, NodisVerif.Proofs.AListLemmas.lt_irrefl]

theorem abs_sorted {sl : SL} (h : Inv sl) : (abs sl).Pairwise ILt := by
  obtain ⟨c, hc⟩ := h
  rw [abs_eq hc]; exact hc.sorted

theorem abs_good {sl : SL} (h : Inv sl) : ∀ x ∈ abs sl, Good x := by
  obtain ⟨c, hc⟩ := h
  rw [abs_eq hc]
  intro x hx
  rw [List.mem_map] at hx
  obtain ⟨n, hn, rfl⟩ := hx
  exact hc.good n hn

/-- the walk condition of `getRank` holds exactly on the first `k` nodes -/
theorem rankP_index {sl : SL} (h : Inv sl) (m : Bytes) (s : F64) (j : Nat) (x : Item) (hx : (abs sl)[j]? = some x) :
    rankP m s x = decide (j < ((abs sl).takeWhile (rankP m s)).length) := by
  have hpw : (abs sl).Pairwise (fun a b => Good a ∧ Good b ∧ ILt a b) := by
    apply List.Pairwise.imp_of_mem _ (abs_sorted h)
    intro a b ha hb hab
    exact ⟨abs_good h a ha, abs_good h b hb, hab⟩
  exact takeWhile_index _ (rankP m s) (fun a b hab => rankP_down m s a b hab.1 hab.2.1 hab.2.2) _ hpw j x hx

/-- no node with member `m` and score `s` lies strictly inside the walked prefix -/
theorem no_inner {sl : SL} (h : Inv sl) (m : Bytes) (s : F64) (j : Nat) (x : Item)
    (hj : j + 1 < ((abs sl).takeWhile (rankP m s)).length) (hx : (abs sl)[j]? = some x)
    (hm : x.2 = m) (hs : F64.eq x.1 s = true) : False := by
  have hle := (List.takeWhile_prefix (rankP m s) (l := abs sl)).length_le
  have hj1 : j + 1 < (abs sl).length := by omega
  have hy : (abs sl)[j + 1]? = some (abs sl)[j + 1] := by simp [hj1]
  have h1 := rankP_index h m s (j + 1) _ hy
  have hxy : ILt x (abs sl)[j + 1] := pairwise_getElem? (abs_sorted h) hx hy (by omega)
  have h2 := rankP_after m s x _ (abs_good h x (List.mem_of_getElem? hx)) (abs_good h _ (List.mem_of_getElem? hy))
    hxy hm hs
  rw [h2] at h1
  simp at h1
  omega

/-- `getRank(m, s)` when `s` is the score stored for `m` (this is how `SortedSet` calls it: the score comes
    from its dictionary). Uniqueness of members is not needed for the equation. -/
theorem getRank_spec_of_score {sl : SL} (h : Inv sl) (m : Bytes) (s : F64)
    (hscore : ∀ x ∈ abs sl, x.2 = m → F64.eq x.1 s = true) :
    getRank sl m s = .ok (DsZSet.slGetRank (abs sl) m s) :=
  getRank_spec_idx h m s fun j x hj hx hm =>
    no_inner h m s j x hj hx hm (hscore x (List.mem_of_getElem? hx) hm)

/-- the statement asked for, with the additional hypothesis `hscore` (`huniq` alone is not enough, see
    `getRank_needs_score` in SkiplistRankEx.lean; with `hscore` it is not used) -/
theorem getRank_spec {sl : SL} (h : Inv sl) (m : Bytes) (s : F64)
    (_huniq : ((abs sl).map (·.2)).Nodup)
    (hscore : ∀ x ∈ abs sl, x.2 = m → F64.eq x.1 s = true) :
    getRank sl m s = .ok (DsZSet.slGetRank (abs sl) m s) :=
  getRank_spec_of_score h m s hscore

/-- if `(s, m)` is node `j` (0-based) of the chain and no earlier node has member `m`, the rank is `j + 1` -/
theorem getRank_of_index {sl : SL} (h : Inv sl) (m : Bytes) (s : F64) (j : Nat)
    (hj : (abs sl)[j]? = some (s, m))
    (hfirst : ∀ i x, i < j → (abs sl)[i]? = some x → x.2 ≠ m) :
    getRank sl m s = .ok ((j : Int) + 1) := by
  have hgood : F64.isNaN s = false := by
    have hg : Good (s, m) := abs_good h (s, m) (List.mem_of_getElem? hj)
    unfold Good at hg
    exact hg
  have hss : F64.eq s s = true := by simp [F64.eq, hgood]
  have hjk : j < ((abs sl).takeWhile (rankP m s)).length := by
    have := rankP_index h m s j _ hj
    rw [rankP_self m s hgood] at this
    simpa using this.symm
  have hk : ((abs sl).takeWhile (rankP m s)).length = j + 1 := by
    by_cases hlt : j + 1 < ((abs sl).takeWhile (rankP m s)).length
    · exact (no_inner h m s j _ hlt hj rfl hss).elim
    · omega
  rw [getRank_spec_idx h m s]
  · rw [slGetRank_eq, takeWhile_getLast?, hk]
    simp [hj]
  · intro i x hi hx
    exact hfirst i x (by omega) hx

/-- with unique members: the position of `(s, m)` -/
theorem getRank_of_index_uniq {sl : SL} (h : Inv sl) (m : Bytes) (s : F64) (j : Nat)
    (huniq : ((abs sl).map (·.2)).Nodup) (hj : (abs sl)[j]? = some (s, m)) :
    getRank sl m s = .ok ((j : Int) + 1) := by
  apply getRank_of_index h m s j hj
  intro i x hi hx hm
  have h1 : ((abs sl).map (·.2))[i]? = some m := by simp [hx, hm]
  have h2 : ((abs sl).map (·.2))[j]? = some m := by simp [hj]
  have := (List.getElem?_inj (List.getElem?_eq_some_iff.1 h1).1 huniq).1 (h1.trans h2.symm)
  omega

end NodisVerif.Skiplist
