import NodisVerif.Proofs.C20Finds
import NodisVerif.Proofs.C15Decimal
/-
  C20, ZUnionStore / ZInterStore: concrete runs (non-vacuity of the hypotheses, the shapes of the
  records) and the witness for the NaN region.
-/
namespace NodisVerif.Proofs.C20
open NodisVerif NodisVerif.Store NodisVerif.Spec.Persist NodisVerif.Proofs.C11

/-! ### running the aggregate (`Bytes.ofString` does not reduce in the kernel) -/

/-- `Api.aggregate` with the option words as byte literals -/
def aggregateL (agg : Bytes) (weight : F64) (acc : AList F64) (it : DsZSet.Item) : Option (AList F64) :=
  let (sc, m) := it
  let ws := F64.mul sc weight
  let isSum := agg = [83, 85, 77] ∨ agg.isEmpty
  let isMin := agg = [77, 73, 78]
  let isMax := agg = [77, 65, 88]
  match AList.get? acc m with
  | none => if isSum ∨ isMin ∨ isMax then some (AList.set acc m ws) else some acc
  | some cur =>
    if isSum then some (AList.set acc m (F64.add cur ws))
    else if isMin then some (if F64.lt ws cur then AList.set acc m ws else acc)
    else if isMax then some (if F64.gt ws cur then AList.set acc m ws else acc)
    else some acc

theorem aggregate_lit : Api.aggregate = aggregateL := by
  funext agg weight acc it
  unfold Api.aggregate aggregateL
  have h1 : Bytes.ofString "SUM" = [83, 85, 77] := by rw [NodisVerif.Proofs.C15.ofString_ascii _ (by decide)]; decide
  have h2 : Bytes.ofString "MIN" = [77, 73, 78] := by rw [NodisVerif.Proofs.C15.ofString_ascii _ (by decide)]; decide
  have h3 : Bytes.ofString "MAX" = [77, 65, 88] := by rw [NodisVerif.Proofs.C15.ofString_ascii _ (by decide)]; decide
  rw [h1, h2, h3]
  rfl

/-! ### states reached through the API satisfy the hypotheses -/

/-- a drained primary after one more covered call is again a legitimate primary (and its own replica) -/
theorem drained_ok (c : Call) (hwf : c.WF) {now : Int} {p : MState} (hs : Same now p p) (hl : p.listeners = true)
    (hfd : p.feed = []) (hreg : ¬ c.Region (lookup p now)) :
    Same now (drain (c.run p now).1) (drain (c.run p now).1) ∧ (drain (c.run p now).1).listeners = true ∧
    (drain (c.run p now).1).feed = [] := by
  obtain ⟨⟨r', _, s⟩, hl1⟩ := call_main c hwf hs hl hfd hreg
  have s1 := s.drain
  exact ⟨⟨s1.invP, s1.invP, rfl, s1.nonil⟩, (drain_feed _).2.trans hl1, (drain_feed _).1⟩

theorem w0_ok : Same 0 w0 w0 ∧ w0.listeners = true ∧ w0.feed = [] := by
  have h0 := same_empty false false 0
  exact ⟨⟨h0.invP, h0.invP, rfl, h0.nonil⟩, rfl, rfl⟩

theorem wZSet_ok : Same 0 wZSet wZSet ∧ wZSet.listeners = true ∧ wZSet.feed = [] :=
  drained_ok (.zadd [107] [109] 0x3ff0000000000000) ⟨by decide, by decide⟩ w0_ok.1 w0_ok.2.1 w0_ok.2.2 (fun h => h)

/-- k = {m: 1.0}, l = {m: 2.0} -/
def wZ2 : MState := drain (Api.zadd wZSet 0 [108] [109] 0x4000000000000000).1
/-- k = {m: 1.0}, l = {n: 2.0} -/
def wZ3 : MState := drain (Api.zadd wZSet 0 [108] [110] 0x4000000000000000).1
/-- k = {m: +inf} -/
def wInf : MState := drain (Api.zadd w0 0 [107] [109] 0x7FF0000000000000).1

theorem wZ2_ok : Same 0 wZ2 wZ2 ∧ wZ2.listeners = true ∧ wZ2.feed = [] :=
  drained_ok (.zadd [108] [109] 0x4000000000000000) ⟨by decide, by decide⟩ wZSet_ok.1 wZSet_ok.2.1 wZSet_ok.2.2
    (fun h => h)
theorem wZ3_ok : Same 0 wZ3 wZ3 ∧ wZ3.listeners = true ∧ wZ3.feed = [] :=
  drained_ok (.zadd [108] [110] 0x4000000000000000) ⟨by decide, by decide⟩ wZSet_ok.1 wZSet_ok.2.1 wZSet_ok.2.2
    (fun h => h)
theorem wInf_ok : Same 0 wInf wInf ∧ wInf.listeners = true ∧ wInf.feed = [] :=
  drained_ok (.zadd [107] [109] 0x7FF0000000000000) ⟨by decide, by decide⟩ w0_ok.1 w0_ok.2.1 w0_ok.2.2 (fun h => h)
theorem wStr_ok : Same 0 wStr wStr ∧ wStr.listeners = true ∧ wStr.feed = [] :=
  drained_ok (.set [107] [118] false) trivial w0_ok.1 w0_ok.2.1 w0_ok.2.2 (fun h => h)

/-! ### ZUNIONSTORE d 2 k l (SUM, default weights) -/

theorem core_wZ2 : zcoreSpec true (lookup wZ2 0) [[107], [108]] [] [] = some (some [(0x4008000000000000, [109])]) := by
  unfold zcoreSpec
  have hz : [[107], [108]].zipIdx = [(([107] : Bytes), 0), ([108], 1)] := by decide
  simp only [if_true, hz, unionGo, aggregate_lit]
  decide

theorem zunionStore_example :
    logical wZ2 0 = [([107], .zset ⟨[([109], 0x3ff0000000000000)], [(0x3ff0000000000000, [109])]⟩, 0),
                     ([108], .zset ⟨[([109], 0x4000000000000000)], [(0x4000000000000000, [109])]⟩, 0)] ∧
    ¬ (Call.zunionStore [100] [[107], [108]] [] []).Region (lookup wZ2 0) ∧
    Feed.emission (Call.zunionStore [100] [[107], [108]] [] []).info
        ((Call.zunionStore [100] [[107], [108]] [] []).run wZ2 0).2
        ((Call.zunionStore [100] [[107], [108]] [] []).run wZ2 0).1.feed.reverse =
      [{ typ := 34, key := [100], args := [Bytes.toHex [], Bytes.toHex [107], Bytes.toHex [108], "|"] }] ∧
    lookup ((Call.zunionStore [100] [[107], [108]] [] []).run wZ2 0).1 0 [100] =
      some (.zset ⟨[([109], 0x4008000000000000)], [(0x4008000000000000, [109])]⟩, 0) := by
  have hreg : ¬ ZStoreNaN (lookup wZ2 0) true [[107], [108]] [] [] := by
    unfold ZStoreNaN zstoreNaN; rw [core_wZ2]; decide
  obtain ⟨_, lk, f⟩ := zstore_look true wZ2_ok.1.invP [100] [[107], [108]] [] [] _ core_wZ2
    (noNaN_of_not_region hreg core_wZ2)
  have f := f wZ2_ok.2.1
  refine ⟨by decide, hreg, ?_, ?_⟩
  · show Feed.emission _ _ (Api.zstore true wZ2 0 [100] [[107], [108]] [] []).1.feed.reverse = _
    have : (Api.zstore true wZ2 0 [100] [[107], [108]] [] []).1.feed = _ := congrArg Prod.fst f
    rw [this, wZ2_ok.2.2]
    exact emission_zstoreOp (c := (Call.zunionStore [100] [[107], [108]] [] []).info) (Or.inl rfl) _ true [100] _
  · show lookup (Api.zstore true wZ2 0 [100] [[107], [108]] [] []).1 0 [100] = _
    rw [lk, upd_same]
    decide

/-! ### ZINTERSTORE k 2 k l with disjoint operands: empty result, the destination (an operand) goes -/

theorem core_wZ3 : zcoreSpec false (lookup wZ3 0) [[107], [108]] [] [] = some (some []) := by
  unfold zcoreSpec
  have hz : [[107], [108]].zipIdx = [(([107] : Bytes), 0), ([108], 1)] := by decide
  simp only [Bool.false_eq_true, if_false, hz, interGo]
  decide

theorem zinterStore_empty_example :
    ¬ (Call.zinterStore [107] [[107], [108]] [] []).Region (lookup wZ3 0) ∧
    Feed.emission (Call.zinterStore [107] [[107], [108]] [] []).info
        ((Call.zinterStore [107] [[107], [108]] [] []).run wZ3 0).2
        ((Call.zinterStore [107] [[107], [108]] [] []).run wZ3 0).1.feed.reverse = [{ typ := 2, key := [107] }] ∧
    (lookup wZ3 0 [107]).isSome = true ∧
    lookup ((Call.zinterStore [107] [[107], [108]] [] []).run wZ3 0).1 0 [107] = none := by
  have hreg : ¬ ZStoreNaN (lookup wZ3 0) false [[107], [108]] [] [] := by
    unfold ZStoreNaN zstoreNaN; rw [core_wZ3]; decide
  obtain ⟨_, lk, f⟩ := zstore_look false wZ3_ok.1.invP [107] [[107], [108]] [] [] _ core_wZ3
    (noNaN_of_not_region hreg core_wZ3)
  have f := f wZ3_ok.2.1
  refine ⟨hreg, ?_, by decide, ?_⟩
  · show Feed.emission _ _ (Api.zstore false wZ3 0 [107] [[107], [108]] [] []).1.feed.reverse = _
    have : (Api.zstore false wZ3 0 [107] [[107], [108]] [] []).1.feed = _ := congrArg Prod.fst f
    rw [this, wZ3_ok.2.2]
    exact emission_zstoreOp (c := (Call.zinterStore [107] [[107], [108]] [] []).info) (Or.inr rfl) _ false [107] _
  · show lookup (Api.zstore false wZ3 0 [107] [[107], [108]] [] []).1 0 [107] = _
    rw [lk, upd_same]
    rfl

/-! ### an operand of another type: the call fails, nothing emitted, nothing changed -/

theorem core_wStr : zcoreSpec true (lookup wStr 0) [[107]] [] [] = none := by
  unfold zcoreSpec
  have hz : [[107]].zipIdx = [(([107] : Bytes), 0)] := by decide
  simp only [if_true, hz, unionGo]
  decide

theorem zunionStore_wrongtype_example :
    ((Call.zunionStore [100] [[107]] [] []).run wStr 0).1.feed = [] ∧
    ∀ k, lookup ((Call.zunionStore [100] [[107]] [] []).run wStr 0).1 0 k = lookup wStr 0 k := by
  have kept := zstore_fails true wStr_ok.1.invP [100] [[107]] [] [] (Or.inl core_wStr)
  exact ⟨(congrArg Prod.fst kept.fl).trans wStr_ok.2.2, kept.look⟩

/-! ### the NaN region: +inf · 0 -/

theorem core_wInf : zcoreSpec true (lookup wInf 0) [[107]] [0] [] = some (some [(F64.qnan, [109])]) := by
  unfold zcoreSpec
  have hz : [[107]].zipIdx = [(([107] : Bytes), 0)] := by decide
  simp only [if_true, hz, unionGo, aggregate_lit]
  decide

/-- ZUNIONSTORE d 1 k WEIGHTS 0 where k holds a member with score +inf: the destination gets the
    score NaN.  The storage invariant (`StoreInv`: every sorted set is NaN-free, C04 / C11) fails on
    the primary afterwards, so `Same` — which includes the invariant on both sides — cannot hold
    for any replica. -/
theorem zstore_nan_finding :
    (Call.zunionStore [100] [[107]] [0] []).Region (lookup wInf 0) ∧
    lookup ((Call.zunionStore [100] [[107]] [0] []).run wInf 0).1 0 [100] =
      some (.zset ⟨[([109], F64.qnan)], [(F64.qnan, [109])]⟩, 0) ∧
    ¬ StoreInv ((Call.zunionStore [100] [[107]] [0] []).run wInf 0).1 0 ∧
    ∀ r, ¬ Replay 0 r (Call.zunionStore [100] [[107]] [0] []).info ((Call.zunionStore [100] [[107]] [0] []).run wInf 0) := by
  have hreg : ZStoreNaN (lookup wInf 0) true [[107]] [0] [] := by
    unfold ZStoreNaN zstoreNaN; rw [core_wInf]; decide
  obtain ⟨_, lk, _⟩ := zstore_look' true wInf_ok.1.invP [100] [[107]] [0] [] _ core_wInf
  have hlook : lookup (Api.zstore true wInf 0 [100] [[107]] [0] []).1 0 [100] =
      some (.zset ⟨[([109], F64.qnan)], [(F64.qnan, [109])]⟩, 0) := by
    rw [lk, upd_same]; decide
  have hinv : ¬ StoreInv (Api.zstore true wInf 0 [100] [[107]] [0] []).1 0 := by
    intro hi
    have hg := lookup_good hi hlook
    have := hg.1.noNaN [109] F64.qnan (by simp)
    revert this; decide
  exact ⟨hreg, hlook, hinv, fun r ⟨_, _, s⟩ => hinv s.invP⟩

end NodisVerif.Proofs.C20
