import NodisVerif.Proofs.SkiplistRank
/-
  `getByRank` against the list model, and concrete skiplists (built by `insert`, satisfying `Inv`) on which
  `getRank` differs from the list model `slGetRank` when the hypotheses of `getRank_spec` are dropped.
-/
namespace NodisVerif.Skiplist
open NodisVerif.DsZSet (Item nodeLt)
open NodisVerif.Proofs.C04 (ILt)
open NodisVerif.Proofs.ZSetLemmas (Good)

/-! ### getByRank and the cursor of the list model -/

theorem cursorAt_cur (L : List Item) (i : Nat) : (DsZSet.cursorAt L i).map (·.cur) = L[i]? := by
  unfold DsZSet.cursorAt
  have := List.head?_drop (l := L) (i := i)
  split
  · next h => rw [h] at this; simp at this; simp [this]
  · next x f h => rw [h] at this; simp at this; simp [← this]

/-- for `r ≠ 0` the node returned by `getByRank` carries the item of the list model's cursor
    (for `r = 0` both are the header: `getByRank_spec` gives `some 0`, the model `isHeader := true`) -/
theorem getByRank_item {sl : SL} {c : List Nat} (hc : IsChain sl c) (r : Int) (hr : r ≠ 0) :
    ∃ o, getByRank sl r = .ok o ∧ o.map (itemAt sl.heap) = (DsZSet.getByRank (abs sl) r).map (·.cur) := by
  refine ⟨_, getByRank_spec hc r, ?_⟩
  rw [abs_eq hc]
  unfold DsZSet.getByRank
  by_cases hneg : r < 0
  · simp [hneg]
  · simp only [if_neg hneg, if_neg hr, cursorAt_cur]
    simp

/-! ### counterexamples for `getRank` -/

def f1 : F64 := 0x3FF0000000000000   -- 1.0
def f2 : F64 := 0x4000000000000000   -- 2.0
def f5 : F64 := 0x4014000000000000   -- 5.0

/-- insert ("m", 1.0) with height 2, then ("x", 2.0) with height 1 -/
def exA : M SL := do
  let a ← insert makeSkiplist [109] f1 2
  insert a [120] f2 1


/-- the same keys, heights 2 and 1, but both nodes carry member "m" (impossible under `SortedSet`) -/
def exB : M SL := do
  let a ← insert makeSkiplist [109] f1 2
  insert a [109] f2 1

def hdr (l : Level) : Node :=
  { score := 0, member := [], backward := none, level := l :: l :: List.replicate 14 {} }

def slA : SL :=
  { heap := [hdr { forward := some 1, span := 1 },
             { score := f1, member := [109], backward := none, level := [{ forward := some 2, span := 1 }, { forward := none, span := 1 }] },
             { score := f2, member := [120], backward := some 1, level := [{ forward := none, span := 0 }] }],
    tail := some 2, length := 2, level := 2 }

def slB : SL :=
  { heap := [hdr { forward := some 1, span := 1 },
             { score := f1, member := [109], backward := none, level := [{ forward := some 2, span := 1 }, { forward := none, span := 1 }] },
             { score := f2, member := [109], backward := some 1, level := [{ forward := none, span := 0 }] }],
    tail := some 2, length := 2, level := 2 }

theorem exA_eq : exA = .ok slA := by rfl
theorem exB_eq : exB = .ok slB := by rfl

theorem absA : abs slA = [(f1, [109]), (f2, [120])] := by decide

/-- `huniq` alone is not enough: members are unique, the score passed (5.0) is not the stored one (1.0); the walked
    prefix is the whole chain, its last node is "x" (list model: 0), but the taller node "m" is where level 1 stops
    (code: 1) -/
theorem getRank_needs_score :
    ((abs slA).map (·.2)).Nodup ∧ getRank slA [109] f5 = .ok 1 ∧ DsZSet.slGetRank (abs slA) [109] f5 = 0 :=
  ⟨by decide, rfl, by decide⟩

/-- without unique members: asked for ("m", 2.0), which is node 2; the list model says 2, the code returns 1, the
    position of the taller node ("m", 1.0) on which level 1 stops -/
theorem getRank_needs_uniq :
    (abs slB)[1]? = some (f2, [109]) ∧ getRank slB [109] f2 = .ok 1 ∧ DsZSet.slGetRank (abs slB) [109] f2 = 2 :=
  ⟨by decide, rfl, by decide⟩

/-! both skiplists satisfy the invariant -/

/-- a decidable form of one conjunct of `Linked` -/
def linkOk (h : List Node) (n : Nat) (rest : List Nat) : Bool :=
  (List.range (height h n)).all fun i =>
    match getLevel h n i with
    | .ok l => decide (l.forward = rest.find? (above h i)) &&
        (l.forward == none || decide (l.span = (rest.findIdx (above h i) : Int) + 1))
    | .error _ => false

theorem linkOk_sound (h : List Node) (n : Nat) (rest : List Nat) (hok : linkOk h n rest = true) :
    ∀ i l, getLevel h n i = .ok l →
      l.forward = rest.find? (above h i) ∧ (l.forward ≠ none → l.span = (rest.findIdx (above h i) : Int) + 1) := by
  intro i l hl
  have hi := lt_height_of_getLevel h n i l hl
  unfold linkOk at hok
  rw [List.all_eq_true] at hok
  have := hok i (List.mem_range.2 hi)
  rw [hl] at this
  simp at this
  refine ⟨this.1, fun hne => ?_⟩
  rcases this.2 with h0 | h1
  · exact absurd h0 hne
  · exact h1

theorem isChainA : IsChain slA [1, 2] where
  nodup := by decide
  bound := by decide
  size := by decide
  header := by decide
  hpos := by decide
  hle := by decide
  levelLo := by decide
  levelHi := by decide
  levelMax := by decide
  linked := ⟨linkOk_sound _ _ _ (by decide), linkOk_sound _ _ _ (by decide), linkOk_sound _ _ _ (by decide), trivial⟩
  back := ⟨⟨_, rfl, rfl⟩, ⟨_, rfl, rfl⟩, trivial⟩
  tail := by decide
  length := by decide
  sorted := by decide
  good := by intro n hn; unfold Good; revert n; decide

theorem isChainB : IsChain slB [1, 2] where
  nodup := by decide
  bound := by decide
  size := by decide
  header := by decide
  hpos := by decide
  hle := by decide
  levelLo := by decide
  levelHi := by decide
  levelMax := by decide
  linked := ⟨linkOk_sound _ _ _ (by decide), linkOk_sound _ _ _ (by decide), linkOk_sound _ _ _ (by decide), trivial⟩
  back := ⟨⟨_, rfl, rfl⟩, ⟨_, rfl, rfl⟩, trivial⟩
  tail := by decide
  length := by decide
  sorted := by decide
  good := by intro n hn; unfold Good; revert n; decide

theorem invA : Inv slA := ⟨_, isChainA⟩
theorem invB : Inv slB := ⟨_, isChainB⟩

end NodisVerif.Skiplist
