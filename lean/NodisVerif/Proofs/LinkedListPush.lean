import NodisVerif.Proofs.LinkedListUnlink
/-
  LPush / RPush on the pointer structure refine DsList.lpush / DsList.rpush.
-/
namespace NodisVerif.LinkedList

theorem InvC.notin_size {l : PList} {c : List Nat} (hi : InvC l c) : l.heap.size ∉ c :=
  fun hm => Nat.lt_irrefl _ (seg_lt _ _ _ _ hi.seg _ hm)

theorem get_lt_of_some {h : Heap} {i : Nat} {n : Node} (hn : h[i]? = some n) : i < h.size := by
  by_cases hlt : i < h.size
  · exact hlt
  · rw [Array.getElem?_eq_none (by omega)] at hn; cases hn

/-- one element pushed at the head: the new node (index = old heap size) is the new first node -/
theorem lpush1_spec (l : PList) (c : List Nat) (hi : InvC l c) (d : Bytes) :
    ∃ l', lpush1 l d = .ok l' ∧ InvC l' (l.heap.size :: c) ∧ l'.heap.size = l.heap.size + 1 ∧
      dataAt l'.heap l.heap.size = d ∧ (∀ i, i < l.heap.size → dataAt l'.heap i = dataAt l.heap i) := by
  have hnew := hi.notin_size
  unfold lpush1
  cases c with
  | nil =>
    have hh : l.head = none := hi.head
    simp only [hh]
    refine ⟨_, rfl, ⟨by simp, ?_, rfl, rfl, ?_⟩, by simp, ?_, ?_⟩
    · exact ⟨_, Array.getElem?_push_size, rfl, rfl, trivial⟩
    · simp only; rw [hi.length]; rfl
    · exact dataAt_of Array.getElem?_push_size
    · intro i hlt; exact dataAt_push _ _ _ hlt
  | cons x rest =>
    have hh : l.head = some x := hi.head
    obtain ⟨n0, hx0, hp0, hn0, srest⟩ := hi.seg
    have hxlt := get_lt_of_some hx0
    have hxne : l.heap.size ≠ x := by omega
    have e0 : (l.heap.push { data := d })[l.heap.size]? = some { data := d } := Array.getElem?_push_size
    have ex0 : (l.heap.push { data := d })[x]? = some n0 := by rw [get_push_lt _ _ _ hxlt]; exact hx0
    have ex1 : ((l.heap.push { data := d }).setIfInBounds l.heap.size { data := d, next := some x })[x]? = some n0 := by
      rw [get_set_ne _ _ _ _ hxne]; exact ex0
    simp only [hh, setNext_ok e0, Res.bind_ok, setPrev_ok ex1]
    have hxrest : x ∉ rest := (List.nodup_cons.mp hi.nodup).1
    have hsz : ∀ v w v', (((l.heap.push v).setIfInBounds l.heap.size w).setIfInBounds x v').size = l.heap.size + 1 := by
      intros; simp
    refine ⟨_, rfl, ⟨List.nodup_cons.mpr ⟨hnew, hi.nodup⟩, ?_, rfl, ?_, ?_⟩, hsz _ _ _, ?_, ?_⟩
    · refine ⟨{ data := d, next := some x }, ?_, rfl, rfl, ?_⟩
      · simp only; rw [get_set_ne _ _ _ _ hxne.symm]; exact get_set_eq _ _ _ _ e0
      · apply seg_setPrev_first _ rest x none none _ n0 hxrest ex1
        apply seg_set_notin _ _ _ _ _ _ hnew
        exact seg_push _ _ _ _ _ ⟨n0, hx0, hp0, hn0, srest⟩
    · simp only; rw [hi.tail]; simp [List.getLast?_cons_cons]
    · simp only; rw [hi.length]; simp
    · simp only
      rw [dataAt_set_prev _ _ _ _ ex1]
      exact dataAt_of (get_set_eq _ _ _ _ e0)
    · intro i hlt; simp only
      rw [dataAt_set_prev _ _ _ _ ex1, dataAt_set_next _ _ { data := d } _ e0, dataAt_push _ _ _ hlt]

/-- one element pushed at the tail -/
theorem rpush1_spec (l : PList) (c : List Nat) (hi : InvC l c) (d : Bytes) :
    ∃ l', rpush1 l d = .ok l' ∧ InvC l' (c ++ [l.heap.size]) ∧ l'.heap.size = l.heap.size + 1 ∧
      dataAt l'.heap l.heap.size = d ∧ (∀ i, i < l.heap.size → dataAt l'.heap i = dataAt l.heap i) := by
  have hnew := hi.notin_size
  unfold rpush1
  rcases List.eq_nil_or_concat c with rfl | ⟨a, t, rfl⟩
  · have hh : l.head = none := hi.head
    simp only [hh]
    refine ⟨_, rfl, ⟨by simp, ?_, rfl, rfl, ?_⟩, by simp, ?_, ?_⟩
    · exact ⟨_, Array.getElem?_push_size, rfl, rfl, trivial⟩
    · simp only; rw [hi.length]; rfl
    · exact dataAt_of Array.getElem?_push_size
    · intro i hlt; exact dataAt_push _ _ _ hlt
  · rw [List.concat_eq_append] at *
    have hh : ∃ y, l.head = some y := by
      rw [hi.head]; cases a <;> simp
    obtain ⟨y, hy⟩ := hh
    have ht : l.tail = some t := by rw [hi.tail]; simp
    obtain ⟨nt, ht0, _, _⟩ := seg_mid _ a [] t none none hi.seg
    have htlt := get_lt_of_some ht0
    have htne : l.heap.size ≠ t := by omega
    have hta : t ∉ a := by
      have := hi.nodup; rw [List.nodup_append] at this
      intro hm; exact this.2.2 t hm t (by simp) rfl
    have et0 : (l.heap.push { data := d })[t]? = some nt := by rw [get_push_lt _ _ _ htlt]; exact ht0
    have e1 : ((l.heap.push { data := d }).setIfInBounds t { nt with next := some l.heap.size })[l.heap.size]? =
        some { data := d } := by
      rw [get_set_ne _ _ _ _ htne.symm]; exact Array.getElem?_push_size
    simp only [hy, ht, setNext_ok et0, Res.bind_ok, setPrev_ok e1]
    refine ⟨_, rfl, ⟨?_, ?_, ?_, ?_, ?_⟩, by simp, ?_, ?_⟩
    · rw [List.nodup_append]
      refine ⟨hi.nodup, by simp, ?_⟩
      intro i hi' j hj e
      simp at hj; subst hj; subst e; exact hnew hi'
    · simp only
      rw [seg_append]
      constructor
      · apply seg_set_notin _ _ _ _ _ _ hnew
        simp only [hd_cons]
        exact seg_setNext_last _ a t none none _ nt hta et0 (seg_push _ _ _ _ _ hi.seg)
      · simp only [lst_concat]
        exact ⟨_, get_set_eq _ _ _ _ e1, rfl, rfl, trivial⟩
    · simp only; rw [← hy, hi.head]; cases a <;> simp
    · simp
    · simp only; rw [hi.length]; simp; omega
    · simp only
      exact dataAt_of (get_set_eq _ _ _ _ e1)
    · intro i hlt; simp only
      rw [dataAt_set_prev _ _ { data := d } _ e1, dataAt_set_next _ _ _ _ et0, dataAt_push _ _ _ hlt]

theorem map_dataAt_congr (h h' : Heap) (c : List Nat) (hf : ∀ i ∈ c, dataAt h' i = dataAt h i) :
    c.map (dataAt h') = c.map (dataAt h) :=
  List.map_congr_left hf

theorem absL_eq {l : PList} {c : List Nat} (hi : InvC l c) :
    absL l = { items := c.map (dataAt l.heap), length := c.length } := by
  unfold absL; rw [abs_eq hi, hi.length]

theorem lpush_refines (l : PList) (c : List Nat) (hi : InvC l c) (data : List Bytes) :
    ∃ l' c', lpush l data = .ok l' ∧ InvC l' c' ∧ absL l' = DsList.lpush (absL l) data ∧
      l'.heap.size = l.heap.size + data.length := by
  induction data generalizing l c with
  | nil => exact ⟨l, c, rfl, hi, rfl, rfl⟩
  | cons d ds ih =>
    obtain ⟨l1, e1, hi1, hs1, hd1, hf1⟩ := lpush1_spec l c hi d
    obtain ⟨l2, c2, e2, hi2, ha2, hs2⟩ := ih l1 _ hi1
    refine ⟨l2, c2, ?_, hi2, ?_, ?_⟩
    · unfold lpush at e2 ⊢
      rw [List.foldlM_cons, e1]; exact e2
    · rw [ha2]
      have : absL l1 = { items := d :: (absL l).items, length := (absL l).length + 1 } := by
        rw [absL_eq hi1, absL_eq hi]
        simp only [List.map_cons, hd1, List.length_cons]
        rw [map_dataAt_congr _ _ c (fun i hic => hf1 i (seg_lt _ _ _ _ hi.seg i hic))]
        simp
      rw [this]; rfl
    · rw [hs2, hs1]; simp; omega

theorem rpush_refines (l : PList) (c : List Nat) (hi : InvC l c) (data : List Bytes) :
    ∃ l' c', rpush l data = .ok l' ∧ InvC l' c' ∧ absL l' = DsList.rpush (absL l) data ∧
      l'.heap.size = l.heap.size + data.length := by
  induction data generalizing l c with
  | nil => exact ⟨l, c, rfl, hi, rfl, rfl⟩
  | cons d ds ih =>
    obtain ⟨l1, e1, hi1, hs1, hd1, hf1⟩ := rpush1_spec l c hi d
    obtain ⟨l2, c2, e2, hi2, ha2, hs2⟩ := ih l1 _ hi1
    refine ⟨l2, c2, ?_, hi2, ?_, ?_⟩
    · unfold rpush at e2 ⊢
      rw [List.foldlM_cons, e1]; exact e2
    · rw [ha2]
      have : absL l1 = { items := (absL l).items ++ [d], length := (absL l).length + 1 } := by
        rw [absL_eq hi1, absL_eq hi]
        simp only [List.map_append, List.map_cons, List.map_nil, hd1, List.length_append, List.length_cons,
          List.length_nil]
        rw [map_dataAt_congr _ _ c (fun i hic => hf1 i (seg_lt _ _ _ _ hi.seg i hic))]
        simp
      rw [this]; rfl
    · rw [hs2, hs1]; simp; omega

end NodisVerif.LinkedList
