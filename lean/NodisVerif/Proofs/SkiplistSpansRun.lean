import NodisVerif.Proofs.SkiplistSpansInsert
import NodisVerif.Proofs.SkiplistSpansRemoveB
/-
  Runs keep the full invariant `InvSpans` (structure + span discipline of nil links).
-/
namespace NodisVerif.Skiplist
open NodisVerif.DsZSet (Item nodeLt)

theorem step_invSpans {sl : SL} (h : InvSpans sl) (op : SlOp) (hok : OpOk (abs sl) op) :
    ∃ sl', stepM sl op = .ok sl' ∧ InvSpans sl' ∧ abs sl' = stepL (abs sl) op := by
  cases op with
  | insert m s lvl =>
    obtain ⟨h1, h2, h3, h4⟩ := hok
    exact insert_invSpans h m s lvl h1 h2 h3 h4
  | remove m s =>
    obtain ⟨sl', b, he, hi, ha⟩ := remove_invSpans h m s
    exact ⟨sl', by simp [stepM, he, Except.map], hi, ha⟩
  | removeRange a b mode =>
    obtain ⟨sl', rem, he, hi, ha⟩ := removeRange_invSpans h a b 0 mode
    rw [if_pos (Int.le_refl 0)] at ha
    refine ⟨sl', by simp [stepM, he, Except.map], hi, ?_⟩
    simp only [stepL, ← ha]
  | removeRangeByRank a b =>
    obtain ⟨sl', rem, he, hi, ha⟩ := removeRangeByRank_invSpans h a b
    refine ⟨sl', by simp [stepM, he, Except.map], hi, ?_⟩
    simp only [stepL, ← ha]

theorem run_invSpans : ∀ (ops : List SlOp) {sl : SL}, InvSpans sl → OpsOk (abs sl) ops →
    ∃ sl', runM sl ops = .ok sl' ∧ InvSpans sl' ∧ abs sl' = runL (abs sl) ops := by
  intro ops
  induction ops with
  | nil => intro sl h _; exact ⟨sl, rfl, h, rfl⟩
  | cons op ops ih =>
    intro sl h hok
    obtain ⟨hop, hrest⟩ := hok
    obtain ⟨sl1, he, hi, ha⟩ := step_invSpans h op hop
    rw [← ha] at hrest
    obtain ⟨sl2, he2, hi2, ha2⟩ := ih hi hrest
    refine ⟨sl2, ?_, hi2, ?_⟩
    · simp [runM, he, bind, Except.bind, he2]
    · simp [runL, ← ha, ha2]

theorem run_invSpans_from_empty (ops : List SlOp) (hok : OpsOk [] ops) :
    ∃ sl, runM makeSkiplist ops = .ok sl ∧ InvSpans sl ∧ abs sl = runL [] ops := by
  have := run_invSpans ops makeSkiplist_invSpans (by rw [abs_makeSkiplist]; exact hok)
  rw [abs_makeSkiplist] at this
  exact this

end NodisVerif.Skiplist
