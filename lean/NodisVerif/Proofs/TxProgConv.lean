import NodisVerif.Proofs.TxProgReach
/-
  Program model of tx.go: the converse ownership invariant for the record mutexes (whoever owns a record mutex has
  a protocol hold on the record or sits between a lock operation and its event), and program-level progress.
-/
namespace NodisVerif.Proofs.TxProg
open NodisVerif.Proto (Key Rec Mode Ev Hold TxSt PState assoc erase put Tx)
open NodisVerif.TxProg
open NodisVerif.Proofs.Proto

/-- the record mutexes a thread owns according to its program counter and locals -/
def ownedList (l : Loc) : List (Rec × Mode) := (holdsOf l).map (fun g => (g.rid, g.mode)) ++ (extra l).toList

@[simp] theorem mu_struct (s : Shared) (smu : Mu) (r : Rec) : ({ s with smu := smu } : Shared).mu r = s.mu r := rfl

/-- a step of `t` gives no record mutex to another thread -/
theorem tstep_mus_other {s s' : Shared} {t : Tid} {l l' : Loc} {ch : Choice} {e : Option Ev}
    (h : tstep s t l ch = some (s', l', e)) (u : Tid) (hu : u ≠ t) (r : Rec) :
    ((s'.mu r).writer = some u → (s.mu r).writer = some u) ∧ (u ∈ (s'.mu r).readers → u ∈ (s.mu r).readers) := by
  cases hpc : l.pc <;> simp only [tstep, hpc] at h <;> (repeat' split at h) <;> simp at h <;>
    (try (obtain ⟨rfl, _, _⟩ := h)) <;>
    (try (simp only [mu_setMu]; split)) <;>
    simp_all [Shared.mu, Mu.lock, Mu.unlock, Mu.rlock, Mu.runlock] <;>
    (try (intro hm; exact (List.mem_erase_of_ne hu).1 hm)) <;>
    (try (intro h2; exact absurd h2.symm hu))

@[simp] theorem holdsOf_nextPlan (l : Loc) : holdsOf (nextPlan l) = l.held := by
  unfold nextPlan; split <;> simp [holdsOf]
@[simp] theorem extra_nextPlan (l : Loc) : extra (nextPlan l) = none := by
  unfold nextPlan; split <;> simp [extra]
@[simp] theorem holdsOf_retTo (l : Loc) : holdsOf (retTo l) = l.held := by
  unfold retTo; split
  · exact holdsOf_nextPlan l
  · simp [holdsOf]
  · simp [holdsOf]
@[simp] theorem extra_retTo (l : Loc) : extra (retTo l) = none := by
  unfold retTo; split
  · exact extra_nextPlan l
  · simp [extra]
  · simp [extra]
@[simp] theorem holdsOf_commitNext (s : Shared) (l : Loc) : holdsOf (commitNext s l) = l.rest := by
  unfold commitNext; split
  · rename_i h; simp [holdsOf, h]
  · rename_i h; split
    · simp [holdsOf, h]
    · split <;> simp [holdsOf, h]
@[simp] theorem extra_commitNext (s : Shared) (l : Loc) : extra (commitNext s l) = none := by
  unfold commitNext; split
  · simp [extra]
  · split
    · simp [extra]
    · split <;> simp [extra]

/-- thread-local: in commit, the record at the head of the loop is read-held on the RUnlock / TryLock path and
    write-held on the drop path -/
def CM (l : Loc) : Prop :=
  ((l.pc = .c4 ∨ l.pc = .c5) → l.cur.mode = .r) ∧
  ((l.pc = .c8 ∨ l.pc = .c9 ∨ l.pc = .c10 ∨ l.pc = .c11 ∨ l.pc = .c12) → l.cur.mode = .w)

theorem cm_commitNext (s : Shared) (l : Loc) : CM (commitNext s l) := by
  unfold commitNext; split
  · simp [CM]
  · split
    · simp [CM]
    · split
      · rename_i h; simp [CM]; simpa using h
      · rename_i h; simp [CM]; cases hm : (by assumption : Hold).mode <;> simp_all

theorem cm_retTo (l : Loc) : CM (retTo l) := by
  rcases pc_retTo l with h | h | h <;> simp [CM, h]
theorem cm_nextPlan (l : Loc) : CM (nextPlan l) := by
  rcases pc_nextPlan l with h | h <;> simp [CM, h]

theorem cm_step {s s' : Shared} {t : Tid} {l l' : Loc} {ch : Choice} {e : Option Ev}
    (h : tstep s t l ch = some (s', l', e)) (hcm : CM l) : CM l' := by
  cases hpc : l.pc <;> simp only [tstep, hpc] at h <;> (repeat' split at h) <;> simp at h <;>
    (try (obtain ⟨_, rfl, _⟩ := h)) <;>
    first
      | exact cm_commitNext _ _
      | exact cm_retTo _
      | exact cm_nextPlan _
      | (simp_all [CM])

/-- … and what `t` itself owns afterwards is accounted for by its new program counter -/
theorem tstep_mus_self {s s' : Shared} {t : Tid} {l l' : Loc} {ch : Choice} {e : Option Ev}
    (h : tstep s t l ch = some (s', l', e)) (hnd : ∀ r, (s.mu r).readers.Nodup)
    (hconv : ∀ r, ((s.mu r).writer = some t → (r, Mode.w) ∈ ownedList l) ∧
      (t ∈ (s.mu r).readers → (r, Mode.r) ∈ ownedList l)) (hf : Facts s l) (hcm : CM l) (r : Rec) :
    (s'.mu r).readers.Nodup ∧ ((s'.mu r).writer = some t → (r, Mode.w) ∈ ownedList l') ∧
      (t ∈ (s'.mu r).readers → (r, Mode.r) ∈ ownedList l') := by
  have hnr := hnd r
  have hcr := hconv r
  cases hpc : l.pc <;> simp only [Facts, CM, hpc] at hf hcm <;> simp only [tstep, hpc] at h <;>
    (repeat' split at h) <;> simp at h <;>
    (try (obtain ⟨rfl, rfl, _⟩ := h)) <;>
    (try (simp only [mu_setMu]; split)) <;>
    simp only [ownedList, holdsOf_retTo, extra_retTo, holdsOf_nextPlan, extra_nextPlan, holdsOf_commitNext,
      extra_commitNext] at * <;>
    simp_all [holdsOf, extra, Shared.mu, Mu.lock, Mu.unlock, Mu.rlock, Mu.runlock, modeOf] <;>
    (try grind)

end NodisVerif.Proofs.TxProg

namespace NodisVerif.Proofs.TxProg
open NodisVerif.Proto (Key Rec Mode Ev Hold TxSt PState assoc erase put Tx)
open NodisVerif.TxProg
open NodisVerif.Proofs.Proto

/-- `Strong` together with the converse ownership invariant of the record mutexes -/
structure Full (c : Cfg) (p : PState) : Prop where
  strong : Strong c p
  cm   : ∀ t, CM (c.loc t)
  rnd  : ∀ r, (c.sh.mu r).readers.Nodup
  conv : ∀ u r, ((c.sh.mu r).writer = some u → (r, Mode.w) ∈ ownedList (c.loc u)) ∧
    (u ∈ (c.sh.mu r).readers → (r, Mode.r) ∈ ownedList (c.loc u))

theorem Full.init : Full {} {} where
  strong := Strong.init
  cm := fun _ => by rw [loc_default]; simp [CM]
  rnd := fun _ => List.nodup_nil
  conv := by intro u r; constructor <;> intro h <;> cases h

theorem full_step {c c' : Cfg} {p : PState} {t : Tid} {ch : Choice} {e : Option Ev} (hf : Full c p)
    (h : TxProg.step c t ch = some (c', e)) : ∃ p', optStep p e = some p' ∧ Full c' p' := by
  obtain ⟨p', hstep, hst'⟩ := strong_step hf.strong h
  refine ⟨p', hstep, ?_⟩
  unfold TxProg.step at h
  split at h
  · cases h
  · rename_i s l ev hts
    cases h
    have hself := tstep_mus_self hts hf.rnd (fun r => hf.conv t r) (hf.strong.sim.thr t).facts (hf.cm t)
    refine ⟨hst', ?_, fun r => (hself r).1, ?_⟩
    · intro u
      rw [loc_set]
      by_cases hu : u = t
      · subst hu; simpa using cm_step hts (hf.cm u)
      · simpa [hu] using hf.cm u
    · intro u r
      rw [loc_set]
      by_cases hu : u = t
      · subst hu; simpa using (hself r).2
      · simp only [hu, if_false]
        have ho := tstep_mus_other hts u hu r
        exact ⟨fun x => (hf.conv u r).1 (ho.1 x), fun x => (hf.conv u r).2 (ho.2 x)⟩

theorem ProgReachable.full {c : Cfg} (h : ProgReachable c) : ∃ p, Reachable p ∧ Full c p := by
  obtain ⟨sch, rfl⟩ := h
  suffices ∀ (c : Cfg) (p : PState), Full c p → ∃ p', Full (TxProg.run c sch).1 p' from by
    obtain ⟨p', hp'⟩ := this {} {} Full.init
    exact ⟨p', hp'.strong.sim.reach, hp'⟩
  induction sch with
  | nil => intro c p hf; exact ⟨p, hf⟩
  | cons a sch ih =>
    intro c p hf
    obtain ⟨t, ch⟩ := a
    cases hs : TxProg.step c t ch with
    | none => rw [run_cons_none hs]; exact ih c p hf
    | some r =>
      obtain ⟨c', e⟩ := r
      rw [run_cons_some hs]
      obtain ⟨p1, _, hf1⟩ := full_step hf hs
      exact ih c' p1 hf1

end NodisVerif.Proofs.TxProg
