import NodisVerif.Proofs.C10Resp
import NodisVerif.Proofs.C10Deadline
/-
  C10 helper lemmas, part 8: RENAME carries the deadline; DEL of a live key.
-/
namespace NodisVerif.Proofs.C10
open NodisVerif Store
open NodisVerif.Proofs.AListLemmas NodisVerif.Proofs.AListLemmas2

theorem present_modMeta {s : MState} {k : Bytes} (f : Meta → Meta) (h : (getMeta s k).isSome = true) :
    (getMeta (modMeta s k f) k).isSome = true := by
  rw [getMeta_modMeta, if_pos rfl]
  obtain ⟨m, hm⟩ := Option.isSome_iff_exists.mp h
  rw [hm]; rfl

theorem expOf_modMeta (s : MState) (k k' : Bytes) (f : Meta → Meta) (hf : ∀ m, (f m).exp = m.exp) :
    Api.expOf (modMeta s k f) k' = Api.expOf s k' := by
  unfold Api.expOf
  rw [getMeta_modMeta]
  split
  · rename_i h; subst h
    cases getMeta s k with
    | none => rfl
    | some m => simp [hf]
  · rfl

theorem getMeta_modMeta_other (s : MState) (k k' : Bytes) (f : Meta → Meta) (h : k ≠ k') :
    getMeta (modMeta s k f) k' = getMeta s k' := by
  rw [getMeta_modMeta, if_neg h]

theorem writeKey_ok_present {s : MState} {now : Int} {k : Bytes} {mk : Option Val}
    (hs : AList.Sorted s.index) (h : (writeKey s now k mk).2 = true) :
    (getMeta (writeKey s now k mk).1 k).isSome = true := by
  obtain ⟨r, hr, _⟩ := (writeKey_good (Good.refl (now := now) hs) k mk).2 h
  obtain ⟨m, hm, _, _⟩ := vis_some_getMeta hr
  rw [hm]; rfl

theorem rename_deadline {s : MState} {now : Int} {k dst : Bytes} {m : Meta} {v : Val}
    (h : LiveWith s now k m v) (hs : AList.Sorted s.index) (hne : k ≠ dst) :
    (Api.rename s now k dst).2 = .err false ∧
    Api.expOf (Api.rename s now k dst).1 dst = m.exp ∧
    getMeta (Api.rename s now k dst).1 k = none := by
  obtain ⟨a, b, c, d, e, _⟩ := writeKey_liveWith h hs none
  unfold Api.rename
  cases hw : writeKey s now k none with
  | mk s1 ok =>
    rw [hw] at a b c d e
    simp only at a b c d e
    subst a
    simp only [Bool.not_true, Bool.false_eq_true, if_false]
    obtain ⟨m1, hm1⟩ := Option.isSome_iff_exists.mp d
    have hexp : m1.exp = m.exp := by
      have := c; unfold Api.expOf at this; rw [hm1] at this; simpa using this
    have hval : m1.value = some v := by
      have := b; unfold valOf at this; rw [hm1] at this; simpa using this
    rw [hm1]
    simp only [hne, if_false]
    have hs2 := (writeKey_spec s1 now dst none e).2.2.2
    have hp2 := @writeKey_ok_present s1 now dst none e
    cases hw2 : writeKey s1 now dst none with
    | mk s2 dok =>
      rw [hw2] at hs2 hp2
      simp only at hs2 hp2
      simp only [hval]
      refine ⟨trivial, ?_, ?_⟩
      · rw [expOf_emit]
        show Api.expOf (modMeta (Api.setExp _ dst m1.exp) dst Meta.markModified) dst = m.exp
        rw [expOf_modMeta _ _ _ _ (fun m => by unfold Meta.markModified; rfl), ← hexp]
        apply expOf_setExp
        apply present_modMeta
        cases dok with
        | false =>
          simp only [Bool.not_false, if_true, fresh]
          rw [getMeta_putMeta, if_pos rfl]; rfl
        | true =>
          simp only [Bool.not_true, Bool.false_eq_true, if_false]
          rw [getMeta_delKey_other _ _ _ hne]
          exact hp2 rfl
      · rw [getMeta_emit]
        show getMeta (modMeta (Api.setExp _ dst m1.exp) dst Meta.markModified) k = none
        rw [getMeta_modMeta_other _ _ _ _ (fun x => hne x.symm), getMeta_setExp, if_neg (fun x => hne x.symm),
          getMeta_modMeta_other _ _ _ _ (fun x => hne x.symm)]
        cases dok with
        | false =>
          simp only [Bool.not_false, if_true, fresh]
          rw [getMeta_putMeta, if_neg (fun x => hne x.symm)]
          have hd : getMeta (delKey s2 k) k = none := by rw [getMeta_delKey _ _ _ hs2]; simp
          split
          · unfold getMeta; rw [unpersist_index]; exact hd
          · exact hd
        | true =>
          simp only [Bool.not_true, Bool.false_eq_true, if_false]
          rw [getMeta_delKey _ _ _ hs2]; simp

/-- DEL of one live key: reply 1, the name is no longer indexed -/
theorem del_live {s : MState} {now : Int} {k : Bytes} {m : Meta} {v : Val}
    (h : LiveWith s now k m v) (hs : AList.Sorted s.index) :
    (Api.del s now [k]).2 = .int 1 ∧ getMeta (Api.del s now [k]).1 k = none := by
  obtain ⟨a, _, _, _, e, _⟩ := writeKey_liveWith h hs none
  unfold Api.del
  simp only [List.foldl_cons, List.foldl_nil]
  cases hw : writeKey s now k none with
  | mk s1 ok =>
    rw [hw] at a e
    simp only at a e
    subst a
    simp only [Bool.not_true, Bool.false_eq_true, if_false]
    refine ⟨rfl, ?_⟩
    rw [getMeta_emit]
    show getMeta (delKey s1 k) k = none
    rw [getMeta_delKey _ _ _ e]; simp

theorem del_absent {s : MState} {now : Int} {k : Bytes} (h : live s now k = none) (hs : AList.Sorted s.index) :
    (Api.del s now [k]).2 = .int 0 := by
  have a := writeKey_absent h hs
  unfold Api.del
  simp only [List.foldl_cons, List.foldl_nil]
  cases hw : writeKey s now k none with
  | mk s1 ok =>
    rw [hw] at a
    simp only at a
    subst a
    rfl

end NodisVerif.Proofs.C10
