import NodisVerif.Proofs.C09Changed
import NodisVerif.Proofs.C09Writers2
import NodisVerif.Model.Handler
/-
  C09 (WATCH soundness), the handler table of Model/Handler.lean (`Handler.table1`): every closure a
  handler hands to `execCommand` tells the watchers about every key whose logical content it changes
  (`SignalsChanges`). Recipe: `Frame [] st (b st now ch).store`, from the `frame_*` table of
  C09Writers*.lean plus `Frame []` lemmas for the read-only API functions (this file).

  This file: helpers, read-only API functions, INCRBYFLOAT at the API level, the handlers that make one
  API call. C09Table1b.lean: SET / MSET / MGET / SCAN, the findings, the table theorem.
-/
set_option linter.unusedSectionVars false
set_option linter.unusedVariables false

namespace NodisVerif.Proofs.C08Step
open Resp Server
open NodisVerif NodisVerif.Store NodisVerif.Api
open NodisVerif.Proofs.C09Writers

/-! ## helpers -/

theorem tells_of_frame {st : MState} {o : BodyOut} (hp : st.pebble = true) (h : Frame [] st o.store) :
    TellsChanges st o :=
  ⟨h.pebble hp, fun k hk => Or.inl (h.sound k hk)⟩

/-- a body whose output store is always a closed frame of its input store signals its changes -/
theorem signals_of_frame {b : Body} (h : ∀ st now ch, st.pebble = true → Frame [] st (b st now ch).store) :
    SignalsChanges b :=
  fun st now ch hp _ => tells_of_frame hp (h st now ch hp)

theorem store_done (s : MState) (ts : List Tok) : (Handler.done s ts).store = s := rfl

/-- `call r k` ends in the store of `r` whenever the continuation only renders the reply -/
theorem store_call (r : MState × Out) (k : MState → Out → BodyOut) (hk : ∀ s o, (k s o).store = s) :
    (Handler.call r k).store = r.1 := by
  unfold Handler.call
  split
  · rfl
  · exact hk _ _

theorem frame_call {st : MState} (r : MState × Out) (k : MState → Out → BodyOut) (hk : ∀ s o, (k s o).store = s)
    (h : Frame [] st r.1) : Frame [] st (Handler.call r k).store := by
  rw [store_call r k hk]; exact h

/-- `Store.clear`: everything may change, and `flushed` says so -/
theorem tells_clear (st : MState) (hp : st.pebble = true) (ts : List Tok) :
    TellsChanges st (Handler.done (Store.clear st) ts) :=
  ⟨hp, fun _ _ => Or.inr rfl⟩

/-! ## read-only API functions -/

theorem frame_exists (s : MState) (hp : s.pebble = true) (now : Int) (keys : List Bytes) :
    Frame [] s (Api.exists_ s now keys).1 := by
  unfold Api.exists_
  split
  next s' c heq =>
  have := frame_foldl (α := Int) (fun (acc : MState × Int) key =>
    let (s, ok) := readKey acc.1 now key
    (s, if ok then acc.2 + 1 else acc.2))
    (fun acc key _ => by
      dsimp only
      rk acc.1 now key
      exact h) keys (s, 0) hp
  rw [heq] at this
  exact this

theorem frame_keys (s : MState) (now : Int) (pat : Bytes) : Frame [] s (Api.keys s now pat).1 := Frame.refl _ _

theorem frame_randomKey (s : MState) (now : Int) (c : Option Bytes) : Frame [] s (Api.randomKey s now c).1 := by
  unfold Api.randomKey
  split <;> exact Frame.refl _ _

theorem frame_ttl (s : MState) (now : Int) (key : Bytes) : Frame [] s (Api.ttl s now key).1 := by
  unfold Api.ttl
  rk s now key
  repeat' split
  all_goals exact h

theorem frame_pttl (s : MState) (now : Int) (key : Bytes) : Frame [] s (Api.pttl s now key).1 := by
  unfold Api.pttl
  rk s now key
  split
  · exact h
  · split <;> exact h

theorem frame_type (s : MState) (now : Int) (key : Bytes) : Frame [] s (Api.type_ s now key).1 := by
  unfold Api.type_
  rk s now key
  split
  · exact h
  · split <;> exact h

theorem frame_get (s : MState) (now : Int) (key : Bytes) : Frame [] s (Api.get s now key).1 := by
  unfold Api.get
  rk s now key
  split
  · exact h
  · split <;> exact h

theorem frame_getRange (s : MState) (now : Int) (key : Bytes) (a b : Int) :
    Frame [] s (Api.getRange s now key a b).1 := by
  unfold Api.getRange
  rk s now key
  split
  · exact h
  · split <;> exact h

theorem frame_strLen (s : MState) (now : Int) (key : Bytes) : Frame [] s (Api.strLen s now key).1 := by
  unfold Api.strLen
  rk s now key
  split
  · exact h
  · split <;> exact h

theorem frame_getBit (s : MState) (now : Int) (key : Bytes) (o : Int) : Frame [] s (Api.getBit s now key o).1 := by
  unfold Api.getBit
  rk s now key
  split
  · exact h
  · split <;> exact h

theorem frame_bitCount (s : MState) (now : Int) (key : Bytes) (a b : Int) (bit : Bool) :
    Frame [] s (Api.bitCount s now key a b bit).1 := by
  unfold Api.bitCount
  rk s now key
  split
  · exact h
  · split <;> exact h

/-- bumping the access counter is not a logical change -/
theorem frame_bumpCount (s : MState) (key : Bytes) :
    Frame [] s (modMeta s key fun m => { m with count := m.count + 1 }) := by
  unfold modMeta
  split
  · next m hm => exact frame_putMeta_same s key m _ hm (count_unchanged m)
  · exact Frame.refl _ _

/-
  FULL STATEMENT (not proved): `Frame [] s (Api.scan s now cursor pat count typ).1` for every `typ`.
  With a TYPE filter (`typ ≠ 0`) the scan LOADS cold records of unknown type
  (`modMeta s key fun m' => ({ m' with oid := oid }.setValue v)`); that this is not a logical change needs
  facts about the store that `Frame` does not carry (the index record is live and still cold, keys of
  the index are distinct).  Proved here: the scan without a TYPE filter (`typ = 0`), which only bumps
  access counters.
-/
theorem frame_scan_go (now : Int) (pat : Bytes) :
    ∀ (ents : List (Bytes × Meta)) (s : MState) (cursor iter count : Int) (acc : List Bytes),
      Frame [] s (Api.scan.go now pat 0 ents s cursor iter count acc).1
  | [], s, cursor, iter, count, acc => by unfold Api.scan.go; exact Frame.refl _ _
  | (key, m) :: rest, s, cursor, iter, count, acc => by
    unfold Api.scan.go
    dsimp only
    split
    · exact frame_scan_go now pat rest s _ _ _ _
    · split
      · exact Frame.refl _ _
      · have hb := frame_bumpCount s key
        simp only [ne_eq, not_true_eq_false, false_and, if_false]
        split
        · exact hb.trans0 (frame_scan_go now pat rest _ _ _ _ _)
        · exact hb.trans0 (frame_scan_go now pat rest _ _ _ _ _)

theorem frame_scan (s : MState) (now : Int) (cursor : Int) (pat : Bytes) (count : Int) :
    Frame [] s (Api.scan s now cursor pat count 0).1 := by
  unfold Api.scan
  dsimp only
  split
  · exact Frame.refl _ _
  · split
    · exact Frame.refl _ _
    · exact frame_scan_go now pat s.index s cursor 0 count []

/-! ## INCRBYFLOAT at the API level -/

/-
  FULL STATEMENT (false in the model):
    theorem frame_incrByFloat (s) (hp : s.pebble = true) (now key delta) : Frame [] s (Api.incrByFloat s now key delta).1
  Region: the key is not live (so `writeKey` creates it as an empty string) AND the sum `0 + delta` is not
  an integer-valued double the model can format (`formatFloat = none`): the model then stops with
  `.unsupported` ("outside the model's float fragment") after the record was created. This is a limitation
  of the model's float fragment, not a behaviour of the Go code (Go formats every finite sum).
-/
theorem frame_incrByFloat (s : MState) (hp : s.pebble = true) (now : Int) (key : Bytes) (delta : F64)
    (hreg : live s now key = true ∨ (Api.formatFloat (F64.add 0 delta)).isSome = true) :
    Frame [] s (Api.incrByFloat s now key delta).1 := by
  unfold Api.incrByFloat
  wk_some s now key (Val.str [])
  · split
    · exact h
    · split
      · exact h
      · exact h
      · split
        · exact h
        · split
          · exact h
          · exact (h.setVal hp _ _).finish _ _
  · simp only [asStr_of_valOf_strEmpty hv]
    have hin : (Api.formatFloat (F64.add 0 delta)).isSome = true := by
      rcases hreg with h' | h'
      · rw [hl] at h'; cases h'
      · exact h'
    have hp0 : Api.parseFloatText [48] = some (some 0) := by decide +kernel
    simp only [DsStr.bytes, Option.getD_some, List.isEmpty_nil, if_true, hp0, F64.add?]
    split
    · next hn => rw [hn] at hin; cases hin
    · exact (h.setVal hp _ _).finish _ _

/-! ## handlers that make no API call -/

theorem signals_ping (args : List Bytes) (b : Body) (h : Handler.ping args = .exec b) : SignalsChanges b := by
  cases h
  exact signals_of_frame (fun st _ _ _ => Frame.refl _ st)

theorem signals_echo (args : List Bytes) (b : Body) (h : Handler.echo args = .exec b) : SignalsChanges b := by
  cases h
  exact signals_of_frame (fun st _ _ _ => Frame.refl _ st)

theorem signals_dbSize (b : Body) (h : Handler.dbSize = .exec b) : SignalsChanges b := by
  cases h
  exact signals_of_frame (fun st _ _ _ => Frame.refl _ st)

/-- FLUSHDB / FLUSHALL: `Store.clear` sets `flushed`, which flags every watched key -/
theorem signals_flushDB (b : Body) (h : Handler.flushDB = .exec b) : SignalsChanges b := by
  cases h
  exact fun st _ _ hp _ => tells_clear st hp _

/-! ## handlers that make one API call -/

set_option hygiene false in
/-- `h : (if … then errReply else … .exec f) = .exec b`: go to the `.exec` branches and identify `b` -/
macro "exec_cases" : tactic => `(tactic| ((repeat' split at h) <;> cases h))

theorem signals_del (args : List Bytes) (b : Body) (h : Handler.del args = .exec b) : SignalsChanges b := by
  unfold Handler.del at h
  exec_cases
  exact signals_of_frame fun st now _ hp => frame_call _ _ (fun _ _ => rfl) (frame_del st hp now args)

theorem signals_exists_ (args : List Bytes) (b : Body) (h : Handler.exists_ args = .exec b) : SignalsChanges b := by
  unfold Handler.exists_ at h
  exec_cases
  exact signals_of_frame fun st now _ hp => frame_call _ _ (fun _ _ => rfl) (frame_exists st hp now args)

theorem signals_expire (args : List Bytes) (b : Body) (h : Handler.expire args = .exec b) : SignalsChanges b := by
  unfold Handler.expire at h
  exec_cases
  all_goals
    refine signals_of_frame fun st now ch hp => frame_call _ _ (fun _ _ => rfl) ?_
    first
      | exact frame_expireNX _ (by assumption) _ _ _
      | exact frame_expireXX _ (by assumption) _ _ _
      | exact frame_expireLT _ (by assumption) _ _ _
      | exact frame_expireGT _ (by assumption) _ _ _
      | exact frame_expire _ (by assumption) _ _ _

theorem signals_expireAt (args : List Bytes) (b : Body) (h : Handler.expireAt args = .exec b) : SignalsChanges b := by
  unfold Handler.expireAt at h
  exec_cases
  all_goals
    refine signals_of_frame fun st now ch hp => frame_call _ _ (fun _ _ => rfl) ?_
    first
      | exact frame_expireAtNX _ (by assumption) _ _ _
      | exact frame_expireAtXX _ (by assumption) _ _ _
      | exact frame_expireAtLT _ (by assumption) _ _ _
      | exact frame_expireAtGT _ (by assumption) _ _ _
      | exact frame_expireAt _ (by assumption) _ _ _

theorem signals_keys (args : List Bytes) (b : Body) (h : Handler.keys args = .exec b) : SignalsChanges b := by
  unfold Handler.keys at h
  exec_cases
  exact signals_of_frame fun st now _ hp => frame_call _ _ (fun _ _ => rfl) (frame_keys st now _)

theorem signals_ttl (args : List Bytes) (b : Body) (h : Handler.ttl args = .exec b) : SignalsChanges b := by
  unfold Handler.ttl at h
  exec_cases
  exact signals_of_frame fun st now _ hp => frame_call _ _ (fun _ _ => rfl) (frame_ttl st now _)

theorem signals_pttl (args : List Bytes) (b : Body) (h : Handler.pttl args = .exec b) : SignalsChanges b := by
  unfold Handler.pttl at h
  exec_cases
  exact signals_of_frame fun st now _ hp => frame_call _ _ (fun _ _ => rfl) (frame_pttl st now _)

theorem signals_persist (args : List Bytes) (b : Body) (h : Handler.persist args = .exec b) : SignalsChanges b := by
  unfold Handler.persist at h
  exec_cases
  exact signals_of_frame fun st now _ hp => frame_call _ _ (fun _ _ => rfl) (frame_persist st hp now _)

theorem signals_randomKey (b : Body) (h : Handler.randomKey = .exec b) : SignalsChanges b := by
  cases h
  exact signals_of_frame fun st now _ hp => frame_call _ _ (fun _ _ => rfl) (frame_randomKey st now _)

theorem signals_rename (args : List Bytes) (b : Body) (h : Handler.rename args = .exec b) : SignalsChanges b := by
  unfold Handler.rename at h
  exec_cases
  exact signals_of_frame fun st now _ hp => frame_call _ _ (fun _ _ => rfl) (frame_rename st hp now _ _)

theorem signals_renameNx (args : List Bytes) (b : Body) (h : Handler.renameNx args = .exec b) : SignalsChanges b := by
  unfold Handler.renameNx at h
  exec_cases
  exact signals_of_frame fun st now _ hp => frame_call _ _ (fun _ _ => rfl) (frame_renameNX st hp now _ _)

theorem signals_typ (args : List Bytes) (b : Body) (h : Handler.typ args = .exec b) : SignalsChanges b := by
  unfold Handler.typ at h
  exec_cases
  exact signals_of_frame fun st now _ hp => frame_call _ _ (fun _ _ => rfl) (frame_type st now _)

theorem signals_appendString (args : List Bytes) (b : Body) (h : Handler.appendString args = .exec b) :
    SignalsChanges b := by
  unfold Handler.appendString at h
  exec_cases
  exact signals_of_frame fun st now _ hp => frame_call _ _ (fun _ _ => rfl) (frame_append st hp now _ _)

theorem signals_setex (args : List Bytes) (b : Body) (h : Handler.setex args = .exec b) : SignalsChanges b := by
  unfold Handler.setex at h
  exec_cases
  exact signals_of_frame fun st now _ hp => frame_call _ _ (fun _ _ => rfl) (frame_setEX st hp now _ _ _)

theorem signals_setnx (args : List Bytes) (b : Body) (h : Handler.setnx args = .exec b) : SignalsChanges b := by
  unfold Handler.setnx at h
  exec_cases
  exact signals_of_frame fun st now _ hp => frame_call _ _ (fun _ _ => rfl) (frame_setNX st hp now _ _ _)

theorem signals_getString (args : List Bytes) (b : Body) (h : Handler.getString args = .exec b) : SignalsChanges b := by
  unfold Handler.getString at h
  exec_cases
  exact signals_of_frame fun st now _ hp => frame_call _ _ (fun _ _ => rfl) (frame_get st now _)

theorem signals_getSet (args : List Bytes) (b : Body) (h : Handler.getSet args = .exec b) : SignalsChanges b := by
  unfold Handler.getSet at h
  exec_cases
  exact signals_of_frame fun st now _ hp => frame_call _ _ (fun _ _ => rfl) (frame_getSet st hp now _ _)

theorem signals_getRange (args : List Bytes) (b : Body) (h : Handler.getRange args = .exec b) : SignalsChanges b := by
  unfold Handler.getRange at h
  exec_cases
  exact signals_of_frame fun st now _ hp => frame_call _ _ (fun _ _ => rfl) (frame_getRange st now _ _ _)

theorem signals_strLen (args : List Bytes) (b : Body) (h : Handler.strLen args = .exec b) : SignalsChanges b := by
  unfold Handler.strLen at h
  exec_cases
  exact signals_of_frame fun st now _ hp => frame_call _ _ (fun _ _ => rfl) (frame_strLen st now _)

theorem signals_setBit (args : List Bytes) (b : Body) (h : Handler.setBit args = .exec b) : SignalsChanges b := by
  unfold Handler.setBit at h
  exec_cases
  exact signals_of_frame fun st now _ hp => frame_call _ _ (fun _ _ => rfl) (frame_setBit st hp now _ _ _)

theorem signals_getBit (args : List Bytes) (b : Body) (h : Handler.getBit args = .exec b) : SignalsChanges b := by
  unfold Handler.getBit at h
  exec_cases
  exact signals_of_frame fun st now _ hp => frame_call _ _ (fun _ _ => rfl) (frame_getBit st now _ _)

end NodisVerif.Proofs.C08Step
