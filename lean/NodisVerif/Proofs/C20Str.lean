import NodisVerif.Proofs.C20Ops
/-
  C20, strings and counters: Set / SetXX / SetEX / SetPX / Incr.. / Append / SetBit / SetRange /
  IncrByFloat as key transactions; what they emit and what the replica makes of it.
-/
namespace NodisVerif.Proofs.C20
open NodisVerif NodisVerif.Store NodisVerif.Spec.Persist NodisVerif.Proofs.C11

/-! ### emission corrections -/

def plainMethod (m : String) : Bool :=
  !(Feed.keepTTLMethods.contains m) && m != "SMove" && m != "ZAddNX" && m != "HIncrBy" && m != "HIncrByFloat" &&
    m != "Clear" && m != "ZUnionStore" && m != "ZInterStore"

theorem emission_plain {c : Feed.CallInfo} (h : plainMethod c.method = true) (out : Out) (raw : List FeedOp) :
    Feed.emission c out raw = raw := by
  simp only [plainMethod, Bool.and_eq_true, Bool.not_eq_true', bne_iff_ne, ne_eq] at h
  obtain ⟨⟨⟨⟨⟨⟨⟨h1, h2⟩, h3⟩, h4⟩, h5⟩, h6⟩, h7⟩, h8⟩ := h
  unfold Feed.emission
  rw [if_neg (by rw [h1]; decide)]
  simp [h2, h3, h4, h5, h6, h7, h8]

theorem emission_keep {c : Feed.CallInfo} (h : Feed.keepTTLMethods.contains c.method = true) (out : Out)
    (k w : Bytes) (keep : Bool) (e : Int) :
    Feed.emission c out [Api.opSet k w keep e] = [Api.opSet k w true e] := by
  unfold Feed.emission
  rw [if_pos h]
  simp [Api.opSet]
  rfl

theorem emission_keep_nil {c : Feed.CallInfo} (h : Feed.keepTTLMethods.contains c.method = true) (out : Out) :
    Feed.emission c out [] = [] := by
  unfold Feed.emission
  rw [if_pos h]
  rfl

/-! ### the replica side, for every string writer -/

/-- either nothing was emitted and the key keeps its content, or one SET record was emitted that
    reproduces the new content -/
theorem str_hrep {r : MState} {now : Int} (h : StoreInv r now) (k : Bytes) (ops : List FeedOp)
    (P : Option (Val × Int))
    (hcase : (ops = [] ∧ P = lookup r now k) ∨
      ∃ w keep e, inInt64 e = true ∧ ops = [Api.opSet k w keep e] ∧ P = setRecPost now w keep e (lookup r now k)) :
    Replays r now ops (upd (lookup r now) k P) := by
  rcases hcase with ⟨rfl, rfl⟩ | ⟨w, keep, e, he, rfl, rfl⟩
  · rw [upd_self]; exact Replays.nil h
  · exact replays_set h k w keep e he

/-! ### further string writers as key transactions -/

def decSetBit (key : Bytes) (offset : Int) (value : Bool) : Val → Int → Act :=
  decStrWrite (fun v => some (some (Api.strVal (DsStr.setBit v offset value).1), none,
    [Api.opSet key (DsStr.bytes (DsStr.setBit v offset value).1) false], .int (DsStr.setBit v offset value).2))
    (fun _ => .panic)

def setBitF (key : Bytes) (offset : Int) (value : Bool) : TxForm :=
  ⟨true, some (.str []), .unit, Cmd.pan, decSetBit key offset value, key⟩

theorem setBit_eq (s : MState) (now : Int) (key : Bytes) (offset : Int) (value : Bool) :
    Api.setBit s now key offset value = (setBitF key offset value).run s now := by
  unfold Api.setBit TxForm.run setBitF keyTx
  simp only [if_true, Option.isNone_some, Bool.and_false, Bool.false_eq_true, if_false]
  generalize writeKey s now key (some (.str [])) = r
  obtain ⟨s1, ok⟩ := r
  simp only [Api.asStr]
  cases valOf s1 key with
  | none => rfl
  | some v => cases v <;> rfl

theorem setBitF_ok (key : Bytes) (offset : Int) (value : Bool) : (setBitF key offset value).OK := by
  refine ⟨(fun h => nomatch h), (fun w h => by cases h; exact good_str []), fun w e _ _ => ?_⟩
  show (decSetBit key offset value w e).GoodA
  unfold decSetBit
  apply Cmd.goodA_strWrite
  intro x v' e' ops r hx
  simp only [Option.some.injEq, Prod.mk.injEq] at hx
  obtain ⟨rfl, rfl, _, _⟩ := hx
  exact ⟨(fun w hw => by cases hw; exact good_strVal _), (fun e he => by cases he)⟩

def decSetRange (key : Bytes) (offset : Int) (value : Bytes) : Val → Int → Act :=
  decStrWrite (fun v => match DsStr.setRange v offset value with
      | none => none
      | some (v', n) => some (some (Api.strVal v'), none, [Api.opSet key (DsStr.bytes v') false], .int n))
    (fun _ => .panic)

def setRangeF (key : Bytes) (offset : Int) (value : Bytes) : TxForm :=
  ⟨true, some (.str []), .unit, Cmd.pan, decSetRange key offset value, key⟩

theorem setRange_eq (s : MState) (now : Int) (key : Bytes) (offset : Int) (value : Bytes) :
    Api.setRange s now key offset value = (setRangeF key offset value).run s now := by
  unfold Api.setRange TxForm.run setRangeF keyTx
  simp only [if_true, Option.isNone_some, Bool.and_false, Bool.false_eq_true, if_false]
  generalize writeKey s now key (some (.str [])) = r
  obtain ⟨s1, ok⟩ := r
  simp only [Api.asStr]
  cases valOf s1 key with
  | none => rfl
  | some v =>
    cases v <;> try rfl
    all_goals
      simp only [decSetRange, decStrWrite]
      split <;> simp_all [runAct, optSetVal, optSetExp, emits]

theorem setRangeF_ok (key : Bytes) (offset : Int) (value : Bytes) : (setRangeF key offset value).OK := by
  refine ⟨(fun h => nomatch h), (fun w h => by cases h; exact good_str []), fun w e _ _ => ?_⟩
  show (decSetRange key offset value w e).GoodA
  unfold decSetRange
  apply Cmd.goodA_strWrite
  intro x v' e' ops r hx
  split at hx
  · cases hx
  · simp only [Option.some.injEq, Prod.mk.injEq] at hx
    obtain ⟨rfl, rfl, _, _⟩ := hx
    exact ⟨(fun w hw => by cases hw; exact good_strVal _), (fun e he => by cases he)⟩

/-- INCRBYFLOAT: the new text and the sum, or the reply of a call that changes nothing -/
def ibfCalc (v : DsStr.S) (delta : F64) : Sum (Bytes × F64) Out :=
  match Api.parseFloatText (if (DsStr.bytes v).isEmpty then [48] else DsStr.bytes v) with
  | none => .inr .unsupported
  | some none => .inr (.many [.f64 0, .err true])
  | some (some old) =>
    match F64.add? old delta with
    | none => .inr .unsupported
    | some sum =>
      match Api.formatFloat sum with
      | none => .inr .unsupported
      | some t => .inl (t, sum)

def decIncrByFloat (key : Bytes) (delta : F64) : Val → Int → Act :=
  decStrWrite (fun v => match ibfCalc v delta with
      | .inl (t, sum) => some (some (.str t), none, [Api.opSet key t false], .many [.f64 sum, .err false])
      | .inr _ => none)
    (fun v => match ibfCalc v delta with | .inr o => o | .inl _ => .unit)

def incrByFloatF (key : Bytes) (delta : F64) : TxForm :=
  ⟨true, some (.str []), .unit, Cmd.pan, decIncrByFloat key delta, key⟩

theorem incrByFloat_eq (s : MState) (now : Int) (key : Bytes) (delta : F64) :
    Api.incrByFloat s now key delta = (incrByFloatF key delta).run s now := by
  unfold Api.incrByFloat TxForm.run incrByFloatF keyTx
  simp only [if_true, Option.isNone_some, Bool.and_false, Bool.false_eq_true, if_false]
  generalize writeKey s now key (some (.str [])) = r
  obtain ⟨s1, ok⟩ := r
  simp only [Api.asStr]
  cases valOf s1 key with
  | none => rfl
  | some v =>
    cases v <;> try rfl
    all_goals
      simp only [decIncrByFloat, decStrWrite, ibfCalc]
      generalize Api.parseFloatText _ = pf
      cases pf with
      | none => rfl
      | some o =>
        cases o with
        | none => rfl
        | some old =>
          simp only
          cases F64.add? old delta with
          | none => rfl
          | some sum =>
            simp only
            cases Api.formatFloat sum with
            | none => rfl
            | some t => simp [runAct, optSetVal, optSetExp, emits]

theorem incrByFloatF_ok (key : Bytes) (delta : F64) : (incrByFloatF key delta).OK := by
  refine ⟨(fun h => nomatch h), (fun w h => by cases h; exact good_str []), fun w e _ _ => ?_⟩
  show (decIncrByFloat key delta w e).GoodA
  unfold decIncrByFloat
  apply Cmd.goodA_strWrite
  intro x v' e' ops r hx
  split at hx
  · simp only [Option.some.injEq, Prod.mk.injEq] at hx
    obtain ⟨rfl, rfl, _, _⟩ := hx
    exact ⟨(fun w hw => by cases hw; exact good_str _), (fun e he => by cases he)⟩
  · cases hx

/-! ### the generic string writer -/

theorem setRecPost_calc {now : Int} (w : Bytes) (keep : Bool) (e : Int) (e' : Option Int)
    (he' : e' = if keep then none else some e) (hk : keep = true → e = 0) (e0 : Int)
    (hlive : ∀ v', filt (v', e0) now = some (v', e0)) (L : Option (Val × Int))
    (hL : L = none ∧ e0 = 0 ∨ ∃ b, L = some (.str b, e0)) :
    filt (.str w, e'.getD e0) now = setRecPost now w keep e L := by
  cases keep with
  | true =>
    have := hk rfl; subst this
    simp only [if_true] at he'; subst he'
    rcases hL with ⟨rfl, rfl⟩ | ⟨b, rfl⟩
    · simp [setRecPost, setPost, filt_zero]
    · simp [setRecPost, setPost, hlive]
  | false =>
    simp only [Bool.false_eq_true, if_false] at he'; subst he'
    by_cases h0 : e = 0
    · subst h0
      rcases hL with ⟨rfl, rfl⟩ | ⟨b, rfl⟩ <;> simp [setRecPost, setPost, filt_zero]
    · rcases hL with ⟨rfl, rfl⟩ | ⟨b, rfl⟩ <;> simp [setRecPost, setPost, h0, expirePost]

theorem setRecPost_nonil (now : Int) (w : Bytes) (keep : Bool) (e : Int) (L : Option (Val × Int))
    (hL : ∀ e0, L ≠ some (.strNil, e0)) (e1 : Int) : setRecPost now w keep e L ≠ some (.strNil, e1) := by
  unfold setRecPost
  cases L with
  | none => split <;> simp [setPost, expirePost, filt] <;> split <;> simp
  | some cc =>
    obtain ⟨v, e0⟩ := cc
    have := hL e0
    cases v <;> first | exact absurd rfl this | (split <;> simp [setPost, expirePost, filt] <;> (try split) <;> simp)

/-- what the records of a string writer must look like -/
def StrRec (c : Feed.CallInfo) (k : Bytes) (x : Option Val × Option Int × List FeedOp × Out) : Prop :=
  ∃ w keep e, x.1 = some (.str w) ∧ inInt64 e = true ∧
    Feed.emission c x.2.2.2 x.2.2.1 = [Api.opSet k w keep e] ∧
    x.2.1 = (if keep then none else some e) ∧ (keep = true → e = 0)

/-- a string writer `decStrWrite g fail` by the content it finds: either nothing is emitted and
    nothing changes, or one SET record is emitted that reproduces the new content.
    `hcreate`: a call that creates the key does not fail afterwards (finding region otherwise). -/
theorem strWrite_key {now : Int} (c : Feed.CallInfo) (hnil : ∀ out, Feed.emission c out [] = [])
    (f : TxForm) (g : DsStr.S → Option (Option Val × Option Int × List FeedOp × Out))
    (fail : DsStr.S → Out) (hdec : f.dec = decStrWrite g fail) (s0 : DsStr.S)
    (hctor : f.ctor = some (Api.strVal s0) ∨ f.ctor = none)
    (hg : ∀ b x, g (some b) = some x → StrRec c f.key x)
    (hg0 : ∀ x, g s0 = some x → StrRec c f.key x)
    (L : Option (Val × Int)) (hlive : Live now L) (hnn : ∀ e, L ≠ some (.strNil, e))
    (hcr : f.ctor = some (Api.strVal s0) → L = none → g s0 ≠ none) :
    (Feed.emission c (f.spec L).1 (f.ops L) = [] ∧ f.post now L = L) ∨
    ∃ w keep e, inInt64 e = true ∧ Feed.emission c (f.spec L).1 (f.ops L) = [Api.opSet f.key w keep e] ∧
      f.post now L = setRecPost now w keep e L := by
  cases L with
  | none =>
    rcases hctor with hc | hc
    · have hne := hcr hc rfl
      cases hgb : g s0 with
      | none => exact absurd hgb hne
      | some x =>
        obtain ⟨w, keep, e, h1, h2, h3, h4, h5⟩ := hg0 x hgb
        obtain ⟨x1, x2, x3, x4⟩ := x
        simp only at h1 h3 h4
        subst h1
        right
        refine ⟨w, keep, e, h2, ?_, ?_⟩
        · cases s0 <;>
            (simp only [Api.strVal] at hc
             simp only [TxForm.spec, txSpec, TxForm.ops, hc, hdec, decStrWrite, hgb, Act.reply, Act.ops]
             exact h3)
        · cases s0 <;>
            (simp only [Api.strVal] at hc
             simp only [TxForm.post, TxForm.spec, txSpec, hc, hdec, decStrWrite, hgb, Act.eff, Option.getD_some,
               Option.bind_some]
             exact setRecPost_calc w keep e x2 h4 h5 0 (fun v' => filt_zero v' now) none (Or.inl ⟨rfl, rfl⟩))
    · left
      simp only [TxForm.spec, txSpec, TxForm.ops, TxForm.post, hc]
      exact ⟨hnil _, trivial⟩
  | some cc =>
    obtain ⟨v, e0⟩ := cc
    have hl0 := hlive v e0 rfl
    cases v with
    | str b =>
      cases hgb : g (some b) with
      | none =>
        left
        simp only [TxForm.spec, txSpec, TxForm.ops, TxForm.post, hdec, decStrWrite, hgb, Act.reply, Act.ops, Act.eff]
        exact ⟨hnil _, trivial⟩
      | some x =>
        obtain ⟨w, keep, e, h1, h2, h3, h4, h5⟩ := hg b x hgb
        obtain ⟨x1, x2, x3, x4⟩ := x
        simp only at h1 h3 h4
        subst h1
        right
        refine ⟨w, keep, e, h2, ?_, ?_⟩
        · simp only [TxForm.spec, txSpec, TxForm.ops, hdec, decStrWrite, hgb, Act.reply, Act.ops]
          exact h3
        · simp only [TxForm.post, TxForm.spec, txSpec, hdec, decStrWrite, hgb, Act.eff, Option.getD_some,
            Option.bind_some]
          exact setRecPost_calc w keep e x2 h4 h5 e0 hl0 _ (Or.inr ⟨b, rfl⟩)
    | strNil => exact absurd rfl (hnn e0)
    | _ =>
      left
      simp only [TxForm.spec, txSpec, TxForm.ops, TxForm.post, hdec, decStrWrite, Act.reply, Act.ops, Act.eff]
      exact ⟨hnil _, trivial⟩

/-- main theorem for any call that behaves as a string writer (`hsp`), in terms of its raw records -/
theorem strWrite_tx {now : Int} {p r : MState} (hs : Same now p r)
    (c : Feed.CallInfo) (hnil : ∀ out, Feed.emission c out [] = [])
    (f : TxForm) (res : Api.R) (hsp : TxSpec p now now f.key (f.spec (lookup p now f.key)) res)
    (g : DsStr.S → Option (Option Val × Option Int × List FeedOp × Out))
    (fail : DsStr.S → Out) (hdec : f.dec = decStrWrite g fail) (s0 : DsStr.S)
    (hctor : f.ctor = some (Api.strVal s0) ∨ f.ctor = none)
    (hg : ∀ b x, g (some b) = some x → StrRec c f.key x)
    (hg0 : ∀ x, g s0 = some x → StrRec c f.key x)
    (hcreate : f.ctor = some (Api.strVal s0) → lookup p now f.key = none → g s0 ≠ none) :
    ∃ r', Feed.applyAll r now (Feed.emission c res.2 (f.ops (lookup p now f.key))) = some r' ∧ Same now res.1 r' := by
  refine main_tx hs f res hsp (Feed.emission c) ?_ ?_
  · intro hn e
    rcases strWrite_key (now := now) c hnil f g fail hdec s0 hctor hg hg0 _ (live_lookup p now f.key)
        (fun e => hn f.key e) hcreate with ⟨_, h2⟩ | ⟨w, keep, e1, _, _, h3⟩
    · rw [h2]; exact hn f.key e
    · rw [h3]; exact setRecPost_nonil now w keep e1 _ (fun e0 => hn f.key e0) e
  · intro r h hn hK
    apply str_hrep h
    rcases strWrite_key (now := now) c hnil f g fail hdec s0 hctor hg hg0 _ (live_lookup r now f.key)
        (fun e => hn f.key e) (fun hc hL => hcreate hc (by rw [← hK]; exact hL))
      with ⟨h1, h2⟩ | ⟨w, keep, e1, h1, h2, h3⟩
    · left; exact ⟨h1, h2⟩
    · right; exact ⟨w, keep, e1, h1, h2, h3⟩

theorem strWrite_main {now : Int} {p r : MState} (hs : Same now p r) (hl : p.listeners = true) (hfd : p.feed = [])
    (c : Feed.CallInfo) (hnil : ∀ out, Feed.emission c out [] = [])
    (f : TxForm) (hf : f.OK) (g : DsStr.S → Option (Option Val × Option Int × List FeedOp × Out))
    (fail : DsStr.S → Out) (hdec : f.dec = decStrWrite g fail) (s0 : DsStr.S)
    (hctor : f.ctor = some (Api.strVal s0) ∨ f.ctor = none)
    (hg : ∀ b x, g (some b) = some x → StrRec c f.key x)
    (hg0 : ∀ x, g s0 = some x → StrRec c f.key x)
    (hcreate : f.ctor = some (Api.strVal s0) → lookup p now f.key = none → g s0 ≠ none) :
    ∃ r', Feed.applyAll r now (Feed.emission c (f.run p now).2 (f.run p now).1.feed.reverse) = some r' ∧
      Same now (f.run p now).1 r' := by
  rw [(form_raw hf hs.invP hl hfd).1]
  exact strWrite_tx hs c hnil f _ (f.txspec hf hs.invP (Int.le_refl now)) g fail hdec s0 hctor hg hg0 hcreate

end NodisVerif.Proofs.C20
