import NodisVerif.Proofs.TxProgBase
/-
  Program model of tx.go: every transition is simulated by the protocol model (one lemma per program counter).
-/
namespace NodisVerif.Proofs.TxProg
open NodisVerif.Proto (Key Rec Mode Ev Hold TxSt PState assoc erase put Tx)
open NodisVerif.TxProg
open NodisVerif.Proofs.Proto

theorem Sim.update {c : Cfg} {p : PState} (hs : Sim c p) (t : Tid) (s' : Shared) (l' : Loc) (p' : PState)
    (hreach : Reachable p') (hidx : p'.index = s'.index) (hpend : p'.pending = s'.pending)
    (hnames : p'.names = s'.names) (hwf : ∀ r, wfMu (s'.mu r))
    (htx : p'.tx t = absTx l') (hinv : ThreadInv s' t l')
    (hotx : ∀ u, u ≠ t → p'.tx u = p.tx u)
    (hoinv : ∀ u, u ≠ t → ThreadInv s' u (c.loc u)) : Sim ⟨s', setD c.thr t l'⟩ p' where
  reach := hreach
  idx := hidx
  pend := hpend
  names := hnames
  wf := hwf
  tx := by
    intro u; rw [loc_set]
    by_cases h : u = t
    · subst h; simpa using htx
    · simp only [h, if_false]; rw [hotx u h]; exact hs.tx u
  thr := by
    intro u; rw [loc_set]
    by_cases h : u = t
    · subst h; simpa using hinv
    · simp only [h, if_false]; exact hoinv u h

/-- only fields that the invariant does not look at changed -/
theorem ThreadInv.congr {s s' : Shared} {t : Tid} {l : Loc} (h : ThreadInv s t l) (hm : s'.mus = s.mus)
    (hn : s'.names = s.names) : ThreadInv s' t l := by
  have e : ∀ r, s'.mu r = s.mu r := by intro r; simp [Shared.mu, hm]
  exact ⟨fun g hg => by rw [e]; exact h.own g hg,
    fun x hx => by rw [e, hn]; exact h.ext x hx,
    h.facts.mono (by intro x y; rw [hn]; exact id), h.val⟩

/-- a silent step that leaves names and record mutexes alone, and keeps `absTx` -/
theorem Sim.silent {c : Cfg} {p : PState} (hs : Sim c p) (t : Tid) (s' : Shared) (l' : Loc)
    (hidx : s'.index = c.sh.index) (hpend : s'.pending = c.sh.pending) (hnames : s'.names = c.sh.names)
    (hmus : s'.mus = c.sh.mus) (htx : absTx l' = absTx (c.loc t)) (hinv : ThreadInv c.sh t l') :
    Sim ⟨s', setD c.thr t l'⟩ p := by
  refine hs.update t s' l' p hs.reach (by rw [hidx]; exact hs.idx) (by rw [hpend]; exact hs.pend)
    (by rw [hnames]; exact hs.names) ?_ (by rw [htx]; exact hs.tx t) (hinv.congr hmus hnames)
    (fun _ _ => rfl) (fun u _ => (hs.thr u).congr hmus hnames)
  intro r
  have : s'.mu r = c.sh.mu r := by simp [Shared.mu, hmus]
  rw [this]; exact hs.wf r

/-! ## shapes of the helper continuations -/

theorem absTx_nextPlan (l : Loc) : absTx (nextPlan l) = some { holds := l.held } := by
  unfold nextPlan; split <;> simp [absTx, holdsOf, waitingOf, committingOf]

theorem inv_nextPlan {s : Shared} {t : Tid} {l : Loc} (h : ∀ g ∈ l.held, owns (s.mu g.rid) t g.mode)
    (hv : ∀ g ∈ l.held, g.valid = true) : ThreadInv s t (nextPlan l) := by
  unfold nextPlan; split
  · exact ⟨by simpa [holdsOf] using h, by simp [extra], by simp [Facts], hv⟩
  · exact ⟨by simpa [holdsOf] using h, by simp [extra], by simp [Facts], hv⟩

theorem absTx_retTo (l : Loc) : absTx (retTo l) = some { holds := l.held } := by
  unfold retTo; split
  · exact absTx_nextPlan l
  · simp [absTx, holdsOf, waitingOf, committingOf]
  · simp [absTx, holdsOf, waitingOf, committingOf]

theorem inv_retTo {s : Shared} {t : Tid} {l : Loc} (h : ∀ g ∈ l.held, owns (s.mu g.rid) t g.mode)
    (hv : ∀ g ∈ l.held, g.valid = true) : ThreadInv s t (retTo l) := by
  unfold retTo; split
  · exact inv_nextPlan h hv
  · exact ⟨by simpa [holdsOf] using h, by simp [extra], by simp [Facts], hv⟩
  · exact ⟨by simpa [holdsOf] using h, by simp [extra], by simp [Facts], hv⟩


/-! ## what the relation gives at a program state -/

theorem Sim.inv {c : Cfg} {p : PState} (hs : Sim c p) : Inv p := hs.reach.inv

theorem Sim.tx_some {c : Cfg} {p : PState} (hs : Sim c p) (t : Tid) (hpc : (c.loc t).pc ≠ .init) :
    p.tx t = some { holds := holdsOf (c.loc t), waiting := waitingOf (c.loc t), committing := committingOf (c.loc t) } := by
  have := hs.tx t; simpa [absTx, hpc] using this

theorem Sim.holdNamed {c : Cfg} {p : PState} (hs : Sim c p) (u : Tid) (g : Hold) (hg : g ∈ holdsOf (c.loc u)) :
    assoc c.sh.names g.rid = some g.key := by
  by_cases hpc : (c.loc u).pc = .init
  · simp [holdsOf, hpc] at hg
  · rw [← hs.names]; exact hs.inv.holdName u _ g (hs.tx_some u hpc) hg

theorem Sim.nodup {c : Cfg} {p : PState} (hs : Sim c p) (u : Tid) (hpc : (c.loc u).pc ≠ .init) :
    NodupRids (holdsOf (c.loc u)) := hs.inv.holdNodup u _ (hs.tx_some u hpc)

theorem Sim.named {c : Cfg} {p : PState} (hs : Sim c p) {k : Key} {r : Rec} (h : c.sh.lookup k = some r) :
    assoc c.sh.names r = some k := by
  rw [← hs.lookup] at h
  rw [← hs.names]
  rcases lookup_eq_some.1 h with h | ⟨_, h⟩
  · exact hs.inv.idxName k r h
  · exact hs.inv.pendName k r h

/-- a record mutex that the thread owns outside its protocol holds is free in the protocol state -/
theorem Sim.free_of_extra {c : Cfg} {p : PState} (hs : Sim c p) {t : Tid} {r : Rec} {m : Mode}
    (hx : extra (c.loc t) = some (r, m)) : p.free r m = true := by
  obtain ⟨hown, _, hne⟩ := (hs.thr t).ext _ hx
  have key : ∀ u g, Holds p u g → g.rid = r → (m = .w ∨ g.mode = .w) → False := by
    intro u g ⟨su, h1, h2⟩ hr hm
    by_cases hpc : (c.loc u).pc = .init
    · have := hs.tx u; rw [h1] at this; simp [absTx, hpc] at this
    · rw [hs.tx_some u hpc] at h1
      cases h1
      have ho := (hs.thr u).own g h2
      rw [hr] at ho
      have := owners_compat (hs.wf r) hown ho hm
      subst this
      exact hne g h2 hr
  cases m with
  | w =>
    simp only [PState.free]
    rw [List.isEmpty_iff, List.eq_nil_iff_forall_not_mem]
    intro x hx
    obtain ⟨h1, h2⟩ := mem_heldBy.1 hx
    exact key x.1 x.2 (holds_of_mem_allHolds hs.inv.txNodup h1) h2 (Or.inl rfl)
  | r =>
    simp only [PState.free]
    rw [List.all_eq_true]
    intro x hx
    obtain ⟨h1, h2⟩ := mem_heldBy.1 hx
    cases hm : x.2.mode with
    | r => rfl
    | w => exact (key x.1 x.2 (holds_of_mem_allHolds hs.inv.txNodup h1) h2 (Or.inr hm)).elim

theorem filter_rid_ne {l : List Hold} {r : Rec} (h : ∀ g ∈ l, g.rid ≠ r) : l.filter (fun g => g.rid != r) = l :=
  List.filter_eq_self.2 (fun g hg => by simpa using h g hg)

theorem holdOf_head (h : Hold) (l : List Hold) (w : Option (Key × Rec × Mode)) (cm : Bool) :
    (TxSt.mk (h :: l) w cm).holdOf h.rid = some h := by simp [TxSt.holdOf]

/-- another thread's invariant when thread `t` changed the mutex of one record in a way that keeps the others' ownership -/
theorem Sim.other_mu {c : Cfg} {p : PState} (hs : Sim c p) (r : Rec) (mu' : Mu) (u : Tid)
    (hm : ∀ m, owns (c.sh.mu r) u m → owns mu' u m) : ThreadInv (c.sh.setMu r mu') u (c.loc u) := by
  refine (hs.thr u).frame (fun _ _ h => h) ?_ (fun g hg => ⟨_, hs.holdNamed u g hg⟩)
  intro r' m ho _
  rw [mu_setMu]
  by_cases h : r' = r
  · subst h; simpa using hm m ho
  · simpa [h] using ho

theorem wf_setMu {s : Shared} (hw : ∀ r, wfMu (s.mu r)) (r : Rec) (mu' : Mu) (h : wfMu mu') :
    ∀ r', wfMu ((s.setMu r mu').mu r') := by
  intro r'; rw [mu_setMu]; by_cases e : r' = r <;> simp [e, h, hw r']

/-- shorthand for the conclusion of every case -/
def Simulated (c : Cfg) (p : PState) (t : Tid) (s' : Shared) (l' : Loc) (e : Option Ev) : Prop :=
  ∃ p', optStep p e = some p' ∧ Sim ⟨s', setD c.thr t l'⟩ p'

section Cases
variable {c : Cfg} {p : PState} {t : Tid} {ch : Choice} {s' : Shared} {l' : Loc} {e : Option Ev}

theorem case_init (hs : Sim c p) (hpc : (c.loc t).pc = .init)
    (h : tstep c.sh t (c.loc t) ch = some (s', l', e)) : Simulated c p t s' l' e := by
  simp only [tstep, hpc] at h
  have htx := hs.tx t
  simp only [absTx, hpc, if_true] at htx
  have hstep : Proto.step p (.begin t) = some (p.setTx t {}) := by simp [Proto.step, htx]
  split at h
  · split at h <;> cases h
    refine ⟨p.setTx t {}, hstep, ?_⟩
    refine hs.update t _ _ _ (hs.reach.next hstep) hs.idx hs.pend hs.names hs.wf ?_ ?_ ?_ (fun u _ => hs.thr u)
    · rw [tx_setTx_same, absTx_nextPlan]
    · exact inv_nextPlan (by simp) (by simp)
    · intro u hu; exact tx_setTx_ne _ _ hu
  · split at h <;> cases h
    rename_i k hk
    refine ⟨p.setTx t {}, hstep, ?_⟩
    refine hs.update t _ _ _ (hs.reach.next hstep) hs.idx hs.pend hs.names hs.wf ?_ ?_ ?_ (fun u _ => hs.thr u)
    · rw [tx_setTx_same]; simp [absTx, holdsOf, waitingOf, committingOf]
    · exact ⟨by simp [holdsOf], by simp [extra], by simp [Facts, hk], by simp⟩
    · intro u hu; exact tx_setTx_ne _ _ hu
  · cases h

theorem case_idle (hs : Sim c p) (hpc : (c.loc t).pc = .idle)
    (h : tstep c.sh t (c.loc t) ch = some (s', l', e)) : Simulated c p t s' l' e := by
  simp only [tstep, hpc] at h
  have hi := hs.thr t
  have hown : ∀ g ∈ (c.loc t).held, owns (c.sh.mu g.rid) t g.mode := by
    have := hi.own; simpa [holdsOf, hpc] using this
  split at h
  · cases h
  all_goals first
    | (split at h <;> cases h)
    | cases h
  all_goals
    refine ⟨p, rfl, hs.silent t _ _ rfl rfl rfl rfl (by simp [absTx, hpc, holdsOf, waitingOf, committingOf])
      ⟨by simpa [holdsOf] using hown, by simp [extra], by simp [Facts], hi.val⟩⟩

end Cases

end NodisVerif.Proofs.TxProg
