import NodisVerif.Model.BlockProgHook
import NodisVerif.Proofs.BlockProgCor
import NodisVerif.Proofs.BlockInv
/-
  The hook-call order of the blocking-pop program is a run of `Block.stepLoose`.
  Relation between the protocol state `bs` after the events in operation order and the protocol state `hb` after the
  events in hook order (`ORel`): same keys / reg / timed; same phase unless the thread has received and not yet reported
  (`hb`: blocked, `bs`: scan 0); woken differs by that report; notified differs by the notifies reported and not yet sent.
-/
namespace NodisVerif.Proofs.BlockProg
open NodisVerif.Block NodisVerif.BlockProg NodisVerif.Proofs.Block

/-- the notifies reported for channel c whose send is still to come -/
def pend (tk : List (Tid × Tid)) (c : Tid) : Nat := (tk.filter (fun x => x.2 == c)).length

theorem pend_cons (tk : List (Tid × Tid)) (p c c' : Tid) :
    pend ((p, c) :: tk) c' = pend tk c' + (if c = c' then 1 else 0) := by
  by_cases h : c = c' <;> simp [pend, List.filter_cons, h]

theorem pend_erase_self {tk : List (Tid × Tid)} {p c : Tid} (h : (p, c) ∈ tk) :
    pend (tk.erase (p, c)) c + 1 = pend tk c := by
  induction tk with
  | nil => simp at h
  | cons x tk ih =>
    by_cases hx : x = (p, c)
    · subst hx; simp [pend_cons]
    · have hm : (p, c) ∈ tk := by
        rcases List.mem_cons.1 h with h | h
        · exact absurd h.symm hx
        · exact h
      rw [List.erase_cons_tail (by simpa using hx)]
      obtain ⟨x1, x2⟩ := x
      rw [pend_cons, pend_cons, ← ih hm]; omega

theorem pend_erase_ne {tk : List (Tid × Tid)} {p c c' : Tid} (hne : c ≠ c') :
    pend (tk.erase (p, c)) c' = pend tk c' := by
  induction tk with
  | nil => simp
  | cons x tk ih =>
    by_cases hx : x = (p, c)
    · subst hx; simp [pend_cons, hne]
    · rw [List.erase_cons_tail (by simpa using hx)]
      obtain ⟨x1, x2⟩ := x
      rw [pend_cons, pend_cons, ih]

theorem pend_zero_of_not_mem {tk : List (Tid × Tid)} {c : Tid} (h : ∀ p, (p, c) ∉ tk) : pend tk c = 0 := by
  simp only [pend, List.length_eq_zero_iff, List.filter_eq_nil_iff]
  intro x hx hc
  obtain ⟨x1, x2⟩ := x
  simp only [beq_iff_eq] at hc
  subst hc
  exact h x1 hx

/-- hook-order state `oa` against operation-order state `ob` of one waiter; `u` = received, not yet reported;
    `n` = notifies reported, not yet sent -/
def ORel (u : Bool) (n : Nat) : Option WSt → Option WSt → Prop
  | none, none => n = 0 ∧ u = false
  | some b, some a => a.keys = b.keys ∧ a.reg = b.reg ∧ a.timed = b.timed ∧
      (if u then a.phase = .blocked ∧ b.phase = .scan 0 else a.phase = b.phase) ∧
      a.woken + (if u then 1 else 0) = b.woken ∧ b.notified + n = a.notified
  | _, _ => False

/-- an action of the waiter itself other than `wake` is enabled in the hook-order state whenever it is in the
    operation-order state, and keeps the relation -/
theorem lstep_agree {n : Nat} {ob oa ob' : Option WSt} {ev : Ev} (hR : ORel false n ob oa)
    (hl : lstep ob ev = some ob') (hn : ∀ c k, ev ≠ .notify c k) (hw : ∀ w, ev ≠ .wake w)
    (hfin : ∀ w, ev = .fin w → n = 0) : ∃ oa', lstep oa ev = some oa' ∧ ORel false n ob' oa' := by
  cases ob with
  | none =>
    cases oa with
    | some a => simp [ORel] at hR
    | none =>
      cases ev with
      | reg w k =>
        obtain ⟨hp, rfl⟩ := lstep_reg.1 hl
        refine ⟨_, lstep_reg.2 ⟨hp, rfl⟩, ?_⟩
        simp only [ORel] at hR
        simp [ORel, hR.1]
      | _ => simp [lstep] at hl
  | some b =>
    cases oa with
    | none => simp [ORel] at hR
    | some a =>
      simp only [ORel, Bool.false_eq_true, if_false, Nat.add_zero] at hR
      obtain ⟨h1, h2, h3, h4, h5, h6⟩ := hR
      cases ev with
      | reg w k =>
        obtain ⟨hp, rfl⟩ := lstep_reg.1 hl
        simp only [Option.getD_some] at hp ⊢
        exact ⟨_, lstep_reg.2 ⟨by simpa [h4] using hp, rfl⟩, by simp [ORel, h1, h2, h3, h4, h5, h6]⟩
      | try_ w k got =>
        obtain ⟨st, i, hst, hpos, hkey, rfl⟩ := lstep_try.1 hl
        cases hst
        refine ⟨_, lstep_try.2 ⟨a, i, rfl, by rw [h4]; exact hpos, by rw [h1]; exact hkey, rfl⟩, ?_⟩
        cases got <;> simp [ORel, h1, h2, h3, h5, h6]
      | block w tm =>
        obtain ⟨st, hst, hp, rfl⟩ := lstep_block.1 hl
        cases hst
        exact ⟨_, lstep_block.2 ⟨a, rfl, by rw [h4, h1]; exact hp, rfl⟩, by simp [ORel, h1, h2, h5, h6]⟩
      | wake w => exact absurd rfl (hw w)
      | timeout w =>
        obtain ⟨st, hst, hp, ht, rfl⟩ := lstep_timeout.1 hl
        cases hst
        exact ⟨_, lstep_timeout.2 ⟨a, rfl, by rw [h4]; exact hp, by rw [h3]; exact ht, rfl⟩,
          by simp [ORel, h1, h2, h3, h5, h6]⟩
      | notify w k => exact absurd rfl (hn w k)
      | abort w =>
        obtain ⟨st, hst, hp, rfl⟩ := lstep_abort.1 hl
        cases hst
        exact ⟨_, lstep_abort.2 ⟨a, rfl, by rw [h4]; exact hp, rfl⟩, by simp [ORel, h1, h2, h3, h5, h6]⟩
      | unreg w k =>
        obtain ⟨st, hst, hp, rfl⟩ := lstep_unreg.1 hl
        cases hst
        exact ⟨_, lstep_unreg.2 ⟨a, rfl, by rw [h4]; exact hp, rfl⟩, by simp [ORel, h1, h2, h3, h4, h5, h6]⟩
      | fin w =>
        obtain ⟨st, hst, hp, rfl⟩ := lstep_fin.1 hl
        cases hst
        exact ⟨_, lstep_fin.2 ⟨a, rfl, by rw [h2]; exact hp, rfl⟩, by simp [ORel, hfin w rfl]⟩


/-! ## the two runs -/

theorem runAllLoose_snoc (s : BState) (es : List Ev) (e : Ev) :
    runAllLoose s (es ++ [e]) = (runAllLoose s es).bind (fun s' => stepLoose s' e) := by
  induction es generalizing s with
  | nil => simp [runAllLoose]
  | cons x xs ih =>
    simp only [List.cons_append, runAllLoose]
    cases stepLoose s x <;> simp [ih]

theorem stepLoose_of_not_wake {hb : BState} {ev : Ev} (hw : ∀ w, ev ≠ .wake w) : stepLoose hb ev = step hb ev := by
  cases ev <;> first | rfl | exact absurd rfl (hw _)

/-- the operation-order sequence of a hook-level run is the sequence of a run of the program model -/
theorem hreach_reach {h : HSys} {hs es : List Ev} (hr : HReach h hs es) : Reach h.σ es := by
  induction hr with
  | init => exact Reach.init
  | hookNotify _ _ _ _ ih => exact ih
  | send _ _ hstep ih => simpa using Reach.step ih hstep
  | recv _ _ hstep ih => simpa using Reach.step ih hstep
  | hookWake _ _ ih => exact ih
  | other _ _ hstep _ _ ih => exact Reach.step ih hstep

theorem step_inv {σ σ' : Sys} {t : Tid} {ch : Choice} {e : Option Ev} (h : σ.step t ch = some (σ', e)) :
    ∃ s' l', tstep σ.sh t (σ.thr t) ch = some (s', l', e) ∧ σ' = ⟨s', upd σ.thr t l'⟩ := by
  unfold Sys.step at h
  cases hs : tstep σ.sh t (σ.thr t) ch with
  | none => simp [hs] at h
  | some r =>
    obtain ⟨s', l', e'⟩ := r
    simp only [hs, Option.some.injEq, Prod.mk.injEq] at h
    obtain ⟨rfl, rfl⟩ := h
    exact ⟨s', l', rfl, rfl⟩

variable {s s' : Shared} {t : Tid} {l l' : Loc} {ch : Choice} {e : Option Ev}

/-- every event but `notify` is about the thread that emits it -/
theorem own_event {ev : Ev} (h : tstep s t l ch = some (s', l', some ev)) :
    (∃ c k, ev = .notify c k) ∨ evW ev = t := by
  unfold tstep at h
  cases hpc : l.pc <;> simp only [hpc] at h
  all_goals (repeat' split at h)
  all_goals (try simp only [Option.some.injEq, Prod.mk.injEq, reduceCtorEq, and_false] at h)
  all_goals (try (obtain ⟨_, _, rfl⟩ := h))
  all_goals (first | (right; rfl) | (left; exact ⟨_, _, rfl⟩))

theorem fin_origin {w : W} (h : tstep s t l ch = some (s', l', some (.fin w))) : l.pc = .u3 := by
  unfold tstep at h
  cases hpc : l.pc <;> simp only [hpc] at h
  all_goals (repeat' split at h)
  all_goals (try simp only [Option.some.injEq, Prod.mk.injEq, reduceCtorEq, and_false] at h)
  rfl

/-- a push at a non-empty rest of its ForRange can only send to its head -/
theorem p4_cons_emits {c : Tid} {rest : List Tid} (hpc : l.pc = .p4) (htd : l.todo = c :: rest)
    (h : tstep s t l ch = some (s', l', e)) : e = some (.notify c l.key) := by
  simp only [tstep, hpc, htd, Option.some.injEq, Prod.mk.injEq] at h
  exact h.2.2.symm

/-- a reported, unsent notify belongs to a push that is at that channel in its ForRange -/
def TK (h : HSys) : Prop :=
  ∀ p c, (p, c) ∈ h.tickets → (h.σ.thr p).pc = .p4 ∧ ∃ rest, (h.σ.thr p).todo = c :: rest

structure HInv (h : HSys) (hs es : List Ev) : Prop where
  ex : ∃ bs hb, runAll [] es = some bs ∧ runAllLoose [] hs = some hb ∧
    ∀ c, ORel (h.unrep c) (pend h.tickets c) (get bs c) (get hb c)
  tk : TK h
  nd : (h.tickets.map Prod.fst).Nodup

theorem nodup_of_map_fst {tk : List (Tid × Tid)} (nd : (tk.map Prod.fst).Nodup) : tk.Nodup := by
  induction tk with
  | nil => simp
  | cons x tk ih =>
    simp only [List.map_cons, List.nodup_cons] at nd ⊢
    exact ⟨fun hm => nd.1 (List.mem_map.2 ⟨x, hm, rfl⟩), ih nd.2⟩

theorem fst_inj {tk : List (Tid × Tid)} (nd : (tk.map Prod.fst).Nodup) {p c1 c2 : Tid} (h1 : (p, c1) ∈ tk)
    (h2 : (p, c2) ∈ tk) : c1 = c2 := by
  induction tk with
  | nil => simp at h1
  | cons x tk ih =>
    simp only [List.map_cons, List.nodup_cons, List.mem_map, not_exists, not_and] at nd
    rcases List.mem_cons.1 h1 with h1 | h1 <;> rcases List.mem_cons.1 h2 with h2 | h2
    · rw [← h1] at h2; exact (Prod.mk.inj h2).2.symm
    · exact absurd (by rw [← h1]) (nd.1 _ h2)
    · exact absurd (by rw [← h2]) (nd.1 _ h1)
    · exact ih nd.2 h1 h2

/-- a thread's step leaves the tickets of the other pushes valid; its own would force it to emit `notify` -/
theorem tk_step {h : HSys} {tk' : List (Tid × Tid)} {un : Tid → Bool} (htk : TK h)
    (hsub : ∀ x, x ∈ tk' → x ∈ h.tickets) (hts : tstep h.σ.sh t (h.σ.thr t) ch = some (s', l', e))
    (hown : ∀ c, (t, c) ∈ tk' → ∀ c' k, e ≠ some (.notify c' k)) :
    TK { σ := ⟨s', upd h.σ.thr t l'⟩, tickets := tk', unrep := un } := by
  intro p c hm
  by_cases hp : p = t
  · subst hp
    exfalso
    obtain ⟨hpc, rest, htd⟩ := htk p c (hsub _ hm)
    have := p4_cons_emits hpc htd hts
    exact hown c hm _ _ this
  · simpa [upd_ne _ _ hp] using htk p c (hsub _ hm)


theorem same_bs {es : List Ev} {bs bs0 : BState} (h1 : runAll [] es = some bs) (h2 : runAll [] es = some bs0) :
    bs0 = bs := by rw [h1] at h2; exact (Option.some.inj h2).symm

theorem hinv_hookNotify {h : HSys} {hs es : List Ev} {p c : Tid} {rest : List Tid} (hprev : HReach h hs es)
    (ih : HInv h hs es) (hpc : (h.σ.thr p).pc = .p4) (htd : (h.σ.thr p).todo = c :: rest)
    (hfresh : ∀ c', (p, c') ∉ h.tickets) :
    HInv { h with tickets := (p, c) :: h.tickets } (hs ++ [.notify c (h.σ.thr p).key]) es := by
  obtain ⟨⟨bs, hb, hr, hl, hO⟩, tk, nd⟩ := ih
  obtain ⟨bs0, hr0, hI, _⟩ := reach_sim (hreach_reach hprev)
  cases same_bs hr hr0
  obtain ⟨b, hgb, hk, _⟩ := registered_of_mem hI ((hI.lrel p).2.2 (by simp [hpc, holdsR]))
    (hI.todo p hpc c (by simp [htd]))
  have hOc := hO c
  rw [hgb] at hOc
  cases hga : get hb c with
  | none => simp [ORel, hga] at hOc
  | some a =>
    simp only [hga, ORel] at hOc
    obtain ⟨h1, h2, h3, h4, h5, h6⟩ := hOc
    have hls := (lstep_notify (o := get hb c) (w := c) (k := (h.σ.thr p).key)).2 ⟨a, hga, by rw [h2]; exact hk, rfl⟩
    have hstep := own_step (ev := .notify c (h.σ.thr p).key) hls
    simp only [evW] at hstep
    refine ⟨⟨bs, _, hr, by rw [runAllLoose_snoc, hl]; exact hstep, fun c' => ?_⟩, ?_, ?_⟩
    · by_cases hc : c' = c
      · subst hc
        rw [get_put_self, hgb, pend_cons]
        simp only [ORel, if_true]
        exact ⟨h1, h2, h3, h4, h5, by omega⟩
      · rw [get_put_ne _ _ _ _ hc, pend_cons]
        simp only [if_neg (Ne.symm hc), Nat.add_zero]
        exact hO c'
    · intro p' c' hm
      rcases List.mem_cons.1 hm with hm | hm
      · cases hm; exact ⟨hpc, rest, htd⟩
      · exact tk p' c' hm
    · simp only [List.map_cons, List.nodup_cons]
      refine ⟨fun hm => ?_, nd⟩
      obtain ⟨x, hx, hxe⟩ := List.mem_map.1 hm
      obtain ⟨x1, x2⟩ := x
      simp only at hxe; subst hxe
      exact hfresh _ hx

theorem hinv_send {h : HSys} {hs es : List Ev} {p c : Tid} {k : Key} {ch : Choice} {σ' : Sys}
    (hprev : HReach h hs es) (ih : HInv h hs es) (hmem : (p, c) ∈ h.tickets)
    (hstep : h.σ.step p ch = some (σ', some (.notify c k))) :
    HInv { h with σ := σ', tickets := h.tickets.erase (p, c) } hs (es ++ [.notify c k]) := by
  obtain ⟨⟨bs, hb, hr, hl, hO⟩, tk, nd⟩ := ih
  obtain ⟨bs0, hr0, hI, hF⟩ := reach_sim (hreach_reach hprev)
  cases same_bs hr hr0
  obtain ⟨bs', h1, _, _⟩ := step_sim hI hF hstep
  simp only [stepO] at h1
  obtain ⟨s', l', hts, rfl⟩ := step_inv hstep
  obtain ⟨b, hgb, _, hres⟩ := lstep_notify.1 (step_local h1)
  simp only [evW] at hgb hres
  have hnd : h.tickets.Nodup := nodup_of_map_fst nd
  refine ⟨⟨bs', hb, by rw [runAll_snoc, hr]; exact h1, hl, fun c' => ?_⟩, ?_, ?_⟩
  · by_cases hc : c' = c
    · subst hc
      have hp := pend_erase_self hmem
      have hOc := hO c'
      rw [hgb] at hOc
      rw [hres]
      cases hga : get hb c' with
      | none => simp [ORel, hga] at hOc
      | some a =>
        simp only [hga, ORel] at hOc ⊢
        obtain ⟨e1, e2, e3, e4, e5, e6⟩ := hOc
        exact ⟨e1, e2, e3, e4, e5, by omega⟩
    · have : get bs' c' = get bs c' := step_frame h1 (by simpa [evW] using hc)
      rw [this, pend_erase_ne (Ne.symm hc)]
      exact hO c'
  · refine tk_step tk (fun x hx => List.mem_of_mem_erase hx) hts (fun c' hm => ?_)
    exfalso
    have hm' := List.mem_of_mem_erase hm
    have : c' = c := fst_inj nd hm' hmem
    subst this
    exact ((List.Nodup.mem_erase_iff hnd).1 hm).1 rfl
  · exact List.Nodup.sublist ((List.erase_sublist).map _) nd

theorem hinv_recv {h : HSys} {hs es : List Ev} {t : Tid} {ch : Choice} {σ' : Sys}
    (hprev : HReach h hs es) (ih : HInv h hs es) (hun : h.unrep t = false)
    (hstep : h.σ.step t ch = some (σ', some (.wake t))) :
    HInv { h with σ := σ', unrep := upd h.unrep t true } hs (es ++ [.wake t]) := by
  obtain ⟨⟨bs, hb, hr, hl, hO⟩, tk, nd⟩ := ih
  obtain ⟨bs0, hr0, hI, hF⟩ := reach_sim (hreach_reach hprev)
  cases same_bs hr hr0
  obtain ⟨bs', h1, _, _⟩ := step_sim hI hF hstep
  simp only [stepO] at h1
  obtain ⟨s', l', hts, rfl⟩ := step_inv hstep
  obtain ⟨b, hgb, hph, _, hres⟩ := lstep_wake.1 (step_local h1)
  simp only [evW] at hgb hres
  refine ⟨⟨bs', hb, by rw [runAll_snoc, hr]; exact h1, hl, fun c' => ?_⟩, ?_, nd⟩
  · by_cases hc : c' = t
    · subst hc
      have hOc := hO c'
      rw [hgb, hun] at hOc
      rw [hres]
      simp only [upd_self]
      cases hga : get hb c' with
      | none => simp [ORel, hga] at hOc
      | some a =>
        simp only [hga, ORel, Bool.false_eq_true, if_false, Nat.add_zero] at hOc
        obtain ⟨e1, e2, e3, e4, e5, e6⟩ := hOc
        simp only [ORel, if_true]
        exact ⟨e1, e2, e3, ⟨by rw [e4]; exact hph, trivial⟩, by omega, e6⟩
    · have : get bs' c' = get bs c' := step_frame h1 (by simpa [evW] using hc)
      rw [this]
      simp only [upd_ne _ _ hc]
      exact hO c'
  · refine tk_step tk (fun x hx => hx) hts (fun c' hm => ?_)
    exfalso
    have := (tk t c' hm).1
    have hw := (wake_origin hts).2.1
    rw [hw] at this; cases this

theorem hinv_hookWake {h : HSys} {hs es : List Ev} {t : Tid} (ih : HInv h hs es) (hun : h.unrep t = true) :
    HInv { h with unrep := upd h.unrep t false } (hs ++ [.wake t]) es := by
  obtain ⟨⟨bs, hb, hr, hl, hO⟩, tk, nd⟩ := ih
  have hOt := hO t
  rw [hun] at hOt
  cases hgb : get bs t with
  | none => cases hga : get hb t <;> simp [ORel, hgb, hga] at hOt
  | some b =>
    cases hga : get hb t with
    | none => simp [ORel, hgb, hga] at hOt
    | some a =>
      simp only [hgb, hga, ORel, if_true] at hOt
      obtain ⟨e1, e2, e3, ⟨e4a, e4b⟩, e5, e6⟩ := hOt
      have hreach : Reachable bs := ⟨es, hr⟩
      have htok : b.woken ≤ b.notified := (hreach.winv hgb).tok_le
      have hlt : a.woken < a.notified := by omega
      have hsl : stepLoose hb (.wake t) =
          some (Block.set hb t { a with phase := .scan 0, buf := false, woken := a.woken + 1 }) := by
        simp [stepLoose, hga, e4a, hlt]
      refine ⟨⟨bs, _, hr, by rw [runAllLoose_snoc, hl]; exact hsl, fun c' => ?_⟩, tk, nd⟩
      by_cases hc : c' = t
      · subst hc
        rw [get_set_self, hgb]
        simp only [upd_self, ORel, Bool.false_eq_true, if_false, Nat.add_zero]
        exact ⟨e1, e2, e3, e4b.symm, by omega, e6⟩
      · rw [get_set_ne _ _ _ _ hc]
        simp only [upd_ne _ _ hc]
        exact hO c'

theorem hinv_other {h : HSys} {hs es : List Ev} {t : Tid} {ch : Choice} {σ' : Sys} {e : Option Ev}
    (hprev : HReach h hs es) (ih : HInv h hs es) (hun : h.unrep t = false)
    (hstep : h.σ.step t ch = some (σ', e)) (hnn : ∀ c k, e ≠ some (.notify c k)) (hnw : ∀ w, e ≠ some (.wake w)) :
    HInv { h with σ := σ' } (hs ++ e.toList) (es ++ e.toList) := by
  obtain ⟨⟨bs, hb, hr, hl, hO⟩, tk, nd⟩ := ih
  obtain ⟨bs0, hr0, hI, hF⟩ := reach_sim (hreach_reach hprev)
  cases same_bs hr hr0
  obtain ⟨bs', h1, _, _⟩ := step_sim hI hF hstep
  obtain ⟨s', l', hts, rfl⟩ := step_inv hstep
  have htk : TK { h with σ := ⟨s', upd h.σ.thr t l'⟩ } :=
    tk_step tk (fun x hx => hx) hts (fun c' _ => hnn)
  cases e with
  | none =>
    simp only [stepO, Option.some.injEq] at h1
    subst h1
    exact ⟨⟨bs, hb, by simpa using hr, by simpa using hl, hO⟩, htk, nd⟩
  | some ev =>
    simp only [stepO] at h1
    have hev : evW ev = t := by
      rcases own_event hts with ⟨c, k, rfl⟩ | h
      · exact absurd rfl (hnn c k)
      · exact h
    have hn' : ∀ c k, ev ≠ .notify c k := fun c k he => hnn c k (by rw [he])
    have hw' : ∀ w, ev ≠ .wake w := fun w he => hnw w (by rw [he])
    have hlb := step_local h1
    rw [hev] at hlb
    have hfin : ∀ w, ev = .fin w → pend h.tickets t = 0 := by
      intro w he
      subst he
      refine pend_zero_of_not_mem fun p hm => ?_
      have hp4 := (tk p t hm).1
      have hrd := (hI.lrel p).2.2 (by simp [hp4, holdsR])
      have hu3 := fin_origin hts
      have hwr := (hI.lrel t).1.2 (by simp [hu3, holdsW])
      have := hI.excl (by simp [hwr])
      simp [this] at hrd
    have hOt := hO t
    rw [hun] at hOt
    obtain ⟨oa', hla, hO'⟩ := lstep_agree hOt hlb hn' hw' hfin
    have hsa : step hb ev = some (put hb t oa') := by
      have := own_step (bs := hb) (ev := ev) (o' := oa') (by rw [hev]; exact hla)
      rw [hev] at this; exact this
    refine ⟨⟨bs', put hb t oa', by simp only [Option.toList_some]; rw [runAll_snoc, hr]; exact h1,
      by simp only [Option.toList_some]; rw [runAllLoose_snoc, hl]; simp only [Option.bind_some]
         rw [stepLoose_of_not_wake hw']; exact hsa, fun c' => ?_⟩, htk, nd⟩
    by_cases hc : c' = t
    · subst hc
      rw [get_put_self, hun]
      exact hO'
    · rw [get_put_ne _ _ _ _ hc, step_frame h1 (by rw [hev]; exact hc)]
      exact hO c'

/-- THE HOOK-ORDER THEOREM: the invariant holds along every hook-level run -/
theorem hreach_inv {h : HSys} {hs es : List Ev} (hr : HReach h hs es) : HInv h hs es := by
  induction hr with
  | init => exact ⟨⟨[], [], rfl, rfl, fun c => by simp [ORel, get_nil, pend]⟩, fun p c hm => by simp at hm, by simp⟩
  | hookNotify hprev hpc htd hfresh ih => exact hinv_hookNotify hprev ih hpc htd hfresh
  | send hprev hmem hstep ih => exact hinv_send hprev ih hmem hstep
  | recv hprev hun hstep ih => exact hinv_recv hprev ih hun hstep
  | hookWake _ hun ih => exact hinv_hookWake ih hun
  | other hprev hun hstep hnn hnw ih => exact hinv_other hprev ih hun hstep hnn hnw


/-- the hook-level semantics is at least as rich as the program model: every run of the program model is a hook-level
    run in which each of the two hooks is called right next to its channel operation (then both orders coincide) -/
theorem reach_lifts {σ : Sys} {es : List Ev} (h : Reach σ es) : HReach ⟨σ, [], fun _ => false⟩ es es := by
  induction h with
  | init => exact HReach.init
  | @step σ σ' es t ch e _ hs ih =>
    obtain ⟨s', l', hts, rfl⟩ := step_inv hs
    by_cases hn : ∃ c k, e = some (.notify c k)
    · obtain ⟨c, k, rfl⟩ := hn
      obtain ⟨hpc, hk, htd, _⟩ := notify_origin hts
      have h1 := HReach.hookNotify (p := t) (c := c) ih hpc htd (by simp)
      have h2 := HReach.send (p := t) (c := c) (k := k) (ch := ch) h1 (by simp) hs
      simpa [hk] using h2
    · by_cases hw : ∃ w, e = some (.wake w)
      · obtain ⟨w, rfl⟩ := hw
        obtain ⟨rfl, _⟩ := wake_origin hts
        have h1 := HReach.recv (t := w) (ch := ch) ih rfl hs
        have h2 := HReach.hookWake (t := w) h1 (by simp)
        have hu : upd (upd (fun _ : Tid => false) w true) w false = fun _ => false := by
          funext x; by_cases hx : x = w <;> simp [upd, hx]
        simpa [hu] using h2
      · exact HReach.other ih rfl hs (fun c k he => hn ⟨c, k, he⟩) (fun w he => hw ⟨w, he⟩)


/-! ## the executable hook-level schedule is sound for `HReach` -/

theorem hstep_sound {h h' : HSys} {hs es : List Ev} {a : HAct} {e1 e2 : Option Ev} (hr : HReach h hs es)
    (hst : hstep h a = some (h', e1, e2)) : HReach h' (hs ++ e1.toList) (es ++ e2.toList) := by
  cases a with
  | hookNotify p =>
    simp only [hstep] at hst
    split at hst
    · rename_i c rest htd
      split at hst
      · rename_i hc
        simp only [Option.some.injEq, Prod.mk.injEq] at hst
        obtain ⟨rfl, rfl, rfl⟩ := hst
        have hfresh : ∀ c', (p, c') ∉ h.tickets := by
          intro c' hm
          have := List.all_eq_true.1 hc.2 _ hm
          simp at this
        simpa using HReach.hookNotify hr hc.1 htd hfresh
      · simp at hst
    · simp at hst
  | send p =>
    simp only [hstep] at hst
    split at hst
    · rename_i σ' c k hstep'
      split at hst
      · rename_i hm
        simp only [Option.some.injEq, Prod.mk.injEq] at hst
        obtain ⟨rfl, rfl, rfl⟩ := hst
        simpa using HReach.send hr hm hstep'
      · simp at hst
    · simp at hst
  | recv t =>
    simp only [hstep] at hst
    split at hst
    · rename_i σ' w hstep'
      split at hst
      · rename_i hc
        obtain ⟨rfl, hun⟩ := hc
        simp only [Option.some.injEq, Prod.mk.injEq] at hst
        obtain ⟨rfl, rfl, rfl⟩ := hst
        simpa using HReach.recv hr hun hstep'
      · simp at hst
    · simp at hst
  | hookWake t =>
    simp only [hstep] at hst
    split at hst
    · rename_i hun
      simp only [Option.some.injEq, Prod.mk.injEq] at hst
      obtain ⟨rfl, rfl, rfl⟩ := hst
      simpa using HReach.hookWake hr hun
    · simp at hst
  | other t ch =>
    simp only [hstep] at hst
    split at hst
    · simp at hst
    · rename_i hun
      split at hst
      · rename_i σ' e hstep'
        split at hst
        · simp at hst
        · rename_i hne
          simp only [Option.some.injEq, Prod.mk.injEq] at hst
          obtain ⟨rfl, rfl, rfl⟩ := hst
          simp only [Bool.or_eq_true, not_or, Bool.not_eq_true] at hne
          refine HReach.other hr (by simpa using hun) hstep' (fun c k he => ?_) (fun w he => ?_)
          · subst he; simp [isNotify] at hne
          · subst he; simp [isWake] at hne
      · simp at hst

theorem hexec_sound {h0 : HSys} {hs0 es0 : List Ev} (h0r : HReach h0 hs0 es0) {acts : List HAct} {h : HSys}
    {hs es : List Ev} (hx : hexec h0 acts = some (h, hs, es)) : HReach h (hs0 ++ hs) (es0 ++ es) := by
  induction acts generalizing h0 hs0 es0 hs es with
  | nil => simp only [hexec, Option.some.injEq, Prod.mk.injEq] at hx; obtain ⟨rfl, rfl, rfl⟩ := hx; simpa using h0r
  | cons a rest ih =>
    simp only [hexec] at hx
    cases hs1 : hstep h0 a with
    | none => simp [hs1] at hx
    | some r =>
      obtain ⟨h1, e1, e2⟩ := r
      simp only [hs1] at hx
      cases hr2 : hexec h1 rest with
      | none => simp [hr2] at hx
      | some r2 =>
        obtain ⟨h2, hs2, es2⟩ := r2
        simp only [hr2, Option.some.injEq, Prod.mk.injEq] at hx
        obtain ⟨rfl, rfl, rfl⟩ := hx
        have := ih (hstep_sound h0r hs1) hr2
        simpa [List.append_assoc] using this

end NodisVerif.Proofs.BlockProg
