import NodisVerif.Proofs.C11Reopen
/-
  C11 / C12: the pass-level statements in terms of the logical keyspace.
-/
namespace NodisVerif.Proofs.C11
open NodisVerif.Store NodisVerif.Codec NodisVerif.Spec.Persist
open NodisVerif.Proofs.AListLemmas NodisVerif.Proofs.AListLemmas2 NodisVerif.Proofs.C11AList

/-- a name that shows no key now shows none later -/
theorem lookup_none_mono {s : MState} {now now' : Int} (ht : now ≤ now') {k : Bytes}
    (h : lookup s now k = none) : lookup s now' k = none := by
  simp only [lookup, getMeta] at h ⊢
  cases hm : AList.get? s.index k with
  | none => rfl
  | some m =>
    rw [hm] at h
    simp only [Option.bind_some] at h ⊢
    unfold view at h ⊢
    by_cases hc : (m.isOk && !m.expired now') = true
    · have hc0 : (m.isOk && !m.expired now) = true := by
        simp only [Bool.and_eq_true, Bool.not_eq_true'] at hc ⊢
        exact ⟨hc.1, Meta.alive_anti m ht hc.2⟩
      rw [if_pos hc0] at h
      rw [if_pos hc]
      exact h
    · rw [if_neg hc]

/-- what a name shows is never the nil string on Pebble, if no hot value is -/
theorem nilfree_lookup {s : MState} (hn : NilFree s) {t' : Int} {k : Bytes} {v : Val} {e : Int}
    (hl : lookup s t' k = some (v, e)) (hp : s.pebble = true) : v ≠ .strNil := by
  simp only [lookup, getMeta] at hl
  cases hm : AList.get? s.index k with
  | none => rw [hm] at hl; cases hl
  | some m =>
    rw [hm] at hl
    simp only [Option.bind_some] at hl
    unfold view at hl
    split at hl
    · cases hv : m.value with
      | some v' =>
        rw [hv] at hl
        simp only [Option.some.injEq, Prod.mk.injEq] at hl
        intro e; have := hn k m hm hp; rw [hv, hl.1, e] at this; exact this rfl
      | none =>
        rw [hv] at hl
        simp only [loadValue, diskGet, hp, if_true] at hl
        cases hd : AList.get? s.disk (encodeKey k m.exp) with
        | none => rw [hd] at hl; cases hl
        | some ent =>
          rw [hd] at hl
          simp only [Option.map_eq_some_iff] at hl
          obtain ⟨p, ⟨w, hw, rfl⟩, hp2⟩ := hl
          simp only [Prod.mk.injEq] at hp2
          rw [← hp2.1]
          exact decode_ne_nil hw
    · cases hl

theorem reopen_nilfree {s : MState} {x : Option Bytes} {t : Int} (h : StoreInvX s x t) : NilFree (reopen s) := by
  intro k m hm _
  obtain ⟨_, e, _, _, rfl⟩ := reopen_rec h hm
  intro c; cases c

structure CycleSpec (s s' : MState) (now : Int) : Prop where
  inv : StoreInvX s' none now
  peb : s'.pebble = s.pebble
  look : ∀ t', now ≤ t' → ∀ k, lookup s' t' k = lookup s t' k
  fs0 : s'.failSet = 0
  nil : NilFree s'
  noShadow : ((close s now).disk.foldl reopenStep ([], [])).2 = []

/-- one graceful close followed by an open on the same backend; the nil-string condition at the
    level of what the store shows -/
theorem cycle_spec_l {s : MState} {t now : Int} (h : StoreInvX s none t) (ht : t ≤ now)
    (hf : s.failSet = 0)
    (hnl : s.pebble = true → ∀ k v e, lookup s now k = some (v, e) → v ≠ .strNil) :
    CycleSpec s (reopen (close s now)) now := by
  obtain ⟨sp, fl⟩ := close_spec h ht (now := now)
  have f := reopen_facts sp.inv
  have hn : (close s now).pebble = true → ∀ k m, AList.get? (close s now).index k = some m →
      m.expired now = false → m.value ≠ some .strNil := by
    intro hp k m hm hal hv
    have hl : lookup (close s now) now k = some (.strNil, m.exp) := by
      simp only [lookup, getMeta, hm, Option.bind_some]
      exact view_hot hv (sp.inv.recs k m hm).ok hal
    rw [sp.look now (Int.le_refl _)] at hl
    exact hnl (by rw [← sp.peb]; exact hp) k _ _ hl rfl
  refine ⟨inv_reopen sp.inv, by rw [f.peb, sp.peb], ?_, by rw [f.fs]; exact sp.fs0 hf,
    reopen_nilfree sp.inv, f.noShadow⟩
  intro t' ht' k
  rw [lookup_reopen sp.inv ht' (fl hf) hn, sp.look t' ht']

theorem cycle_spec {s : MState} {t now : Int} (h : StoreInvX s none t) (ht : t ≤ now)
    (hf : s.failSet = 0) (hnil : NilFree s) : CycleSpec s (reopen (close s now)) now :=
  cycle_spec_l h ht hf (fun hp _ _ _ hl => nilfree_lookup hnil hl hp)

theorem cycles_spec {now : Int} : ∀ (n : Nat) {s : MState} {t : Int}, StoreInvX s none t → t ≤ now →
    s.failSet = 0 → NilFree s →
    (∀ t', now ≤ t' → ∀ k, lookup (cycles now n s) t' k = lookup s t' k) ∧
    AList.Sorted (cycles now n s).index := by
  intro n
  induction n with
  | zero => intro s t h _ _ _; exact ⟨fun _ _ _ => rfl, h.idxSorted⟩
  | succ n ih =>
    intro s t h ht hf hnil
    have c := cycle_spec h ht hf hnil
    obtain ⟨a, b⟩ := ih c.inv (Int.le_refl now) c.fs0 c.nil
    refine ⟨fun t' ht' k => ?_, b⟩
    show lookup (cycles now n (reopen (close s now))) t' k = _
    rw [a t' ht', c.look t' ht']

end NodisVerif.Proofs.C11
